"""C12 — GMRF precision is storage-independent, graph-sparse, symmetric PSD, exact (DESIGN.md section 6, C12).

Parties: the real `GMRFVectorModel` / `GMRFModel` built twice (sparse and dense storage) on the same
data; the oracle (the property transcribed with exact rational arithmetic in Python: the expected
precision is the sum over edges / vertices of the exactly inverted sample covariances placed at their
blocks; symmetry, definiteness, sparsity pattern, Mahalanobis identities, mean); the Lean model
(the routines of gmrf.py translated from the source text on every run and proved equal to hand-written definitions,
which are proved equal to the executable model of the block-sparse-row assembly, the dense scatter, the diagonal
constructors and the two Mahalanobis branches; executed on the same inputs as exact rationals).
"""
import json
from fractions import Fraction

from . import common

PROP = "C12"
INFO = dict(
    technique="Lean 4 proof over a model whose routines are TRANSLATED from the source text of menpo/model/gmrf.py on every "
              "run (harness/trans_c12.py with harness/py2lean2.py + py2lean2t.py: for loops with an exit flag, try / except, "
              "slice statements, keyword-normalised calls): _covariance_matrix_inverse, the four _create_*_precision "
              "routines (both values of return_covariances), GMRFVectorModel.__init__, GMRFModel.__init__, "
              "_data_to_matrix, mean, mahalanobis_distance (both classes), _mahalanobis_distance and "
              "principal_components_analysis; 22 regenerated obligations (GenProps/C12Src.lean) prove every translated "
              "definition equal, for all arguments, to the statement-for-statement definitions of Core/C12Src.lean, and "
              "Lemmas/C12Src*.lean prove those equal to the executable model the property theorems are about "
              "(block-sparse-row assembly denotes the sum of the embedded blocks for every triplet list and every "
              "row-sorting permutation; dense scatter equals the same sum on simple graphs and is characterised exactly "
              "(last writer wins) on every digraph; symmetry, graph sparsity, quadratic-form identity hence PSD; "
              "Mahalanobis identities; covariance / inverse contracts; the coded truncated-SVD inverse equals the truncated "
              "pseudo-inverse under numpy's SVD contract (an idealised contract over the rationals: no float output "
              "satisfies it exactly); object level = vector level; PCA of the precision; a bound on the rounding of the "
              "STORED entries in float32 - the rounding of the float32 accumulation itself is covered by the oracle's "
              "tolerance, not by a theorem) + model/implementation correspondence (the driver also executes the translated-equal "
              "definitions) and an exact-rational oracle on random graphs and data",
    level_text="The routines the theorems speak about are the current source text: the translator turns "
               "_covariance_matrix_inverse (np.atleast_2d, the n_components test, the try / bare except around the "
               "truncated-SVD formula), _create_dense_precision / _create_sparse_precision / the two diagonal "
               "constructors (the mode guard, the loops over graph edges / vertices, which columns of X are read, np.cov "
               "with the bias flag, += versus = on diagonal / off-diagonal slices in the coded order, the count-indexed "
               "stores into all_blocks / rows / columns, rows.argsort() and the three re-orderings, the indptr loop with "
               "both branches, bsr_matrix), GMRFVectorModel.__init__ (_data_to_matrix, n_features_per_vertex, the "
               "constructor dispatch on n_edges == 0 and sparse, the partial(mode=...), which keyword gets which "
               "attribute, incremental / return_covariances), GMRFModel.__init__ (as_matrix, n_samples, the call of the "
               "base constructor bound through its LIVE signature, so positional and keyword call sites are the same "
               "thing and a swapped position is a swapped argument), the defaults of both constructors, mean(), both "
               "mahalanobis_distance wrappers, _mahalanobis_distance (mean subtraction, sparse / dense branch, single "
               "sample -> number, square root) and principal_components_analysis into Lean; GenProps/C12Src.lean "
               "re-proves on every run that each equals its hand-written counterpart (case split on flags and modes, "
               "definitional unfolding, tests turned the same way round: renamed temporaries, re-ordered independent "
               "statements and inverted tests keep the proofs, a changed decision breaks them).  Theorems "
               "(coded_precision_correct, coded_diag_precision_correct, coded_constructor_correct, "
               "coded_mahalanobis_correct, vecInit_dense_eq_build, vecInit_sparse_eq, covInverseCoded_none / _some ...): "
               "for all graphs without repeated, antiparallel or self edges, any number of features, both edge modes, "
               "both bias conventions, any inverse routine returning blocks of the edge size and any argsort keeping "
               "numpy's promise, the translated sparse and dense constructors invert the same covariances, the stored "
               "block-sparse-row matrix denotes the dense one = sum over edges (vertices) of the embedded inverted "
               "covariances, x'Px = sum_e x_e' B_e x_e; with the translated _covariance_matrix_inverse and "
               "n_components=None the translated GMRFVectorModel.__init__ is the model's build IN EXACT ARITHMETIC (it "
               "returns exactly when every covariance has an exact inverse - floating-point np.linalg.inv raises only on "
               "an exact zero pivot, and ill-conditioned data are outside the property's quantifier and rejected by the "
               "generator -, also for a single feature thanks to np.atleast_2d; whenever the dense constructor returns so "
               "does the sparse one, with the same entries; symmetric, PSD, graph-sparse precision, sample mean); with n_components the coded slices and products are the model's "
               "svdTrunc, proved equal to the truncated pseudo-inverse sum_{i<n} w_i w_i'/(sigma_i |w_i|^2) of any "
               "orthogonal eigen-decomposition (numpy's SVD contract, symmetric input, separated cut), which the model "
               "evaluates exactly on data with rational eigen-decompositions after verifying the decomposition itself; "
               "it satisfies CB = BC = projector, BCB = B, equals the inverse for full rank, and only lowers Mahalanobis "
               "distances; for every digraph without self loops (antiparallel pairs included) the dense scatter is "
               "proved to hold the edge sum on diagonal blocks and the last writer on off-diagonal blocks; the translated "
               "_mahalanobis_distance returns (x_i - mu)' P (x_i - mu) for either storage, batched or single (a number "
               "for one sample), non-negative for a PSD precision, zero for a row equal to the mean "
               "(coded_mahalanobis_correct).  The translation is VALUE-LEVEL: the obligations do not see object identity, "
               ".copy(), in-place versus rebinding through an alias, or numpy's shape / index errors; `p op= e` on a "
               "parameter is refused as untranslatable, and every dtype= / shape= argument is carried as an opaque word so "
               "that a hard-coded or dropped one no longer proves equal; that a query or a constructor leaves the caller's "
               "objects and the model untouched is NOT part of the property text and is only observed (counted) by the "
               "harness; its consequence - different answers for the same re-used query object - is judged.  Tied to /repo additionally by "
               "building real models on random undirected graphs, trees, antiparallel-free digraphs and edgeless graphs "
               "(2-7 vertices, 1-3 features, modes x biases x dtypes x rank truncation x training data as float64 / "
               "float32 / int64 / int32 arrays, Fortran order, lists, point sets x incremental flag; queries as float64 / "
               "float32 / integer arrays, lists and point sets, ONE query object re-used for every call, every call "
               "digesting the caller's objects and both models) and diffing precision entries, indptr, mean, mean() "
               "point sets and distances against the Lean driver (which runs the translated-equal definitions on half "
               "of the exact cases); digraphs with antiparallel pairs are diffed against the model only; an independent "
               "exact-rational oracle decides the property on the real code.",
    level_note="Trusted: Lean kernel; axioms propext/Classical.choice/Quot.sound; Python harness; driver parser; the "
               "translator (harness/py2lean2.py, py2lean2t.py) and the C12 vocabulary (harness/trans_c12.py + part 1 of "
               "Core/C12Src.lean: what each numpy / scipy expression of gmrf.py denotes on exact rectangular arrays; "
               "numpy's shape and index errors are not modelled). "
               "Contracts (parameters of the translated definitions, checked numerically each run): scipy's bsr_matrix "
               "denotation (toarray / dot sum duplicate blocks, any column order); ndarray.argsort (a permutation that "
               "sorts, ties in any order: ArgsortOK, satisfied by the driver's insertion argsort, theorem argsortIns_ok); "
               "np.linalg.inv returns the inverse (the model inverts exactly and checks C*B=1 itself); np.linalg.svd "
               "(C = U diag(s) Vh, orthogonal factors, s descending: spot-verified on the first unit of every truncated "
               "case, together with the common threshold at the cut); np.cov (0-dimensional for a single column); np.sqrt; "
               "menpo/shape/graph.py (graph.edges, graph.n_vertices, graph.n_edges are read, not translated). "
               "Totalisations of the vocabulary: 1/0 = 0 in np.diag(1 / v) (numpy: inf / NaN without an exception; the "
               "positivity of the kept singular values enters with the hypothesis Cut of svdTrunc_eq_specTrunc and the "
               "generator's guard), int(n_features / n_vertices) as natural-number division (0 vertices: outside), an "
               "out-of-range index reads 0 / writes nothing, a slice assignment does not check the shape of its right-hand "
               "side. The vocabulary maps one numpy call to one word (no rule covers a nested expression except "
               "np.tile(m[..., None], n).T, x.as_vector()[..., None].T and np.array(x)[:n], which are single idioms); "
               "dtype= and shape= are kept as opaque words, verbose is fixed to False. "
               "Float rounding is absorbed by 1e-9 (float64) / 1e-4 (float32 precision or float32 training data) "
               "relative tolerances on inputs whose exact inverses are bounded.",
    rule="a case = one (graph, features per vertex, mode, bias, dtype, n_components, data set, query set) built in both "
         "storages; distinct = distinct (graph kind, V, edge set, k, mode, bias, dtype, n_components, data hash); "
         "non-trivial = at least one edge or at least two vertices with k*V >= 2; digraphs with antiparallel pairs are "
         "outside the property's quantifier and are counted separately (model correspondence only)",
    partial=["rank truncation on generic data: the n_components branch itself (slices, products, the try / except "
             "fallback) is translated and proved equal to the model's svdTrunc, but the eigen-decomposition of a generic "
             "covariance is irrational, so for randomly drawn data with n_components below the block size the model "
             "still receives the blocks from the harness (float eigen-decomposition) and only their placement, symmetry "
             "and definiteness are covered by theorems; exactness of the truncated blocks is a theorem plus an exact "
             "model evaluation on the designed data families with rational eigen-decompositions (Hadamard designs: "
             "every graph kind, both modes, 1-3 features) and for n_components >= block size; elsewhere it is decided "
             "by the oracle; the constructor-level theorem (coded_constructor_correct) is stated for n_components=None, "
             "with n_components the chain is coded_precision_correct (any inverse routine returning blocks of the "
             "edge size) + covInverseCoded_some + svdTrunc_eq_specTrunc + truncChecked_spec",
             "principal_components_analysis: which arguments reach init_from_covariance_matrix is translated "
             "(genVecPca / genObjPca: the precision, is_inverse=True, centred=True, the model's mean and sample count); "
             "the theorem precision_pca is about an exact eigen-decomposition of the precision; the returned "
             "components are checked numerically as eigenpairs of the expected precision (dense storage; the sparse "
             "branch goes through ARPACK and returns one component fewer, observed and counted, not judged); "
             "incremental updates belong to C11 (for return_covariances=True only 'same matrix as the plain call' is "
             "proved: denseCodedRC_eq, sparseCodedRC_eq, ...); PCA is not a clause of the property text: nothing about it "
             "is an oracle failure",
             "the truncation chain (svd_eq_spec_matrix, svdTrunc_eq_specTrunc, ...) is about an exact SVD / eigen-"
             "decomposition over the rationals; the float factors numpy returns satisfy it only approximately (spot-"
             "verified numerically), so for generic data the truncated blocks are decided by the oracle"],
    assumptions=["graph.edges (menpo/shape/graph.py, not translated) lists every edge of the graph exactly once and no self "
                 "loop: hypothesis SimpleEdges of the theorems; a graph with a self loop is accepted by UndirectedGraph "
                 "(triu keeps the diagonal) and makes every GMRF build raise LinAlgError (singular covariance): such graphs "
                 "are outside 'well-conditioned data' and are not generated",
                 "generated data sets have exactly invertible covariances whose inverse entries are bounded by 256 "
                 "(checked on the exact rational inverse before the implementation runs)",
                 "for rank truncation the kept and dropped eigenvalues of every covariance differ by a factor >= 1.5"],
    design_ref="DESIGN.md section 6, C12")
GEN_IMPORT = "MenpoModel.GenProps.C12Src"
GEN_THEOREMS = ["MenpoModel.GenProps.C12Src." + t for t in (
    "genCovInverse_eq genCreateDense_eq genCreateDenseRC_eq genCreateSparse_eq genCreateSparseRC_eq genCreateDenseDiag_eq "
    "genCreateDenseDiagRC_eq genCreateSparseDiag_eq genCreateSparseDiagRC_eq callCtor_eq genDataToMatrix_eq genVecInit_eq "
    "genObjInit_eq genVecDefaults_eq genObjDefaults_eq genVecMean_eq genObjMean_eq genMahalanobisCore_eq "
    "genVecMahalanobis_eq genObjMahalanobis_eq genVecPca_eq genObjPca_eq").split()]
# the regenerated obligations are part of the proof: they are axiom-audited and scanned with the property theorems
IMPORTS = ["MenpoModel.Props.C12", GEN_IMPORT]
THEOREMS = [
    "MenpoModel.C12.bsr_denotes_sum_any_sort",
    "MenpoModel.C12.bsr_denotes_sum",
    "MenpoModel.C12.dense_eq_sum",
    "MenpoModel.C12.sparse_eq_dense",
    "MenpoModel.C12.antiparallel_pair_refutes_sparse_eq_dense",
    "MenpoModel.C12.diag_dense_eq_sum",
    "MenpoModel.C12.diag_sparse_eq_dense",
    "MenpoModel.C12.diag_block_diagonal",
    "MenpoModel.C12.precision_symmetric",
    "MenpoModel.C12.diag_symmetric",
    "MenpoModel.C12.precision_graph_sparse",
    "MenpoModel.C12.precision_quadratic_form",
    "MenpoModel.C12.precision_psd",
    "MenpoModel.C12.diag_quadratic_form",
    "MenpoModel.C12.diag_psd",
    "MenpoModel.C12.mahalSparse_eq_qf",
    "MenpoModel.C12.mahalDense_eq_qf",
    "MenpoModel.C12.mahalanobis_sparse_eq_dense",
    "MenpoModel.C12.mahalanobis_batch_eq_single",
    "MenpoModel.C12.mahalanobis_nonneg",
    "MenpoModel.C12.mahalanobis_zero_at_mean",
    "MenpoModel.C12.gmrf_mean",
    "MenpoModel.C12.cov_symm",
    "MenpoModel.C12.cov_psd",
    "MenpoModel.C12.inv_symm",
    "MenpoModel.C12.inv_psd",
    "MenpoModel.C12.inv_cov_symm_psd",
    "MenpoModel.C12.truncated_inverse_symm_psd",
    "MenpoModel.C12.build_correct",
    # extension: every digraph without self loops
    "MenpoModel.C12.dense_general",
    "MenpoModel.C12.dense_general_symmetric",
    "MenpoModel.C12.sparse_minus_dense_offdiag",
    "MenpoModel.C12.sparse_eq_dense_diag",
    # extension: rank truncation
    "MenpoModel.C12.svd_eq_spec_matrix",
    "MenpoModel.C12.svdTrunc_eq_specTrunc",
    "MenpoModel.C12.svdTrunc_full_rank_isInv",
    "MenpoModel.C12.checkSpec_sound",
    "MenpoModel.C12.specTrunc_identities",
    "MenpoModel.C12.specTrunc_full_isInv",
    "MenpoModel.C12.specTrunc_mono",
    "MenpoModel.C12.truncChecked_spec",
    "MenpoModel.C12.truncChecked_full_rank_eq_inv",
    "MenpoModel.C12.buildTrunc_correct",
    "MenpoModel.C12.precision_qf_mono",
    "MenpoModel.C12.truncated_precision_le",
    # extension: object level, PCA, float32 storage
    "MenpoModel.C12.gmrfModel_mean",
    "MenpoModel.C12.gmrfModel_query_batch_eq_single",
    "MenpoModel.C12.fromVector_asVector",
    "MenpoModel.C12.asVector_fromVector",
    "MenpoModel.C12.precision_pca",
    "MenpoModel.C12.storage_rounding_bound",
    "MenpoModel.C12.storage_rounding_bound_rel",
    # extension (translator tie): the routines as coded (= the translation of the source text, GenProps/C12Src.lean)
    # compute what the model computes; the property for them
    "MenpoModel.C12.Src.flagLoop",
    "MenpoModel.C12.Src.denseWrite_eq_denseStep",
    "MenpoModel.C12.Src.denseCoded_eq",
    "MenpoModel.C12.Src.denseDiagCoded_eq",
    "MenpoModel.C12.Src.sparseWrite_padded",
    "MenpoModel.C12.Src.indptrBody_eq",
    "MenpoModel.C12.Src.sparseCoded_eq",
    "MenpoModel.C12.Src.sparseDiagCoded_eq",
    "MenpoModel.C12.Src.denseCodedRC_eq",
    "MenpoModel.C12.Src.sparseCodedRC_eq",
    "MenpoModel.C12.Src.denseDiagCodedRC_eq",
    "MenpoModel.C12.Src.sparseDiagCodedRC_eq",
    "MenpoModel.C12.Src.edgeCov_eq",
    "MenpoModel.C12.Src.vertexCov_eq",
    "MenpoModel.C12.Src.covInverseCoded_none",
    "MenpoModel.C12.Src.covInverseCoded_some",
    "MenpoModel.C12.Src.vecInit_dense_eq_build",
    "MenpoModel.C12.Src.vecInit_sparse_eq",
    "MenpoModel.C12.Src.coded_bsr_denotes_sum",
    "MenpoModel.C12.Src.argsortIns_ok",
    "MenpoModel.C12.Src.mahalanobisCore_eq",
    "MenpoModel.C12.Src.coded_precision_correct",
    "MenpoModel.C12.Src.coded_diag_precision_correct",
    "MenpoModel.C12.Src.coded_constructor_correct",
    "MenpoModel.C12.Src.coded_mahalanobis_correct",
    "MenpoModel.C12.Src.coded_objInit",
    "MenpoModel.C12.Src.vecInit_list_all",
    "MenpoModel.C12.Src.objVec_eq_asVector",
    "MenpoModel.C12.Src.objInit_eq_vecInit_asMatrix",
    "MenpoModel.C12.Src.vecInit_incremental",
] + GEN_THEOREMS

TOL64 = 1e-9
TOL32 = 1e-4
INV_BOUND = 256          # conditioning bound on the exact inverse entries
GAP = 1.5                # eigenvalue gap factor at the truncation cut


# ------------------------------------------------------------------------------- exact arithmetic (oracle side)

def f_cov(D, bias):
    """np.cov(D, rowvar=0, bias=bias) in exact rationals; D list of rows"""
    n, d = len(D), len(D[0])
    mu = [sum(r[p] for r in D) / n for p in range(d)]
    den = n if bias else n - 1
    return [[sum((r[p] - mu[p]) * (r[q] - mu[q]) for r in D) / den for q in range(d)] for p in range(d)]


def f_inv(C):
    """exact inverse by Gauss-Jordan, None if singular"""
    d = len(C)
    A = [list(C[i]) + [Fraction(int(i == j)) for j in range(d)] for i in range(d)]
    for c in range(d):
        piv = next((r for r in range(c, d) if A[r][c] != 0), None)
        if piv is None:
            return None
        A[c], A[piv] = A[piv], A[c]
        pv = A[c][c]
        A[c] = [x / pv for x in A[c]]
        for r in range(d):
            if r != c and A[r][c] != 0:
                f = A[r][c]
                A[r] = [x - f * y for x, y in zip(A[r], A[c])]
    return [row[d:] for row in A]


def edge_rows(X, k, mode, e):
    u, v = e
    if mode == "concatenation":
        return [r[u * k:(u + 1) * k] + r[v * k:(v + 1) * k] for r in X]
    return [[a - b for a, b in zip(r[u * k:(u + 1) * k], r[v * k:(v + 1) * k])] for r in X]


def trunc_inv(C, r):
    """top-r eigenpairs inverted (what the truncated SVD of a symmetric PSD matrix gives), float64;
    returns (B, ok) with ok False when the cut is not well separated"""
    import numpy as np
    Cf = np.array([[float(x) for x in row] for row in C])
    w, U = np.linalg.eigh(Cf)
    w, U = w[::-1], U[:, ::-1]
    d = len(w)
    r = min(r, d)
    if w[r - 1] < 1e-3 * max(1.0, w[0]):
        return None, False
    if r < d and w[r - 1] < GAP * max(w[r], 0.0):
        return None, False
    B = (U[:, :r] / w[:r]).dot(U[:, :r].T)
    return B, True


# ------------------------------------------------------------------------------- designed data (rational spectra)

def hadamard(N):
    H = [[1]]
    while len(H) < N:
        H = [r + r for r in H] + [r + [-x for x in r] for r in H]
    return H


ORTHO3 = [[[1, 0, 0], [0, 1, 0], [0, 0, 1]], [[1, 2, 2], [2, 1, -2], [2, -2, 1]], [[2, -1, 2], [2, 2, -1], [-1, 2, 2]],
          [[1, 0, 0], [0, 3, -4], [0, 4, 3]], [[2, 3, 6], [3, -6, 2], [6, 2, -3]]]


def ortho_matrix(rng, k):
    """k x k integer matrix with pairwise orthogonal non-zero columns"""
    if k == 1:
        return [[rng.choice([1, 1, 2, -1])]]
    if k == 2:
        a, b = rng.choice([(1, 0), (1, 1), (2, 1), (1, 2), (3, 1), (1, -1), (2, -1)])
        A = [[a, -b], [b, a]]
    else:
        A = [list(r) for r in rng.choice(ORTHO3)]
    perm = list(range(k))
    rng.shuffle(perm)
    sg = [rng.choice([1, -1]) for _ in range(k)]
    return [[A[r][perm[c]] * sg[c] for c in range(k)] for r in range(k)]


def designed_data(rng, V, k):
    """integer data matrix X (N x V*k) whose per-vertex, per-edge-difference and per-edge-concatenation sample
    covariances all have rational eigen-decompositions: X_v = Z_v A' with Z = H R, H centred orthogonal columns of
    a Hadamard matrix, R block diagonal (one V x V circulant per channel), A integer with orthogonal columns.
    Returns (X, A)."""
    n = V * k
    N = 16 if n <= 15 else 32
    H = hadamard(N)
    rows = list(range(N))
    rng.shuffle(rows)
    cols = rng.sample(range(1, N), n)
    sg = [rng.choice([1, -1]) for _ in range(n)]
    Hn = [[H[r][cols[c]] * sg[c] for c in range(n)] for r in rows]          # column (v, i) at index v*k+i
    A = ortho_matrix(rng, k)
    circ = []
    for i in range(k):
        while True:
            c = [rng.randint(-2, 2) for _ in range(V)]
            if any(c):
                break
        c[0] += rng.choice([2, 3, 4]) * (1 if c[0] >= 0 else -1)                 # dominant diagonal: G_i well conditioned
        circ.append(c)
    Z = [[sum(Hn[r][u * k + i] * circ[i][(v - u) % V] for u in range(V)) for v in range(V) for i in range(k)]
         for r in range(N)]
    X = [[sum(Z[r][v * k + i] * A[a][i] for i in range(k)) for v in range(V) for a in range(k)] for r in range(N)]
    return X, A


def candidate_vectors(A, k, mode, has_edges):
    cols = [[A[a][i] for a in range(k)] for i in range(k)]
    if not has_edges or mode == "subtraction":
        return cols
    return [c + c for c in cols] + [c + [-x for x in c] for c in cols]


def exact_spec(C, cands):
    """(sig, W) with W rows the candidates sorted by exact eigenvalue (descending), or None when a candidate is not an
    eigenvector of C / they are not pairwise orthogonal"""
    d = len(C)
    if len(cands) != d:
        return None
    out = []
    for w in cands:
        w = [Fraction(x) for x in w]
        n2 = sum(x * x for x in w)
        if n2 == 0:
            return None
        Cw = [sum(C[p][q] * w[q] for q in range(d)) for p in range(d)]
        sig = sum(a * b for a, b in zip(w, Cw)) / n2
        if any(Cw[p] != sig * w[p] for p in range(d)):
            return None
        out.append((sig, w))
    for i in range(d):
        for j in range(i):
            if sum(a * b for a, b in zip(out[i][1], out[j][1])) != 0:
                return None
    out.sort(key=lambda t: -t[0])
    return [t[0] for t in out], [t[1] for t in out]


def spec_trunc(sig, W, r):
    d = len(W)
    r = min(r, d)
    return [[sum(W[i][p] * W[i][q] / (sig[i] * sum(x * x for x in W[i])) for i in range(r)) for q in range(d)]
            for p in range(d)]


def spec_cut_ok(sig, r):
    d = len(sig)
    r = min(r, d)
    if r == 0 or sig[r - 1] <= 0 or sig[0] > 10 ** 4 * sig[r - 1]:
        return False
    return r == d or sig[r - 1] >= Fraction(3, 2) * sig[r]


# ------------------------------------------------------------------------------- generators

def gen_graph(rng, kind, V):
    """(kind, V, edge list as handed to the constructor, root or None)"""
    pairs = [(i, j) for i in range(V) for j in range(i + 1, V)]
    if kind == "edgeless":
        return []
    if kind == "tree":
        perm = list(range(V))
        rng.shuffle(perm)
        return [(perm[rng.randrange(i)], perm[i]) for i in range(1, V)], perm[0]
    p = rng.choice([0.25, 0.5, 0.8])
    es = [e for e in pairs if rng.random() < p]
    if not es:
        es = [rng.choice(pairs)]
    if kind == "directed":
        es = [(a, b) if rng.random() < 0.5 else (b, a) for a, b in es]
    elif kind == "directed-antiparallel":
        es = [(a, b) if rng.random() < 0.5 else (b, a) for a, b in es]
        both = [e for e in es if rng.random() < 0.5] or [es[0]]
        es = es + [(b, a) for a, b in both]
    else:
        es = [(a, b) if rng.random() < 0.7 else (b, a) for a, b in es]
    rng.shuffle(es)
    return es


def make_graph(kind, V, edges, root):
    import numpy as np
    from menpo.shape import UndirectedGraph, DirectedGraph, Tree
    if kind == "edgeless":
        return UndirectedGraph(np.zeros((V, V), dtype=int))
    if kind == "edgeless-directed":
        return DirectedGraph(np.zeros((V, V), dtype=int))
    if kind == "tree":
        return Tree.init_from_edges(np.array(edges), V, root)
    if kind in ("directed", "directed-antiparallel"):
        return DirectedGraph.init_from_edges(np.array(edges), V)
    return UndirectedGraph.init_from_edges(np.array(edges), V)


def gen_case(rng, force=None):
    """a complete case description (JSON-able), data exact dyadic"""
    force = force or {}
    kind = force.get("kind") or rng.choice(["undirected", "undirected", "tree", "directed", "directed", "edgeless",
                                            "edgeless-directed"])
    designed = bool(force.get("designed"))
    V = force.get("V") or (rng.choice([2, 3, 3, 4, 4, 5]) if designed else rng.choice([2, 3, 3, 4, 4, 5, 5, 6, 7]))
    k = force.get("k") or rng.choice([1, 2, 2, 3])
    root = None
    if "edges" in force:
        edges = [tuple(e) for e in force["edges"]]
        root = force.get("root")
    elif kind.startswith("edgeless"):
        edges = []
    elif kind == "tree":
        edges, root = gen_graph(rng, kind, V)
    else:
        edges = gen_graph(rng, kind, V)
    mode = force.get("mode") or rng.choice(["concatenation", "subtraction"])
    bias = force["bias"] if "bias" in force else rng.choice([0, 1])
    dtype = force.get("dtype") or rng.choice(["float64", "float64", "float32"])
    dim = k if not edges else (2 * k if mode == "concatenation" else k)
    m = rng.choice([1, 2, 3])
    A = None
    if designed:
        nc = force["n_components"] if "n_components" in force else rng.randint(1, dim + 1)
        X, A = designed_data(rng, V, k)
        X = [[Fraction(x) for x in r] for r in X]
        Q = [[Fraction(rng.randint(-12, 12)) for _ in range(V * k)] for _ in range(m)]
    else:
        nc = force["n_components"] if "n_components" in force else (rng.randint(1, dim + 1) if rng.random() < 0.25 else None)
        N = dim + rng.randint(3, 8)
        den = rng.choice([4, 4, 1])                   # den 1: integer data (may be handed over with an integer dtype)
        X = [[Fraction(rng.randint(-24, 24), den) for _ in range(V * k)] for _ in range(N)]
        qden = rng.choice([4, 1])
        Q = [[Fraction(rng.randint(-24, 24), qden) for _ in range(V * k)] for _ in range(m)]
    integral = all(x.denominator == 1 for r in X for x in r)
    # storage of the training data: float64 (C / Fortran order, list of rows), float32 (exact: small dyadic values),
    # int64 / int32 when the data are whole numbers
    layout = force.get("layout") or rng.choice(["array", "array", "list", "fortran", "float32"] +
                                               (["int", "int", "int32"] if integral else []))
    vectorizable = bool(k in (2, 3) and rng.random() < 0.3)
    if vectorizable and layout in ("list", "fortran"):
        layout = "array"                              # PointCloud samples: float64 / float32 / integer points
    q_integral = all(Fraction(x).denominator == 1 for r in Q for x in r)
    qkind = force.get("qkind") or rng.choice(["float64", "float64", "float32", "list"] + (["int", "int", "int32"] if q_integral else []))
    extra = []
    if layout == "list" and rng.random() < 0.5:
        # a longer list handed over with n_samples=len(X): _data_to_matrix keeps the first n_samples rows only
        extra = [[Fraction(rng.randint(-24, 24), 4) for _ in range(V * k)] for _ in range(rng.randint(1, 3))]
    return dict(kind=kind, V=V, k=k, edges=[list(e) for e in edges], root=root, mode=mode, bias=bias, dtype=dtype,
                n_components=nc, X=[[str(x) for x in r] for r in X], Q=[[str(x) for x in r] for r in Q],
                vectorizable=vectorizable, layout=layout, qkind=qkind, incremental=bool(rng.random() < 0.25), designed_A=A,
                X_extra=[[str(x) for x in r] for r in extra])


def case_dim(case):
    return case["k"] if not case["edges"] else (2 * case["k"] if case["mode"] == "concatenation" else case["k"])


def unit_data(case, X, unit):
    if case["edges"]:
        return edge_rows(X, case["k"], case["mode"], tuple(unit))
    k = case["k"]
    return [r[unit * k:(unit + 1) * k] for r in X]


def unit_block(case, X, unit):
    """(how, block, spec) for one edge / vertex: how = 'inv' (exact inverse), 'spec' (exact truncated inverse from a
    verified rational eigen-decomposition, spec = (sig, W)), 'float' (truncated inverse from a float
    eigen-decomposition) or None when the data set is rejected (singular / ill conditioned / no gap)"""
    nc = case["n_components"]
    C = f_cov(unit_data(case, X, unit), case["bias"])
    B = f_inv(C)
    if B is None or max(abs(x) for row in B for x in row) > INV_BOUND:
        return None, None, None
    if nc is None or nc >= len(C) and not case.get("designed_A"):
        return "inv", B, None
    if case.get("designed_A"):
        sp = exact_spec(C, candidate_vectors(case["designed_A"], case["k"], case["mode"], bool(case["edges"])))
        if sp is not None:
            if not spec_cut_ok(sp[0], nc):
                return None, None, None
            return "spec", spec_trunc(sp[0], sp[1], nc), sp
    Bt, ok = trunc_inv(C, nc)
    if not ok:
        return None, None, None
    return "float", Bt, None


def expected_blocks(case):
    """per edge (or per vertex) the inverted covariance: exact Fractions (exact inverse, or exact truncated inverse
    where the eigen-decomposition is rational) or floats (truncated, generic data).
    Returns (units, blocks, exact) or None when the data set is rejected (singular / ill conditioned / no gap)."""
    X = [[Fraction(x) for x in r] for r in case["X"]]
    edges = [tuple(e) for e in case["edges"]]
    units = edges if edges else list(range(case["V"]))
    blocks, hows = [], set()
    for u in units:
        how, B, _ = unit_block(case, X, u)
        if how is None:
            return None
        hows.add(how)
        blocks.append(B)
    if "float" in hows and len(hows) > 1:
        blocks = [[[float(x) for x in r] for r in B] for B in blocks]
    return units, blocks, "float" not in hows


def expected_precision(case, units, blocks):
    """sum over edges / vertices of the blocks placed at their positions (exact Fractions or floats)"""
    k, V, mode = case["k"], case["V"], case["mode"]
    n = V * k
    zero = Fraction(0) if isinstance(blocks[0][0][0], Fraction) else 0.0
    P = [[zero for _ in range(n)] for _ in range(n)]
    for unit, B in zip(units, blocks):
        if not case["edges"] or mode == "concatenation":
            # the block is placed at the feature indices of the vertex / of the two vertices
            vs = [unit] if not case["edges"] else list(unit)
            idx = [v * k + a for v in vs for a in range(k)]
            for p, I in enumerate(idx):
                for q, J in enumerate(idx):
                    P[I][J] = P[I][J] + B[p][q]
        else:
            # (x_u - x_v)' B (x_u - x_v): +B on the two diagonal blocks, -B on the two off-diagonal blocks
            u, v = unit
            for a in range(k):
                for c in range(k):
                    b = B[a][c]
                    P[u * k + a][u * k + c] = P[u * k + a][u * k + c] + b
                    P[v * k + a][v * k + c] = P[v * k + a][v * k + c] + b
                    P[u * k + a][v * k + c] = P[u * k + a][v * k + c] - b
                    P[v * k + a][u * k + c] = P[v * k + a][u * k + c] - b
    return P


def placement_abs(case, units, blocks):
    """(A, C): per entry the sum of |stored block entries| placed there and the number of stored blocks (float arrays);
    the float32 clause of the oracle (theorem storage_rounding_bound_rel) is stated with them"""
    import numpy as np
    k, V = case["k"], case["V"]
    n = V * k
    A, C = np.zeros((n, n)), np.zeros((n, n))
    for unit, B in zip(units, blocks):
        Bf = np.abs(np.array([[float(x) for x in r] for r in B]))
        if not case["edges"]:
            sl = slice(unit * k, (unit + 1) * k)
            A[sl, sl] += Bf
            C[sl, sl] += 1
        elif case["mode"] == "concatenation":
            idx = [v * k + a for v in unit for a in range(k)]
            A[np.ix_(idx, idx)] += Bf
            C[np.ix_(idx, idx)] += 1
        else:
            u, v = unit
            for p, q in ((u, u), (v, v), (u, v), (v, u)):
                A[p * k:(p + 1) * k, q * k:(q + 1) * k] += Bf
                C[p * k:(p + 1) * k, q * k:(q + 1) * k] += 1
    return A, C


# ------------------------------------------------------------------------------- implementation runner

NP_OF_LAYOUT = {"float32": "float32", "int": "int64", "int32": "int32"}


def digest(obj):
    """bytes of everything a caller could see change: ndarray / scipy sparse / list of these / PointCloud"""
    import numpy as np
    import scipy.sparse as sp
    if sp.issparse(obj):
        return b"S" + b"".join(np.ascontiguousarray(getattr(obj, a)).tobytes() for a in ("data", "indices", "indptr")
                               if hasattr(obj, a))
    if isinstance(obj, np.ndarray):
        return str(obj.dtype).encode() + str(obj.shape).encode() + np.ascontiguousarray(obj).tobytes()
    if isinstance(obj, (list, tuple)):
        return b"L" + b"|".join(digest(x) for x in obj)
    if hasattr(obj, "points"):
        return b"P" + digest(obj.points)
    return repr(obj).encode()


def model_digest(model):
    return digest(model.precision) + b"#" + digest(model.mean_vector)


def build_models(case):
    """('ok', (sparse_model, dense_model, graph), info) | ('exc', name, message);
    info['data_modified'] says whether a constructor changed the training data it was handed"""
    import numpy as np
    try:
        g = make_graph(case["kind"], case["V"], case["edges"], case["root"])
    except Exception as e:  # graph construction is not part of C12 (C14 owns it)
        return "graph-exc", type(e).__name__, str(e)[:120]
    try:
        X = np.array([[float(Fraction(x)) for x in r] for r in case["X"]])
        dt = getattr(np, case["dtype"])
        kw = dict(mode=case["mode"], n_components=case["n_components"], dtype=dt, bias=case["bias"])
        if case.get("incremental"):
            kw["incremental"] = True
        layout = case.get("layout", "array")
        Xin = X
        if layout == "list":
            Xin = [row.copy() for row in X] + [np.array([float(Fraction(x)) for x in r]) for r in case.get("X_extra") or []]
            if case.get("X_extra"):
                kw["n_samples"] = len(X)
        elif layout == "fortran":
            Xin = np.asfortranarray(X)
        elif layout in NP_OF_LAYOUT:
            Xin = X.astype(getattr(np, NP_OF_LAYOUT[layout]))
        if case["vectorizable"]:
            from menpo.model import GMRFModel
            from menpo.shape import PointCloud
            pdt = getattr(np, NP_OF_LAYOUT.get(layout, "float64"))
            samples = [PointCloud(r.reshape(case["V"], case["k"]).astype(pdt)) for r in X]
            before = digest(samples)
            ms = GMRFModel(samples, g, sparse=True, **kw)
            md = GMRFModel(samples, g, sparse=False, **kw)
            modified = digest(samples) != before
        else:
            from menpo.model import GMRFVectorModel
            Xd = [r.copy() for r in Xin] if layout == "list" else Xin
            before = digest(Xin), digest(Xd)
            ms = GMRFVectorModel(Xin, g, sparse=True, **kw)
            md = GMRFVectorModel(Xd, g, sparse=False, **kw)            # the SAME array object for both storages
            modified = (digest(Xin), digest(Xd)) != before
        return "ok", (ms, md, g), dict(data_modified=modified)
    except Exception as e:
        return "exc", type(e).__name__, str(e)[:120]


def make_query(case):
    """the query object handed to mahalanobis_distance (ONE object, re-used for every call of the case), and the float64
    matrix of its rows"""
    import numpy as np
    q = np.array([[float(Fraction(x)) for x in r] for r in case["Q"]])
    kind = case.get("qkind", "float64")
    if case["vectorizable"]:
        from menpo.shape import PointCloud
        pdt = {"float32": np.float32, "int": np.int64, "int32": np.int32}.get(kind, np.float64)
        return [PointCloud(r.reshape(case["V"], case["k"]).astype(pdt)) for r in q], q
    if kind == "list":
        return [[float(x) for x in r] for r in q], q
    if kind in ("float32", "int", "int32"):
        return q.astype({"float32": np.float32, "int": np.int64, "int32": np.int32}[kind]), q
    return q.copy(), q


def mahal(model, case, qobj, single):
    """Mahalanobis through the public API; qobj from make_query (the same object for every call); single -> one call
    per sample (rows of the array / elements of the list are handed over as they are: views, not copies)"""
    import numpy as np
    if case["vectorizable"]:
        if single:
            return [float(model.mahalanobis_distance(p)) for p in qobj]
        return np.atleast_1d(model.mahalanobis_distance(qobj)).astype(float).tolist()
    if single:
        return [float(model.mahalanobis_distance(r)) for r in qobj]
    return np.atleast_1d(model.mahalanobis_distance(qobj)).astype(float).tolist()


def py_replay(case):
    return ("import numpy as np; from fractions import Fraction as F\n"
            "from menpo.model import GMRFVectorModel; from menpo.shape import UndirectedGraph, DirectedGraph, Tree\n"
            "X = np.array([[float(F(x)) for x in r] for r in case['X']])   # handed over as case['layout'] (array / fortran / float32 / int = int64 / int32; a list is followed by the rows case['X_extra'] and n_samples=len(X)), incremental=case['incremental']; the queries case['Q'] as case['qkind'] (ONE object re-used for every call)\n"
            "g = <%s on %d vertices, edges %r%s>\n"
            "ms = GMRFVectorModel(X, g, mode=%r, n_components=%r, dtype=np.%s, bias=%r, sparse=True)\n"
            "md = GMRFVectorModel(X, g, ..., sparse=False); compare ms.precision.toarray(), md.precision, "
            "mahalanobis_distance(Q)" % (case["kind"], case["V"], case["edges"],
                                         ", root %r" % case["root"] if case["root"] is not None else "",
                                         case["mode"], case["n_components"], case["dtype"], case["bias"]))


def observe(ctx, key, text):
    """something the property text does not demand (requested dtype / storage type honoured, the caller's objects and the
    model untouched by a call, PCA of the precision, the BSR internals): counted and noted, never a failure"""
    ctx.count("observation:" + key)
    lst = getattr(ctx, "ctx", ctx).notes.setdefault("observations_beyond_the_property_text", [])
    if len(lst) < 12:
        lst.append("%s: %s" % (key, text[:300]))


# ------------------------------------------------------------------------------- one case: oracle + model line

def run_case(ctx, case, lines, pending, with_model=True):
    import numpy as np
    exp = expected_blocks(case)
    if exp is None:
        ctx.count("rejected:ill-conditioned-or-no-gap")
        return False
    units, blocks, exact = exp
    res = build_models(case)
    if res[0] == "graph-exc":
        ctx.count("skipped:graph-constructor-raises-" + res[1])
        return False
    k, V, n = case["k"], case["V"], case["V"] * case["k"]
    edges = [tuple(e) for e in case["edges"]]
    dim = k if not edges else (2 * k if case["mode"] == "concatenation" else k)
    E = expected_precision(case, units, blocks)
    Ef = np.array([[float(x) for x in r] for r in E])
    scale = float(np.abs(Ef).max())
    # single precision enters through the requested dtype of the precision or through float32 training data (the mean is
    # then accumulated and stored in single precision)
    tol = TOL64 if case["dtype"] == "float64" and case.get("layout") != "float32" else TOL32
    rp = dict(case=case, how=py_replay(case))
    site = "C12/%s" % ("diagonal" if not edges else case["mode"])
    sig = (case["kind"], V, tuple(sorted(edges)), k, case["mode"], case["bias"], case["dtype"], case["n_components"],
           hash(tuple(map(tuple, case["X"]))))
    ctx.case(sig, nontrivial=bool(edges) or n >= 2,
             sample={kk: case[kk] for kk in ("kind", "V", "k", "edges", "mode", "bias", "dtype", "n_components")})
    for key in ("kind:" + case["kind"], "k:%d" % k, "V:%d" % V, "mode:" + (case["mode"] if edges else "diagonal"),
                "bias:%d" % case["bias"], "dtype:" + case["dtype"],
                "n_components:" + ("none" if case["n_components"] is None else "truncated"),
                "api:" + ("GMRFModel" if case["vectorizable"] else "GMRFVectorModel"),
                "data:" + case.get("layout", "array"), "query:" + case.get("qkind", "float64"),
                "isolated:%s" % (len({v for e in edges for v in e}) < V and bool(edges))):
        ctx.count(key)

    model_op = "build"
    impl_failed = res[0] != "ok"
    if impl_failed:
        pattern = "raises-" + res[1]
        if dim == 1 and res[1] == "LinAlgError":
            ctx.fail("C12/build/scalar-feature", pattern,
                     "constructing the model raises %s (%s): one feature per vertex with %s makes np.cov return a "
                     "0-dimensional array that _covariance_matrix_inverse cannot invert; the property demands a model "
                     "for any number of features per vertex" % (res[1], res[2], "an edgeless graph" if not edges else
                                                                 "mode='subtraction'"), rp)
            model_op = "build-coded"
        else:
            ctx.fail(site + "/build", pattern, "constructing the model raises %s: %s" % (res[1], res[2]), rp)
    else:
        ms, md, g = res[1]
        if res[2]["data_modified"]:
            observe(ctx, "training-data-modified", "a constructor changed the training data it was handed (%s)" % case.get("layout"))
        try:
            oracle(ctx, case, ms, md, E, Ef, exact, scale, tol, site, rp, units, blocks)
        except common.Infra:
            raise
        except Exception as e:  # an exception inside the public API calls of the oracle is an oracle failure
            ctx.fail(site + "/query", "raises-" + type(e).__name__, "a query on the built model raised %s: %s" % (
                type(e).__name__, str(e)[:120]), rp)
            impl_failed = True

    if not with_model:
        return True
    # ---- model line
    cid = "m%d" % len(lines)
    m = "c" if case["mode"] == "concatenation" else "s"
    if impl_failed and model_op == "build":
        return True
    if res[0] == "ok":
        g_edges = [tuple(int(x) for x in e) for e in res[1][2].edges.tolist()]
    else:
        g_edges = edges
    line = model_line(ctx, case, cid, m, model_op, g_edges)
    if line is None:
        return True
    lines.append(line[0])
    pending[cid] = (case, res, scale, tol, line[1])
    return True


def model_line(ctx, case, cid, m, model_op, g_edges):
    """(request line, op) for the Lean driver; units in the order of graph.edges (the harness' own unit order may differ)"""
    k, V = case["k"], case["V"]
    etoks = "%d %s" % (len(g_edges), " ".join("%d %d" % e for e in g_edges))
    X = [[Fraction(x) for x in r] for r in case["X"]]
    Q = [[Fraction(x) for x in r] for r in case["Q"]]
    units = g_edges if g_edges else list(range(V))
    if model_op == "build-coded":
        return "%s build-coded %s %d %d %d %s %s %s" % (cid, m, k, V, case["bias"], etoks, common.fmat(X), common.fmat(Q)), model_op
    got = [unit_block(case, X, u) for u in units]
    hows = {h for h, _, _ in got}
    if None in hows:
        return None
    if hows == {"inv"}:
        if case["n_components"] is not None:
            ctx.count("model:n_components>=block-size-as-exact-inverse")
        if case["vectorizable"]:
            pts = lambda r: common.fmat([r[v * k:(v + 1) * k] for v in range(V)])
            return "%s build-obj %s %d %d %d %s %d %s %d %s" % (
                cid, m, k, V, case["bias"], etoks, len(X), " ".join(pts(r) for r in X), len(Q),
                " ".join(pts(r) for r in Q)), "build-obj"
        if case.get("X_extra") and case.get("layout") == "list":
            full = X + [[Fraction(x) for x in r] for r in case["X_extra"]]
            return "%s build-ns %s %d %d %d 0 %d %s %s %s" % (cid, m, k, V, case["bias"], len(X), etoks, common.fmat(full),
                                                            common.fmat(Q)), "build-ns"
        op = "build-src" if (len(X) + len(g_edges) + V + k + int(case["bias"])) % 2 == 0 or model_op == "build-src" else "build"
        return "%s %s %s %d %d %d %s %s %s" % (cid, op, m, k, V, case["bias"], etoks, common.fmat(X), common.fmat(Q)), op
    if hows == {"spec"}:
        specs = " ".join("%d %s %s" % (len(sp[0]), common.fqs(sp[0]), common.fmat(sp[1])) for _, _, sp in got)
        return "%s trunc %s %d %d %d %d %s %d %s %s %s" % (
            cid, m, k, V, case["bias"], case["n_components"], etoks, len(got), specs, common.fmat(X), common.fmat(Q)), "trunc"
    bl = [[[float(x) for x in r] for r in B] for _, B, _ in got]
    return "%s given %s %d %d %s %d %s %s %s" % (
        cid, m, k, V, etoks, len(bl), " ".join(common.fmat(B) for B in bl), common.fmat(X), common.fmat(Q)), "given"


def oracle(ctx, case, ms, md, E, Ef, exact, scale, tol, site, rp, units=None, blocks=None):
    """the property statement on the real objects (independent of the Lean model)"""
    import numpy as np
    import scipy.sparse as sp
    k, V = case["k"], case["V"]
    n = V * k
    edges = [tuple(e) for e in case["edges"]]
    adj = {(u, v) for u, v in edges} | {(v, u) for u, v in edges}
    # the precision is computed from np.cov, which promotes to float64: only a requested float32 dtype loosens its checks;
    # `tol` (which float32 training data loosen as well: the mean is then single precision) is for mean and distances
    bound = (TOL64 if case["dtype"] == "float64" else TOL32) * (1.0 + scale)
    if not (sp.issparse(ms.precision) and isinstance(md.precision, np.ndarray)):
        observe(ctx, "storage-type", "sparse=True stores %s, sparse=False stores %s" % (
            type(ms.precision).__name__, type(md.precision).__name__))
    Ps = np.asarray(ms.precision.toarray() if sp.issparse(ms.precision) else ms.precision, dtype=float)
    Pd = np.asarray(md.precision.toarray() if sp.issparse(md.precision) else md.precision, dtype=float)
    want_dt = case["dtype"]
    if not (str(ms.precision.dtype) == want_dt and str(md.precision.dtype) == want_dt):
        observe(ctx, "precision-dtype", "precision dtype %s / %s, requested %s" % (ms.precision.dtype, md.precision.dtype, want_dt))
    if Ps.shape != (n, n) or Pd.shape != (n, n):
        ctx.fail(site + "/shape", "wrong-shape", "precision shapes %r / %r, expected (%d, %d)" % (Ps.shape, Pd.shape, n, n), rp)
        return
    # storage independent
    dsd = float(np.abs(Ps - Pd).max())
    if dsd > bound:
        I, J = np.unravel_index(np.abs(Ps - Pd).argmax(), Ps.shape)
        ctx.fail(site + "/sparse-vs-dense", "differ",
                 "sparse and dense precision differ by %.3g at entry (%d,%d) [blocks %d,%d]: sparse %.9g dense %.9g" % (
                     dsd, I, J, I // k, J // k, Ps[I, J], Pd[I, J]), rp)
    # exact: sum of the placed inverted covariances
    for name, P in (("sparse", Ps), ("dense", Pd)):
        de = float(np.abs(P - Ef).max())
        if de > bound:
            I, J = np.unravel_index(np.abs(P - Ef).argmax(), P.shape)
            ctx.fail(site + "/exact/" + name, "not-the-sum",
                     "%s precision differs from the sum of the placed inverted covariances by %.3g at entry (%d,%d) "
                     "[blocks %d,%d]: got %.9g expected %.9g" % (name, de, I, J, I // k, J // k, P[I, J], Ef[I, J]), rp)
        # symmetric
        da = float(np.abs(P - P.T).max())
        ctx.check(da <= bound, site + "/symmetric/" + name, "asymmetric",
                  "%s precision is not symmetric (max |P - P'| = %.3g)" % (name, da), rp)
        # positive semi-definite
        w = np.linalg.eigvalsh((P + P.T) / 2.0)
        ctx.check(w.min() >= -bound * n, site + "/psd/" + name, "negative-eigenvalue",
                  "%s precision has eigenvalue %.3g" % (name, w.min()), rp)
        # graph sparse
        for u in range(V):
            for v in range(V):
                if u != v and (u, v) not in adj:
                    blk = P[u * k:(u + 1) * k, v * k:(v + 1) * k]
                    if np.abs(blk).max() > bound:
                        ctx.fail(site + "/graph-sparse/" + name, "couples-non-adjacent",
                                 "%s precision couples vertices %d and %d (|block| = %.3g) which the graph does not join" % (
                                     name, u, v, np.abs(blk).max()), rp)
    # float32 storage: both storages hold the exact matrix up to the rounding of the stored entries
    # (theorem storage_rounding_bound_rel: u * sum |stored entries|; one more u per accumulation, factor 4 of slack)
    if case["dtype"] == "float32" and exact and units is not None:
        A, C = placement_abs(case, units, blocks)
        fb = 4.0 * (C + 1.0) * 2.0 ** -24 * A + 1e-9 * (1.0 + scale)
        for name, P in (("sparse", Ps), ("dense", Pd)):
            over = np.abs(P - Ef) - fb
            if float(over.max()) > 0:
                I, J = np.unravel_index(over.argmax(), over.shape)
                ctx.fail(site + "/float32-storage/" + name, "exceeds-rounding-bound",
                         "%s float32 precision is %.3g away from the exact matrix at entry (%d,%d), the rounding of the "
                         "stored entries allows %.3g" % (name, abs(P[I, J] - Ef[I, J]), I, J, fb[I, J]), rp)
        ctx.count("float32-storage-bound-checked")
    # mean
    X = [[Fraction(x) for x in r] for r in case["X"]]
    mu = [sum(r[j] for r in X) / len(X) for j in range(n)]
    for name, mod in (("sparse", ms), ("dense", md)):
        mv = np.asarray(mod.mean_vector, dtype=float)
        mm = mod.mean()
        mm = np.asarray(mm.as_vector() if hasattr(mm, "as_vector") else mm, dtype=float)
        mtol = TOL32 if case.get("layout") == "float32" else TOL64
        ok = mv.shape == (n,) and mm.shape == (n,) and all(common.close(mv[j], mu[j], 8.0, mtol) and
                                                           common.close(mm[j], mu[j], 8.0, mtol) for j in range(n))
        ctx.check(ok, site + "/mean/" + name, "not-sample-mean", "model mean %r is not the sample mean %r" % (
            mv.tolist(), [float(x) for x in mu]), rp)
    # Mahalanobis: ONE query object (float64 / float32 / integer array, list, list of point sets) is handed to every
    # call - sparse and dense model, batched and one sample at a time, asked twice; the caller's object and the two
    # models are digested before and after every call
    Q = [[Fraction(x) for x in r] for r in case["Q"]]
    qobj, q = make_query(case)
    models = (("sparse", ms), ("dense", md))

    def call(label, fn):
        before_q = digest(qobj)
        before_m = {name: model_digest(mod) for name, mod in models}
        out = fn()
        # neither is a clause of the property text: observed; what the text does say (the same distances for sparse / dense,
        # batched / single, on the SAME query) is judged below on the re-used object, which is how a modified query shows
        if digest(qobj) != before_q:
            observe(ctx, "query-modified-in-place", "the %s query of a %s was modified by the call (%s)" % (
                case.get("qkind", "float64"), "GMRFModel" if case["vectorizable"] else "GMRFVectorModel", label))
        for name, mod in models:
            if model_digest(mod) != before_m[name]:
                observe(ctx, "model-changed-by-query", "precision or mean_vector of the %s model changed during the call (%s)" % (
                    name, label))
        return out

    want = []
    for r in Q:
        z = [a - b for a, b in zip(r, mu)]
        if exact:
            want.append(float(sum(z[i] * E[i][j] * z[j] for i in range(n) for j in range(n))))
        else:
            zf = np.array([float(x) for x in z])
            want.append(float(zf.dot(Ef).dot(zf)))
    dscale = max([abs(x) for x in want] + [scale * float(np.abs(q).max() + 8.0) ** 2 * 4])
    dbound = tol * (1.0 + dscale)
    got = {}
    for name, mod in models:
        for single in (False, True):
            got[name, single] = call("%s %s" % (name, "single" if single else "batched"),
                                     lambda mod=mod, single=single: mahal(mod, case, qobj, single))
    for (name, single), d in got.items():
        lbl = "%s/%s" % (name, "single" if single else "batched")
        if len(d) != len(want):
            ctx.fail(site + "/mahalanobis/" + lbl, "wrong-length", "got %d distances for %d queries" % (len(d), len(want)), rp)
            continue
        ctx.check(all(x >= -dbound for x in d), site + "/mahalanobis/" + lbl, "negative", "negative distance %r" % (d,), rp)
        ctx.check(all(abs(a - b) <= dbound for a, b in zip(d, want)), site + "/mahalanobis/" + lbl, "not-quadratic-form",
                  "distances %r differ from (x-mu)'P(x-mu) = %r" % (d, want), rp)
    if all(len(d) == len(want) for d in got.values()):
        ctx.check(all(abs(a - b) <= dbound for a, b in zip(got["sparse", False], got["dense", False])),
                  site + "/mahalanobis/sparse-vs-dense", "differ", "sparse %r dense %r" % (
                      got["sparse", False], got["dense", False]), rp)
        for name in ("sparse", "dense"):
            ctx.check(all(abs(a - b) <= dbound for a, b in zip(got[name, False], got[name, True])),
                      site + "/mahalanobis/batch-vs-single/" + name, "differ", "batched %r single %r" % (
                          got[name, False], got[name, True]), rp)
    # asking again gives the same answer
    for name, mod in models:
        again = call(name + " batched, second time", lambda mod=mod: mahal(mod, case, qobj, False))
        ctx.check(len(again) == len(got[name, False]) and all(abs(a - b) <= dbound for a, b in zip(again, got[name, False])),
                  site + "/mahalanobis/repeat/" + name, "differ",
                  "the same batched query asked twice: %r then %r" % (got[name, False], again), rp)
    for name, mod in models:
        mmean = call(name + " mean()", lambda mod=mod: mod.mean())
        d0 = float(call(name + " distance of mean()", lambda mod=mod: mod.mahalanobis_distance(mmean)))
        ctx.check(abs(d0) <= dbound, site + "/mahalanobis/at-mean/" + name, "non-zero", "distance of the mean is %r" % d0, rp)
        ds = float(call(name + " sqrt distance of mean()",
                        lambda mod=mod: mod.mahalanobis_distance(mmean, subtract_mean=True, square_root=True)))
        ctx.check(abs(ds) <= max(dbound, dbound ** 0.5), site + "/mahalanobis/at-mean/" + name, "non-zero-sqrt",
                  "square-root distance of the mean is %r" % ds, rp)
        # the model's own mean vector handed back as a query (an alias of the model's state for the vector model)
        mv = mod.mean_vector
        d1 = float(call(name + " distance of mean_vector", lambda mod=mod, mv=mv: mod.mahalanobis_distance(
            mv if not case["vectorizable"] else mmean)))
        ctx.check(abs(d1) <= dbound, site + "/mahalanobis/at-mean/" + name, "non-zero", "distance of mean_vector is %r" % d1, rp)
    # contract of scipy's BSR (trusted base, spot-verified): toarray() sums the stored blocks
    if sp.issparse(ms.precision) and hasattr(ms.precision, "indptr") and hasattr(ms.precision, "blocksize"):
        b = ms.precision
        man = np.zeros((n, n))
        R, C_ = b.blocksize
        for i in range(len(b.indptr) - 1):
            for p in range(int(b.indptr[i]), int(b.indptr[i + 1])):
                j = int(b.indices[p])
                man[i * R:(i + 1) * R, j * C_:(j + 1) * C_] += b.data[p]
        if float(np.abs(man - Ps).max()) > bound:
            ctx.notes["bsr_contract_violated"] = "bsr toarray() is not the sum of the stored blocks on some case"
            raise common.Infra("scipy bsr_matrix contract (toarray = sum of stored blocks) does not hold in this environment")
        ctx.count("contract:bsr-toarray-sums-blocks")
    if case["n_components"] is not None:
        # contract of np.linalg.svd spot-verified on the first unit (hypotheses of svdTrunc_eq_specTrunc):
        # C = U diag(s) Vh, orthogonal factors, s >= 0 descending, and the cut separated by a common threshold
        units = edges if edges else list(range(V))
        Cq = f_cov(unit_data(case, X, units[0]), case["bias"])
        Cf = np.array([[float(x) for x in r] for r in Cq])
        U, sv, Vh = np.linalg.svd(Cf)
        d = len(Cf)
        r = min(case["n_components"], d)
        sc = float(np.abs(Cf).max())
        good = (float(np.abs(U.dot(np.diag(sv)).dot(Vh) - Cf).max()) <= 1e-9 * (1 + sc) and
                float(np.abs(U.T.dot(U) - np.eye(d)).max()) <= 1e-9 and float(np.abs(Vh.dot(Vh.T) - np.eye(d)).max()) <= 1e-9 and
                bool(np.all(sv >= 0)) and bool(np.all(np.diff(sv) <= 0)))
        if not good:
            raise common.Infra("np.linalg.svd contract does not hold in this environment")
        ctx.count("contract:svd")
        sp = exact_spec(Cq, candidate_vectors(case["designed_A"], k, case["mode"], bool(edges))) if case.get("designed_A") else None
        if sp is not None and 0 < r:
            tau = float(sp[0][r]) if r < d else 0.0
            if not (sv[r - 1] > tau * (1 + 1e-9) - 1e-12 and (r == d or sv[r] <= tau * (1 + 1e-9) + 1e-12)):
                raise common.Infra("np.linalg.svd singular values do not share the cut of the exact eigenvalues")
            ctx.count("contract:svd-common-threshold")
    if exact and case["n_components"] is None and not case.get("incremental") and case["dtype"] == "float64" \
            and case.get("layout") != "float32":
        pca_observation(ctx, case, ms, md, Ef, scale, site, rp)
    if exact and case["n_components"] is None:
        # contract of np.linalg.inv spot-verified: C * inv(C) = 1 on the first unit
        units = edges if edges else list(range(V))
        D = edge_rows(X, k, case["mode"], units[0]) if edges else [r[units[0] * k:(units[0] + 1) * k] for r in X]
        Cf = np.array([[float(x) for x in r] for r in f_cov(D, case["bias"])])
        if float(np.abs(Cf.dot(np.linalg.inv(Cf)) - np.eye(len(Cf))).max()) > 1e-8:
            raise common.Infra("np.linalg.inv contract does not hold in this environment")
        ctx.count("contract:inv")


def pca_observation(ctx, case, ms, md, Ef, scale, site, rp):
    """principal_components_analysis observes the precision (theorem precision_pca): every returned pair (c, nu) must be
    an eigenpair of the expected precision with eigenvalue 1/nu, the components orthonormal, the mean the model mean,
    and with all components kept the Mahalanobis distance is the whitened norm of the projections.  PCA is not a clause of
    the property text (it is only a place where the precision can be observed): everything here is counted / noted."""
    import numpy as np
    n = case["V"] * case["k"]
    try:
        pca = md.principal_components_analysis()
        comps = np.asarray(pca.components, dtype=float)
        ev = np.asarray(pca.eigenvalues, dtype=float)
    except Exception as e:
        observe(ctx, "pca-dense-raises-" + type(e).__name__, str(e)[:120])
        return
    ctx.count("pca:dense-components=%s" % ("all" if len(ev) == n else "fewer"))
    bound = 1e-8 * (1.0 + scale)
    ok = comps.ndim == 2 and comps.shape[1] == n and len(ev) == comps.shape[0] and bool(np.all(ev > 0))
    if ok and len(ev):
        resid = float(np.abs(Ef.dot(comps.T) - comps.T / ev).max())
        gram = float(np.abs(comps.dot(comps.T) - np.eye(len(ev))).max())
        ok = resid <= bound and gram <= 1e-8 and bool(np.all(np.diff(ev) <= 1e-9 * (1 + ev.max())))
    if not ok:
        observe(ctx, "pca-dense-not-eigenpairs-of-precision",
                "the components / eigenvalues returned by principal_components_analysis are not orthonormal eigenvectors of "
                "the precision with inverted eigenvalues in descending order (shape %r)" % (comps.shape,))
    else:
        ctx.count("pca:dense-eigenpairs-of-the-expected-precision")
    if ok and len(ev) == n:
        q = np.array([[float(Fraction(x)) for x in r] for r in case["Q"]])
        mu = np.asarray(md.mean_vector, dtype=float)
        z = q - mu
        white = ((z.dot(comps.T)) ** 2 / ev).sum(axis=1)
        direct = np.einsum("ij,ij->i", z.dot(Ef), z)
        sc = float(np.abs(direct).max())
        if not bool(np.all(np.abs(white - direct) <= 1e-8 * (1 + sc))):
            observe(ctx, "pca-dense-whitened-norm-differs", "sum (c_i.(x-mu))^2/nu_i = %r, (x-mu)'P(x-mu) = %r" % (
                white.tolist(), direct.tolist()))
    try:
        ps = ms.principal_components_analysis()
        ctx.count("pca:sparse-components=n%+d" % (len(ps.eigenvalues) - n))
    except Exception as e:
        ctx.count("pca:sparse-raises-" + type(e).__name__)


# ------------------------------------------------------------------------------- model comparison

def parse_reply(reply, n):
    toks = reply.split()
    if toks[0] != "ok":
        return None
    out, key = {}, None
    for t in toks[1:]:
        if t in ("D", "S", "IP", "MU", "MS", "MD", "MR", "MO", "M1"):
            key = t
            out[key] = []
        else:
            out[key].append(t)
    return out


class _Soft(object):
    """digraphs with antiparallel pairs are outside the property's quantifier: a disagreement between the real
    constructors and the model there says that theorem dense_general no longer describes the code, but it is not
    evidence against the property, so it is recorded (count + note) instead of being pursued as a mismatch"""

    def __init__(self, ctx):
        self.ctx = ctx

    def mismatch(self, op, text, rp):
        self.ctx.count("outside-quantifier:model-disagrees:" + op)
        lst = self.ctx.notes.setdefault("outside_quantifier_disagreements", [])
        if len(lst) < 8:
            lst.append(dict(op=op, text=text[:300],
                            case={k: v for k, v in rp.get("case", {}).items() if k not in ("X", "Q")}))

    def count(self, key):
        self.ctx.count("outside-quantifier:" + key)


def compare_model(ctx, model, pending):
    for cid, item in pending.items():
        compare_one(_Soft(ctx) if item[4] == "build-outside" else ctx, model[cid], item)


def compare_one(ctx, reply, item):
    import numpy as np
    import scipy.sparse as sp
    case, res, scale, tol, model_op = item
    for _ in (0,):
        rp = dict(case=case, model_reply=reply[:400])
        n = case["V"] * case["k"]
        if res[0] != "ok":
            obs = "err zerodim" if res[1] == "LinAlgError" else "err " + res[1]
            if reply != obs:
                ctx.mismatch(model_op, "implementation raised %s, model says %r" % (res[1], reply[:80]), rp)
            else:
                ctx.count("model:agrees-on-failure")
            continue
        out = parse_reply(reply, n)
        if out is None:
            ctx.mismatch(model_op, "model says %r, implementation built a model" % reply[:80], rp)
            continue
        ms, md, g = res[1]
        bound = (TOL64 if case["dtype"] == "float64" else TOL32) * (1.0 + scale)
        Ps = np.asarray(ms.precision.toarray() if sp.issparse(ms.precision) else ms.precision, dtype=float)
        Pd = np.asarray(md.precision, dtype=float) if not sp.issparse(md.precision) else md.precision.toarray()
        D = np.array([float(Fraction(t)) for t in out["D"]]).reshape(n, n)
        S = np.array([float(Fraction(t)) for t in out["S"]]).reshape(n, n)
        if Pd.shape != (n, n) or float(np.abs(Pd - D).max()) > bound:
            ctx.mismatch("dense-precision", "dense precision differs from the model by %.3g" % (
                float(np.abs(Pd - D).max()) if Pd.shape == (n, n) else -1), rp)
        if Ps.shape != (n, n) or float(np.abs(Ps - S).max()) > bound:
            ctx.mismatch("sparse-precision", "sparse precision differs from the model by %.3g" % (
                float(np.abs(Ps - S).max()) if Ps.shape == (n, n) else -1), rp)
        if sp.issparse(ms.precision) and hasattr(ms.precision, "indptr"):
            ip = [int(x) for x in ms.precision.indptr.tolist()]
            if ip != [int(t) for t in out["IP"]]:       # an internal of the storage, not behaviour: noted only
                observe(ctx, "bsr-indptr-differs-from-model", "indptr %r, model %r" % (ip, out["IP"]))
            else:
                ctx.count("model:indptr-agrees")
        mu = [float(Fraction(t)) for t in out["MU"]]
        mtol = TOL32 if case.get("layout") == "float32" else TOL64
        if not all(common.close(a, b, 8.0, mtol) for a, b in zip(np.asarray(ms.mean_vector, dtype=float).tolist(), mu)):
            ctx.mismatch("mean", "mean differs from the model", rp)
        qobj, q = make_query(case)
        dscale = scale * float(np.abs(q).max() + 8.0) ** 2 * 4
        try:
            ds = mahal(ms, case, qobj, False)
            dd = mahal(md, case, qobj, False)
        except Exception:
            continue  # already an oracle failure
        MS = [float(Fraction(t)) for t in out["MS"]]
        MD = [float(Fraction(t)) for t in out["MD"]]
        dscale = max([dscale] + [abs(x) for x in MS])
        if len(ds) != len(MS) or not all(abs(a - b) <= tol * (1 + dscale) for a, b in zip(ds, MS)):
            ctx.mismatch("mahalanobis-sparse", "distances %r, model %r" % (ds, MS), rp)
        if len(dd) != len(MD) or not all(abs(a - b) <= tol * (1 + dscale) for a, b in zip(dd, MD)):
            ctx.mismatch("mahalanobis-dense", "distances %r, model %r" % (dd, MD), rp)
        if "MR" in out and not case["vectorizable"]:
            MR = [float(Fraction(t)) for t in out["MR"]]
            try:
                dr = np.atleast_1d(md.mahalanobis_distance(q, subtract_mean=False)).astype(float).tolist()
            except Exception as e:
                dr = ["raises-" + type(e).__name__]
            rscale = max([dscale] + [abs(x) for x in MR])
            if len(dr) != len(MR) or not all(isinstance(a, float) and abs(a - b) <= tol * (1 + rscale) for a, b in zip(dr, MR)):
                ctx.mismatch("mahalanobis-raw", "subtract_mean=False distances %r, model %r" % (dr, MR), rp)
        if model_op == "build-obj":
            MO = [float(Fraction(t)) for t in out.get("MO", [])]
            try:
                pts = np.asarray(ms.mean().points, dtype=float).ravel().tolist()
            except Exception as e:
                pts = []
            if len(pts) != len(MO) or not all(common.close(a, b, 8.0, mtol) for a, b in zip(pts, MO)):
                ctx.mismatch("mean-object", "mean() points %r, model %r" % (pts, MO), rp)
            M1 = [float(Fraction(t)) for t in out.get("M1", [])]
            try:
                d1 = mahal(ms, case, qobj, True)
            except Exception:
                d1 = []
            if len(d1) != len(M1) or not all(abs(a - b) <= tol * (1 + dscale) for a, b in zip(d1, M1)):
                ctx.mismatch("mahalanobis-object-single", "single-instance distances %r, model %r" % (d1, M1), rp)
        ctx.count("model:compared")
        ctx.count("model-op:" + model_op)


def run_outside_case(ctx, case, lines, pending):
    """digraphs with antiparallel pairs: outside the property's quantifier, so no oracle; the real constructors are
    diffed against the model (theorem dense_general: sum on diagonal blocks, last writer on off-diagonal blocks)"""
    import numpy as np
    X = [[Fraction(x) for x in r] for r in case["X"]]
    edges = [tuple(e) for e in case["edges"]]
    for u in edges:
        if unit_block(case, X, u)[0] != "inv":
            return False
    res = build_models(case)
    if res[0] != "ok":
        ctx.count("outside-quantifier:" + res[0] + "-" + res[1])
        return False
    ms, md, g = res[1]
    g_edges = [tuple(int(x) for x in e) for e in g.edges.tolist()]
    pairs = {(a, b) for a, b in g_edges if (b, a) in g_edges}
    ctx.count("outside-quantifier:antiparallel-digraph")
    ctx.count("outside-quantifier:antiparallel-pairs=%d" % (len(pairs) // 2))
    scale = float(np.abs(np.asarray(md.precision, dtype=float)).max())
    tol = TOL64 if case["dtype"] == "float64" and case.get("layout") != "float32" else TOL32
    cid = "m%d" % len(lines)
    line = model_line(ctx, case, cid, "c" if case["mode"] == "concatenation" else "s", "build", g_edges)
    if line is None:
        return False
    lines.append(line[0])
    pending[cid] = (case, res, scale, tol, "build-outside")
    return True


# ------------------------------------------------------------------------------- exploration

DIRECTED_CORNERS = [
    # isolated first / last vertex, star, path, triangle, every k; exercised in every run
    dict(kind="undirected", V=4, edges=[[1, 2]]),
    dict(kind="undirected", V=5, edges=[[1, 3], [3, 2]]),
    dict(kind="directed", V=4, edges=[[3, 0], [2, 0], [1, 0]]),
    dict(kind="directed", V=3, edges=[[0, 1], [1, 2], [2, 0]]),
    dict(kind="undirected", V=3, edges=[[0, 1], [0, 2], [1, 2]]),
    dict(kind="tree", V=4, edges=[[2, 0], [2, 1], [1, 3]], root=2),
    dict(kind="edgeless", V=2),
    dict(kind="edgeless-directed", V=3),
]


def corpus(ctx, lines, pending):
    """minimised past failures (replays/corpus/C12-*.json) are re-run first on every check"""
    import glob
    import os
    for path in sorted(glob.glob(os.path.join(common.ROOT, "replays", "corpus", "C12-*.json"))):
        case = (json.load(open(path)).get("replay") or {}).get("case")
        if case:
            ctx.count("corpus-replay")
            run_case(ctx, case, lines, pending)


def explore(ctx, n_random, lines, pending, with_model=True, corners=True):
    rng = ctx.rng
    done = 0
    if corners:
        for c in DIRECTED_CORNERS:
            for k in (1, 2, 3):
                for mode in ("concatenation", "subtraction"):
                    if c["kind"].startswith("edgeless") and mode == "subtraction":
                        continue
                    for _ in range(20):
                        case = gen_case(rng, dict(c, k=k, mode=mode, n_components=None))
                        if run_case(ctx, case, lines, pending, with_model):
                            break
    tries = 0
    while done < n_random and tries < 20 * n_random + 100:
        tries += 1
        if run_case(ctx, gen_case(rng), lines, pending, with_model):
            done += 1
    # designed data: rational eigen-decompositions, n_components exact in the model
    n_designed = max(8, n_random // 4)
    done = tries = 0
    while done < n_designed and tries < 20 * n_designed:
        tries += 1
        if run_case(ctx, gen_case(rng, dict(designed=True)), lines, pending, with_model):
            done += 1
            ctx.count("designed-rational-spectrum")
    if with_model:
        n_out = max(6, n_random // 10)
        done = tries = 0
        while done < n_out and tries < 20 * n_out:
            tries += 1
            case = gen_case(rng, dict(kind="directed-antiparallel", n_components=None, V=rng.choice([2, 3, 3, 4, 5])))
            case["vectorizable"] = False
            if run_outside_case(ctx, case, lines, pending):
                done += 1


def small_graphs(ctx, lines, pending):
    """every undirected graph and every orientation class representative on 2..4 vertices, k = 1, 2 (oracle only)"""
    import itertools
    rng = ctx.rng
    for V in (2, 3, 4):
        pairs = [(i, j) for i in range(V) for j in range(i + 1, V)]
        for mask in range(1 << len(pairs)):
            es = [p for b, p in enumerate(pairs) if mask >> b & 1]
            for kind in ("undirected", "directed"):
                if kind == "directed":
                    es2 = [(a, b) if rng.random() < 0.5 else (b, a) for a, b in es]
                else:
                    es2 = es
                k = rng.choice([1, 2])
                force = dict(kind=kind if es2 else "edgeless", V=V, edges=[list(e) for e in es2], k=k,
                             mode=rng.choice(["concatenation", "subtraction"]), n_components=None)
                for _ in range(20):
                    if run_case(ctx, gen_case(rng, force), lines, pending, with_model=False):
                        break


def search(ctx):
    """directed search on the real code (oracle only): neighbours of the mismatching cases, all small graphs,
    then the thorough generator"""
    lines, pending = [], {}
    before = ctx.evaluations
    rng = ctx.rng
    for op, text, rp in list(ctx.mismatches)[:8]:
        case = rp.get("case") if isinstance(rp, dict) else None
        if not case:
            continue
        for mode in ("concatenation", "subtraction"):
            for bias in (0, 1):
                for dtype in ("float64", "float32"):
                    for sp_nc in (None, case.get("n_components")):
                        force = dict(kind=case["kind"], V=case["V"], k=case["k"], edges=case["edges"], root=case["root"],
                                     mode=mode, bias=bias, dtype=dtype, n_components=sp_nc,
                                     designed=bool(case.get("designed_A")) and sp_nc is not None)
                        if case["kind"] == "directed-antiparallel":
                            continue              # outside the quantifier: nothing to search for
                        for _ in range(10):
                            if run_case(ctx, gen_case(rng, force), lines, pending, with_model=False):
                                break
        if ctx.failures:
            break
    if not ctx.failures:
        small_graphs(ctx, lines, pending)
    if not ctx.failures:
        explore(ctx, 600, lines, pending, with_model=False, corners=True)
    ctx.searched += ctx.evaluations - before
    return bool(ctx.failures)


def generated(ctx):
    """the routines of menpo/model/gmrf.py translated from the source text of the working tree (harness/trans_c12.py);
    GenProps/C12Src.lean proves every translated definition equal to its `…Coded` counterpart of Core/C12Src.lean"""
    from . import trans_c12
    files, reasons = trans_c12.generated_files()
    ok = common.build_generated(ctx, files, trans_c12.GEN_TARGETS, trans_c12.N_OBLIGATIONS)
    ctx.count("translated-definitions:%d" % trans_c12.N_OBLIGATIONS)
    if reasons:
        ctx.notes["untranslatable"] = reasons
    if not ok and ctx.broken_obligations:
        ctx.broken_obligations[-1]["obligation"] = (
            "MenpoModel.GenProps.C12Src: the translation of the current source text of menpo/model/gmrf.py "
            "(_covariance_matrix_inverse, _create_*_precision, GMRFVectorModel / GMRFModel .__init__, _data_to_matrix, mean, "
            "mahalanobis_distance, _mahalanobis_distance, principal_components_analysis) no longer equals the definitions "
            "the C12 theorems are about")
        if reasons:
            ctx.broken_obligations[-1]["untranslatable"] = reasons
    ctx.count("translation:" + ("ok" if ok else "broken"))


def prepare(ctx):
    """regenerate + build the translation, then build and audit.  When the regenerated obligations hold they are audited
    (axioms, forbidden constructs) together with the property theorems; when they are broken (what the working tree says
    now) the hand-written theorems are audited alone and the break is pursued as a broken obligation, never as an
    infrastructure error"""
    generated(ctx)
    gen_ok = not ctx.broken_obligations
    hand_t = [t for t in THEOREMS if t not in GEN_THEOREMS]
    if gen_ok:
        try:
            return common.prepare_lean(ctx, PROP, IMPORTS, THEOREMS)
        except common.Infra as e:
            # is it the generated part that fails the audit?  then it is a broken obligation
            common.prepare_lean(ctx, PROP, [i for i in IMPORTS if i != GEN_IMPORT], hand_t)     # raises if it is not
            ctx.broken_obligations.append({"targets": [GEN_IMPORT], "errors": [str(e)[:1500]],
                                           "output_tail": "axiom audit of the regenerated obligations failed"})
            return None
    return common.prepare_lean(ctx, PROP, [i for i in IMPORTS if i != GEN_IMPORT], hand_t)


def run(ctx):
    prepare(ctx)
    ctx.trusted += ["scipy.sparse.bsr_matrix denotation (duplicates summed; spot-verified every case)",
                    "np.linalg.inv / np.linalg.svd / np.cov contracts (spot-verified; the model inverts exactly and checks C*B=1)",
                    "ndarray.argsort returns a permutation that sorts, ties in any order (hypothesis ArgsortOK of the "
                    "theorems about the translated sparse constructors; the driver's argsortIns is proved to satisfy it)",
                    "np.sqrt (a function parameter of the translated _mahalanobis_distance; square_root=True is only checked "
                    "at the mean)",
                    "menpo/shape/graph.py: graph.edges lists every edge once and graph.n_vertices is the number of vertices "
                    "(not translated; the oracle places its blocks from the edge list it handed to the graph constructor)"]
    lines, pending = [], {}
    corpus(ctx, lines, pending)
    explore(ctx, ctx.n(320, 2600), lines, pending)
    if ctx.tier == "thorough":
        small_graphs(ctx, lines, pending)
    if lines:
        model = common.run_driver(PROP, lines)
        compare_model(ctx, model, pending)
    return ctx.finish(search)


def replay(ctx, path):
    data = json.load(open(path))
    rp = data.get("replay") or {}
    case = rp.get("case")
    if case is None:
        for item in data.get("broken_correspondence", []):
            if isinstance(item.get("case"), dict) and "case" in item["case"]:
                case = item["case"]["case"]
                break
    if case is None:
        print("no recorded case in %s; re-running the quick exploration with seed %r" % (path, data.get("seed")))
        return run(common.Ctx(PROP, "quick", int(data.get("seed", 0))))
    print("replaying recorded case: %s" % json.dumps({k: case[k] for k in case if k not in ("X", "Q")}))
    prepare(ctx)
    lines, pending = [], {}
    if not run_case(ctx, case, lines, pending):
        print("recorded case is rejected by the generator's conditioning guard")
    if lines:
        compare_model(ctx, common.run_driver(PROP, lines), pending)
    return ctx.finish(None)
