"""C12 — GMRF precision is storage-independent, graph-sparse, symmetric PSD, exact (DESIGN.md section 6, C12).

Parties: the real `GMRFVectorModel` / `GMRFModel` built twice (sparse and dense storage) on the same
data; the oracle (the property transcribed with exact rational arithmetic in Python: the expected
precision is the sum over edges / vertices of the exactly inverted sample covariances placed at their
blocks; symmetry, definiteness, sparsity pattern, Mahalanobis identities, mean); the Lean model
(transcription of the block-sparse-row assembly, the dense scatter, the diagonal constructors and the
two Mahalanobis branches, executed on the same inputs as exact rationals).
"""
import json
from fractions import Fraction

from . import common

PROP = "C12"
INFO = dict(
    technique="Lean 4 proof (block-sparse-row assembly denotes the sum of the embedded blocks for every triplet list "
              "and every row-sorting permutation; dense scatter equals the same sum on simple graphs; symmetry, graph "
              "sparsity, quadratic-form identity hence PSD; Mahalanobis identities; covariance / inverse contracts) + "
              "model/implementation correspondence and an exact-rational oracle on random graphs and data",
    level_text="Theorems over an executable transcription of menpo/model/gmrf.py (triplets in the coded order, argsort, "
               "the indptr loop, BSR denotation with duplicates summed, `+=`/`=` dense scatter, diagonal constructors, "
               "both Mahalanobis branches): for all graphs without repeated, antiparallel or self edges, any number of "
               "features, both edge modes, sparse = dense = sum over edges (vertices) of the embedded inverted covariances; "
               "the sum is symmetric, graph-sparse and satisfies x'Px = sum_e x_e' B_e x_e, hence PSD whenever the "
               "blocks are (proved for the exact inverse and for the truncated pseudo-inverse of a sample covariance); "
               "Mahalanobis distances are non-negative, zero at the mean, equal for both storages and for batched vs "
               "single queries; the mean is the sample mean.  Tied to /repo by building real models on random "
               "undirected graphs, trees, antiparallel-free digraphs and edgeless graphs (2-7 vertices, 1-3 features, "
               "modes x biases x dtypes x rank truncation) and diffing precision entries, indptr, mean and distances "
               "against the Lean driver; an independent exact-rational oracle decides the property on the real code.",
    level_note="Trusted: Lean kernel; axioms propext/Classical.choice/Quot.sound; Python harness; driver parser. "
               "Contracts (modelled, checked numerically each run): scipy's bsr_matrix denotation (toarray / dot sum "
               "duplicate blocks, any column order); np.linalg.inv returns the inverse (the model inverts exactly and "
               "checks C*B=1 itself); np.linalg.svd of a symmetric PSD matrix (truncated inverse = sum of u u'/sigma, "
               "handed to the model as blocks); np.cov. Float rounding is absorbed by 1e-9 (float64) / 1e-4 (float32) "
               "relative tolerances on inputs whose exact inverses are bounded.",
    rule="a case = one (graph, features per vertex, mode, bias, dtype, n_components, data set, query set) built in both "
         "storages; distinct = distinct (graph kind, V, edge set, k, mode, bias, dtype, n_components, data hash); "
         "non-trivial = at least one edge or at least two vertices with k*V >= 2",
    partial=["rank truncation (n_components): the truncated-SVD inverse leaves the rationals, so the model receives "
             "the blocks from the harness (own eigen-decomposition of the exact covariance) and the theorem "
             "truncated_inverse_symm_psd covers their symmetry/definiteness from the SVD contract; exactness of the "
             "blocks themselves is decided by the oracle only",
             "GMRFModel (Vectorizable samples) shares all code with GMRFVectorModel except as_matrix/from_vector; it is "
             "exercised by the correspondence, not modelled separately",
             "principal_components_analysis of the precision is not modelled (C10 covers the PCA identities); "
             "incremental updates belong to C11"],
    assumptions=["generated data sets have exactly invertible covariances whose inverse entries are bounded by 256 "
                 "(checked on the exact rational inverse before the implementation runs)",
                 "for rank truncation the kept and dropped eigenvalues of every covariance differ by a factor >= 1.5"],
    design_ref="DESIGN.md section 6, C12")
IMPORTS = ["MenpoModel.Props.C12"]
THEOREMS = [
    "MenpoModel.C12.bsr_denotes_sum_any_sort",
    "MenpoModel.C12.bsr_denotes_sum",
    "MenpoModel.C12.dense_eq_sum",
    "MenpoModel.C12.sparse_eq_dense",
    "MenpoModel.C12.antiparallel_pair_refutes_sparse_eq_dense",
    "MenpoModel.C12.diag_dense_eq_sum",
    "MenpoModel.C12.diag_sparse_eq_dense",
    "MenpoModel.C12.diag_block_diagonal",
    "MenpoModel.C12.precision_symmetric",
    "MenpoModel.C12.diag_symmetric",
    "MenpoModel.C12.precision_graph_sparse",
    "MenpoModel.C12.precision_quadratic_form",
    "MenpoModel.C12.precision_psd",
    "MenpoModel.C12.diag_quadratic_form",
    "MenpoModel.C12.diag_psd",
    "MenpoModel.C12.mahalSparse_eq_qf",
    "MenpoModel.C12.mahalDense_eq_qf",
    "MenpoModel.C12.mahalanobis_sparse_eq_dense",
    "MenpoModel.C12.mahalanobis_batch_eq_single",
    "MenpoModel.C12.mahalanobis_nonneg",
    "MenpoModel.C12.mahalanobis_zero_at_mean",
    "MenpoModel.C12.gmrf_mean",
    "MenpoModel.C12.cov_symm",
    "MenpoModel.C12.cov_psd",
    "MenpoModel.C12.inv_symm",
    "MenpoModel.C12.inv_psd",
    "MenpoModel.C12.inv_cov_symm_psd",
    "MenpoModel.C12.truncated_inverse_symm_psd",
    "MenpoModel.C12.build_correct",
    "MenpoModel.C12.build_coded_refuted_scalar_feature",
    "MenpoModel.C12.buildCoded_eq_fixed",
]

TOL64 = 1e-9
TOL32 = 1e-4
INV_BOUND = 256          # conditioning bound on the exact inverse entries
GAP = 1.5                # eigenvalue gap factor at the truncation cut


# ------------------------------------------------------------------------------- exact arithmetic (oracle side)

def f_cov(D, bias):
    """np.cov(D, rowvar=0, bias=bias) in exact rationals; D list of rows"""
    n, d = len(D), len(D[0])
    mu = [sum(r[p] for r in D) / n for p in range(d)]
    den = n if bias else n - 1
    return [[sum((r[p] - mu[p]) * (r[q] - mu[q]) for r in D) / den for q in range(d)] for p in range(d)]


def f_inv(C):
    """exact inverse by Gauss-Jordan, None if singular"""
    d = len(C)
    A = [list(C[i]) + [Fraction(int(i == j)) for j in range(d)] for i in range(d)]
    for c in range(d):
        piv = next((r for r in range(c, d) if A[r][c] != 0), None)
        if piv is None:
            return None
        A[c], A[piv] = A[piv], A[c]
        pv = A[c][c]
        A[c] = [x / pv for x in A[c]]
        for r in range(d):
            if r != c and A[r][c] != 0:
                f = A[r][c]
                A[r] = [x - f * y for x, y in zip(A[r], A[c])]
    return [row[d:] for row in A]


def edge_rows(X, k, mode, e):
    u, v = e
    if mode == "concatenation":
        return [r[u * k:(u + 1) * k] + r[v * k:(v + 1) * k] for r in X]
    return [[a - b for a, b in zip(r[u * k:(u + 1) * k], r[v * k:(v + 1) * k])] for r in X]


def trunc_inv(C, r):
    """top-r eigenpairs inverted (what the truncated SVD of a symmetric PSD matrix gives), float64;
    returns (B, ok) with ok False when the cut is not well separated"""
    import numpy as np
    Cf = np.array([[float(x) for x in row] for row in C])
    w, U = np.linalg.eigh(Cf)
    w, U = w[::-1], U[:, ::-1]
    d = len(w)
    r = min(r, d)
    if w[r - 1] < 1e-3 * max(1.0, w[0]):
        return None, False
    if r < d and w[r - 1] < GAP * max(w[r], 0.0):
        return None, False
    B = (U[:, :r] / w[:r]).dot(U[:, :r].T)
    return B, True


# ------------------------------------------------------------------------------- generators

def gen_graph(rng, kind, V):
    """(kind, V, edge list as handed to the constructor, root or None)"""
    pairs = [(i, j) for i in range(V) for j in range(i + 1, V)]
    if kind == "edgeless":
        return []
    if kind == "tree":
        perm = list(range(V))
        rng.shuffle(perm)
        return [(perm[rng.randrange(i)], perm[i]) for i in range(1, V)], perm[0]
    p = rng.choice([0.25, 0.5, 0.8])
    es = [e for e in pairs if rng.random() < p]
    if not es:
        es = [rng.choice(pairs)]
    if kind == "directed":
        es = [(a, b) if rng.random() < 0.5 else (b, a) for a, b in es]
    else:
        es = [(a, b) if rng.random() < 0.7 else (b, a) for a, b in es]
    rng.shuffle(es)
    return es


def make_graph(kind, V, edges, root):
    import numpy as np
    from menpo.shape import UndirectedGraph, DirectedGraph, Tree
    if kind == "edgeless":
        return UndirectedGraph(np.zeros((V, V), dtype=int))
    if kind == "edgeless-directed":
        return DirectedGraph(np.zeros((V, V), dtype=int))
    if kind == "tree":
        return Tree.init_from_edges(np.array(edges), V, root)
    if kind == "directed":
        return DirectedGraph.init_from_edges(np.array(edges), V)
    return UndirectedGraph.init_from_edges(np.array(edges), V)


def gen_case(rng, force=None):
    """a complete case description (JSON-able), data exact dyadic"""
    force = force or {}
    kind = force.get("kind") or rng.choice(["undirected", "undirected", "tree", "directed", "directed", "edgeless",
                                            "edgeless-directed"])
    V = force.get("V") or rng.choice([2, 3, 3, 4, 4, 5, 5, 6, 7])
    k = force.get("k") or rng.choice([1, 2, 2, 3])
    root = None
    if "edges" in force:
        edges = [tuple(e) for e in force["edges"]]
        root = force.get("root")
    elif kind.startswith("edgeless"):
        edges = []
    elif kind == "tree":
        edges, root = gen_graph(rng, kind, V)
    else:
        edges = gen_graph(rng, kind, V)
    mode = force.get("mode") or rng.choice(["concatenation", "subtraction"])
    bias = force["bias"] if "bias" in force else rng.choice([0, 1])
    dtype = force.get("dtype") or rng.choice(["float64", "float64", "float32"])
    dim = k if not edges else (2 * k if mode == "concatenation" else k)
    nc = force["n_components"] if "n_components" in force else (rng.randint(1, dim) if rng.random() < 0.25 else None)
    N = dim + rng.randint(3, 8)
    X = [[Fraction(rng.randint(-24, 24), 4) for _ in range(V * k)] for _ in range(N)]
    m = rng.choice([1, 2, 3])
    Q = [[Fraction(rng.randint(-24, 24), 4) for _ in range(V * k)] for _ in range(m)]
    return dict(kind=kind, V=V, k=k, edges=[list(e) for e in edges], root=root, mode=mode, bias=bias, dtype=dtype,
                n_components=nc, X=[[str(x) for x in r] for r in X], Q=[[str(x) for x in r] for r in Q],
                vectorizable=bool(k in (2, 3) and rng.random() < 0.3))


def expected_blocks(case):
    """per edge (or per vertex) the inverted covariance: exact Fractions (n_components None) or floats (truncated).
    Returns (units, blocks, exact) or None when the data set is rejected (singular / ill conditioned / no gap)."""
    X = [[Fraction(x) for x in r] for r in case["X"]]
    k, V, mode, bias, nc = case["k"], case["V"], case["mode"], case["bias"], case["n_components"]
    edges = [tuple(e) for e in case["edges"]]
    if edges:
        units = edges
        datas = [edge_rows(X, k, mode, e) for e in edges]
    else:
        units = list(range(V))
        datas = [[r[v * k:(v + 1) * k] for r in X] for v in units]
    blocks = []
    for D in datas:
        C = f_cov(D, bias)
        B = f_inv(C)
        if B is None or max(abs(x) for row in B for x in row) > INV_BOUND:
            return None
        if nc is not None:
            Bt, ok = trunc_inv(C, nc)
            if not ok:
                return None
            blocks.append(Bt)
        else:
            blocks.append(B)
    return units, blocks, nc is None


def expected_precision(case, units, blocks):
    """sum over edges / vertices of the blocks placed at their positions (exact Fractions or floats)"""
    k, V, mode = case["k"], case["V"], case["mode"]
    n = V * k
    zero = Fraction(0) if isinstance(blocks[0][0][0], Fraction) else 0.0
    P = [[zero for _ in range(n)] for _ in range(n)]
    for unit, B in zip(units, blocks):
        if not case["edges"] or mode == "concatenation":
            # the block is placed at the feature indices of the vertex / of the two vertices
            vs = [unit] if not case["edges"] else list(unit)
            idx = [v * k + a for v in vs for a in range(k)]
            for p, I in enumerate(idx):
                for q, J in enumerate(idx):
                    P[I][J] = P[I][J] + B[p][q]
        else:
            # (x_u - x_v)' B (x_u - x_v): +B on the two diagonal blocks, -B on the two off-diagonal blocks
            u, v = unit
            for a in range(k):
                for c in range(k):
                    b = B[a][c]
                    P[u * k + a][u * k + c] = P[u * k + a][u * k + c] + b
                    P[v * k + a][v * k + c] = P[v * k + a][v * k + c] + b
                    P[u * k + a][v * k + c] = P[u * k + a][v * k + c] - b
                    P[v * k + a][u * k + c] = P[v * k + a][u * k + c] - b
    return P


# ------------------------------------------------------------------------------- implementation runner

def build_models(case):
    """('ok', (sparse_model, dense_model, graph)) | ('exc', name, message)"""
    import numpy as np
    try:
        g = make_graph(case["kind"], case["V"], case["edges"], case["root"])
    except Exception as e:  # graph construction is not part of C12 (C14 owns it)
        return "graph-exc", type(e).__name__, str(e)[:120]
    try:
        X = np.array([[float(Fraction(x)) for x in r] for r in case["X"]])
        dt = getattr(np, case["dtype"])
        kw = dict(mode=case["mode"], n_components=case["n_components"], dtype=dt, bias=case["bias"])
        if case["vectorizable"]:
            from menpo.model import GMRFModel
            from menpo.shape import PointCloud
            samples = [PointCloud(r.reshape(case["V"], case["k"])) for r in X]
            ms = GMRFModel(samples, g, sparse=True, **kw)
            md = GMRFModel(samples, g, sparse=False, **kw)
        else:
            from menpo.model import GMRFVectorModel
            ms = GMRFVectorModel(X, g, sparse=True, **kw)
            md = GMRFVectorModel(X, g, sparse=False, **kw)
        return "ok", (ms, md, g)
    except Exception as e:
        return "exc", type(e).__name__, str(e)[:120]


def mahal(model, case, q, single):
    """Mahalanobis through the public API; q 2-D array; single -> one call per row"""
    import numpy as np
    if case["vectorizable"]:
        from menpo.shape import PointCloud
        pcs = [PointCloud(r.reshape(case["V"], case["k"])) for r in q]
        if single:
            return [float(model.mahalanobis_distance(p)) for p in pcs]
        return np.atleast_1d(model.mahalanobis_distance(pcs)).astype(float).tolist()
    if single:
        return [float(model.mahalanobis_distance(r)) for r in q]
    return np.atleast_1d(model.mahalanobis_distance(q)).astype(float).tolist()


def py_replay(case):
    return ("import numpy as np; from fractions import Fraction as F\n"
            "from menpo.model import GMRFVectorModel; from menpo.shape import UndirectedGraph, DirectedGraph, Tree\n"
            "X = np.array([[float(F(x)) for x in r] for r in case['X']])\n"
            "g = <%s on %d vertices, edges %r%s>\n"
            "ms = GMRFVectorModel(X, g, mode=%r, n_components=%r, dtype=np.%s, bias=%r, sparse=True)\n"
            "md = GMRFVectorModel(X, g, ..., sparse=False); compare ms.precision.toarray(), md.precision, "
            "mahalanobis_distance(Q)" % (case["kind"], case["V"], case["edges"],
                                         ", root %r" % case["root"] if case["root"] is not None else "",
                                         case["mode"], case["n_components"], case["dtype"], case["bias"]))


# ------------------------------------------------------------------------------- one case: oracle + model line

def run_case(ctx, case, lines, pending, with_model=True):
    import numpy as np
    exp = expected_blocks(case)
    if exp is None:
        ctx.count("rejected:ill-conditioned-or-no-gap")
        return False
    units, blocks, exact = exp
    res = build_models(case)
    if res[0] == "graph-exc":
        ctx.count("skipped:graph-constructor-raises-" + res[1])
        return False
    k, V, n = case["k"], case["V"], case["V"] * case["k"]
    edges = [tuple(e) for e in case["edges"]]
    dim = k if not edges else (2 * k if case["mode"] == "concatenation" else k)
    E = expected_precision(case, units, blocks)
    Ef = np.array([[float(x) for x in r] for r in E])
    scale = float(np.abs(Ef).max())
    tol = TOL64 if case["dtype"] == "float64" else TOL32
    rp = dict(case=case, how=py_replay(case))
    site = "C12/%s" % ("diagonal" if not edges else case["mode"])
    sig = (case["kind"], V, tuple(sorted(edges)), k, case["mode"], case["bias"], case["dtype"], case["n_components"],
           hash(tuple(map(tuple, case["X"]))))
    ctx.case(sig, nontrivial=bool(edges) or n >= 2,
             sample={kk: case[kk] for kk in ("kind", "V", "k", "edges", "mode", "bias", "dtype", "n_components")})
    for key in ("kind:" + case["kind"], "k:%d" % k, "V:%d" % V, "mode:" + (case["mode"] if edges else "diagonal"),
                "bias:%d" % case["bias"], "dtype:" + case["dtype"],
                "n_components:" + ("none" if case["n_components"] is None else "truncated"),
                "api:" + ("GMRFModel" if case["vectorizable"] else "GMRFVectorModel"),
                "isolated:%s" % (len({v for e in edges for v in e}) < V and bool(edges))):
        ctx.count(key)

    model_op = "build"
    impl_failed = res[0] != "ok"
    if impl_failed:
        pattern = "raises-" + res[1]
        if dim == 1 and res[1] == "LinAlgError":
            ctx.fail("C12/build/scalar-feature", pattern,
                     "constructing the model raises %s (%s): one feature per vertex with %s makes np.cov return a "
                     "0-dimensional array that _covariance_matrix_inverse cannot invert; the property demands a model "
                     "for any number of features per vertex" % (res[1], res[2], "an edgeless graph" if not edges else
                                                                 "mode='subtraction'"), rp)
            model_op = "build-coded"
        else:
            ctx.fail(site + "/build", pattern, "constructing the model raises %s: %s" % (res[1], res[2]), rp)
    else:
        ms, md, g = res[1]
        try:
            oracle(ctx, case, ms, md, E, Ef, exact, scale, tol, site, rp)
        except common.Infra:
            raise
        except Exception as e:  # an exception inside the public API calls of the oracle is an oracle failure
            ctx.fail(site + "/query", "raises-" + type(e).__name__, "a query on the built model raised %s: %s" % (
                type(e).__name__, str(e)[:120]), rp)
            impl_failed = True

    if not with_model:
        return True
    # ---- model line
    cid = "m%d" % len(lines)
    m = "c" if case["mode"] == "concatenation" else "s"
    if impl_failed and model_op == "build":
        return True
    if res[0] == "ok":
        g_edges = [tuple(int(x) for x in e) for e in res[1][2].edges.tolist()]
    else:
        g_edges = edges
    etoks = "%d %s" % (len(g_edges), " ".join("%d %d" % e for e in g_edges))
    X = [[Fraction(x) for x in r] for r in case["X"]]
    Q = [[Fraction(x) for x in r] for r in case["Q"]]
    if exact or model_op == "build-coded":
        lines.append("%s %s %s %d %d %d %s %s %s" % (cid, model_op, m, k, V, case["bias"], etoks, common.fmat(X), common.fmat(Q)))
    else:
        # blocks in the order of graph.edges (the harness' own unit order may differ): recompute per g edge
        Xf = X
        if g_edges:
            datas = [edge_rows(Xf, k, case["mode"], e) for e in g_edges]
        else:
            datas = [[r[v * k:(v + 1) * k] for r in Xf] for v in range(V)]
        bl = []
        for D in datas:
            Bt, ok = trunc_inv(f_cov(D, case["bias"]), case["n_components"])
            if not ok:
                return True
            bl.append(Bt)
        lines.append("%s given %s %d %d %s %d %s %s %s" % (
            cid, m, k, V, etoks, len(bl), " ".join(common.fmat(B.tolist()) for B in bl), common.fmat(X), common.fmat(Q)))
    pending[cid] = (case, res, scale, tol, model_op)
    return True


def oracle(ctx, case, ms, md, E, Ef, exact, scale, tol, site, rp):
    """the property statement on the real objects (independent of the Lean model)"""
    import numpy as np
    import scipy.sparse as sp
    k, V = case["k"], case["V"]
    n = V * k
    edges = [tuple(e) for e in case["edges"]]
    adj = {(u, v) for u, v in edges} | {(v, u) for u, v in edges}
    bound = tol * (1.0 + scale)
    ctx.check(sp.issparse(ms.precision) and isinstance(md.precision, np.ndarray), site + "/storage", "wrong-type",
              "sparse=True must store a scipy sparse matrix and sparse=False an ndarray, got %s / %s" % (
                  type(ms.precision).__name__, type(md.precision).__name__), rp)
    Ps = np.asarray(ms.precision.toarray() if sp.issparse(ms.precision) else ms.precision, dtype=float)
    Pd = np.asarray(md.precision.toarray() if sp.issparse(md.precision) else md.precision, dtype=float)
    want_dt = case["dtype"]
    ctx.check(str(ms.precision.dtype) == want_dt and str(md.precision.dtype) == want_dt, site + "/dtype", "wrong-dtype",
              "precision dtype %s / %s, requested %s" % (ms.precision.dtype, md.precision.dtype, want_dt), rp)
    if Ps.shape != (n, n) or Pd.shape != (n, n):
        ctx.fail(site + "/shape", "wrong-shape", "precision shapes %r / %r, expected (%d, %d)" % (Ps.shape, Pd.shape, n, n), rp)
        return
    # storage independent
    dsd = float(np.abs(Ps - Pd).max())
    if dsd > bound:
        I, J = np.unravel_index(np.abs(Ps - Pd).argmax(), Ps.shape)
        ctx.fail(site + "/sparse-vs-dense", "differ",
                 "sparse and dense precision differ by %.3g at entry (%d,%d) [blocks %d,%d]: sparse %.9g dense %.9g" % (
                     dsd, I, J, I // k, J // k, Ps[I, J], Pd[I, J]), rp)
    # exact: sum of the placed inverted covariances
    for name, P in (("sparse", Ps), ("dense", Pd)):
        de = float(np.abs(P - Ef).max())
        if de > bound:
            I, J = np.unravel_index(np.abs(P - Ef).argmax(), P.shape)
            ctx.fail(site + "/exact/" + name, "not-the-sum",
                     "%s precision differs from the sum of the placed inverted covariances by %.3g at entry (%d,%d) "
                     "[blocks %d,%d]: got %.9g expected %.9g" % (name, de, I, J, I // k, J // k, P[I, J], Ef[I, J]), rp)
        # symmetric
        da = float(np.abs(P - P.T).max())
        ctx.check(da <= bound, site + "/symmetric/" + name, "asymmetric",
                  "%s precision is not symmetric (max |P - P'| = %.3g)" % (name, da), rp)
        # positive semi-definite
        w = np.linalg.eigvalsh((P + P.T) / 2.0)
        ctx.check(w.min() >= -bound * n, site + "/psd/" + name, "negative-eigenvalue",
                  "%s precision has eigenvalue %.3g" % (name, w.min()), rp)
        # graph sparse
        for u in range(V):
            for v in range(V):
                if u != v and (u, v) not in adj:
                    blk = P[u * k:(u + 1) * k, v * k:(v + 1) * k]
                    if np.abs(blk).max() > bound:
                        ctx.fail(site + "/graph-sparse/" + name, "couples-non-adjacent",
                                 "%s precision couples vertices %d and %d (|block| = %.3g) which the graph does not join" % (
                                     name, u, v, np.abs(blk).max()), rp)
    # mean
    X = [[Fraction(x) for x in r] for r in case["X"]]
    mu = [sum(r[j] for r in X) / len(X) for j in range(n)]
    for name, mod in (("sparse", ms), ("dense", md)):
        mv = np.asarray(mod.mean_vector, dtype=float)
        mm = mod.mean()
        mm = np.asarray(mm.as_vector() if hasattr(mm, "as_vector") else mm, dtype=float)
        ok = mv.shape == (n,) and mm.shape == (n,) and all(common.close(mv[j], mu[j], 8.0, TOL64) and
                                                           common.close(mm[j], mu[j], 8.0, TOL64) for j in range(n))
        ctx.check(ok, site + "/mean/" + name, "not-sample-mean", "model mean %r is not the sample mean %r" % (
            mv.tolist(), [float(x) for x in mu]), rp)
    # Mahalanobis
    Q = [[Fraction(x) for x in r] for r in case["Q"]]
    q = np.array([[float(x) for x in r] for r in Q])
    want = []
    for r in Q:
        z = [a - b for a, b in zip(r, mu)]
        if exact:
            want.append(float(sum(z[i] * E[i][j] * z[j] for i in range(n) for j in range(n))))
        else:
            zf = np.array([float(x) for x in z])
            want.append(float(zf.dot(Ef).dot(zf)))
    dscale = max([abs(x) for x in want] + [scale * float(np.abs(q).max() + 8.0) ** 2 * 4])
    dbound = tol * (1.0 + dscale)
    got = {}
    for name, mod in (("sparse", ms), ("dense", md)):
        for single in (False, True):
            got[name, single] = mahal(mod, case, q, single)
    for (name, single), d in got.items():
        lbl = "%s/%s" % (name, "single" if single else "batched")
        if len(d) != len(want):
            ctx.fail(site + "/mahalanobis/" + lbl, "wrong-length", "got %d distances for %d queries" % (len(d), len(want)), rp)
            continue
        ctx.check(all(x >= -dbound for x in d), site + "/mahalanobis/" + lbl, "negative", "negative distance %r" % (d,), rp)
        ctx.check(all(abs(a - b) <= dbound for a, b in zip(d, want)), site + "/mahalanobis/" + lbl, "not-quadratic-form",
                  "distances %r differ from (x-mu)'P(x-mu) = %r" % (d, want), rp)
    if all(len(d) == len(want) for d in got.values()):
        ctx.check(all(abs(a - b) <= dbound for a, b in zip(got["sparse", False], got["dense", False])),
                  site + "/mahalanobis/sparse-vs-dense", "differ", "sparse %r dense %r" % (
                      got["sparse", False], got["dense", False]), rp)
        for name in ("sparse", "dense"):
            ctx.check(all(abs(a - b) <= dbound for a, b in zip(got[name, False], got[name, True])),
                      site + "/mahalanobis/batch-vs-single/" + name, "differ", "batched %r single %r" % (
                          got[name, False], got[name, True]), rp)
    for name, mod in (("sparse", ms), ("dense", md)):
        mmean = mod.mean()
        d0 = float(mod.mahalanobis_distance(mmean))
        ctx.check(abs(d0) <= dbound, site + "/mahalanobis/at-mean/" + name, "non-zero", "distance of the mean is %r" % d0, rp)
        ds = float(mod.mahalanobis_distance(mmean, subtract_mean=True, square_root=True))
        ctx.check(abs(ds) <= max(dbound, dbound ** 0.5), site + "/mahalanobis/at-mean/" + name, "non-zero-sqrt",
                  "square-root distance of the mean is %r" % ds, rp)
    # contract of scipy's BSR (trusted base, spot-verified): toarray() sums the stored blocks
    if sp.issparse(ms.precision) and hasattr(ms.precision, "indptr") and hasattr(ms.precision, "blocksize"):
        b = ms.precision
        man = np.zeros((n, n))
        R, C_ = b.blocksize
        for i in range(len(b.indptr) - 1):
            for p in range(int(b.indptr[i]), int(b.indptr[i + 1])):
                j = int(b.indices[p])
                man[i * R:(i + 1) * R, j * C_:(j + 1) * C_] += b.data[p]
        if float(np.abs(man - Ps).max()) > bound:
            ctx.notes["bsr_contract_violated"] = "bsr toarray() is not the sum of the stored blocks on some case"
            raise common.Infra("scipy bsr_matrix contract (toarray = sum of stored blocks) does not hold in this environment")
        ctx.count("contract:bsr-toarray-sums-blocks")
    if exact and case["n_components"] is None:
        # contract of np.linalg.inv spot-verified: C * inv(C) = 1 on the first unit
        units = edges if edges else list(range(V))
        D = edge_rows(X, k, case["mode"], units[0]) if edges else [r[units[0] * k:(units[0] + 1) * k] for r in X]
        Cf = np.array([[float(x) for x in r] for r in f_cov(D, case["bias"])])
        if float(np.abs(Cf.dot(np.linalg.inv(Cf)) - np.eye(len(Cf))).max()) > 1e-8:
            raise common.Infra("np.linalg.inv contract does not hold in this environment")
        ctx.count("contract:inv")


# ------------------------------------------------------------------------------- model comparison

def parse_reply(reply, n):
    toks = reply.split()
    if toks[0] != "ok":
        return None
    out, key = {}, None
    for t in toks[1:]:
        if t in ("D", "S", "IP", "MU", "MS", "MD"):
            key = t
            out[key] = []
        else:
            out[key].append(t)
    return out


def compare_model(ctx, model, pending):
    import numpy as np
    import scipy.sparse as sp
    for cid, (case, res, scale, tol, model_op) in pending.items():
        reply = model[cid]
        rp = dict(case=case, model_reply=reply[:400])
        n = case["V"] * case["k"]
        if res[0] != "ok":
            obs = "err zerodim" if res[1] == "LinAlgError" else "err " + res[1]
            if reply != obs:
                ctx.mismatch(model_op, "implementation raised %s, model says %r" % (res[1], reply[:80]), rp)
            else:
                ctx.count("model:agrees-on-failure")
            continue
        out = parse_reply(reply, n)
        if out is None:
            ctx.mismatch(model_op, "model says %r, implementation built a model" % reply[:80], rp)
            continue
        ms, md, g = res[1]
        bound = tol * (1.0 + scale)
        Ps = np.asarray(ms.precision.toarray() if sp.issparse(ms.precision) else ms.precision, dtype=float)
        Pd = np.asarray(md.precision, dtype=float) if not sp.issparse(md.precision) else md.precision.toarray()
        D = np.array([float(Fraction(t)) for t in out["D"]]).reshape(n, n)
        S = np.array([float(Fraction(t)) for t in out["S"]]).reshape(n, n)
        if Pd.shape != (n, n) or float(np.abs(Pd - D).max()) > bound:
            ctx.mismatch("dense-precision", "dense precision differs from the model by %.3g" % (
                float(np.abs(Pd - D).max()) if Pd.shape == (n, n) else -1), rp)
        if Ps.shape != (n, n) or float(np.abs(Ps - S).max()) > bound:
            ctx.mismatch("sparse-precision", "sparse precision differs from the model by %.3g" % (
                float(np.abs(Ps - S).max()) if Ps.shape == (n, n) else -1), rp)
        if sp.issparse(ms.precision) and hasattr(ms.precision, "indptr"):
            ip = [int(x) for x in ms.precision.indptr.tolist()]
            if ip != [int(t) for t in out["IP"]]:
                ctx.mismatch("indptr", "indptr %r, model %r" % (ip, out["IP"]), rp)
        mu = [float(Fraction(t)) for t in out["MU"]]
        if not all(common.close(a, b, 8.0, TOL64) for a, b in zip(np.asarray(ms.mean_vector, dtype=float).tolist(), mu)):
            ctx.mismatch("mean", "mean differs from the model", rp)
        q = np.array([[float(Fraction(x)) for x in r] for r in case["Q"]])
        dscale = scale * float(np.abs(q).max() + 8.0) ** 2 * 4
        try:
            ds = mahal(ms, case, q, False)
            dd = mahal(md, case, q, False)
        except Exception:
            continue  # already an oracle failure
        MS = [float(Fraction(t)) for t in out["MS"]]
        MD = [float(Fraction(t)) for t in out["MD"]]
        dscale = max([dscale] + [abs(x) for x in MS])
        if len(ds) != len(MS) or not all(abs(a - b) <= tol * (1 + dscale) for a, b in zip(ds, MS)):
            ctx.mismatch("mahalanobis-sparse", "distances %r, model %r" % (ds, MS), rp)
        if len(dd) != len(MD) or not all(abs(a - b) <= tol * (1 + dscale) for a, b in zip(dd, MD)):
            ctx.mismatch("mahalanobis-dense", "distances %r, model %r" % (dd, MD), rp)
        ctx.count("model:compared")


# ------------------------------------------------------------------------------- exploration

DIRECTED_CORNERS = [
    # isolated first / last vertex, star, path, triangle, every k; exercised in every run
    dict(kind="undirected", V=4, edges=[[1, 2]]),
    dict(kind="undirected", V=5, edges=[[1, 3], [3, 2]]),
    dict(kind="directed", V=4, edges=[[3, 0], [2, 0], [1, 0]]),
    dict(kind="directed", V=3, edges=[[0, 1], [1, 2], [2, 0]]),
    dict(kind="undirected", V=3, edges=[[0, 1], [0, 2], [1, 2]]),
    dict(kind="tree", V=4, edges=[[2, 0], [2, 1], [1, 3]], root=2),
    dict(kind="edgeless", V=2),
    dict(kind="edgeless-directed", V=3),
]


def corpus(ctx, lines, pending):
    """minimised past failures (replays/corpus/C12-*.json) are re-run first on every check"""
    import glob
    import os
    for path in sorted(glob.glob(os.path.join(common.ROOT, "replays", "corpus", "C12-*.json"))):
        case = (json.load(open(path)).get("replay") or {}).get("case")
        if case:
            ctx.count("corpus-replay")
            run_case(ctx, case, lines, pending)


def explore(ctx, n_random, lines, pending, with_model=True, corners=True):
    rng = ctx.rng
    done = 0
    if corners:
        for c in DIRECTED_CORNERS:
            for k in (1, 2, 3):
                for mode in ("concatenation", "subtraction"):
                    if c["kind"].startswith("edgeless") and mode == "subtraction":
                        continue
                    for _ in range(20):
                        case = gen_case(rng, dict(c, k=k, mode=mode, n_components=None))
                        if run_case(ctx, case, lines, pending, with_model):
                            break
    tries = 0
    while done < n_random and tries < 20 * n_random + 100:
        tries += 1
        if run_case(ctx, gen_case(rng), lines, pending, with_model):
            done += 1


def small_graphs(ctx, lines, pending):
    """every undirected graph and every orientation class representative on 2..4 vertices, k = 1, 2 (oracle only)"""
    import itertools
    rng = ctx.rng
    for V in (2, 3, 4):
        pairs = [(i, j) for i in range(V) for j in range(i + 1, V)]
        for mask in range(1 << len(pairs)):
            es = [p for b, p in enumerate(pairs) if mask >> b & 1]
            for kind in ("undirected", "directed"):
                if kind == "directed":
                    es2 = [(a, b) if rng.random() < 0.5 else (b, a) for a, b in es]
                else:
                    es2 = es
                k = rng.choice([1, 2])
                force = dict(kind=kind if es2 else "edgeless", V=V, edges=[list(e) for e in es2], k=k,
                             mode=rng.choice(["concatenation", "subtraction"]), n_components=None)
                for _ in range(20):
                    if run_case(ctx, gen_case(rng, force), lines, pending, with_model=False):
                        break


def search(ctx):
    """directed search on the real code (oracle only): neighbours of the mismatching cases, all small graphs,
    then the thorough generator"""
    lines, pending = [], {}
    before = ctx.evaluations
    rng = ctx.rng
    for op, text, rp in list(ctx.mismatches)[:8]:
        case = rp.get("case") if isinstance(rp, dict) else None
        if not case:
            continue
        for mode in ("concatenation", "subtraction"):
            for bias in (0, 1):
                for dtype in ("float64", "float32"):
                    for sp_nc in (None, case.get("n_components")):
                        force = dict(kind=case["kind"], V=case["V"], k=case["k"], edges=case["edges"], root=case["root"],
                                     mode=mode, bias=bias, dtype=dtype, n_components=sp_nc)
                        for _ in range(10):
                            if run_case(ctx, gen_case(rng, force), lines, pending, with_model=False):
                                break
        if ctx.failures:
            break
    if not ctx.failures:
        small_graphs(ctx, lines, pending)
    if not ctx.failures:
        explore(ctx, 600, lines, pending, with_model=False, corners=True)
    ctx.searched += ctx.evaluations - before
    return bool(ctx.failures)


def run(ctx):
    common.prepare_lean(ctx, PROP, IMPORTS, THEOREMS)
    ctx.trusted += ["scipy.sparse.bsr_matrix denotation (duplicates summed; spot-verified every case)",
                    "np.linalg.inv / np.linalg.svd / np.cov contracts (spot-verified; the model inverts exactly and checks C*B=1)"]
    lines, pending = [], {}
    corpus(ctx, lines, pending)
    explore(ctx, ctx.n(320, 2600), lines, pending)
    if ctx.tier == "thorough":
        small_graphs(ctx, lines, pending)
    if lines:
        model = common.run_driver(PROP, lines)
        compare_model(ctx, model, pending)
    return ctx.finish(search)


def replay(ctx, path):
    data = json.load(open(path))
    rp = data.get("replay") or {}
    case = rp.get("case")
    if case is None:
        for item in data.get("broken_correspondence", []):
            if isinstance(item.get("case"), dict) and "case" in item["case"]:
                case = item["case"]["case"]
                break
    if case is None:
        print("no recorded case in %s; re-running the quick exploration with seed %r" % (path, data.get("seed")))
        return run(common.Ctx(PROP, "quick", int(data.get("seed", 0))))
    print("replaying recorded case: %s" % json.dumps({k: case[k] for k in case if k not in ("X", "Q")}))
    common.prepare_lean(ctx, PROP, IMPORTS, THEOREMS)
    lines, pending = [], {}
    if not run_case(ctx, case, lines, pending):
        print("recorded case is rejected by the generator's conditioning guard")
    if lines:
        compare_model(ctx, common.run_driver(PROP, lines), pending)
    return ctx.finish(None)
