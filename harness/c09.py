"""C09 — apply() is pure: no history, aliasing or batch-size effects (DESIGN.md section 6, C09).

Parties: the real transforms; the oracle (every output against a *fresh* transform of the same
parameters applied to a *copy* of the current input; batched against unbatched; failure mask
against the per-point containment test); the Lean model (batch structure, failure mask of the
batched piecewise-affine apply, the CachedPWA memo as a state machine).
"""
import json

from . import common
from . import trans_c09

PROP = "C09"
INFO = dict(
    technique="Lean 4 proof (batching = unbatched for every batch size by induction; the piecewise-affine point "
              "location of index_alpha_beta modelled array operation by array operation over the rationals and "
              "proved equal to its per-point reading: failure-mask exactness, batch-size / grouping / permutation "
              "independence, barycentric image; chains and WithDims as folds; memo state machine refines the "
              "stateless function over every operation history) + SOURCE-TO-LEAN TRANSLATION of 13 anchored functions "
              "on every run (harness/py2lean2.py Translator2T + harness/trans_c09.py -> Generated/C09Src.lean) with "
              "equality obligations `translated = model definition` for all arguments (GenProps/C09Src.lean) + "
              "regenerated write / hidden-state tables with `decide` obligations + model/implementation "
              "correspondence and fresh-transform oracle on random histories",
    level_text="Theorems over an executable model of Transform.apply / _apply_batched, AbstractPWA._apply_batched / "
               "_apply, alpha_beta, containment_from_alpha_beta, index_alpha_beta (numpy's nonzero + repeated-index "
               "assignment: the last containing triangle stays), PythonPWA / CachedPWA.index_alpha_beta, "
               "TransformChain._apply / _apply_batched, WithDims._apply, pwa_point_in_pointcloud: batched = unbatched "
               "for every valid batch size and every list, also for chains; the piecewise-affine failure mask has one "
               "entry per input point and flags exactly the points outside every source triangle, batched (any k, any "
               "grouping) or not; (alpha, beta) are the barycentric coordinates, containment = closed triangle, image = "
               "barycentric combination of the target vertices; the result is equivariant under every permutation of "
               "the input points; for every finite interleaving of applies and in-place edits a memo that OWNS a copy of its "
               "key (type Owned = np.array(points, copy=True)) returns the stateless piecewise-affine result.  All "
               "geometric statements (closed triangle, outside every triangle) are about source triangles of non-zero "
               "area: the model divides in the rationals (1/0 = 0) where numpy yields inf / nan (see assumptions).  The behaviours "
               "coded before the repairs are refuted by kernel-checked witnesses.  These 13 functions are no longer "
               "only transcribed: their SOURCE TEXT in the working tree is translated to Lean on every run (for loops "
               "over range(0, n, k) as folds, try / except / else with the handler seeing the state at the point of "
               "the raise, closures, attribute writes as state) and each translation is proved equal, for all "
               "arguments, to the definition of Core/C09Src.lean of the same name, which Props/C09Src.lean proves "
               "equal to the model; batched_eq_unbatched_translated, pwa_mask_exact_translated, "
               "pwa_translated_end_to_end, chain_pwa_batched_translated, cachedPwa_history_pure_translated, "
               "apply_shape_translated state the property about the translated functions themselves.  The copy of the memo key is visible to the translation: storing the caller's "
               "array itself (the defect repaired by d62a379) does not type-check against the model definition, so "
               "cachedIab_eq breaks.  A harmless "
               "rewrite of the Python (renamed or extra temporaries, re-ordered statements, inverted tests, early returns "
               "instead of else, De Morgan, a raising list comprehension instead of an append-loop - normalised by the "
               "translator to the loop) keeps the proofs; a changed decision that the vocabulary separates (another bound, slice, accumulator, branch, "
               "order of attribute writes, argument order of the stored arrays, vstack vs hstack, a dropped [:, None], a "
               "dropped copy of the memo key, an operand of the barycentric formulas) or source outside the vocabulary "
               "breaks an obligation, followed by the directed search; decisions mapped to the identity by the rule "
               "tables (astype(np.uint32), WithDims' y.copy(), dtype=bool / dtype of np.zeros) are NOT seen by the "
               "obligations and are decided by the oracle and the correspondence only.  "
               "Further tied to /repo by (i) the correspondence: real histories (array reuse, in-place edits, inputs "
               "1e-7 apart), all batch sizes 1..n+2, zero/one point, integer dtypes, in/out-of-domain mixes, meshes "
               "with overlapping triangles and holes, points EXACTLY ON shared edges / vertices / the outline and a "
               "hair outside on meshes whose arithmetic is exact in floating point, random chains, pixel grids against "
               "point clouds, each diffed against the Lean driver running the Core/C09Src definitions over exact "
               "rationals; (ii) regenerated tables: attribute writes of every public application on live objects of "
               "every Transform subclass, class coverage, places for module-level state, measured global writes, "
               "defaults of batch_size; (iii) an independent fresh-transform / exact-geometry oracle that decides the "
               "property on the real code.",
    level_note="Trusted: Lean kernel; axioms propext/Classical.choice/Quot.sound; Python harness; driver parser; the "
               "translator (harness/py2lean2.py, self-test tools/test_py2lean2.py: 416 evaluations Python vs #eval) and "
               "the C09 rule tables (harness/trans_c09.py: which numpy expression is which operation of "
               "Core/C09Src.lean - einsum / nonzero / fancy indexing / broadcasting as transcribed there; there is no "
               "separate numpy-vs-#eval test of these words: they are exercised by the correspondence, because the "
               "driver executes exactly those definitions, on non-degenerate meshes and in-range indices only).  Modelled, not verified: "
               "the per-point map of the non-piecewise transform classes is an abstract function (affine members of "
               "chains are modelled exactly); Delaunay triangulation (scipy) is an input; float rounding is absorbed "
               "by a 1e-9 tolerance and, on general meshes, by rejecting query points within 1e-6 (barycentric units) "
               "of a triangle edge, decided exactly; on power-of-two meshes nothing is rejected.",
    rule="a case = one history (2-10 applies with reuse / in-place edits / near-equal inputs) or one (points, batch "
         "size, in/out-of-domain mask) triple on one transform class, or one (mesh, query points, batch size / "
         "permutation) point-location case, or one (chain, points, batch size) case, or one (point cloud, pixel grid, "
         "batch size) case; distinct = distinct (class, history/mask/batch size/mesh/points); non-trivial = at least "
         "two applies or a batch size that is not 1, n or None",
    partial=["non-degenerate meshes only: on a source mesh with a zero-area triangle the model (rational division, 1/0 = 0: "
             "alpha = beta = 0, `contains` true for every point) differs from numpy (inf / nan: such a triangle contains "
             "nothing); pwa_src_end_to_end / pwa_translated_end_to_end / pointInPointcloud_translated are statements "
             "about the model's `contains`, which is the closed triangle only under gram != 0 "
             "(contains_iff_closed_triangle); the correspondence does not drive degenerate meshes, the oracle does "
             "(family `degenerate`: zero-area triangles among proper ones, judged with the zero-area ones left out)",
             "which of several containing triangles is reported is not part of the property; oracle and correspondence "
             "accept any containing triangle / any of the per-triangle images (counted as tie-choice-differs-from-model), "
             "but the obligations containment_eq / indexAlphaBeta_eq pin the code's choice (nonzero + repeated-index "
             "assignment = last containing triangle): an implementation that chooses differently satisfies the "
             "property and is reported as `no-failing-input-found`",
             "the memo is RETURNED by reference by the public method CachedPWA.index_alpha_beta (`return self._iab`): a "
             "caller that edits the returned arrays in place changes later results of apply for equal input values; "
             "the property's list (arrays PASSED earlier, observed at apply) does not name this channel, the model "
             "(values) cannot express it and the oracle does not exercise it",
             "apply on a shape: `x._transform(f)` is the hand-written PyVal.transform (a copy holding f(points)); the "
             "real PointCloud._transform / landmark path (menpo/shape, menpo/landmark) is neither anchored nor "
             "translated, so applySrc_shape / apply_shape_translated are about Transform.apply's own try / except and "
             "closure only; that shapes and arrays agree on the real code is decided by the oracle (shape applies in "
             "histories, batches and mesh cases)",
             "resolution of the history oracle: outputs are compared to 1e-10 relative, so a memo whose hit tolerance is "
             "below about 1e-9 returns stale answers the oracle cannot tell from correct ones (inputs 1e-6 .. one ulp "
             "apart are generated; 1e-8 and coarser are detected); such a memo still breaks the obligation cachedIab_eq "
             "and is then reported as `no-failing-input-found`",
             "totalised where numpy raises, never driven: a column number outside the points reads 0 (selectCols), a "
             "triangle number outside the target reads the default triangle (gatherPts), finishApply (.ok none) = .ok "
             "[], the 1-D branch of withDims_batched_src, pyRange n 0 (Python: ValueError; every property theorem "
             "carries ValidBatch)",
             "statelessness of the non-caching transform classes is `pure_of_no_writes` / `apply_eq_fresh` under a frame "
             "hypothesis that is checked, not proved: regenerated obligations `applyWrites_ok`, `globalWrites_ok` "
             "(measured on live objects of every class for every public application each run), "
             "`transformClasses_covered`, `hiddenState_ok` (no mutable module global / class attribute / default / "
             "function attribute / memoising wrapper / closure cell in menpo/transform/** and menpo/image/boolean.py); "
             "state kept outside those modules (menpo.shape / menpo.base on the _transform / copy path of shape applies, "
             "numpy, other packages) is decided by the fresh-transform oracle only; dtype promotion of np.vstack "
             "(integer inputs, seeded C09-2) is outside the model and decided by the oracle",
             "BooleanImage.constrain_to_pointcloud itself (bounding-box restriction of the pixel indices, slice "
             "assignment of the mask, functools.partial passing batch_size on) is not translated: the function it "
             "delegates to (pwa_point_in_pointcloud) is; the wrapper is decided by the oracle on every pixel (also on "
             "the outline) for every batch size, and by the obligation that its batch_size default is None"],
    assumptions=["numpy computations on equal values and equal shapes are deterministic to 1e-10",
                 "source triangles are non-degenerate (non-zero Gram determinant) wherever model and theorems speak of "
                 "closed triangles; menpo itself accepts a TriMesh with zero-area triangles",
                 "the `_apply` of every non-piecewise transform class acts point by point (commutes with concatenation): "
                 "hypothesis of batched_eq_unbatched_hom, sampled by the batch oracle on every class",
                 "for a repeated index in a fancy-index assignment numpy keeps the last value (documented numpy "
                 "behaviour; decides which of several containing triangles index_alpha_beta reports, not the "
                 "property: on a consistent mesh the image is the same, theorem triImage_shared_edge)"],
    design_ref="DESIGN.md section 6, C09")
IMPORTS = ["MenpoModel.Props.C09", "MenpoModel.GenProps.C09", "MenpoModel.GenProps.C09Src"]
GEN_THEOREMS = [
    "MenpoModel.GenProps.C09.applyWrites_ok",
    "MenpoModel.GenProps.C09.transformClasses_covered",
    "MenpoModel.GenProps.C09.hiddenState_ok",
    "MenpoModel.GenProps.C09.globalWrites_ok",
]
THEOREMS = [
    # batching
    "MenpoModel.C09.batched_eq_unbatched_hom",
    "MenpoModel.C09.batched_eq_unbatched",
    # abstract failure mask
    "MenpoModel.C09.pwa_mask_exact_unbatched",
    "MenpoModel.C09.pwa_batched_fixed_eq",
    "MenpoModel.C09.pwa_batched_coded_refuted",
    "MenpoModel.C09.pwa_grouping_eq",
    "MenpoModel.C09.pwa_perm_equivariant",
    "MenpoModel.C09.pwa_reindex_of_ok",
    # point location of the piecewise affine transform
    "MenpoModel.C09.containmentFromAlphaBeta_eq",
    "MenpoModel.C09.indexAlphaBeta_eq",
    "MenpoModel.C09.pwaApply_eq_toPwa",
    "MenpoModel.C09.locate_spec",
    "MenpoModel.C09.pointMap_spec",
    "MenpoModel.C09.pwa_mask_outside_every_triangle",
    "MenpoModel.C09.pwaApplyBatched_eq",
    "MenpoModel.C09.pwaApply_perm_equivariant",
    "MenpoModel.C09.pointInPointcloud_eq",
    "MenpoModel.C09.pointInPointcloud_batch_independent",
    # barycentric algebra
    "MenpoModel.C09.gram_eq_cross_sq",
    "MenpoModel.C09.alphaBeta_reconstruct",
    "MenpoModel.C09.alphaBeta_unique",
    "MenpoModel.C09.contains_iff_closed_triangle",
    "MenpoModel.C09.pointMap_barycentric",
    "MenpoModel.C09.pointMap_identity",
    "MenpoModel.C09.locate_of_unique",
    "MenpoModel.C09.pointMap_eq_triImage",
    "MenpoModel.C09.triImage_rotate",
    "MenpoModel.C09.triImage_swap",
    "MenpoModel.C09.triImage_shared_edge",
    # chains and wrappers
    "MenpoModel.C09.chain_isHom",
    "MenpoModel.C09.chain_batched_eq_unbatched",
    "MenpoModel.C09.chain_pointwise",
    "MenpoModel.C09.chain_pointwise_batched",
    "MenpoModel.C09.chain_nested",
    "MenpoModel.C09.withDims_batched",
    "MenpoModel.C09.chainE_wrap",
    "MenpoModel.C09.applyBatchedE_ok",
    "MenpoModel.C09.applyBatchedE_error_one_batch",
    "MenpoModel.C09.chain_generic_batched_refuted",
    "MenpoModel.C09.chain_pwa_batched_fixed_eq",
    # memo / histories
    "MenpoModel.C09.apply_pure_fixed",
    "MenpoModel.C09.fresh_memoOk",
    "MenpoModel.C09.apply_pure_coded_refuted_aliasing",
    "MenpoModel.C09.apply_pure_coded_refuted_tolerance",
    "MenpoModel.C09.apply_pure_two_attributes",
    "MenpoModel.C09.fresh_memo2Ok",
    "MenpoModel.C09.apply_pure_keyfirst_refuted",
    "MenpoModel.C09.cachedPwa_history_pure",
    # frame => purity
    "MenpoModel.C09.pure_of_no_writes",
    "MenpoModel.C09.pure_of_no_writes_interleaved",
    "MenpoModel.C09.apply_eq_fresh",
    # the definitions that mirror the source text (= the translation of the working tree, GenProps/C09Src) are the model
    "MenpoModel.C09.pyRange_slices",
    "MenpoModel.C09.applyBatchedSrc_eq",
    "MenpoModel.C09.batched_eq_unbatched_src_hom",
    "MenpoModel.C09.batched_eq_unbatched_src",
    "MenpoModel.C09.applyBatchedSrc_error_one_batch",
    "MenpoModel.C09.pwaApplyBatchedSrc_eq_fold",
    "MenpoModel.C09.pwa_mask_exact_src",
    "MenpoModel.C09.pwaApplyBatchedSrc_eq_core",
    "MenpoModel.C09.alphaBetaSrc_eq",
    "MenpoModel.C09.containmentSrc_eq",
    "MenpoModel.C09.pythonIabSrc_eq",
    "MenpoModel.C09.pwaApplySrc_eq",
    "MenpoModel.C09.pwa_src_end_to_end",
    "MenpoModel.C09.chainApplySrc_eq",
    "MenpoModel.C09.chain_batched_src",
    "MenpoModel.C09.chain_pwa_batched_src",
    "MenpoModel.C09.cachedIabSrc_hit_iff",
    "MenpoModel.C09.step2_eq_cachedIabSrc",
    "MenpoModel.C09.runSrc_eq_run2",
    "MenpoModel.C09.cachedPwa_history_pure_src",
    "MenpoModel.C09.withDimsSrc_eq",
    "MenpoModel.C09.withDims_batched_src",
    "MenpoModel.C09.applySrc_arr",
    "MenpoModel.C09.applySrc_shape",
    "MenpoModel.C09.pointInPointcloudSrc_eq",
] + GEN_THEOREMS + trans_c09.GEN_THEOREMS

TOL = 1e-9


# ------------------------------------------------------------------------------- transform zoo

def _grid_mesh(rng, np):
    """jittered 3x3 grid in [0,8]^2 with a fixed triangulation (no folding: jitter < 1/4 cell)"""
    from menpo.shape import TriMesh
    pts = []
    for i in range(3):
        for j in range(3):
            pts.append([4.0 * i + rng.randint(-3, 3) / 4.0, 4.0 * j + rng.randint(-3, 3) / 4.0])
    tl = []
    for i in range(2):
        for j in range(2):
            a, b, c, d = 3 * i + j, 3 * i + j + 1, 3 * (i + 1) + j, 3 * (i + 1) + j + 1
            tl += [[a, b, c], [b, d, c]]
    return TriMesh(np.array(pts), trilist=np.array(tl))


def zoo(rng):
    """list of (name, factory() -> fresh transform, n_dims, domain) ; domain 'pwa' or 'all'"""
    import numpy as np
    import menpo.transform as mt
    from menpo.transform.piecewiseaffine.base import PythonPWA
    from menpo.shape import PointCloud
    out = []

    def dy(lo=-16, hi=16, m=2):
        return rng.randint(lo * 2 ** m, hi * 2 ** m) / float(2 ** m)

    for d in (2, 3):
        h = np.eye(d + 1)
        h[:d, :] = [[dy(-2, 2) for _ in range(d + 1)] for _ in range(d)]
        h[:d, :d] += 3 * np.eye(d)
        hp = h.copy()
        hp[d, :d] = [rng.randint(0, 2) / 64.0 for _ in range(d)]
        out.append(("Homogeneous%dD" % d, (lambda hp=hp: mt.Homogeneous(hp.copy())), d, "all"))
        out.append(("Affine%dD" % d, (lambda h=h: mt.Affine(h.copy())), d, "all"))
        tr = [dy() for _ in range(d)]
        out.append(("Translation%dD" % d, (lambda tr=tr: mt.Translation(np.array(tr))), d, "all"))
        s = dy(1, 4)
        out.append(("UniformScale%dD" % d, (lambda s=s, d=d: mt.UniformScale(s, d)), d, "all"))
        ns = [dy(1, 4) for _ in range(d)]
        out.append(("NonUniformScale%dD" % d, (lambda ns=ns: mt.NonUniformScale(np.array(ns))), d, "all"))
    c, s_ = common.rat_circle(rng)
    r2 = np.array([[float(c), -float(s_)], [float(s_), float(c)]])
    out.append(("Rotation2D", (lambda: mt.Rotation(r2.copy())), 2, "all"))
    r3 = np.eye(3)
    r3[1:, 1:] = r2
    out.append(("Rotation3D", (lambda: mt.Rotation(r3.copy())), 3, "all"))
    sm = np.eye(3)
    sm[:2, :2] = 2.5 * r2
    sm[:2, 2] = [dy(), dy()]
    out.append(("Similarity2D", (lambda: mt.Similarity(sm.copy())), 2, "all"))
    # alignments
    src = np.array([[dy(-8, 8), dy(-8, 8)] for _ in range(6)])
    while np.linalg.matrix_rank(src - src.mean(0)) < 2:
        src = np.array([[dy(-8, 8), dy(-8, 8)] for _ in range(6)])
    tgt = src.dot(np.array([[1.5, 0.5], [-0.25, 2.0]])) + np.array([dy(), dy()]) + \
        np.array([[rng.randint(-2, 2) / 8.0, rng.randint(-2, 2) / 8.0] for _ in range(6)])
    for cls in ("AlignmentAffine", "AlignmentSimilarity", "AlignmentRotation", "AlignmentTranslation",
                "AlignmentUniformScale"):
        out.append((cls, (lambda cls=cls: getattr(mt, cls)(PointCloud(src.copy()), PointCloud(tgt.copy()))), 2, "all"))
    out.append(("ThinPlateSplines", (lambda: mt.ThinPlateSplines(PointCloud(src.copy()), PointCloud(tgt.copy()))), 2, "all"))
    out.append(("R2LogR2RBF", (lambda: mt.R2LogR2RBF(src.copy())), 2, "all"))
    out.append(("R2LogRRBF", (lambda: mt.R2LogRRBF(src.copy())), 2, "all"))
    aff = out[1][1]
    trl = out[2][1]
    out.append(("TransformChain", (lambda: mt.TransformChain([aff(), mt.Rotation(r2.copy()), trl()])), 2, "all"))
    out.append(("ChainWithTPS", (lambda: mt.TransformChain(
        [aff(), mt.ThinPlateSplines(PointCloud(src.copy()), PointCloud(tgt.copy()))])), 2, "all"))
    out.append(("WithDims", (lambda: mt.WithDims([0, 2])), 3, "all"))
    mesh = _grid_mesh(rng, np)
    tpts = mesh.points.dot(np.array([[1.25, 0.25], [-0.5, 1.5]])) + np.array([3.0, -2.0])
    out.append(("PiecewiseAffine", (lambda: mt.PiecewiseAffine(mesh.copy(), PointCloud(tpts.copy()))), 2, ("pwa", mesh)))
    out.append(("PythonPWA", (lambda: PythonPWA(mesh.copy(), PointCloud(tpts.copy()))), 2, ("pwa", mesh)))
    # a chain whose last member is piecewise affine: its domain is the mesh seen through the first member
    # (a translation by a multiple of 1/4, so that query points stay exact); domain tag carries the offset
    off = [rng.randint(-8, 8) / 4.0, rng.randint(-8, 8) / 4.0]
    out.append(("ChainWithPWA", (lambda: mt.TransformChain(
        [mt.Translation(np.array(off)), mt.PiecewiseAffine(mesh.copy(), PointCloud(tpts.copy()))])), 2,
        ("pwa", mesh, off)))
    return out


def inside_point(rng, mesh):
    """a point strictly inside one triangle of the mesh (barycentric weights with margin)"""
    tl = mesh.trilist[rng.randrange(len(mesh.trilist))]
    a = rng.randint(2, 10)
    b = rng.randint(2, 10)
    c = rng.randint(2, 10)
    w = [a / float(a + b + c), b / float(a + b + c), c / float(a + b + c)]
    p = sum(w[i] * mesh.points[tl[i]] for i in range(3))
    # dyadic (exact under the translations the generators use); weights >= 2/30 keep it well inside
    return [round(float(p[0]) * 64) / 64.0, round(float(p[1]) * 64) / 64.0]


def outside_point(rng):
    side = rng.randrange(4)
    t = rng.randint(-4, 40) / 4.0
    off = rng.randint(4, 20) / 4.0
    return [[-1.0 - off, t], [9.0 + off, t], [t, -1.0 - off], [t, 9.0 + off]][side]


def gen_points(rng, n, ndims, domain, frac_out=0.0):
    """(points ndarray of shape (n, ndims), in_domain list)"""
    import numpy as np
    pts, ind = [], []
    off = domain[2] if (domain != "all" and len(domain) > 2) else None
    for _ in range(n):
        if domain == "all":
            pts.append([rng.randint(-64, 64) / 4.0 + 0.125 for _ in range(ndims)])
            ind.append(True)
        else:
            if rng.random() < frac_out:
                pts.append(outside_point(rng))
                ind.append(False)
            else:
                pts.append(inside_point(rng, domain[1]))
                ind.append(True)
            if off is not None:
                pts[-1] = [pts[-1][0] - off[0], pts[-1][1] - off[1]]
    return np.array(pts, dtype=float).reshape(n, ndims), ind


def safe_apply(t, x, **kw):
    """('ok', array) | ('tce', mask) | ('exc', name)"""
    from menpo.transform.piecewiseaffine import TriangleContainmentError
    import numpy as np
    try:
        r = t.apply(x, **kw)
        return "ok", (r.points if hasattr(r, "points") else np.asarray(r))
    except TriangleContainmentError as e:
        return "tce", np.asarray(e.points_outside_source_domain)
    except Exception as e:
        return "exc", type(e).__name__


def same(a, b, tol=TOL):
    import numpy as np
    if a[0] != b[0]:
        return False
    if a[0] == "ok":
        return a[1].shape == b[1].shape and bool(np.all(np.abs(a[1] - b[1]) <= tol * (1 + np.abs(b[1]))))
    if a[0] == "tce":
        return a[1].shape == b[1].shape and bool(np.all(a[1] == b[1]))
    return a[1] == b[1]


# ------------------------------------------------------------------------------- exact geometry (oracle side)
# Orientation-based barycentric weights over exact rationals: independent of the Gram-determinant formula that
# menpo's alpha_beta (and the Lean model of it) use.

MARGIN = common.Fraction(1, 10 ** 6)


def _cross(u, v):
    return u[0] * v[1] - u[1] * v[0]


def tri_weights(A, B, C, P):
    """exact barycentric weights (wA, wB, wC) of P; None for a degenerate triangle"""
    ab, ac, ap = (B[0] - A[0], B[1] - A[1]), (C[0] - A[0], C[1] - A[1]), (P[0] - A[0], P[1] - A[1])
    den = _cross(ab, ac)
    if den == 0:
        return None
    wb, wc = _cross(ap, ac) / den, _cross(ab, ap) / den
    return 1 - wb - wc, wb, wc


def fpts(arr):
    return [tuple(common.frac(v) for v in row) for row in arr]


def locate_exact(spts, trilist, P):
    """(robust, containing triangle numbers): robust = P is at least MARGIN (barycentric units) away from the
    boundary of every triangle, so that the float decision cannot differ from the exact one"""
    cont, robust = [], True
    for t, (i, j, k) in enumerate(trilist):
        w = tri_weights(spts[i], spts[j], spts[k], P)
        if w is None:
            continue        # a zero-area triangle has no interior: it contains no point that is robustly anywhere
        m = min(w)
        if -MARGIN < m < MARGIN:
            robust = False
        if m > 0:
            cont.append(t)
    return robust, cont


def image_exact(spts, tpts, trilist, P, t):
    i, j, k = trilist[t]
    w = tri_weights(spts[i], spts[j], spts[k], P)
    return tuple(w[0] * tpts[i][d] + w[1] * tpts[j][d] + w[2] * tpts[k][d] for d in range(2))


def mesh_tokens(points, trilist):
    return "%s %d %s" % (common.fmat(points), len(trilist), " ".join("%d %d %d" % tuple(t) for t in trilist))


# ------------------------------------------------------------------------------- point location of the PWA

def random_mesh(rng, np):
    """(kind, source points, trilist): the jittered grid, optionally with triangles that overlap others (the
    choice among several containing triangles), with holes, or a single triangle"""
    mesh = _grid_mesh(rng, np)
    pts, tl = mesh.points.copy(), mesh.trilist.tolist()
    kind = rng.choice(["grid", "grid", "overlap-first", "overlap-last", "overlap-both", "holes", "single", "shuffled",
                       "degenerate"])
    big = [[0, 2, 6], [8, 6, 2], [0, 8, 6], [2, 0, 8]]
    if kind == "overlap-first":
        tl = [rng.choice(big)] + tl
    elif kind == "overlap-last":
        tl = tl + [rng.choice(big)]
    elif kind == "overlap-both":
        tl = [rng.choice(big)] + tl + [rng.choice(big)]
    elif kind == "holes":
        for _ in range(rng.randint(1, 3)):
            tl.pop(rng.randrange(len(tl)))
    elif kind == "single":
        tl = [rng.choice(big + tl)]
    elif kind == "shuffled":
        rng.shuffle(tl)
        tl = [rng.sample(t, 3) for t in tl]
    elif kind == "degenerate":
        # zero-area triangles (a repeated vertex, along an edge of the grid or a diagonal) among the proper ones: numpy
        # divides by a zero Gram determinant (inf / nan: such a triangle contains nothing).  The Lean model divides in
        # the rationals (1/0 = 0) and is NOT driven on these meshes (assumption `non-degenerate source triangles`);
        # the oracle decides them with the zero-area triangles left out.
        for _ in range(rng.randint(1, 2)):
            a_, b_ = rng.sample(range(9), 2)
            tl.insert(rng.randrange(len(tl) + 1), rng.choice([[a_, a_, b_], [a_, b_, a_], [b_, a_, a_]]))
    return kind, pts, tl


def mesh_query_points(rng, np, spts_f, pts, tl, n, integer):
    """n query points that are robustly inside / outside every triangle (exact test); (array, containing lists)"""
    out, conts = [], []
    tries = 0
    while len(out) < n and tries < 40 * (n + 1):
        tries += 1
        r = rng.random()
        if integer:
            p = [float(rng.randint(-2, 10)), float(rng.randint(-2, 10))]
        elif r < 0.55:
            t = tl[rng.randrange(len(tl))]
            a, b, c = rng.randint(1, 12), rng.randint(1, 12), rng.randint(1, 12)
            q = (a * pts[t[0]] + b * pts[t[1]] + c * pts[t[2]]) / float(a + b + c)
            p = [round(float(q[0]) * 64) / 64.0, round(float(q[1]) * 64) / 64.0]
        elif r < 0.8:
            p = [rng.randint(-8, 40) / 4.0 + 0.125, rng.randint(-8, 40) / 4.0 - 0.0625]
        else:
            p = outside_point(rng)
        robust, cont = locate_exact(spts_f, tl, (common.frac(p[0]), common.frac(p[1])))
        if robust:
            out.append(p)
            conts.append(cont)
    arr = np.array(out, dtype=float).reshape(len(out), 2)
    if integer:
        arr = arr.astype(rng.choice([np.int64, np.int32, np.int16]))
    return arr, conts


def fmt_tce(got):
    if got[0] == "tce":
        return "err " + " ".join("1" if b else "0" for b in got[1].tolist())
    return "exc " + str(got[1])


def mesh_case(ctx, rng, lines, pending):
    """index_alpha_beta / apply of the piecewise affine classes against the exact geometry (oracle) and the model"""
    import numpy as np
    import menpo.transform as mt
    from menpo.transform.piecewiseaffine.base import PythonPWA, TriangleContainmentError
    from menpo.shape import PointCloud, TriMesh
    site = "C09/pwa-location"
    kind, pts, tl = random_mesh(rng, np)
    A = np.array([[1.25, 0.25], [-0.5, 1.5]]) if rng.random() < 0.7 else np.eye(2)
    tpts = pts.dot(A) + np.array([rng.randint(-8, 8) / 4.0, rng.randint(-8, 8) / 4.0]) + \
        np.array([[rng.randint(-2, 2) / 8.0, rng.randint(-2, 2) / 8.0] for _ in range(len(pts))])
    spts_f, tpts_f = fpts(pts), fpts(tpts)
    n = rng.choice([0, 1, 2, 3, 4, 5, 6, 7, 8])
    integer = rng.random() < 0.25
    x, conts = mesh_query_points(rng, np, spts_f, pts, tl, n, integer)
    n = len(x)
    inside = [bool(c) for c in conts]
    want_mask = [not b for b in inside]
    ctx.count("mesh:" + kind)
    ctx.count("mesh-dtype:" + str(x.dtype))
    ctx.count("mesh-multi-containing", sum(1 for c in conts if len(c) > 1))
    tlarr = np.array(tl)

    def make(cls):
        return cls(TriMesh(pts.copy(), trilist=tlarr.copy()), PointCloud(tpts.copy()))

    rp = {"mesh": kind, "source": pts.tolist(), "target": tpts.tolist(), "trilist": tl, "points": x.tolist(),
          "dtype": str(x.dtype), "containing_triangles": conts}
    # (1) index_alpha_beta of the non-caching class
    try:
        idx, al, be = make(PythonPWA).index_alpha_beta(x.copy())
        got_iab = ("ok", idx.tolist(), al.tolist(), be.tolist())
    except TriangleContainmentError as e:
        got_iab = ("tce", np.asarray(e.points_outside_source_domain))
    except Exception as e:     # noqa: BLE001
        got_iab = ("exc", type(e).__name__)
    ctx.case(("mesh-iab", kind, pts.tobytes(), str(tl), x.tobytes(), str(x.dtype)), nontrivial=n >= 1,
             sample={"mesh": kind, "n_tris": len(tl), "points": x.tolist()[:4], "inside": inside})
    if all(inside):
        # the property does not say which of several containing triangles is taken (the model does: the
        # highest-numbered one, compared below) - the oracle only demands a triangle that contains the point
        ok = got_iab[0] == "ok" and len(got_iab[1]) == n and all(got_iab[1][i] in conts[i] for i in range(n))
        ctx.check(ok, site + "/index_alpha_beta", "triangle-not-containing",
                  "index %r, the containing triangles are %r" % (got_iab[1] if got_iab[0] == "ok" else got_iab, conts), rp)
    else:
        ok = got_iab[0] == "tce" and got_iab[1].tolist() == want_mask
        ctx.check(ok, site + "/index_alpha_beta", "mask-unbatched",
                  "failure %r, points outside every source triangle are %r" % (
                      got_iab[1].tolist() if got_iab[0] == "tce" else got_iab, want_mask), rp)
    driven = kind != "degenerate"      # the model is only claimed for non-degenerate source triangles
    if not driven:
        ctx.count("mesh-degenerate-not-driven")
    if driven:
        cid = "m%d" % len(lines)
        lines.append("%s iab %s %s" % (cid, mesh_tokens(pts, tl), common.fmat(x) if n else "0 0"))
        pending[cid] = ("iab", got_iab, rp)
    # (2) apply with every batching variant, both classes, arrays and shapes
    exp_img = [[image_exact(spts_f, tpts_f, tl, (common.frac(p[0]), common.frac(p[1])), t) for t in c]
               for p, c in zip(x, conts)]
    ks = sorted({None, 1, max(1, n - 1), max(1, n), n + 2, rng.randint(1, n + 3)}, key=lambda v: -1 if v is None else v)
    unbatched = {}
    for cls_name, cls in (("PiecewiseAffine", mt.PiecewiseAffine), ("PythonPWA", PythonPWA)):
        for k in ks:
            as_shape = rng.random() < 0.2 and n > 0
            got = safe_apply(make(cls), PointCloud(x.copy()) if as_shape else x.copy(), batch_size=k)
            ctx.count("mesh-batch:%s" % ("None" if k is None else "k<n" if k < n else "k=n" if k == n else "k>n"))
            ctx.case(("mesh-apply", cls_name, kind, pts.tobytes(), str(tl), x.tobytes(), str(x.dtype), k),
                     nontrivial=(k is not None and 1 < k < n) or (k is not None and k > n > 1))
            rk = dict(rp, cls=cls_name, batch_size=k)
            if all(inside):
                ok = got[0] == "ok" and got[1].shape == (n, 2) and all(
                    any(all(common.close(got[1][i][d], e[d], 64.0) for d in range(2)) for e in exp_img[i])
                    for i in range(n))
                ctx.check(ok, site + "/" + cls_name, "image",
                          "apply(batch_size=%r) = %r, the barycentric combinations of the target vertices (per containing "
                          "triangle) are %r" % (k, got[1].tolist() if got[0] == "ok" else fmt_tce(got),
                                                [[[float(v) for v in e] for e in es] for es in exp_img]), rk)
                if k is not None and got[0] == "ok":
                    ctx.check(same(got, unbatched[cls_name]), site + "/" + cls_name, "batched-differs",
                              "apply(batch_size=%r) differs from apply without batching" % (k,), rk)
                elif got[0] == "ok":
                    unbatched[cls_name] = got
            else:
                ok = got[0] == "tce" and got[1].tolist() == want_mask
                ctx.check(ok, site + "/" + cls_name, "mask-batched" if k is not None else "mask-unbatched",
                          "apply(batch_size=%r): %s, points outside every source triangle are %r" % (
                              k, got[1].tolist() if got[0] == "ok" else fmt_tce(got), want_mask), rk)
            if driven and (cls_name == "PiecewiseAffine" or k is None):
                cid = "m%d" % len(lines)
                lines.append("%s pwa %d %s %s %s" % (cid, k or 0, mesh_tokens(pts, tl), common.fmat(tpts),
                                                     common.fmat(x) if n else "0 0"))
                pending[cid] = ("pwa", got, dict(rk, images_per_containing_triangle=[
                    [[float(v) for v in e] for e in es] for es in exp_img]))
    # (3) order of the points: a permutation of the input permutes the result / the mask
    if n >= 2:
        sigma = list(range(n))
        rng.shuffle(sigma)
        t = make(mt.PiecewiseAffine)
        first = safe_apply(t, x.copy())
        second = safe_apply(t, x[sigma].copy())          # same object: the memo must not confuse the two orders
        fresh = safe_apply(make(PythonPWA), x[sigma].copy(), batch_size=rng.choice([None, 1, 2, n - 1]))
        ctx.case(("mesh-perm", kind, pts.tobytes(), str(tl), x.tobytes(), tuple(sigma)), nontrivial=True)
        ctx.count("mesh-permutation")
        want = (first[0], first[1][sigma]) if first[0] in ("ok", "tce") else first
        ctx.check(same(second, want, 1e-12) and same(fresh, want, 1e-12), site + "/permutation", "order-dependent",
                  "apply(x[sigma]) is not apply(x)[sigma] for sigma=%r" % (sigma,), dict(rp, sigma=sigma))


# ------------------------------------------------------------------------------- points ON edges and vertices
# On a mesh whose triangles all have a power-of-two Gram determinant (axis-aligned grids of spacing 2^j, cells cut by
# either diagonal, big right triangles over 2x2 cells) and for dyadic query points every float operation of alpha_beta
# is exact (sums and products of small dyadic numbers, d = 1/2^m), so the float decision IS the exact decision, also
# for points that lie exactly on a shared edge or vertex.  These cases are therefore compared without any margin.

def exact_mesh(rng, np):
    """(kind, points, trilist, spacing): a grid mesh with power-of-two Gram determinants"""
    g = rng.choice([2, 2, 3])
    h = float(rng.choice([1, 2, 4]))
    ox, oy = rng.randint(-8, 8) / 4.0, rng.randint(-8, 8) / 4.0
    pts = np.array([[ox + h * i, oy + h * j] for i in range(g + 1) for j in range(g + 1)])

    def v(i, j):
        return i * (g + 1) + j
    tl = []
    for i in range(g):
        for j in range(g):
            a, b, c, d = v(i, j), v(i, j + 1), v(i + 1, j), v(i + 1, j + 1)
            tl += [[a, b, c], [b, d, c]] if rng.random() < 0.5 else [[a, b, d], [a, d, c]]
    kind = rng.choice(["grid", "grid", "shuffled", "holes", "overlap", "overlap-first"])
    big = [[v(0, 0), v(2, 0), v(0, 2)], [v(2, 2), v(0, 2), v(2, 0)], [v(0, 0), v(2, 2), v(0, 2)]]
    if kind == "holes":
        for _ in range(rng.randint(1, 3)):
            tl.pop(rng.randrange(len(tl)))
    elif kind == "overlap":
        tl = tl + [rng.choice(big)]
    elif kind == "overlap-first":
        tl = [rng.choice(big)] + tl
    if kind != "grid":
        rng.shuffle(tl)
        tl = [rng.sample(t, 3) for t in tl]
    return kind, pts, tl, h


def exact_query_points(rng, np, pts, tl, h, n):
    """dyadic query points, most of them ON vertices / edges of the triangulation; (array, kinds)"""
    out, kinds = [], []
    lo, hi = pts.min(0), pts.max(0)
    for _ in range(n):
        r = rng.random()
        t = tl[rng.randrange(len(tl))]
        A, B, C = pts[t[0]], pts[t[1]], pts[t[2]]
        if r < 0.2:
            p, k = pts[rng.choice(t)], "vertex"
        elif r < 0.55:
            P, Q = rng.sample([A, B, C], 2)
            w = rng.choice([0.25, 0.5, 0.5, 0.75, 0.125])
            p, k = P + w * (Q - P), "edge"
        elif r < 0.7:
            p, k = A + 0.25 * (B - A) + 0.5 * (C - A), "interior"
        elif r < 0.85:
            # a hair outside the bounding box of the mesh, or on its boundary line beyond a corner
            side = rng.randrange(4)
            u = rng.randint(-2, 10) * h / 4.0
            eps = h / 64.0
            p = [np.array([lo[0] - eps, lo[1] + u]), np.array([hi[0] + eps, lo[1] + u]),
                 np.array([lo[0] + u, lo[1] - eps]), np.array([lo[0] + u, hi[1] + eps])][side]
            k = "just-outside"
        else:
            p, k = np.array([lo[0] + rng.randint(-8, 24) * h / 4.0, lo[1] + rng.randint(-8, 24) * h / 4.0]), "lattice"
        out.append([float(p[0]), float(p[1])])
        kinds.append(k)
    return np.array(out, dtype=float).reshape(len(out), 2), kinds


def closed_containing(spts, trilist, P):
    """numbers of the triangles whose CLOSED hull contains P (exact)"""
    cont = []
    for t, (i, j, k) in enumerate(trilist):
        w = tri_weights(spts[i], spts[j], spts[k], P)
        if w is not None and min(w) >= 0:
            cont.append(t)
    return cont


def exact_mesh_case(ctx, rng, lines, pending):
    """points exactly on shared edges / vertices (and hairs outside), mixed with out-of-domain points, all batch sizes"""
    import numpy as np
    import menpo.transform as mt
    from menpo.transform.piecewiseaffine.base import PythonPWA, TriangleContainmentError
    from menpo.shape import PointCloud, TriMesh
    site = "C09/pwa-edges"
    kind, pts, tl, h = exact_mesh(rng, np)
    tpts = pts.dot(np.array([[1.25, 0.25], [-0.5, 1.5]])) + np.array([rng.randint(-8, 8) / 4.0, rng.randint(-8, 8) / 4.0]) + \
        np.array([[rng.randint(-2, 2) / 8.0, rng.randint(-2, 2) / 8.0] for _ in range(len(pts))])
    spts_f, tpts_f = fpts(pts), fpts(tpts)
    n = rng.choice([1, 2, 3, 4, 5, 6, 7, 8])
    x, kinds = exact_query_points(rng, np, pts, tl, h, n)
    if rng.random() < 0.35:
        # all in the domain: only boundary / interior points of triangles
        keep = [i for i in range(n) if closed_containing(spts_f, tl, (common.frac(x[i][0]), common.frac(x[i][1])))]
        x, kinds = x[keep].reshape(len(keep), 2), [kinds[i] for i in keep]
        n = len(x)
    conts = [closed_containing(spts_f, tl, (common.frac(p[0]), common.frac(p[1]))) for p in x]
    want_mask = [not c for c in conts]
    all_in = not any(want_mask)
    for k_ in kinds:
        ctx.count("edge-point:" + k_)
    ctx.count("edge-mesh:" + kind)
    ctx.count("edge-multi-containing", sum(1 for c in conts if len(c) > 1))
    ctx.count("edge-case:" + ("all-in" if all_in else "all-out" if all(want_mask) else "mixed"))
    tlarr = np.array(tl)

    def make(cls):
        return cls(TriMesh(pts.copy(), trilist=tlarr.copy()), PointCloud(tpts.copy()))

    rp = {"mesh": "exact-" + kind, "spacing": h, "source": pts.tolist(), "target": tpts.tolist(), "trilist": tl,
          "points": x.tolist(), "point_kinds": kinds, "closed_containing_triangles": conts}
    try:
        idx, al, be = make(PythonPWA).index_alpha_beta(x.copy())
        got_iab = ("ok", idx.tolist(), al.tolist(), be.tolist())
    except TriangleContainmentError as e:
        got_iab = ("tce", np.asarray(e.points_outside_source_domain))
    except Exception as e:     # noqa: BLE001
        got_iab = ("exc", type(e).__name__)
    ctx.case(("edge-iab", kind, pts.tobytes(), str(tl), x.tobytes()), nontrivial=n >= 1,
             sample={"mesh": kind, "kinds": kinds, "outside": want_mask})
    if all_in:
        ok = got_iab[0] == "ok" and len(got_iab[1]) == n and all(got_iab[1][i] in conts[i] for i in range(n))
        ctx.check(ok, site + "/index_alpha_beta", "triangle-not-containing",
                  "index %r, the (closed) triangles containing the points are %r" % (
                      got_iab[1] if got_iab[0] == "ok" else fmt_tce(got_iab), conts), rp)
    else:
        ok = got_iab[0] == "tce" and got_iab[1].tolist() == want_mask
        ctx.check(ok, site + "/index_alpha_beta", "mask-unbatched",
                  "failure %r, points outside every (closed) source triangle are %r" % (
                      got_iab[1].tolist() if got_iab[0] == "tce" else got_iab[:2], want_mask), rp)
    if n:
        cid = "e%d" % len(lines)
        lines.append("%s iab %s %s" % (cid, mesh_tokens(pts, tl), common.fmat(x)))
        pending[cid] = ("iab", got_iab, rp)
    exp_img = [[image_exact(spts_f, tpts_f, tl, (common.frac(p[0]), common.frac(p[1])), t) for t in c]
               for p, c in zip(x, conts)]
    for cls_name, cls in (("PiecewiseAffine", mt.PiecewiseAffine), ("PythonPWA", PythonPWA)):
        for k in [None] + list(range(1, n + 2)):
            got = safe_apply(make(cls), x.copy(), batch_size=k)
            ctx.case(("edge-apply", cls_name, kind, pts.tobytes(), str(tl), x.tobytes(), k),
                     nontrivial=k is not None and (1 < k < n or k > n > 1))
            ctx.count("edge-batch:%s" % ("None" if k is None else "k<n" if k < n else "k=n" if k == n else "k>n"))
            rk = dict(rp, cls=cls_name, batch_size=k)
            if all_in:
                ok = got[0] == "ok" and got[1].shape == (n, 2) and all(
                    any(all(common.close(got[1][i][d], e[d], 64.0) for d in range(2)) for e in exp_img[i])
                    for i in range(n))
                ctx.check(ok, site + "/" + cls_name, "image",
                          "apply(batch_size=%r) = %s, the barycentric images (per containing triangle) are %r" % (
                              k, got[1].tolist() if got[0] == "ok" else fmt_tce(got),
                              [[[float(v) for v in e] for e in es] for es in exp_img]), rk)
            else:
                ok = got[0] == "tce" and got[1].tolist() == want_mask
                ctx.check(ok, site + "/" + cls_name, "mask-batched" if k is not None else "mask-unbatched",
                          "apply(batch_size=%r): %s, points outside every (closed) source triangle are %r" % (
                              k, got[1].tolist() if got[0] == "ok" else fmt_tce(got), want_mask), rk)
            if n and (cls_name == "PiecewiseAffine" or k is None):
                cid = "e%d" % len(lines)
                lines.append("%s pwa %d %s %s %s" % (cid, k or 0, mesh_tokens(pts, tl), common.fmat(tpts), common.fmat(x)))
                pending[cid] = ("pwa", got, dict(rk, images_per_containing_triangle=[
                    [[float(v) for v in e] for e in es] for es in exp_img]))
    # the same points through TransformChain([Translation, PiecewiseAffine]) (exact: the offset is a multiple of 1/4)
    if n and rng.random() < 0.5:
        off = [rng.randint(-8, 8) / 4.0, rng.randint(-8, 8) / 4.0]
        xs = x - np.array(off)
        for k in [None] + sorted({1, 2, max(1, n - 1), n, n + 1}):
            t = mt.TransformChain([mt.Translation(np.array(off)), make(mt.PiecewiseAffine)])
            got = safe_apply(t, xs.copy(), batch_size=k)
            ctx.case(("edge-chain", kind, pts.tobytes(), str(tl), xs.tobytes(), k), nontrivial=k is not None and 1 < k < n)
            ctx.count("edge-chain")
            rk = dict(rp, translation=off, points=xs.tolist(), batch_size=k)
            if all_in:
                ctx.check(got[0] == "ok" and got[1].shape == (n, 2), site + "/ChainWithPWA", "spurious-failure",
                          "all points in the (closed) domain but apply(batch_size=%r) gave %s" % (
                              k, fmt_tce(got) if got[0] != "ok" else got[1].shape), rk)
            else:
                ctx.check(got[0] == "tce" and got[1].tolist() == want_mask, site + "/ChainWithPWA",
                          "mask-batched" if k is not None else "mask-unbatched",
                          "apply(batch_size=%r): %s, points leaving the (closed) domain are %r" % (
                              k, got[1].tolist() if got[0] == "ok" else fmt_tce(got), want_mask), rk)
            cid = "e%d" % len(lines)
            lines.append("%s chainpwa-fixed %d %s %s %s %s" % (cid, k or 0, common.fqs(off), mesh_tokens(pts, tl),
                                                             common.fmat(tpts), common.fmat(xs)))
            pending[cid] = ("pwa", got, dict(rk, images_per_containing_triangle=[
                [[float(v) for v in e] for e in es] for es in exp_img]))


def exact_boolean_case(ctx, rng, lines, pending):
    """pwa_point_in_pointcloud / constrain_to_pointcloud on a rectangle with power-of-two area: every pixel — also those on
    the outline, the corners and the diagonal the triangulation chose — is decided exactly; any batch size"""
    import numpy as np
    from menpo.image import BooleanImage
    from menpo.image.boolean import pwa_point_in_pointcloud
    from menpo.transform.piecewiseaffine import PiecewiseAffine
    from menpo.shape import PointCloud
    site = "C09/constrain_to_pointcloud-edges"
    wdt, hgt = rng.choice([(4, 4), (2, 4), (4, 2), (2, 2), (8, 2), (4, 8)])
    r0, c0 = rng.randint(0, 3), rng.randint(0, 3)
    H, W = r0 + hgt + rng.randint(1, 3), c0 + wdt + rng.randint(1, 3)
    pc = PointCloud(np.array([[r0, c0], [r0 + hgt, c0], [r0, c0 + wdt], [r0 + hgt, c0 + wdt]], dtype=float))
    img = BooleanImage.init_blank((H, W))
    tl = PiecewiseAffine(pc, pc).source.trilist.tolist()
    spts_f = fpts(pc.points)
    indices = img.indices()
    inside = [bool(closed_containing(spts_f, tl, (common.frac(p[0]), common.frac(p[1])))) for p in indices]
    rp0 = {"shape": [H, W], "points": pc.points.tolist(), "trilist": tl}
    for k in [None, 1, 2, 3, rng.randint(4, H * W), H * W, H * W + 2]:
        ctx.case(("ebimg", H, W, k, pc.points.tobytes()), nontrivial=True)
        ctx.count("edge-constrain_to_pointcloud")
        try:
            got = img.constrain_to_pointcloud(pc, batch_size=k).mask.reshape(-1).tolist()
            bad = [indices[i].tolist() for i in range(len(indices)) if bool(got[i]) != inside[i]]
            ctx.check(not bad, site, "mask-not-containment",
                      "batch_size=%r: mask differs from the exact (closed) containment test at pixels %r" % (k, bad[:6]),
                      dict(rp0, batch_size=k))
        except Exception as e:     # noqa: BLE001
            ctx.fail(site, "raises", "batch_size=%r raised %s: %s" % (k, type(e).__name__, str(e)[:80]), dict(rp0, batch_size=k))
        sel = list(range(len(indices)))
        rng.shuffle(sel)
        sel = sel[:rng.randint(1, len(sel))]
        q = indices[sel]
        try:
            m = pwa_point_in_pointcloud(pc, q, batch_size=k)
            gotp = ("ok", [bool(v) for v in np.asarray(m).tolist()])
        except Exception as e:     # noqa: BLE001
            gotp = ("exc", type(e).__name__)
        ctx.case(("epip", H, W, k, pc.points.tobytes(), tuple(sel)), nontrivial=True)
        rk = dict(rp0, batch_size=k, pixels=q.tolist())
        ctx.check(gotp[0] == "ok" and gotp[1] == [inside[i] for i in sel], "C09/pwa_point_in_pointcloud-edges",
                  "mask-not-containment", "batch_size=%r: result %r, exact (closed) containment %r" % (
                      k, gotp[1] if gotp[0] == "ok" else gotp, [inside[i] for i in sel]), rk)
        cid = "e%d" % len(lines)
        lines.append("%s pip %d %s %s" % (cid, k or 0, mesh_tokens(pc.points, tl), common.fmat(q)))
        pending[cid] = ("pip", (gotp, [True] * len(sel)), rk)


# ------------------------------------------------------------------------------- chains and WithDims

def chain_case(ctx, rng, lines, pending):
    """TransformChain / WithDims / nested chains of affine members: batched = unbatched = member by member = model"""
    import numpy as np
    import menpo.transform as mt
    site = "C09/chain"
    d0 = rng.choice([2, 3])

    def dy(lo=-4, hi=4, m=2):
        return rng.randint(lo * 2 ** m, hi * 2 ** m) / float(2 ** m)

    def members(cur, depth):
        """list of (factory, tokens, kind) and the output dimension"""
        out = []
        for _ in range(rng.randint(1, 3)):
            r = rng.random()
            if r < 0.2 and depth == 0:
                sub, cur2 = members(cur, 1)
                out.append(((lambda sub=sub: mt.TransformChain([f() for f, _, _ in sub])),
                            [tok for _, toks, _ in sub for tok in toks], "nested"))
                cur = cur2
            elif r < 0.4 and cur == 3:
                dims = rng.choice([[0, 1], [0, 2], [2, 1], [1, 2, 0], [1]])
                out.append(((lambda dims=dims: mt.WithDims(list(dims))), ["D %d %s" % (len(dims), " ".join(map(str, dims)))],
                            "WithDims"))
                cur = len(dims)
            elif cur in (2, 3):
                kindm = rng.choice(["Affine", "Translation", "NonUniformScale", "UniformScale"])
                if kindm == "Affine":
                    h = np.eye(cur + 1)
                    h[:cur, :] = [[dy() for _ in range(cur + 1)] for _ in range(cur)]
                    f = (lambda h=h: mt.Affine(h.copy()))
                elif kindm == "Translation":
                    tr = [dy() for _ in range(cur)]
                    h = np.eye(cur + 1)
                    h[:cur, cur] = tr
                    f = (lambda tr=tr: mt.Translation(np.array(tr)))
                elif kindm == "NonUniformScale":
                    sc = [dy(1, 3) for _ in range(cur)]
                    h = np.diag(sc + [1.0])
                    f = (lambda sc=sc: mt.NonUniformScale(np.array(sc)))
                else:
                    sc = dy(1, 3)
                    h = np.diag([sc] * cur + [1.0])
                    f = (lambda sc=sc, cur=cur: mt.UniformScale(sc, cur))
                out.append((f, ["A " + common.fmat(h[:cur, :])], kindm))
            else:
                # one column left: only a column selection keeps going
                out.append(((lambda: mt.WithDims([0])), ["D 1 0"], "WithDims"))
        return out, cur

    mem, _ = members(d0, 0)
    n = rng.choice([0, 1, 2, 3, 4, 5, 6, 7])
    x = np.array([[rng.randint(-32, 32) / 4.0 for _ in range(d0)] for _ in range(n)], dtype=float).reshape(n, d0)
    if rng.random() < 0.3:
        x = np.round(x).astype(rng.choice([np.int64, np.int32, np.int16]))
    toks = [t for _, ts, _ in mem for t in ts]
    single_withdims = len(mem) == 1 and mem[0][2] == "WithDims"

    def make():
        return mem[0][0]() if single_withdims else mt.TransformChain([f() for f, _, _ in mem])

    ctx.count("chain-members:" + "+".join(k for _, _, k in mem))
    ctx.count("chain-dtype:" + str(x.dtype))
    rp = {"members": [k for _, _, k in mem], "member_tokens": toks, "points": x.tolist(), "dtype": str(x.dtype)}
    base = safe_apply(make(), x.copy())
    # member by member, each a fresh transform
    y = x.copy()
    try:
        for f, _, _ in mem:
            y = f().apply(y)
        step = ("ok", np.asarray(y))
    except Exception as e:     # noqa: BLE001
        step = ("exc", type(e).__name__)
    ctx.check(base[0] == "ok" and same(base, step), site, "chain-differs-from-members",
              "chain.apply(x) = %r, applying the members one after the other gives %r" % (
                  base[1].tolist() if base[0] == "ok" else base, step[1].tolist() if step[0] == "ok" else step), rp)
    for k in sorted({1, max(1, n - 1), max(1, n), n + 2, rng.randint(1, n + 3)}):
        got = safe_apply(make(), x.copy(), batch_size=k)
        ctx.case(("chain", tuple(toks), x.tobytes(), str(x.dtype), k), nontrivial=1 < k < n or k > n > 1,
                 sample={"members": [kk for _, _, kk in mem], "n": n, "batch_size": k})
        ctx.check(same(got, base), site, "batched-differs",
                  "batch_size=%d gives a different result than no batching" % k, dict(rp, batch_size=k))
        cid = "c%d" % len(lines)
        lines.append("%s chain %d %d %s %s" % (cid, k, len(toks), " ".join(toks), common.fmat(x) if n else "0 0"))
        pending[cid] = ("chain", got, dict(rp, batch_size=k))
    cid = "c%d" % len(lines)
    lines.append("%s chain 0 %d %s %s" % (cid, len(toks), " ".join(toks), common.fmat(x) if n else "0 0"))
    pending[cid] = ("chain", base, rp)


def chain_pwa_case(ctx, rng, lines, pending):
    """TransformChain([Translation, PiecewiseAffine]) on exact meshes: mask per input point for every batch size"""
    import numpy as np
    import menpo.transform as mt
    from menpo.shape import PointCloud, TriMesh
    site = "C09/batch/ChainWithPWA"
    kind, pts, tl = random_mesh(rng, np)
    tpts = pts.dot(np.array([[1.25, 0.25], [-0.5, 1.5]])) + np.array([3.0, -2.0])
    off = [rng.randint(-8, 8) / 4.0, rng.randint(-8, 8) / 4.0]
    spts_f, tpts_f = fpts(pts), fpts(tpts)
    n = rng.choice([0, 1, 2, 3, 4, 5, 6, 7])
    q, conts = mesh_query_points(rng, np, spts_f, pts, tl, n, False)
    n = len(q)
    x = (q - np.array(off)).reshape(n, 2)          # exact: multiples of 1/64 minus multiples of 1/4
    want_mask = [not c for c in conts]
    tlarr = np.array(tl)

    # the same map (translation, then the piecewise-affine warp) held in differently nested compositions: the
    # piecewise-affine member may sit inside a chain that is itself a member (seeded C09-4), or be reached through
    # compose_before, which appends a whole chain as one member
    nesting = rng.choice(["flat", "flat", "inner-chain", "deep", "composed", "chain-of-chain-last"])

    def make():
        tr = mt.Translation(np.array(off))
        pwa = mt.PiecewiseAffine(TriMesh(pts.copy(), trilist=tlarr.copy()), PointCloud(tpts.copy()))
        if nesting == "flat":
            return mt.TransformChain([tr, pwa])
        if nesting == "inner-chain":
            return mt.TransformChain([tr, mt.TransformChain([pwa])])
        if nesting == "deep":
            return mt.TransformChain([mt.TransformChain([tr]),
                                      mt.TransformChain([mt.TransformChain([pwa]), mt.Translation(np.zeros(2))])])
        if nesting == "composed":
            return tr.compose_before(pwa.compose_before(mt.UniformScale(1.0, 2)))
        return mt.TransformChain([tr]).compose_before(mt.TransformChain([pwa, mt.Translation(np.zeros(2))]))

    ctx.count("chain-with-pwa-nesting:" + nesting)
    rp = {"mesh": kind, "source": pts.tolist(), "target": tpts.tolist(), "trilist": tl, "translation": off,
          "points": x.tolist(), "outside": want_mask, "nesting": nesting}
    for k in sorted({None, 1, 2, max(1, n - 1), max(1, n), n + 2}, key=lambda v: -1 if v is None else v):
        got = safe_apply(make(), x.copy(), batch_size=k)
        ctx.case(("chainpwa", kind, pts.tobytes(), str(tl), x.tobytes(), k), nontrivial=k is not None and 1 < k < n)
        ctx.count("chain-with-pwa")
        if any(want_mask):
            ok = got[0] == "tce" and got[1].tolist() == want_mask
            ctx.check(ok, site, "mask-batched" if k is not None else "mask-unbatched",
                      "apply(batch_size=%r) on %d points: %s, points leaving the domain are %r" % (
                          k, n, got[1].tolist() if got[0] == "ok" else fmt_tce(got), want_mask), dict(rp, batch_size=k))
        else:
            ctx.check(got[0] == "ok" and got[1].shape == (n, 2), site, "spurious-failure",
                      "all points in the domain but apply(batch_size=%r) gave %s" % (k, fmt_tce(got) if got[0] != "ok" else got[1].shape),
                      dict(rp, batch_size=k))
        if kind == "degenerate":
            continue            # not driven: see random_mesh
        cid = "p%d" % len(lines)
        lines.append("%s chainpwa-fixed %d %s %s %s %s" % (cid, k or 0, common.fqs(off), mesh_tokens(pts, tl),
                                                         common.fmat(tpts), common.fmat(x) if n else "0 0"))
        pending[cid] = ("pwa", got, dict(rp, batch_size=k, containing_triangles=conts, images_per_containing_triangle=[
            [[float(v) for v in image_exact(spts_f, tpts_f, tl, (common.frac(p_[0]), common.frac(p_[1])), t_)] for t_ in c_]
            for p_, c_ in zip(q, conts)]))



# ------------------------------------------------------------------------------- histories

# offsets between the versions of one decade: closer than any fixed tolerance a memo could use (down to one ulp)
NEAR_OFFSETS = [0.0, 1e-7, 2e-7, 1e-9, 1e-12, "ulp", 1e-6, 1e-8, 0.0, 0.0]


def history_case(ctx, name, make, ndims, domain, rng, lines, pending):
    """one history on one transform: arrays a0..a3 (a3 has another length), versions of content"""
    import numpy as np
    from menpo.shape import PointCloud
    site = "C09/history/" + name
    n_main, n_alt = rng.randint(3, 7), rng.randint(2, 8)
    is_pwa = domain != "all"
    contents = {}

    def content(v):
        """version -> points; same decade = 1e-7 apart (closer than any allclose tolerance); >=1000 has outside points"""
        if v not in contents:
            g = (v % 1000) // 10
            arr_len = n_alt if g == 3 else n_main
            key = ("base", g, v >= 1000)
            if key not in contents:
                sub = common.random.Random(rng.random())
                base, _ = gen_points(sub, arr_len, ndims, domain, 0.0)
                if v >= 1000:
                    o = outside_point(sub)
                    if len(domain) > 2:
                        o = [o[0] - domain[2][0], o[1] - domain[2][1]]
                    base[sub.randrange(arr_len)] = o
                contents[key] = base
            off = NEAR_OFFSETS[v % 10]
            contents[v] = np.nextafter(contents[key], np.inf) if off == "ulp" else contents[key] + off
        return contents[v]

    t = make()
    n_arr = 4
    arrays = [content(10 * a).copy() for a in range(n_arr)]
    cur = [10 * a for a in range(n_arr)]
    ops, outs, labels = [], [], []
    n_ops = rng.randint(3, 12)
    applies = 0
    n_fresh = [0]
    for _ in range(n_ops):
        r = rng.random()
        a = rng.randrange(n_arr)
        if r < 0.55 or applies == 0:
            as_shape = rng.random() < 0.2
            x = PointCloud(arrays[a], copy=False) if as_shape else arrays[a]
            k_apply = rng.choice([None, None, None, 1, 2, len(arrays[a]) + 1])     # batch sizes mixed on one object
            got = safe_apply(t, x, batch_size=k_apply)
            want = safe_apply(make(), arrays[a].copy())
            ok = same(got, want, 1e-10)
            ops.append(("A", a, cur[a], "shape" if as_shape else "array", k_apply))
            applies += 1
            if not ok:
                # which earlier version does the answer belong to?
                stale = [v for v in sorted(k for k in contents if isinstance(k, int)) if same(got, safe_apply(make(), content(v).copy()), 1e-10)]
                ctx.fail(site, "history-dependent",
                         "apply #%d on array %d (content version %d) does not equal a fresh transform on the same "
                         "values; it equals the result for version(s) %r" % (applies, a, cur[a], stale[:3]),
                         {"class": name, "ops": ops, "n_main": n_main, "n_alt": n_alt,
                          "how": "arrays a start at version 10a; A = t.apply(arrays[a], batch_size=last field); W = an "
                                 "in-place edit of arrays[a] (whole array: versions of one decade differ by 1e-7 .. one "
                                 "ulp; versions 101.. = one coordinate moved by 1e-6 .. one ulp, or two rows swapped); "
                                 "versions >= 1000 contain an outside point"})
                labels.append(None)
            else:
                labels.append("e" if got[0] == "tce" else str(cur[a]))
        else:
            g = 3 if a == 3 else rng.choice([0, 1, 2, a])
            how = rng.random()
            if how < 0.6:
                # the whole array is overwritten in place
                v = 10 * g + rng.randrange(8)
                if is_pwa and rng.random() < 0.2:
                    v += 1000
                arrays[a][:] = content(v)
            else:
                # a PARTIAL in-place edit: one coordinate of one row moves by a tiny amount, or two rows swap places
                # (a memo keyed on part of the array, a checksum of a few entries or the first row would not notice)
                n_fresh[0] += 1
                v = (1000 if cur[a] >= 1000 else 0) + 100 + n_fresh[0]
                if how < 0.85 or len(arrays[a]) < 2:
                    r_, c_ = rng.randrange(len(arrays[a])), rng.randrange(ndims)
                    d_ = rng.choice([1e-6, 1e-8, 1e-9, 1e-12, "ulp"])
                    arrays[a][r_, c_] = np.nextafter(arrays[a][r_, c_], np.inf) if d_ == "ulp" else arrays[a][r_, c_] + d_
                    ctx.count("history-partial-edit:one-coordinate")
                else:
                    r_, q_ = rng.sample(range(len(arrays[a])), 2)
                    arrays[a][[r_, q_]] = arrays[a][[q_, r_]]
                    ctx.count("history-partial-edit:row-swap")
                contents[v] = arrays[a].copy()
            cur[a] = v
            ops.append(("W", a, v))
    ctx.count("history:" + name)
    ctx.case(("hist", name, tuple(ops)), nontrivial=applies >= 2,
             sample={"class": name, "history": [list(o) for o in ops]})
    if is_pwa and name == "PiecewiseAffine" and None not in labels:
        cid = "h%d" % len(lines)
        toks = []
        for o in ops:
            toks += [o[0], str(o[1])] + ([str(o[2])] if o[0] == "W" else [])
        lines.append("%s cache-fixed %d %s" % (cid, len(ops), " ".join(toks)))
        pending[cid] = ("cache-fixed", "ok " + " ".join(labels), {"class": name, "ops": ops})


def batch_case(ctx, name, make, ndims, domain, rng, lines, pending):
    import numpy as np
    from menpo.shape import PointCloud
    site = "C09/batch/" + name
    is_pwa = domain != "all"
    n = rng.choice([0, 1, 1, 2, 3, 4, 5, 6, 7, 8, 9])
    frac = rng.choice([0.0, 0.0, 0.3, 0.6]) if is_pwa else 0.0
    x, ind = gen_points(rng, n, ndims, domain, frac)
    if not is_pwa and rng.random() < 0.35:
        # integer-dtype input (pixel indices are what warps feed to apply): same values, other dtype
        x = np.round(x).astype(rng.choice([np.int64, np.int32, np.uint16]) if (x >= 0).all() else np.int64)
    ctx.count("batch-dtype:" + str(x.dtype))
    base = safe_apply(make(), x.copy())
    rp = {"class": name, "points": x.tolist(), "dtype": str(x.dtype), "in_domain": ind}
    if is_pwa:
        want_mask = np.array([not b for b in ind])
        if all(ind):
            ctx.check(base[0] == "ok", site, "spurious-failure", "all points in the domain but apply failed: %r" % (base[0],), rp)
        else:
            ctx.check(base[0] == "tce" and base[1].shape == want_mask.shape and bool(np.all(base[1] == want_mask)), site,
                      "mask-unbatched", "failure mask %r, outside points are %r" % (
                          base[1].tolist() if base[0] == "tce" else base[0], want_mask.tolist()), rp)
    else:
        ctx.check(base[0] == "ok", site, "raises", "apply raised %r" % (base[1],), rp)
    for k in range(1, n + 3):
        t = make()
        as_shape = rng.random() < 0.25 and n > 0
        got = safe_apply(t, PointCloud(x.copy()) if as_shape else x.copy(), batch_size=k)
        ctx.count("batch:%s" % ("k<n" if k < n else "k=n" if k == n else "k>n"))
        ctx.case(("batch", name, n, k, str(x.dtype), tuple(ind)), nontrivial=(1 < k < n or (k > n and n > 1)),
                 sample={"class": name, "n": n, "batch_size": k, "in_domain": ind})
        if is_pwa and not all(ind):
            ok = got[0] == "tce" and got[1].shape == (n,) and bool(np.all(got[1] == np.array([not b for b in ind])))
            ctx.check(ok, site, "mask-batched",
                      "batch_size=%d on %d points: failure mask %r, outside points are %r" % (
                          k, n, got[1].tolist() if got[0] == "tce" else got, [not b for b in ind]), dict(rp, batch_size=k))
        else:
            ctx.check(same(got, base), site, "batched-differs",
                      "batch_size=%d gives a different result than no batching" % k, dict(rp, batch_size=k))
        if is_pwa and name in ("PiecewiseAffine", "ChainWithPWA"):
            cid = "b%d" % len(lines)
            lines.append("%s pwab-fixed %d %d %s" % (cid, k, n, " ".join("1" if b else "0" for b in ind)))
            obs = "ok" if got[0] == "ok" else ("err " + " ".join("1" if b else "0" for b in got[1].tolist())
                                               if got[0] == "tce" else "exc " + str(got[1]))
            pending[cid] = ("pwab-fixed", obs, dict(rp, batch_size=k))
        if not is_pwa and rng.random() < 0.3:
            cid = "c%d" % len(lines)
            lines.append("%s chunks %d %d" % (cid, k, n))
            pending[cid] = ("chunks", "ok " + " ".join(str(min(k, n - lo)) for lo in range(0, n, k)), {"n": n, "k": k})


def boolean_image_case(ctx, rng, lines=None, pending=None):
    """BooleanImage.constrain_to_pointcloud / pwa_point_in_pointcloud: the mask is the per-pixel containment test
    (exact geometry on the Delaunay triangles the code itself builds) and does not depend on the batch size"""
    import numpy as np
    from menpo.image import BooleanImage
    from menpo.image.boolean import pwa_point_in_pointcloud
    from menpo.transform.piecewiseaffine import PiecewiseAffine
    from menpo.shape import PointCloud
    site = "C09/constrain_to_pointcloud"
    h, w = rng.randint(5, 9), rng.randint(5, 9)
    pc = PointCloud(np.array([[0.5, 0.5], [h - 1.5, 1.0], [h - 2.0, w - 1.5], [1.0, w - 2.0], [h / 2.0, w / 2.0]]) +
                    np.array([[rng.randint(0, 2) / 4.0, rng.randint(0, 2) / 4.0] for _ in range(5)]))
    img = BooleanImage.init_blank((h, w))
    rp0 = {"shape": [h, w], "points": pc.points.tolist()}
    try:
        base = img.constrain_to_pointcloud(pc).mask.copy()
    except Exception as e:
        ctx.fail(site, "raises", "constrain_to_pointcloud raised %s" % type(e).__name__, rp0)
        return
    # the triangulation the code uses (Delaunay of the cloud), the exact per-pixel truth on it
    tl = PiecewiseAffine(pc, pc).source.trilist.tolist()
    spts_f = fpts(pc.points)
    indices = img.indices()
    truth = [locate_exact(spts_f, tl, (common.frac(p[0]), common.frac(p[1]))) for p in indices]
    robust = [r for r, _ in truth]
    inside = [bool(c) for _, c in truth]
    rp0["trilist"] = tl
    flat = base.reshape(-1)
    bad = [indices[i].tolist() for i in range(len(indices)) if robust[i] and bool(flat[i]) != inside[i]]
    ctx.check(not bad, site, "mask-not-containment",
              "unbatched mask differs from the exact containment test at pixels %r" % (bad[:5],), rp0)
    for k in (1, 2, 3, 4, 5, 7, h * w - 1, h * w, h * w + 3):
        ctx.case(("bimg", h, w, k, pc.points.tobytes()), nontrivial=True)
        try:
            got = img.constrain_to_pointcloud(pc, batch_size=k).mask
            ok = bool(np.array_equal(got, base))
            what = "mask differs from the unbatched mask"
        except Exception as e:
            ok = False
            what = "raised %s: %s" % (type(e).__name__, str(e)[:80])
        ctx.count("constrain_to_pointcloud")
        ctx.check(ok, site, "batched-differs", "batch_size=%d: %s" % (k, what), dict(rp0, batch_size=k))
    # the module-level function on all pixels and on a shuffled subset, with the model
    for k in (None, 1, rng.randint(2, 6), h * w - 1, h * w + 1):
        sel = list(range(len(indices)))
        if rng.random() < 0.5:
            rng.shuffle(sel)
            sel = sel[:rng.randint(0, len(sel))]
        q = indices[sel]
        try:
            m = pwa_point_in_pointcloud(pc, q, batch_size=k)
            got = ("ok", [bool(v) for v in np.asarray(m).tolist()])
        except Exception as e:     # noqa: BLE001
            got = ("exc", type(e).__name__)
        ctx.case(("pip", h, w, k, pc.points.tobytes(), tuple(sel)), nontrivial=True)
        ctx.count("pwa_point_in_pointcloud")
        rk = dict(rp0, batch_size=k, pixels=q.tolist())
        okm = got[0] == "ok" and len(got[1]) == len(sel) and all(
            got[1][j] == inside[i] for j, i in enumerate(sel) if robust[i])
        ctx.check(okm, "C09/pwa_point_in_pointcloud", "mask-not-containment",
                  "batch_size=%r on %d pixels: result %r differs from the exact containment test %r" % (
                      k, len(sel), got[1] if got[0] == "ok" else got, [inside[i] for i in sel]), rk)
        if lines is not None:
            cid = "i%d" % len(lines)
            lines.append("%s pip %d %s %s" % (cid, k or 0, mesh_tokens(pc.points, tl), common.fmat(q) if len(sel) else "0 0"))
            pending[cid] = ("pip", (got, [robust[i] for i in sel]), rk)


N_ZOO = 28


def explore(ctx, n_hist, n_batch, n_bimg, lines, pending, n_mesh=0, n_chain=0, n_edge=0):
    rng = ctx.rng
    for rnd in range(max(1, n_hist // N_ZOO)):
        z = zoo(rng)
        for name, make, ndims, domain in z:
            reps = 3 if domain != "all" else 1
            for _ in range(reps):
                history_case(ctx, name, make, ndims, domain, rng, lines, pending)
    for rnd in range(max(1, n_batch // N_ZOO)):
        z = zoo(rng)
        for name, make, ndims, domain in z:
            reps = 3 if domain != "all" else 1
            for _ in range(reps):
                batch_case(ctx, name, make, ndims, domain, rng, lines, pending)
    for _ in range(n_bimg):
        boolean_image_case(ctx, rng, lines, pending)
    for _ in range(n_mesh):
        mesh_case(ctx, rng, lines, pending)
        if rng.random() < 0.5:
            chain_pwa_case(ctx, rng, lines, pending)
    for _ in range(n_chain):
        chain_case(ctx, rng, lines, pending)
    # last, so that the cases above are the same as before for a given seed
    for i in range(n_edge):
        exact_mesh_case(ctx, rng, lines, pending)
        if i % 6 == 0:
            exact_boolean_case(ctx, rng, lines, pending)


def compare_model(op, obs, reply, rp=None, notes=None):
    """None when the model's reply describes what the implementation did, else a description.  Where several triangles
    contain a point the property does not say which one is taken: the model takes the last one (as the code does), but
    an implementation that takes another CONTAINING triangle (rp: the exact containing triangles / their images) is not
    a disagreement - it is counted in `notes` only."""
    rp = rp or {}
    notes = notes if notes is not None else []
    conts = rp.get("containing_triangles") or rp.get("closed_containing_triangles")
    images = rp.get("images_per_containing_triangle")
    toks = reply.split()
    if not toks:
        return "empty reply"
    if op in ("pwab-fixed", "cache-fixed", "chunks"):
        return None if reply == obs else "model %r vs implementation %r" % (reply, obs)
    if op == "iab":
        if obs[0] == "tce":
            want = "err " + " ".join("1" if b else "0" for b in obs[1].tolist())
            return None if reply == want else "model %r vs implementation %r" % (reply, want)
        if obs[0] != "ok" or toks[0] != "ok":
            return "model %r vs implementation %r" % (reply, obs[:2])
        vals = toks[1:]
        if len(vals) != 3 * len(obs[1]):
            return "model has %d entries, implementation %d points" % (len(vals) // 3, len(obs[1]))
        for i in range(len(obs[1])):
            if int(vals[3 * i]) != int(obs[1][i]):
                if conts and i < len(conts) and len(conts[i]) > 1 and int(obs[1][i]) in conts[i]:
                    notes.append("tie-choice-differs-from-model")      # another containing triangle: allowed
                    continue
                return "point %d: model triangle %s, implementation %d" % (i, vals[3 * i], obs[1][i])
            if not (common.close(obs[2][i], common.pq(vals[3 * i + 1])) and common.close(obs[3][i], common.pq(vals[3 * i + 2]))):
                return "point %d: model (alpha, beta) = (%s, %s), implementation (%r, %r)" % (
                    i, vals[3 * i + 1], vals[3 * i + 2], obs[2][i], obs[3][i])
        return None
    if op in ("pwa", "chain"):
        if obs[0] == "tce":
            want = "err " + " ".join("1" if b else "0" for b in obs[1].tolist())
            return None if reply == want else "model %r vs implementation %r" % (reply, want)
        if obs[0] != "ok" or toks[0] != "ok":
            return "model %r vs implementation %r" % (reply, obs)
        flat = [float(v) for v in obs[1].reshape(-1).tolist()]
        vals = [common.pq(v) for v in toks[1:]]
        if len(vals) != len(flat):
            return "model has %d numbers, implementation %d" % (len(vals), len(flat))
        scale = max([abs(v) for v in flat] + [1.0])
        bad = [i for i in range(len(flat)) if not common.close(flat[i], vals[i], scale)]
        if bad and images and op == "pwa" and obs[1].ndim == 2 and len(images) == len(obs[1]):
            # the image through ANOTHER containing triangle is as good (the property does not choose among them)
            still = []
            for i in bad:
                r_ = i // obs[1].shape[1]
                if not (len(images[r_]) > 1 and any(all(common.close(float(obs[1][r_][d]), e[d], 64.0) for d in range(2))
                                                    for e in images[r_])):
                    still.append(i)
            if len(still) < len(bad):
                notes.append("tie-choice-differs-from-model")
            bad = still
        return None if not bad else "entry %d: model %s, implementation %r" % (bad[0], toks[1 + bad[0]], flat[bad[0]])
    if op == "pip":
        got, robust = obs
        if got[0] != "ok" or toks[0] != "ok":
            return "model %r vs implementation %r" % (reply, got)
        vals = [t == "1" for t in toks[1:]]
        if len(vals) != len(got[1]):
            return "model has %d entries, implementation %d" % (len(vals), len(got[1]))
        bad = [i for i in range(len(vals)) if robust[i] and vals[i] != got[1][i]]
        return None if not bad else "pixel %d: model %r, implementation %r" % (bad[0], vals[bad[0]], got[1][bad[0]])
    return "unknown op " + op


# ------------------------------------------------------------------------------- regenerated tables

_deep = common.deep_digest
attr_writes = common.attr_writes

ANCHOR_EXTRA_MODULES = ["menpo.image.boolean"]


def anchored_modules():
    """name -> module for menpo.transform.** (tests excluded) and the other anchored files"""
    import importlib
    import pkgutil
    import menpo.transform
    mods = {"menpo.transform": menpo.transform}
    for m in pkgutil.walk_packages(menpo.transform.__path__, "menpo.transform."):
        if ".test" in m.name:
            continue
        try:
            mods[m.name] = importlib.import_module(m.name)
        except Exception:      # noqa: BLE001 - optional dependencies
            pass
    for n in ANCHOR_EXTRA_MODULES:
        mods[n] = importlib.import_module(n)
    return mods


def _is_mutable_container(v):
    import collections
    import numpy as np
    return isinstance(v, (dict, list, set, bytearray, np.ndarray, collections.deque, collections.abc.MutableMapping,
                          collections.abc.MutableSequence, collections.abc.MutableSet))


def _dunder(k):
    return k.startswith("__") and k.endswith("__")


def hidden_state():
    """places other than instance attributes where state could survive between two apply calls, found by walking
    the anchored modules: sorted list of (kind, module, qualified name)"""
    import types
    rows = set()

    def check_fn(f, mod, qual):
        if hasattr(f, "cache_info") or hasattr(f, "cache_clear"):
            rows.add(("memoized", mod, qual))
        f = getattr(f, "__wrapped__", f)
        if isinstance(f, (staticmethod, classmethod)):
            f = f.__func__
        if isinstance(f, property):
            for g in (f.fget, f.fset, f.fdel):
                if g is not None:
                    check_fn(g, mod, qual)
            return
        if not isinstance(f, types.FunctionType):
            return
        for dv in (f.__defaults__ or ()) + tuple((f.__kwdefaults__ or {}).values()):
            if _is_mutable_container(dv):
                rows.add(("mutable-default", mod, qual))
        if [k for k in vars(f) if k != "__wrapped__"]:
            rows.add(("function-attribute", mod, qual))
        for cell in f.__closure__ or ():
            try:
                if _is_mutable_container(cell.cell_contents):
                    rows.add(("closure-cell", mod, qual))
            except ValueError:
                pass

    for mname, mod in anchored_modules().items():
        for k, v in vars(mod).items():
            if _dunder(k):
                continue
            if _is_mutable_container(v):
                rows.add(("module-global", mname, k))
            elif isinstance(v, type) and v.__module__ == mname:
                for ak, av in vars(v).items():
                    if _dunder(ak):
                        continue
                    if _is_mutable_container(av):
                        rows.add(("class-attribute", mname, v.__name__ + "." + ak))
                    else:
                        check_fn(av, mname, v.__name__ + "." + ak)
            elif getattr(v, "__module__", None) == mname:
                check_fn(v, mname, k)
    return sorted(rows)


def globals_digest():
    """digest of every module global and class attribute of the anchored modules that holds data"""
    import types
    out = {}
    skip = (types.ModuleType, types.FunctionType, types.BuiltinFunctionType, type, property, staticmethod, classmethod)
    for mname, mod in anchored_modules().items():
        for k, v in vars(mod).items():
            if _dunder(k):
                continue
            if isinstance(v, type) and v.__module__ == mname:
                for ak, av in vars(v).items():
                    if not _dunder(ak) and not isinstance(av, skip) and not callable(av):
                        out["%s.%s.%s" % (mname, v.__name__, ak)] = _deep(av)
            elif not isinstance(v, skip) and not callable(v):
                out["%s.%s" % (mname, k)] = _deep(v)
    return out


def transform_classes():
    """names of all subclasses of Transform defined by the live menpo package"""
    import importlib
    for m in ("menpo.shape", "menpo.image", "menpo.landmark", "menpo.model", "menpo.feature", "menpo.math"):
        try:
            importlib.import_module(m)
        except Exception:      # noqa: BLE001
            pass
    anchored_modules()
    from menpo.transform.base import Transform

    def subs(c):
        out = set()
        for d in c.__subclasses__():
            if d.__module__.startswith("menpo.") and ".test" not in d.__module__:
                out.add(d)
                out |= subs(d)
        return out
    return sorted({c.__name__ for c in subs(Transform)})


def write_table(seed=0):
    """class name -> attributes written by any public application, measured on live objects: arrays, shapes, every
    batching variant, zero points, integer input, failures, _apply_inplace, through a chain / a composition / a copy /
    the pseudoinverse"""
    import warnings
    import numpy as np
    import menpo.transform as mt
    from menpo.shape import PointCloud
    rng = common.random.Random(12345 + seed)
    table = {}
    for name, make, ndims, domain in zoo(rng):
        t = make()
        cls = type(t).__name__
        if name == "ChainWithPWA":
            cls = None          # the chain itself is covered by TransformChain; its member is measured below
        w = set(table.get(cls, ()))
        x1, _ = gen_points(rng, 5, ndims, domain, 0.0)
        x2, _ = gen_points(rng, 4, ndims, domain, 0.0)
        xi = np.round(x1).astype(np.int64)

        def inplace(public):
            with warnings.catch_warnings():
                warnings.simplefilter("ignore")
                pc = PointCloud(x1.copy())
                (t.apply_inplace if public else t._apply_inplace)(pc)

        acts = [lambda: t.apply(x1), lambda: t.apply(x2.copy()), lambda: t.apply(PointCloud(x1.copy())),
                lambda: t.apply(x1, batch_size=2), lambda: t.apply(x1),
                lambda: t.apply(x1, batch_size=1), lambda: t.apply(x1, batch_size=4), lambda: t.apply(x1, batch_size=9),
                lambda: t.apply(PointCloud(x1.copy()), batch_size=2), lambda: t.apply(x1[:0]),
                lambda: t.apply(x1[:0], batch_size=3), lambda: t.apply(x1[:1]), lambda: t.apply(xi),
                lambda: t.apply(xi, batch_size=2), lambda: inplace(False), lambda: inplace(True),
                lambda: t.copy().apply(x1), lambda: mt.TransformChain([t]).apply(x1, batch_size=2),
                lambda: t.compose_before(make()).apply(x1), lambda: t.compose_after(make()).apply(x1),
                lambda: t.pseudoinverse().apply(t.apply(x1)), lambda: t.pseudoinverse().apply(t.apply(x1), batch_size=2)]
        if domain != "all":
            xo, _ = gen_points(rng, 4, ndims, domain, 0.6)
            o = outside_point(rng)
            xo[0] = [o[0] - domain[2][0], o[1] - domain[2][1]] if len(domain) > 2 else o
            acts += [lambda: t.apply(xo), lambda: t.apply(xo, batch_size=3), lambda: t.apply(x1)]
        if cls is None:
            member = t.transforms[-1]
            wm = set(table.get(type(member).__name__, ()))
            for a in acts:
                wm.update(attr_writes(member, a))
            table[type(member).__name__] = sorted(wm)
            continue
        for a in acts:
            w.update(attr_writes(t, a))
        table[cls] = sorted(w)
    return table


def _lean_strs(xs):
    return "[%s]" % ", ".join('"%s"' % x for x in xs)


TABLE_REL = "MenpoModel/Generated/C09Writes.lean"
TABLE_TARGETS = ["MenpoModel.Generated.C09Writes", "MenpoModel.GenProps.C09"]


def generated(ctx, build=True):
    """the tables measured on the live classes; with build=False only writes the notes and returns the file text"""
    before = globals_digest()
    table = write_table()
    after = globals_digest()
    gwrites = sorted(k for k in set(before) | set(after) if before.get(k) != after.get(k))
    hidden = hidden_state()
    classes = transform_classes()
    body = ",\n   ".join('("%s", [%s])' % (c, ", ".join('"%s"' % a for a in table[c])) for c in sorted(table))
    hid = ",\n   ".join('("%s", "%s", "%s")' % r for r in hidden)
    gen = ("/- REGENERATED by harness/c09.py from the live menpo classes and modules on every run.  Do not edit.\n"
           "   applyWrites: for every transform class, the instance attributes that any public application rebinds,\n"
           "   adds or modifies in place; transformClasses: every subclass of Transform the package defines;\n"
           "   hiddenState: places for state other than instance attributes (kind, module, name) in the anchored\n"
           "   modules; globalWrites: module globals / class attributes changed by the measured applications. -/\n"
           "import MenpoModel.Core.C09\n\nnamespace MenpoModel.Generated.C09\nopen MenpoModel.C09\n\n"
           "def applyWrites : WriteTable :=\n  [%s]\n\n"
           "def transformClasses : List String :=\n  %s\n\n"
           "def hiddenState : HiddenState :=\n  [%s]\n\n"
           "def globalWrites : List String :=\n  %s\n\n"
           "end MenpoModel.Generated.C09\n" % (body, _lean_strs(classes), hid, _lean_strs(gwrites)))
    ctx.notes["apply_write_table"] = table
    ctx.notes["transform_classes"] = classes
    ctx.notes["hidden_state_places"] = hidden
    ctx.notes["global_writes"] = gwrites
    if not build:
        return {TABLE_REL: gen}
    ok = common.build_generated(ctx, {TABLE_REL: gen}, TABLE_TARGETS, len(GEN_THEOREMS))
    if not ok and ctx.broken_obligations:
        bo = ctx.broken_obligations[-1]
        src = open(common.os.path.join(common.LEAN, "MenpoModel", "GenProps", "C09.lean")).read().splitlines()
        broken = set()
        for e in bo.get("errors", []) + bo.get("output_tail", "").splitlines():
            m = common.re.search(r"GenProps/C09\.lean:(\d+):", e)
            if m:
                for ln in range(min(int(m.group(1)), len(src)) - 1, -1, -1):
                    mm = common.re.match(r"theorem (\w+)", src[ln])
                    if mm:
                        broken.add("MenpoModel.GenProps.C09." + mm.group(1))
                        break
        bo["obligation"] = sorted(broken) or "MenpoModel.GenProps.C09.*"
        bo["observed_attribute_writes_of_apply"] = {c: a for c, a in table.items() if a}
        bo["observed_transform_classes_not_in_write_table"] = [c for c in classes if c not in table]
        bo["observed_hidden_state_places"] = hidden
        bo["observed_global_writes"] = gwrites
        bo["expected"] = {"CachedPWA": ["_applied_points", "_iab"], "every other class": [],
                          "classes outside the table": ["AbstractPWA", "ComposableTransform", "RadialBasisFunction"],
                          "hidden state places": [], "global writes": []}


def _broken_theorems(bo, rel, namespace):
    """names of the theorems of lean/<rel> in which the build errors of a broken obligation lie"""
    src = open(common.os.path.join(common.LEAN, rel)).read().splitlines()
    broken = set()
    base = common.os.path.basename(rel)
    for e in bo.get("errors", []) + bo.get("output_tail", "").splitlines():
        m = common.re.search(common.re.escape(base) + r":(\d+):", e)
        if m:
            for ln in range(min(int(m.group(1)), len(src)) - 1, -1, -1):
                mm = common.re.match(r"theorem (\w+)", src[ln])
                if mm:
                    broken.add(namespace + "." + mm.group(1))
                    break
    return sorted(broken)


def generated_src(ctx, build=True):
    """the anchored functions translated from the source text of the working tree (harness/trans_c09.py) and the
    obligations `translated = Core/C09Src definition`; True when they all hold (build=False: notes + the file text)"""
    files, reasons = trans_c09.generated_files()
    ctx.notes["translated_functions"] = [t.rsplit(".", 1)[1][:-3] for t in trans_c09.GEN_THEOREMS if t.endswith("_eq")]
    ctx.notes["property_theorems_about_translated_functions"] = [
        t.rsplit(".", 1)[1] for t in trans_c09.GEN_THEOREMS if "translated" in t]
    if reasons:
        ctx.notes["untranslatable"] = reasons
    if not build:
        return files
    n0 = len(ctx.broken_obligations)
    ok = common.build_generated(ctx, files, trans_c09.GEN_TARGETS, trans_c09.N_OBLIGATIONS)
    if not ok and len(ctx.broken_obligations) > n0:
        bo = ctx.broken_obligations[-1]
        names = _broken_theorems(bo, common.os.path.join("MenpoModel", "GenProps", "C09Src.lean"),
                                 "MenpoModel.GenProps.C09Src")
        bo["obligation"] = names or "MenpoModel.GenProps.C09Src.* (the translated file does not elaborate)"
        bo["meaning"] = ("the source text of the named function(s) of the working tree no longer translates to the "
                         "definition the C09 theorems are about (Core/C09Src.lean)")
        if reasons:
            bo["untranslatable"] = reasons
    return ok


# which families of cases exercise which translated function: a broken obligation triples their share of the search
SEARCH_BIAS = {"applyBatched_eq": ("batch", "chain"), "pwaApplyBatched_eq": ("batch", "mesh", "edge"),
               "chainApplyBatched_eq": ("batch", "mesh", "chain"), "chainApply_eq": ("chain", "batch"),
               "withDims_eq": ("chain", "batch"), "apply_eq": ("hist", "batch"), "cachedIab_eq": ("hist",),
               "pythonIab_eq": ("mesh", "edge"), "indexAlphaBeta_eq": ("mesh", "edge"), "containment_eq": ("mesh", "edge"),
               "alphaBeta_eq": ("mesh", "edge"), "pwaApply_eq": ("mesh", "edge"), "pointInPointcloud_eq": ("bimg", "edge"),
               "applyDefaults_ok": ("bimg", "batch")}


def search(ctx):
    lines, pending = [], {}
    before = ctx.evaluations
    budget = dict(hist=600, batch=300, bimg=10, mesh=60, chain=60, edge=150)
    for bo in ctx.broken_obligations:
        names = bo.get("obligation")
        for nm in (names if isinstance(names, list) else []):
            for fam in SEARCH_BIAS.get(nm.rsplit(".", 1)[-1], ()):
                budget[fam] = min(budget[fam] * 3, 2000)
    ctx.notes["search_budget"] = budget
    explore(ctx, budget["hist"], budget["batch"], budget["bimg"], lines, pending, budget["mesh"], budget["chain"],
            budget["edge"])
    ctx.searched += ctx.evaluations - before
    return bool(ctx.failures)


def run(ctx):
    n0 = len(ctx.broken_obligations)
    # one build for both groups of regenerated files (each build waits for the shared lake lock); only when it fails
    # are the groups built one by one, to name the obligations that broke
    files = dict(generated(ctx, build=False))
    files.update(generated_src(ctx, build=False))
    n_obl = len(GEN_THEOREMS) + trans_c09.N_OBLIGATIONS
    tables_ok = src_ok = common.build_generated(ctx, files, TABLE_TARGETS + trans_c09.GEN_TARGETS, n_obl)
    if not tables_ok:
        del ctx.broken_obligations[n0:]
        ctx.gen_obligations -= n_obl
        generated(ctx)
        tables_ok = len(ctx.broken_obligations) == n0
        src_ok = generated_src(ctx)
    # a broken obligation means that what the model assumes (where state lives / what the source says) no longer
    # matches the live code: audit what still builds, then let the oracle search for an input on which it shows
    imports, theorems = [IMPORTS[0]], [t for t in THEOREMS if t not in GEN_THEOREMS and t not in trans_c09.GEN_THEOREMS]
    targets = ["MenpoModel.Props.C09", "MenpoModel.Drive.C09"]
    if tables_ok:
        imports.append(IMPORTS[1])
        theorems += GEN_THEOREMS
        targets.append("MenpoModel.GenProps.C09")
    if src_ok:
        imports.append(IMPORTS[2])
        theorems += trans_c09.GEN_THEOREMS
        targets.append("MenpoModel.GenProps.C09Src")
    common.prepare_lean(ctx, PROP, imports, theorems, targets=targets)
    lines, pending = [], {}
    explore(ctx, ctx.n(240, 5000), ctx.n(120, 2400), ctx.n(8, 60), lines, pending, ctx.n(120, 2400), ctx.n(100, 2000),
            ctx.n(90, 1500))
    if lines:
        model = common.run_driver(PROP, lines)
        for cid, (op, obs, rp) in pending.items():
            notes = []
            why = compare_model(op, obs, model[cid], rp, notes)
            for nt in notes:
                ctx.count(nt)
            if why is not None:
                ctx.mismatch(op, why, rp)
    return ctx.finish(search)


def replay(ctx, path):
    data = json.load(open(path))
    print(json.dumps(data, indent=1)[:3000])
    print("re-running the quick exploration with the recorded seed %r" % data.get("seed"))
    ctx2 = common.Ctx(PROP, "quick", int(data.get("seed", 0)))
    return run(ctx2)
