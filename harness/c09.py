"""C09 — apply() is pure: no history, aliasing or batch-size effects (DESIGN.md section 6, C09).

Parties: the real transforms; the oracle (every output against a *fresh* transform of the same
parameters applied to a *copy* of the current input; batched against unbatched; failure mask
against the per-point containment test); the Lean model (batch structure, failure mask of the
batched piecewise-affine apply, the CachedPWA memo as a state machine).
"""
import json

from . import common

PROP = "C09"
INFO = dict(
    technique="Lean 4 proof (batching = unbatched for every batch size by induction; failure-mask exactness; memo "
              "state machine refines the stateless function over every operation history) + model/implementation "
              "correspondence and fresh-transform oracle on random histories",
    level_text="Theorems over an executable model of Transform._apply_batched, AbstractPWA._apply_batched and the "
               "CachedPWA memo: batched = unbatched for every k>=1 and every list; the batched piecewise-affine "
               "failure mask equals the unbatched one (one entry per input point, exactly the outside points); for "
               "every finite interleaving of applies and in-place edits the memoised transform returns the "
               "stateless result.  The behaviours coded before the repairs are refuted by kernel-checked witnesses. "
               "Tied to /repo by running real histories (array reuse, in-place edits, inputs 1e-7 apart, all batch "
               "sizes 1..n+2, in/out-of-domain mixes) on every transform class and diffing against the Lean driver; "
               "an independent fresh-transform oracle decides the property on the real code.",
    level_note="Trusted: Lean kernel; axioms propext/Classical.choice/Quot.sound; Python harness; driver parser. "
               "Modelled, not verified: the per-point map of each transform class is an abstract function (only the "
               "memo and the batching logic are modelled); numpy slicing/vstack semantics; float rounding differences "
               "between batch shapes are absorbed by a 1e-9 tolerance.",
    rule="a case = one history (2-10 applies with reuse / in-place edits / near-equal inputs) or one (points, batch "
         "size, in/out-of-domain mask) triple on one transform class; distinct = distinct (class, history/mask/batch "
         "size); non-trivial = at least two applies or a batch size that is not 1, n or None",
    partial=["statelessness of the non-caching transform classes: `pure_of_no_writes` (no attribute write => history "
             "independent) is a theorem and the frame hypothesis is the regenerated obligation `applyWrites_ok` (measured "
             "on live objects of every class each run); that a class's _apply reads nothing but its attributes and "
             "its argument (no module-level state) is decided by the fresh-transform oracle only"],
    assumptions=["numpy computations on equal values and equal shapes are deterministic to 1e-10"],
    design_ref="DESIGN.md section 6, C09")
IMPORTS = ["MenpoModel.Props.C09", "MenpoModel.GenProps.C09"]
THEOREMS = [
    "MenpoModel.C09.batched_eq_unbatched_hom",
    "MenpoModel.C09.batched_eq_unbatched",
    "MenpoModel.C09.pwa_mask_exact_unbatched",
    "MenpoModel.C09.pwa_batched_fixed_eq",
    "MenpoModel.C09.pwa_batched_coded_refuted",
    "MenpoModel.C09.apply_pure_fixed",
    "MenpoModel.C09.fresh_memoOk",
    "MenpoModel.C09.apply_pure_coded_refuted_aliasing",
    "MenpoModel.C09.apply_pure_coded_refuted_tolerance",
    "MenpoModel.C09.pure_of_no_writes",
    "MenpoModel.C09.pure_of_no_writes_interleaved",
    "MenpoModel.GenProps.C09.applyWrites_ok",
]

TOL = 1e-9


# ------------------------------------------------------------------------------- transform zoo

def _grid_mesh(rng, np):
    """jittered 3x3 grid in [0,8]^2 with a fixed triangulation (no folding: jitter < 1/4 cell)"""
    from menpo.shape import TriMesh
    pts = []
    for i in range(3):
        for j in range(3):
            pts.append([4.0 * i + rng.randint(-3, 3) / 4.0, 4.0 * j + rng.randint(-3, 3) / 4.0])
    tl = []
    for i in range(2):
        for j in range(2):
            a, b, c, d = 3 * i + j, 3 * i + j + 1, 3 * (i + 1) + j, 3 * (i + 1) + j + 1
            tl += [[a, b, c], [b, d, c]]
    return TriMesh(np.array(pts), trilist=np.array(tl))


def zoo(rng):
    """list of (name, factory() -> fresh transform, n_dims, domain) ; domain 'pwa' or 'all'"""
    import numpy as np
    import menpo.transform as mt
    from menpo.transform.piecewiseaffine.base import PythonPWA
    from menpo.shape import PointCloud
    out = []

    def dy(lo=-16, hi=16, m=2):
        return rng.randint(lo * 2 ** m, hi * 2 ** m) / float(2 ** m)

    for d in (2, 3):
        h = np.eye(d + 1)
        h[:d, :] = [[dy(-2, 2) for _ in range(d + 1)] for _ in range(d)]
        h[:d, :d] += 3 * np.eye(d)
        hp = h.copy()
        hp[d, :d] = [rng.randint(0, 2) / 64.0 for _ in range(d)]
        out.append(("Homogeneous%dD" % d, (lambda hp=hp: mt.Homogeneous(hp.copy())), d, "all"))
        out.append(("Affine%dD" % d, (lambda h=h: mt.Affine(h.copy())), d, "all"))
        tr = [dy() for _ in range(d)]
        out.append(("Translation%dD" % d, (lambda tr=tr: mt.Translation(np.array(tr))), d, "all"))
        s = dy(1, 4)
        out.append(("UniformScale%dD" % d, (lambda s=s, d=d: mt.UniformScale(s, d)), d, "all"))
        ns = [dy(1, 4) for _ in range(d)]
        out.append(("NonUniformScale%dD" % d, (lambda ns=ns: mt.NonUniformScale(np.array(ns))), d, "all"))
    c, s_ = common.rat_circle(rng)
    r2 = np.array([[float(c), -float(s_)], [float(s_), float(c)]])
    out.append(("Rotation2D", (lambda: mt.Rotation(r2.copy())), 2, "all"))
    r3 = np.eye(3)
    r3[1:, 1:] = r2
    out.append(("Rotation3D", (lambda: mt.Rotation(r3.copy())), 3, "all"))
    sm = np.eye(3)
    sm[:2, :2] = 2.5 * r2
    sm[:2, 2] = [dy(), dy()]
    out.append(("Similarity2D", (lambda: mt.Similarity(sm.copy())), 2, "all"))
    # alignments
    src = np.array([[dy(-8, 8), dy(-8, 8)] for _ in range(6)])
    while np.linalg.matrix_rank(src - src.mean(0)) < 2:
        src = np.array([[dy(-8, 8), dy(-8, 8)] for _ in range(6)])
    tgt = src.dot(np.array([[1.5, 0.5], [-0.25, 2.0]])) + np.array([dy(), dy()]) + \
        np.array([[rng.randint(-2, 2) / 8.0, rng.randint(-2, 2) / 8.0] for _ in range(6)])
    for cls in ("AlignmentAffine", "AlignmentSimilarity", "AlignmentRotation", "AlignmentTranslation",
                "AlignmentUniformScale"):
        out.append((cls, (lambda cls=cls: getattr(mt, cls)(PointCloud(src.copy()), PointCloud(tgt.copy()))), 2, "all"))
    out.append(("ThinPlateSplines", (lambda: mt.ThinPlateSplines(PointCloud(src.copy()), PointCloud(tgt.copy()))), 2, "all"))
    out.append(("R2LogR2RBF", (lambda: mt.R2LogR2RBF(src.copy())), 2, "all"))
    out.append(("R2LogRRBF", (lambda: mt.R2LogRRBF(src.copy())), 2, "all"))
    aff = out[1][1]
    trl = out[2][1]
    out.append(("TransformChain", (lambda: mt.TransformChain([aff(), mt.Rotation(r2.copy()), trl()])), 2, "all"))
    out.append(("ChainWithTPS", (lambda: mt.TransformChain(
        [aff(), mt.ThinPlateSplines(PointCloud(src.copy()), PointCloud(tgt.copy()))])), 2, "all"))
    out.append(("WithDims", (lambda: mt.WithDims([0, 2])), 3, "all"))
    mesh = _grid_mesh(rng, np)
    tpts = mesh.points.dot(np.array([[1.25, 0.25], [-0.5, 1.5]])) + np.array([3.0, -2.0])
    out.append(("PiecewiseAffine", (lambda: mt.PiecewiseAffine(mesh.copy(), PointCloud(tpts.copy()))), 2, ("pwa", mesh)))
    out.append(("PythonPWA", (lambda: PythonPWA(mesh.copy(), PointCloud(tpts.copy()))), 2, ("pwa", mesh)))
    return out


def inside_point(rng, mesh):
    """a point strictly inside one triangle of the mesh (barycentric weights with margin)"""
    tl = mesh.trilist[rng.randrange(len(mesh.trilist))]
    a = rng.randint(2, 10)
    b = rng.randint(2, 10)
    c = rng.randint(2, 10)
    w = [a / float(a + b + c), b / float(a + b + c), c / float(a + b + c)]
    p = sum(w[i] * mesh.points[tl[i]] for i in range(3))
    return [float(p[0]), float(p[1])]


def outside_point(rng):
    side = rng.randrange(4)
    t = rng.randint(-4, 40) / 4.0
    off = rng.randint(4, 20) / 4.0
    return [[-1.0 - off, t], [9.0 + off, t], [t, -1.0 - off], [t, 9.0 + off]][side]


def gen_points(rng, n, ndims, domain, frac_out=0.0):
    """(points ndarray, in_domain list)"""
    import numpy as np
    pts, ind = [], []
    for _ in range(n):
        if domain == "all":
            pts.append([rng.randint(-64, 64) / 4.0 + 0.125 for _ in range(ndims)])
            ind.append(True)
        else:
            if rng.random() < frac_out:
                pts.append(outside_point(rng))
                ind.append(False)
            else:
                pts.append(inside_point(rng, domain[1]))
                ind.append(True)
    return np.array(pts), ind


def safe_apply(t, x, **kw):
    """('ok', array) | ('tce', mask) | ('exc', name)"""
    from menpo.transform.piecewiseaffine import TriangleContainmentError
    import numpy as np
    try:
        r = t.apply(x, **kw)
        return "ok", (r.points if hasattr(r, "points") else np.asarray(r))
    except TriangleContainmentError as e:
        return "tce", np.asarray(e.points_outside_source_domain)
    except Exception as e:
        return "exc", type(e).__name__


def same(a, b, tol=TOL):
    import numpy as np
    if a[0] != b[0]:
        return False
    if a[0] == "ok":
        return a[1].shape == b[1].shape and bool(np.all(np.abs(a[1] - b[1]) <= tol * (1 + np.abs(b[1]))))
    if a[0] == "tce":
        return a[1].shape == b[1].shape and bool(np.all(a[1] == b[1]))
    return a[1] == b[1]


# ------------------------------------------------------------------------------- histories

def history_case(ctx, name, make, ndims, domain, rng, lines, pending):
    """one history on one transform: arrays a0..a3 (a3 has another length), versions of content"""
    import numpy as np
    from menpo.shape import PointCloud
    site = "C09/history/" + name
    n_main, n_alt = rng.randint(3, 7), rng.randint(2, 8)
    is_pwa = domain != "all"
    contents = {}

    def content(v):
        """version -> points; same decade = 1e-7 apart (closer than any allclose tolerance); >=1000 has outside points"""
        if v not in contents:
            g = (v % 1000) // 10
            arr_len = n_alt if g == 3 else n_main
            key = ("base", g, v >= 1000)
            if key not in contents:
                sub = common.random.Random(rng.random())
                base, _ = gen_points(sub, arr_len, ndims, domain, 0.0)
                if v >= 1000:
                    base[sub.randrange(arr_len)] = outside_point(sub)
                contents[key] = base
            contents[v] = contents[key] + (v % 10) * 1e-7
        return contents[v]

    t = make()
    n_arr = 4
    arrays = [content(10 * a).copy() for a in range(n_arr)]
    cur = [10 * a for a in range(n_arr)]
    ops, outs, labels = [], [], []
    n_ops = rng.randint(3, 12)
    applies = 0
    for _ in range(n_ops):
        r = rng.random()
        a = rng.randrange(n_arr)
        if r < 0.55 or applies == 0:
            as_shape = rng.random() < 0.2
            x = PointCloud(arrays[a], copy=False) if as_shape else arrays[a]
            got = safe_apply(t, x)
            want = safe_apply(make(), arrays[a].copy())
            ok = same(got, want, 1e-10)
            ops.append(("A", a, cur[a], "shape" if as_shape else "array"))
            applies += 1
            if not ok:
                # which earlier version does the answer belong to?
                stale = [v for v in sorted(k for k in contents if isinstance(k, int)) if same(got, safe_apply(make(), content(v).copy()), 1e-10)]
                ctx.fail(site, "history-dependent",
                         "apply #%d on array %d (content version %d) does not equal a fresh transform on the same "
                         "values; it equals the result for version(s) %r" % (applies, a, cur[a], stale[:3]),
                         {"class": name, "ops": ops, "n_main": n_main, "n_alt": n_alt,
                          "how": "arrays a start at version 10a; A = t.apply(arrays[a]); W = arrays[a][:] = content(v); "
                                 "versions in the same decade differ by 1e-7; versions >= 1000 contain an outside point"})
                labels.append(None)
            else:
                labels.append("e" if got[0] == "tce" else str(cur[a]))
        else:
            g = 3 if a == 3 else rng.choice([0, 1, 2, a])
            v = 10 * g + rng.randrange(3)
            if is_pwa and rng.random() < 0.2:
                v += 1000
            arrays[a][:] = content(v)
            cur[a] = v
            ops.append(("W", a, v))
    ctx.count("history:" + name)
    ctx.case(("hist", name, tuple(ops)), nontrivial=applies >= 2,
             sample={"class": name, "history": [list(o) for o in ops]})
    if is_pwa and name == "PiecewiseAffine" and None not in labels:
        cid = "h%d" % len(lines)
        toks = []
        for o in ops:
            toks += [o[0], str(o[1])] + ([str(o[2])] if o[0] == "W" else [])
        lines.append("%s cache-fixed %d %s" % (cid, len(ops), " ".join(toks)))
        pending[cid] = ("cache-fixed", "ok " + " ".join(labels), {"class": name, "ops": ops})


def batch_case(ctx, name, make, ndims, domain, rng, lines, pending):
    import numpy as np
    from menpo.shape import PointCloud
    site = "C09/batch/" + name
    is_pwa = domain != "all"
    n = rng.randint(1, 9)
    frac = rng.choice([0.0, 0.0, 0.3, 0.6]) if is_pwa else 0.0
    x, ind = gen_points(rng, n, ndims, domain, frac)
    if not is_pwa and rng.random() < 0.35:
        # integer-dtype input (pixel indices are what warps feed to apply): same values, other dtype
        x = np.round(x).astype(rng.choice([np.int64, np.int32, np.uint16]) if (x >= 0).all() else np.int64)
    ctx.count("batch-dtype:" + str(x.dtype))
    base = safe_apply(make(), x.copy())
    rp = {"class": name, "points": x.tolist(), "dtype": str(x.dtype), "in_domain": ind}
    if is_pwa:
        want_mask = np.array([not b for b in ind])
        if all(ind):
            ctx.check(base[0] == "ok", site, "spurious-failure", "all points in the domain but apply failed: %r" % (base[0],), rp)
        else:
            ctx.check(base[0] == "tce" and base[1].shape == want_mask.shape and bool(np.all(base[1] == want_mask)), site,
                      "mask-unbatched", "failure mask %r, outside points are %r" % (
                          base[1].tolist() if base[0] == "tce" else base[0], want_mask.tolist()), rp)
    else:
        ctx.check(base[0] == "ok", site, "raises", "apply raised %r" % (base[1],), rp)
    for k in range(1, n + 3):
        t = make()
        as_shape = rng.random() < 0.25
        got = safe_apply(t, PointCloud(x.copy()) if as_shape else x.copy(), batch_size=k)
        ctx.count("batch:%s" % ("k<n" if k < n else "k=n" if k == n else "k>n"))
        ctx.case(("batch", name, n, k, str(x.dtype), tuple(ind)), nontrivial=(1 < k < n or (k > n and n > 1)),
                 sample={"class": name, "n": n, "batch_size": k, "in_domain": ind})
        if is_pwa and not all(ind):
            ok = got[0] == "tce" and got[1].shape == (n,) and bool(np.all(got[1] == np.array([not b for b in ind])))
            ctx.check(ok, site, "mask-batched",
                      "batch_size=%d on %d points: failure mask %r, outside points are %r" % (
                          k, n, got[1].tolist() if got[0] == "tce" else got, [not b for b in ind]), dict(rp, batch_size=k))
        else:
            ctx.check(same(got, base), site, "batched-differs",
                      "batch_size=%d gives a different result than no batching" % k, dict(rp, batch_size=k))
        if is_pwa and name == "PiecewiseAffine":
            cid = "b%d" % len(lines)
            lines.append("%s pwab-fixed %d %d %s" % (cid, k, n, " ".join("1" if b else "0" for b in ind)))
            obs = "ok" if got[0] == "ok" else ("err " + " ".join("1" if b else "0" for b in got[1].tolist())
                                               if got[0] == "tce" else "exc " + str(got[1]))
            pending[cid] = ("pwab-fixed", obs, dict(rp, batch_size=k))
        if not is_pwa and rng.random() < 0.3:
            cid = "c%d" % len(lines)
            lines.append("%s chunks %d %d" % (cid, k, n))
            pending[cid] = ("chunks", "ok " + " ".join(str(min(k, n - lo)) for lo in range(0, n, k)), {"n": n, "k": k})


def boolean_image_case(ctx, rng):
    """BooleanImage.constrain_to_pointcloud: the mask must not depend on the batch size"""
    import numpy as np
    from menpo.image import BooleanImage
    from menpo.shape import PointCloud
    site = "C09/constrain_to_pointcloud"
    h, w = rng.randint(5, 9), rng.randint(5, 9)
    pc = PointCloud(np.array([[0.5, 0.5], [h - 1.5, 1.0], [h - 2.0, w - 1.5], [1.0, w - 2.0], [h / 2.0, w / 2.0]]) +
                    np.array([[rng.randint(0, 2) / 4.0, rng.randint(0, 2) / 4.0] for _ in range(5)]))
    img = BooleanImage.init_blank((h, w))
    try:
        base = img.constrain_to_pointcloud(pc).mask.copy()
    except Exception as e:
        ctx.fail(site, "raises", "constrain_to_pointcloud raised %s" % type(e).__name__, {"shape": [h, w], "points": pc.points.tolist()})
        return
    for k in (1, 2, 3, 4, 5, 7, h * w, h * w + 3):
        ctx.case(("bimg", h, w, k, pc.points.tobytes()), nontrivial=True)
        try:
            got = img.constrain_to_pointcloud(pc, batch_size=k).mask
            ok = bool(np.array_equal(got, base))
            what = "mask differs from the unbatched mask"
        except Exception as e:
            ok = False
            what = "raised %s: %s" % (type(e).__name__, str(e)[:80])
        ctx.count("constrain_to_pointcloud")
        ctx.check(ok, site, "batched-differs", "batch_size=%d: %s" % (k, what),
                  {"shape": [h, w], "points": pc.points.tolist(), "batch_size": k})


def explore(ctx, n_hist, n_batch, n_bimg, lines, pending):
    rng = ctx.rng
    for rnd in range(max(1, n_hist // 27)):
        z = zoo(rng)
        for name, make, ndims, domain in z:
            reps = 3 if domain != "all" else 1
            for _ in range(reps):
                history_case(ctx, name, make, ndims, domain, rng, lines, pending)
    for rnd in range(max(1, n_batch // 27)):
        z = zoo(rng)
        for name, make, ndims, domain in z:
            reps = 3 if domain != "all" else 1
            for _ in range(reps):
                batch_case(ctx, name, make, ndims, domain, rng, lines, pending)
    for _ in range(n_bimg):
        boolean_image_case(ctx, rng)


# ------------------------------------------------------------------------------- regenerated write table

_deep = common.deep_digest
attr_writes = common.attr_writes


def write_table(seed=0):
    """class name -> attributes written by apply(), measured on live objects (arrays, shapes, batches, failures)"""
    import numpy as np
    from menpo.shape import PointCloud
    rng = common.random.Random(12345 + seed)
    table = {}
    for name, make, ndims, domain in zoo(rng):
        t = make()
        cls = type(t).__name__
        w = set(table.get(cls, ()))
        x1, _ = gen_points(rng, 5, ndims, domain, 0.0)
        x2, _ = gen_points(rng, 4, ndims, domain, 0.0)
        acts = [lambda: t.apply(x1), lambda: t.apply(x2.copy()), lambda: t.apply(PointCloud(x1.copy())),
                lambda: t.apply(x1, batch_size=2), lambda: t.apply(x1)]
        if domain != "all":
            xo, _ = gen_points(rng, 4, ndims, domain, 0.6)
            xo[0] = outside_point(rng)
            acts.append(lambda: t.apply(xo))
        for a in acts:
            w.update(attr_writes(t, a))
        table[cls] = sorted(w)
    return table


def generated(ctx):
    table = write_table()
    body = ",\n   ".join('("%s", [%s])' % (c, ", ".join('"%s"' % a for a in table[c])) for c in sorted(table))
    gen = ("/- REGENERATED by harness/c09.py from the live menpo classes on every run: for every transform class, the\n"
           "   instance attributes that apply() rebinds, adds or modifies in place.  Do not edit. -/\n"
           "import MenpoModel.Core.C09\n\nnamespace MenpoModel.Generated.C09\nopen MenpoModel.C09\n\n"
           "def applyWrites : WriteTable :=\n  [%s]\n\nend MenpoModel.Generated.C09\n" % body)
    ctx.notes["apply_write_table"] = table
    ok = common.build_generated(ctx, {"MenpoModel/Generated/C09Writes.lean": gen},
                                ["MenpoModel.Generated.C09Writes", "MenpoModel.GenProps.C09"], 1)
    if not ok and ctx.broken_obligations:
        ctx.broken_obligations[-1]["obligation"] = "MenpoModel.GenProps.C09.applyWrites_ok"
        ctx.broken_obligations[-1]["observed_attribute_writes_of_apply"] = {c: a for c, a in table.items() if a}
        ctx.broken_obligations[-1]["expected"] = {"CachedPWA": ["_applied_points", "_iab"], "every other class": []}


def search(ctx):
    lines, pending = [], {}
    before = ctx.evaluations
    explore(ctx, 600, 300, 20, lines, pending)
    ctx.searched += ctx.evaluations - before
    return bool(ctx.failures)


def run(ctx):
    generated(ctx)
    if ctx.broken_obligations:
        # the model's assumption about which classes keep state no longer matches the live code: audit what still
        # builds, then let the oracle search for a history on which the new state shows
        common.prepare_lean(ctx, PROP, IMPORTS[:1], THEOREMS[:-1])
    else:
        common.prepare_lean(ctx, PROP, IMPORTS, THEOREMS, targets=["MenpoModel.Props.C09", "MenpoModel.Drive.C09",
                                                                   "MenpoModel.GenProps.C09"])
    lines, pending = [], {}
    explore(ctx, ctx.n(160, 2400), ctx.n(80, 1000), ctx.n(6, 60), lines, pending)
    if lines:
        model = common.run_driver(PROP, lines)
        for cid, (op, obs, rp) in pending.items():
            if model[cid] != obs:
                ctx.mismatch(op, "model %r vs implementation %r" % (model[cid], obs), rp)
    return ctx.finish(search)


def replay(ctx, path):
    data = json.load(open(path))
    print(json.dumps(data, indent=1)[:3000])
    print("re-running the quick exploration with the recorded seed %r" % data.get("seed"))
    ctx2 = common.Ctx(PROP, "quick", int(data.get("seed", 0)))
    return run(ctx2)
