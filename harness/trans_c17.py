"""C17 — the bodies of the anchored mesh code TRANSLATED from the source text of the current working tree into Lean
(`lean/MenpoModel/Generated/C17Src.lean`) on every run of `./check C17`; `lean/MenpoModel/GenProps/C17Src*.lean`
(hand-written) prove every translated definition equal, for all arguments, to the definition of `Core/C17Mesh.lean`
the C17 theorems are about, and restate the property theorems for the translated methods.

harness/py2lean2.py (Translator2M) is the translator; this file is the C17 vocabulary: which numpy expression stands for
which primitive of `Core/C17Np.lean` (one total Lean definition per numpy primitive: `~`, nonzero, isin, ravel, reshape,
any(axis=1), boolean / integer / fancy indexing, column slices, max, arange, unique (plain, with return_index on a void
view, with inverse and counts), item assignment, setdiff1d, sort, hstack, concatenate, the element-wise operators,
cross, linalg.norm, sqrt, sum(axis=1, keepdims=True), division with IEEE specials, nan_to_num, zeros, add.at, mean).
The Python plumbing — which array goes where, in which order, in which branch, what is sliced with WHICH mask, which
method calls which — is NOT in the vocabulary: it is read from the source on every run.

Translated (value level: arrays are values, `self.copy()` is the object's value):
    menpo/shape/adjacency.py      mask_adjacency_array, reindex_adjacency_array
    menpo/shape/mesh/base.py      TriMesh._isolated_mask, from_mask, from_tri_mask, edge_indices, unique_edge_indices,
                                  boundary_tri_index, edge_vectors, edge_lengths, unique_edge_vectors,
                                  unique_edge_lengths, mean_edge_length, tri_areas, mean_tri_area, tri_normals,
                                  vertex_normals, trilist_to_adjacency_array
    menpo/shape/mesh/coloured.py  ColouredTriMesh.from_mask
    menpo/shape/mesh/textured.py  TexturedTriMesh.from_mask
    menpo/shape/mesh/normals.py   _normalize, compute_face_normals, compute_vertex_normals
Translated a second time on the heap of `Core/C17Heap.lean` (objects and arrays are cells, `self.copy()` allocates):
    TriMesh.from_mask, ColouredTriMesh.from_mask, TexturedTriMesh.from_mask, TriMesh.from_tri_mask

A function whose source has no translation any more (`Untranslatable`) gets a stub body for which the equality is false,
so the obligation breaks (BROKEN OBLIGATION -> directed search), never a crash.
"""
import ast
import os

from . import py2lean2 as P
from . import py2lean2s as S

GEN_REL = os.path.join("MenpoModel", "Generated", "C17Src.lean")
GEN_MODULE = "MenpoModel.Generated.C17Src"
OBL_MODULES = ["MenpoModel.GenProps.C17Src", "MenpoModel.GenProps.C17SrcGeom", "MenpoModel.GenProps.C17SrcHeap",
               "MenpoModel.GenProps.C17SrcReal"]
GEN_TARGETS = [GEN_MODULE] + OBL_MODULES

SP = "MenpoModel.C17.SrcProps."
HP = "MenpoModel.C17.HeapProps."
# the equality obligations `translated = Core definition, for all arguments` (one or more per translated function)
OBLIGATIONS = [SP + t for t in (
    "genMaskAdjacencyArray_rect", "genMaskAdjacencyArray_eq", "genReindexAdjacencyArray_eq", "genIsolatedMask_eq",
    "genFromMask_eq", "genFromTriMask_eq", "genEdgeIndices_eq", "genUniqueEdgeIndices_eq", "genBoundaryTriIndex_eq",
    "genTrilistToAdjacencyArray_eq", "adjacencyRows_perm",
    "genTriAreas_eq2", "genTriAreas_eq3", "genTriAreas_other", "genMeanTriArea_eq2", "genMeanTriArea_eq3",
    "genEdgeVectors_eq2", "genEdgeVectors_eq3", "genEdgeLengths_eq2", "genEdgeLengths_eq3",
    "genUniqueEdgeVectors_eq2", "genUniqueEdgeVectors_eq3", "genUniqueEdgeLengths_eq2", "genUniqueEdgeLengths_eq3",
    "genMeanEdgeLength_eq2", "genMeanEdgeLength_eq3", "genNormalize_eq", "genComputeFaceNormals_eq",
    "genComputeVertexNormals_eq", "genTriNormals_eq", "genVertexNormals_eq")] + [HP + t for t in (
    "genFromMaskH_view", "genFromTriMaskH_view", "genFromMaskH_grows", "genFromMaskH_extras", "genFromMaskH_valid")]
N_OBLIGATIONS = len(OBLIGATIONS)
# the property theorems restated for the TRANSLATED methods (axiom-audited while the obligations hold)
SRC_THEOREMS = [SP + t for t in (
    "genFromMask_model", "genFromTriMask_model", "fromMaskOf_eq",
    "src_mask_keeps_whole_triangles", "src_renumber_consistent", "src_mask_drops_orphans", "src_from_mask_slices",
    "src_tri_mask_eq_vertex_mask", "src_boundary_flags", "src_unique_edges_once", "src_pointgraph_edge_slots",
    "src_tri_areas2", "src_tri_areas3", "src_edge_lengths3", "src_tri_normals", "src_vertex_normals",
    "src_tri_normals_real", "src_vertex_normals_real", "src_tri_areas_real")] + [HP + t for t in (
    "src_from_mask_objects", "src_from_tri_mask_objects", "Grows.write_old_invisible", "Grows.write_new_invisible",
    "heap_history")]
# which generator family exercises the functions behind an obligation (the directed search starts there)
FAMILY_OF = (("FromMask", "mask"), ("FromTriMask", "mask"), ("IsolatedMask", "mask"), ("Reindex", "mask"),
             ("MaskAdjacency", "mask"), ("Heap", "mask"), ("HeapProps", "mask"),
             ("EdgeIndices", "bound"), ("Boundary", "bound"), ("UniqueEdgeIndices", "bound"), ("Adjacency", "bound"),
             ("TriAreas", "sliver"), ("MeanTriArea", "geom"), ("EdgeVectors", "geom"), ("EdgeLengths", "geom"),
             ("Normal", "scale"), ("Normalize", "scale"), ("MeanEdgeLength", "geom"))

# ---------------------------------------------------------------------------------------------- the numpy vocabulary

NP = [
    # boolean / index arrays
    ("~$m", "(Np.invert {m})"),
    ("np.nonzero($m)[0]", "(Np.nonzero {m})"),
    ("np.isin($x, $s)", "(Np.isin {x} {s})"),
    ("np.all($m)", "(Np.all {m})"),
    ("$a.ravel()", "(Np.ravel {a})"),
    ("$x.reshape([-1, $k])", "(Np.reshape {x} {k})"),
    ("$x.reshape(-1, $k)", "(Np.reshape {x} {k})"),
    ("$a.any(axis=1)", "(Np.anyAxis1 {a})"),
    ("$a.shape[0]", "(Np.shape0 {a})"),
    ("$a.shape[1]", "(Np.shape1 {a})"),
    ("int(np.max($a))", "Np.amax {a}", "bind"),
    ("np.arange($n)", "(Np.arange {n})"),
    ("range($n)", "(Np.arange {n})"),
    ("np.unique($k, return_inverse=True, return_counts=True)", "(Np.uniqueInvCounts {k})"),
    ("np.unique($v, return_index=True)[1]", "(Np.uniqueRowIndex {v})"),
    ("np.unique($a)", "(Np.unique {a})"),
    ("np.setdiff1d($a, $b)", "(Np.setdiff1d {a} {b})"),
    ("np.zeros($n, dtype=bool)", "(Np.zerosBool {n})"),
    # the dtype of the accumulator is part of the meaning: an integer accumulator truncates what np.add.at adds.
    # `points.dtype` is the parameter `pdt`; the face normals come out of `_normalize` (a division): floating point
    ("np.zeros($p.shape, dtype=points.dtype)", "(Np.zerosDT {p} pdt)"),
    ("np.zeros($p.shape, dtype=face_normals.dtype)", "(Np.zerosDT {p} Np.DType.float)"),
    ("$m.copy()", "{m}"),
    # the rows of an integer array as opaque items (what the void view is for)
    ("np.ascontiguousarray($a).view(np.dtype((np.void, $a.dtype.itemsize * $a.shape[1])))", "{a}"),
    ("$a.astype(np.int64)", "{a}"),
    ("np.sort($a, axis=1)", "(Np.sortRows {a})"),
    ("np.sort($a)", "(Np.sortRows {a})"),
    ("np.hstack(($a, $b, $c))", "(Np.hstack3 {a} {b} {c})"),
    ("np.hstack([$a, $b, $c])", "(Np.hstack3 {a} {b} {c})"),
    ("np.hstack(($a, $b))", "(Np.hstack2 {a} {b})"),
    ("np.hstack([$a, $b])", "(Np.hstack2 {a} {b})"),
    ("np.concatenate([$a, $b, $c])", "(Np.concat3 {a} {b} {c})"),
    ("np.concatenate(($a, $b, $c))", "(Np.concat3 {a} {b} {c})"),
    # indexing
    ("$a[$m, :]", "(Np.rowFilter {a} {m})"),
    ("$a[:, [$i, $j]]", "(Np.cols2 {a} {i} {j})"),
    ("$a[:, -1]", "(Np.colLast {a})"),
    ("$a[:, :$k]", "(Np.colsTake {a} {k})"),
    ("$a[:, $k:]", "(Np.colsDrop {a} {k})"),
    ("$a[:, $k]", "(Np.col {a} {k})"),
    ("$x[..., None]", "(Np.asColumn {x})"),
    ("$a[tri_mask]", "Np.boolIndex {a} trimask", "bind"),
    ("$x == 1", "(Np.eqScalar {x} 1)"),
    ("$a[$i]", "(Np.index {a} {i})"),
    # float arrays
    ("np.abs($x)", "(Np.abs1 {x})"),
    ("np.cross($a, $b)", "(Np.cross {a} {b})"),
    ("np.linalg.norm($x, axis=1)", "(Np.normAxis1 sqrt {x})"),
    ("np.mean($x)", "(Np.mean {x})"),
    ("$v ** 2", "(Np.sq2 {v})"),
    ("$x.sum(axis=1, keepdims=True)", "(Np.sumAxis1Keep {x})"),
    ("np.sqrt($x)", "(Np.sqrt2 sqrt {x})"),
    ("np.nan_to_num($x)", "(Np.nanToNum {x})"),
]

NP_STMT = [
    ("$r[$i] = False", "r", "(Np.setConst {r} {i} false)"),
    ("$r[$i] = True", "r", "(Np.setConst {r} {i} true)"),
    ("$r[$i] = $v", "r", "(Np.setIdx {r} {i} {v})"),
    ("np.add.at($acc, $i, $v)", "acc", "(Np.addAtDT {acc} {i} {v})"),
]

BINOP = {ast.Div: "(Np.divCol {a} {b})"}

# ---------------------------------------------------------------------------------------------- objects, value level

ATTR = [
    ("$o.tcoords.points", "{o}.tcoords"),
    ("$o.points", "{o}.points"),
    ("$o.trilist", "{o}.trilist"),
    ("$o.colours", "{o}.colours"),
    ("$o.n_points", "(Np.shape0 {o}.points)"),
    ("$o.n_dims", "{o}.ndims"),
    ("$o.copy()", "{o}"),
]
ATTR_STMT = [
    ("$o.tcoords.points = $v", "o", "{{ {o} with tcoords := {v} }}"),
    ("$o.trilist = $v", "o", "{{ {o} with trilist := {v} }}"),
    ("$o.points = $v", "o", "{{ {o} with points := {v} }}"),
    ("$o.colours = $v", "o", "{{ {o} with colours := {v} }}"),
]

CALLS = [
    ("mask_adjacency_array($m, $a)", "(genMaskAdjacencyArray {m} {a})"),
    ("reindex_adjacency_array($a)", "genReindexAdjacencyArray {a}", "bind"),
    ("$o._isolated_mask($m)", "(genIsolatedMask {o} {m})"),
    ("self.from_mask($m)", "genFromMask kind s {m}", "bind"),
    ("$o.edge_indices()", "(genEdgeIndices {o})"),
    ("$o.unique_edge_indices()", "(genUniqueEdgeIndices {o})"),
    ("$o.edge_vectors()", "(genEdgeVectors {o})"),
    ("$o.unique_edge_vectors()", "(genUniqueEdgeVectors {o})"),
    ("$o.edge_lengths()", "(genEdgeLengths sqrt {o})"),
    ("$o.unique_edge_lengths()", "(genUniqueEdgeLengths sqrt {o})"),
    ("$o.tri_areas()", "genTriAreas sqrt {o}", "bind"),
    ("_normalize($v)", "(genNormalize sqrt ({v} : List (List Rat)))"),
    ("compute_face_normals($p, $t)", "(genComputeFaceNormals sqrt {p} {t})"),
    ("compute_vertex_normals($p, $t)", "(genComputeVertexNormals sqrt pdt {p} {t})"),
]

FLOAT = "(({n} : Rat) / {d})"


def rules(ret="{e}", raise_=None, extra=(), stmt=(), end=None):
    return P.Rules2N(expr=list(extra) + CALLS + ATTR + NP, stmt=list(stmt) + ATTR_STMT + NP_STMT, ret=ret, raise_=raise_,
                     raise_by={"ValueError": ".error .shape"}, end=end, binop=BINOP, float_=FLOAT, unit=".ok {e}",
                     bind="({m}).bind fun {x} =>\n{k}")


class _Subst(ast.NodeTransformer):
    """replace every read of the variable `name` by the integer constant `value`"""

    def __init__(self, name, value):
        self.name, self.value = name, value

    def visit_Name(self, node):
        if node.id == self.name and isinstance(node.ctx, ast.Load):
            return ast.copy_location(ast.Constant(value=self.value), node)
        return node


def unroll_constant_range(st):
    """NORMALISATION loop <-> straight line: `for i in range(<small int literal>): BODY` (no else, no break / continue /
    return / raise in BODY, `i` not assigned in BODY) is the statements BODY[i := 0]; BODY[i := 1]; ... — the canonical
    form both spellings are translated to.  Returns the list of statements, or None when the loop is not of that form."""
    import copy
    it = st.iter
    if not (isinstance(it, ast.Call) and isinstance(it.func, ast.Name) and it.func.id == "range" and len(it.args) == 1
            and not it.keywords and isinstance(it.args[0], ast.Constant) and isinstance(it.args[0].value, int)
            and not isinstance(it.args[0].value, bool) and 0 <= it.args[0].value <= 8):
        return None
    if st.orelse or not isinstance(st.target, ast.Name):
        return None
    var = st.target.id
    for n in ast.walk(ast.Module(body=list(st.body), type_ignores=[])):
        if isinstance(n, (ast.Break, ast.Continue, ast.Return, ast.Raise, ast.Assert, ast.For, ast.While, ast.Lambda,
                          ast.ListComp, ast.GeneratorExp, ast.FunctionDef)):
            return None
        if isinstance(n, ast.Name) and n.id == var and not isinstance(n.ctx, ast.Load):
            return None
    out = []
    for k in range(it.args[0].value):
        for b in st.body:
            out.append(ast.fix_missing_locations(_Subst(var, k).visit(copy.deepcopy(b))))
    return out


class _Normal:
    """mixin for the two translators: `_` gets the Lean base name `u`; loops over a constant small range are unrolled"""

    def loop(self, st, rest, scope, ind, ctx):
        flat = unroll_constant_range(st)
        if flat is not None:
            return self.block(flat + list(rest), scope, ind, ctx)
        return super().loop(st, rest, scope, ind, ctx)


class Tr(_Normal, P.Translator2N):
    """Translator2N (module-level helpers of the translated function's module are INLINED at their call sites) with the
    C17 normalisations; in addition a call `self.helper(args)` of a method the object's own class hierarchy defines
    inside menpo.shape (and that no rule covers) is inlined the same way: a helper is just a function to translate."""

    @staticmethod
    def fresh(name, scope):
        return P.Translator2N.fresh(name if name.replace("_", "") else "u", scope)

    def function(self, fn, arg_names, ind=2, allow_unused=()):
        self._cls = None
        qn = getattr(fn, "__qualname__", "")
        if "." in qn:
            self._cls = (getattr(fn, "__globals__", {}) or {}).get(qn.split(".")[0])
        return P.Translator2N.function(self, fn, arg_names, ind=ind, allow_unused=allow_unused)

    def _method(self, node, scope):
        """the plain method `self.<name>(...)` refers to (same class hierarchy, inside menpo.shape), or None"""
        import types
        if not (isinstance(node, ast.Call) and isinstance(node.func, ast.Attribute)
                and isinstance(node.func.value, ast.Name) and node.func.value.id == "self" and "self" in scope):
            return None
        cls = getattr(self, "_cls", None)
        if not isinstance(cls, type):
            return None
        for k in cls.__mro__:
            f = vars(k).get(node.func.attr)
            if f is not None:
                if isinstance(f, types.FunctionType) and (f.__module__ or "").startswith("menpo.shape"):
                    return f
                return None
        return None

    def expr(self, node, scope):
        for i, (pat, tmpl, flag) in enumerate(self.r.expr):
            env = {}
            if P.match(pat, node, env):
                self.used_rules.add(i)
                return tmpl.format(**{k: self.pure(v, scope) for k, v in env.items()}), flag
        f = self._method(node, scope)
        if f is not None:
            call = ast.Call(func=ast.Name(id=f.__name__, ctx=ast.Load()),
                            args=[ast.Name(id="self", ctx=ast.Load())] + list(node.args), keywords=list(node.keywords))
            sub_cls = self._cls
            try:
                return self._inline(f, ast.fix_missing_locations(call), scope)
            finally:
                self._cls = sub_cls
        return P.Translator2N.expr(self, node, scope)


class TrS(_Normal, S.Translator2S):
    """Translator2S (heap level) with the C17 normalisations"""


def T(**kw):
    return Tr(rules(**kw))


# ---------------------------------------------------------------------------------------------- objects, heap level
#
# the world `w : Heap.World α` is the hidden state; `self` / `tm` are object indices; an array-valued expression is
# an `RVal` / `IVal` (content + origin), see Core/C17Heap.lean

HEAP_EXPR = [
    ("$o.copy()", "(World.copyObj {STATE} {o})", "state"),
    ("$o.n_points", "(Np.shape0 (World.getRows {STATE} {o} .points).val)"),
    ("$o._isolated_mask($m)", "(genIsolatedMask (World.view {STATE} {o}) {m})"),
    ("mask_adjacency_array($m, $a)", "(genMaskAdjacencyArray {m} ({a}).val)"),
    ("reindex_adjacency_array($a)", "(genReindexAdjacencyArray {a}).map IVal.fresh", "bind"),
    ("self.from_mask($m)", "genFromMaskH kind {STATE} s {m}", "bindstate"),
    ("$o.trilist[tri_mask]", "Np.boolIndex (World.getIdx {STATE} {o}).val trimask", "bind"),
    ("$o.trilist", "(World.getIdx {STATE} {o})"),
    ("$o.tcoords.points", "(World.getRows {STATE} {o} .tcoords)"),
    ("$o.points", "(World.getRows {STATE} {o} .points)"),
    ("$o.colours", "(World.getRows {STATE} {o} .colours)"),
    ("$a[$m, :]", "(RVal.fresh (Np.rowFilter ({a}).val {m}))"),
    ("np.all($m)", "(Np.all {m})"),
    ("$a.shape[0]", "(Np.shape0 {a})"),
    ("np.zeros($n, dtype=bool)", "(Np.zerosBool {n})"),
    ("np.unique($a)", "(Np.unique {a})"),
    ("$a.ravel()", "(Np.ravel {a})"),
]
HEAP_STMT = [
    ("$o.tcoords.points = $v", None, "(World.setRows {STATE} {o} .tcoords {v})", "state"),
    ("$o.trilist = $v", None, "(World.setIdx {STATE} {o} {v})", "state"),
    ("$o.points = $v", None, "(World.setRows {STATE} {o} .points {v})", "state"),
    ("$o.colours = $v", None, "(World.setRows {STATE} {o} .colours {v})", "state"),
    ("$r[$i] = True", "r", "(Np.setConst {r} {i} true)"),
]


def heap_rules():
    return S.Rules2S(expr=HEAP_EXPR, stmt=HEAP_STMT, ret=".ok ({e}, {STATE})", raise_=None,
                     raise_by={"ValueError": ".error .shape"}, state_name="w")


def TH():
    return TrS(heap_rules())


MESH = "{P C T : Type} (s : NMesh P C T)"
GMESH = "{C T : Type} (sqrt : Rat → Rat) (s : NMesh (List Rat) C T)"
GMESH0 = "{C T : Type} (s : NMesh (List Rat) C T)"
ME = {"self": "s"}


def items():
    """[(lean signature ending in `:=`, thunk -> body text, stub body)] in dependency order"""
    import menpo.shape.adjacency as A
    import menpo.shape.mesh.base as B
    import menpo.shape.mesh.normals as N
    from menpo.shape import TriMesh, ColouredTriMesh, TexturedTriMesh
    out = []

    def add(sig, stub, thunk):
        def guarded(thunk=thunk):
            try:
                return thunk()
            except P.Untranslatable:
                raise
            except Exception as e:   # noqa: BLE001 - a function that disappeared, source that cannot be read, ...
                raise P.Untranslatable("%s: %s" % (type(e).__name__, e))
        out.append(("def %s :=" % sig, guarded, "  " + stub))

    def own(cls, name):
        """the function object `cls` itself defines (an inherited method is a changed dispatch: untranslatable here)"""
        f = vars(cls).get(name)
        if f is None:
            raise P.Untranslatable("%s no longer defines %s itself" % (cls.__name__, name))
        return getattr(f, "__func__", f)

    # ---- adjacency.py
    add("genMaskAdjacencyArray (mask : List Bool) (adjacencyarray : List (List Nat)) : List (List Nat)", "[]",
        lambda: T().function(A.mask_adjacency_array, {"mask": "mask", "adjacency_array": "adjacencyarray"}, ind=1))
    add("genReindexAdjacencyArray (adjacencyarray : List (List Nat)) : Except Err (List (List Nat))", ".error .index",
        lambda: T(ret=".ok {e}").function(A.reindex_adjacency_array, {"adjacency_array": "adjacencyarray"}, ind=1))
    # ---- masking (value level)
    add("genIsolatedMask %s (mask : List Bool) : List Bool" % MESH, "[]",
        lambda: T().function(own(TriMesh, "_isolated_mask"), {"self": "s", "mask": "mask"}, ind=1))
    for cls, nm in ((TriMesh, "TriMesh"), (ColouredTriMesh, "Coloured"), (TexturedTriMesh, "Textured")):
        add("genFromMask%s %s (mask : List Bool) : Except Err (NMesh P C T)" % (nm, MESH), ".error .index",
            lambda cls=cls: T(ret=".ok {e}").function(own(cls, "from_mask"), {"self": "s", "mask": "mask"}, ind=1))
    # glue (not translated): `self.from_mask` resolves to the method of the object's class (regenerated table
    # `suppliers`: every class defines its own from_mask, GenProps/C17.suppliers_ok)
    add("genFromMask %s (kind : Kind) (s : NMesh P C T) (mask : List Bool) : Except Err (NMesh P C T)" % "{P C T : Type}", ".error .index",
        lambda: "  match kind with\n  | .plain => genFromMaskTriMesh s mask\n  | .coloured => genFromMaskColoured s mask\n"
                "  | .textured => genFromMaskTextured s mask")
    add("genFromTriMask {P C T : Type} (kind : Kind) (s : NMesh P C T) (trimask : List Bool) : Except Err (NMesh P C T)",
        ".error .empty",
        lambda: T(ret="{e}").function(own(TriMesh, "from_tri_mask"), {"self": "s", "tri_mask": "trimask"}, ind=1))
    # ---- edges
    add("genEdgeIndices %s : List (List Nat)" % MESH, "[]",
        lambda: T().function(own(TriMesh, "edge_indices"), ME, ind=1))
    add("genUniqueEdgeIndices %s : List (List Nat)" % MESH, "[]",
        lambda: T().function(own(TriMesh, "unique_edge_indices"), ME, ind=1))
    add("genBoundaryTriIndex %s : List Bool" % MESH, "[]",
        lambda: T().function(own(TriMesh, "boundary_tri_index"), ME, ind=1))
    add("genTrilistToAdjacencyArray (trilist : List (List Nat)) : List (List Nat)", "[]",
        lambda: T().function(B.trilist_to_adjacency_array, {"trilist": "trilist"}, ind=1))
    # ---- geometry
    add("genEdgeVectors %s : List (List Rat)" % GMESH0, "[]",
        lambda: T().function(own(TriMesh, "edge_vectors"), ME, ind=1))
    add("genEdgeLengths %s : List Rat" % GMESH, "[]",
        lambda: T().function(own(TriMesh, "edge_lengths"), ME, ind=1))
    add("genUniqueEdgeVectors %s : List (List Rat)" % GMESH0, "[]",
        lambda: T().function(own(TriMesh, "unique_edge_vectors"), ME, ind=1))
    add("genUniqueEdgeLengths %s : List Rat" % GMESH, "[]",
        lambda: T().function(own(TriMesh, "unique_edge_lengths"), ME, ind=1))
    add("genMeanEdgeLength %s (unique : Bool) : Rat" % GMESH, "0",
        lambda: T().function(own(TriMesh, "mean_edge_length"), {"self": "s", "unique": "unique"}, ind=1))
    add("genTriAreas %s : Except Err (List Rat)" % GMESH, ".error .index",
        lambda: T(ret=".ok {e}").function(own(TriMesh, "tri_areas"), ME, ind=1))
    add("genMeanTriArea %s : Except Err Rat" % GMESH, ".error .index",
        lambda: T(ret=".ok {e}").function(own(TriMesh, "mean_tri_area"), ME, ind=1))
    # ---- normals.py
    add("genNormalize (sqrt : Rat → Rat) (v : List (List Rat)) : List (List Rat)", "[]",
        lambda: T().function(N._normalize, {"v": "v"}, ind=1))
    add("genComputeFaceNormals (sqrt : Rat → Rat) (points : List (List Rat)) (trilist : List (List Nat)) : List (List Rat)", "[]",
        lambda: T().function(N.compute_face_normals, {"points": "points", "trilist": "trilist"}, ind=1))
    add("genComputeVertexNormals (sqrt : Rat → Rat) (pdt : Np.DType) (points : List (List Rat)) (trilist : List (List Nat)) : List (List Rat)",
        "[]", lambda: T().function(N.compute_vertex_normals, {"points": "points", "trilist": "trilist"}, ind=1))
    add("genTriNormals %s : Except Err (List (List Rat))" % GMESH, ".error .index",
        lambda: T(ret=".ok {e}").function(own(TriMesh, "tri_normals"), ME, ind=1))
    add("genVertexNormals {C T : Type} (sqrt : Rat → Rat) (pdt : Np.DType) (s : NMesh (List Rat) C T) : Except Err (List (List Rat))", ".error .index",
        lambda: T(ret=".ok {e}").function(own(TriMesh, "vertex_normals"), ME, ind=1))
    # ---- the same masking methods on the heap (objects and arrays are cells; Core/C17Heap.lean)
    HSIG = "{α : Type} (w : World α) (s : Nat)"
    for cls, nm in ((TriMesh, "TriMesh"), (ColouredTriMesh, "Coloured"), (TexturedTriMesh, "Textured")):
        add("genFromMask%sH %s (mask : List Bool) : Except Err (Nat × World α)" % (nm, HSIG), ".error .index",
            lambda cls=cls: TH().function(own(cls, "from_mask"), {"self": "s", "mask": "mask", S.STATE: "w"}, ind=1))
    add("genFromMaskH {α : Type} (kind : Kind) (w : World α) (s : Nat) (mask : List Bool) : Except Err (Nat × World α)",
        ".error .index",
        lambda: "  match kind with\n  | .plain => genFromMaskTriMeshH w s mask\n  | .coloured => genFromMaskColouredH w s mask\n"
                "  | .textured => genFromMaskTexturedH w s mask")
    add("genFromTriMaskH {α : Type} (kind : Kind) (w : World α) (s : Nat) (trimask : List Bool) : Except Err (Nat × World α)",
        ".error .empty",
        lambda: TH().function(own(TriMesh, "from_tri_mask"), {"self": "s", "tri_mask": "trimask", S.STATE: "w"}, ind=1))
    return out


HEADER = """/- TRANSLATED by harness/trans_c17.py (harness/py2lean2.py) from the SOURCE TEXT of menpo/shape/adjacency.py,
   menpo/shape/mesh/base.py, coloured.py, textured.py and normals.py of the current working tree on every run of
   `./check C17`; do not edit.  The vocabulary (one definition per numpy primitive) is Core/C17Np.lean;
   GenProps/C17Src*.lean prove every definition equal to the Core definition the C17 theorems are about. -/
import MenpoModel.Core.C17Np
import MenpoModel.Core.C17Heap
import MenpoModel.Core.PyLoop

set_option linter.unusedVariables false

namespace MenpoModel.C17.Gen
open MenpoModel.C17 MenpoModel.C17.Np MenpoModel.C17.Heap
"""
FOOTER = "\nend MenpoModel.C17.Gen\n"


def translate():
    return P.translate_or_stub(items(), HEADER, FOOTER)


def generated_files():
    text, reasons = translate()
    return {GEN_REL: text}, reasons


if __name__ == "__main__":
    import sys
    sys.path.insert(0, os.environ.get("MENPO_REPO", "/repo"))
    t, r = translate()
    print(t)
    print("REASONS:", r)
