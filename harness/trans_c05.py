"""C05 — the vectorisation code of menpo TRANSLATED from the source text of the current working tree into Lean
(`Generated/C05Src.lean`) on every run; `GenProps/C05Src.lean` proves every translated definition equal to the
hand-written definition of `Core/Vectorize.lean` the C05 theorems are about, and re-states the property theorems
over the translated suppliers assembled through the regenerated method-resolution tables.

harness/py2lean2.py + harness/py2lean2w.py are the translator; this file is the C05 vocabulary: which numpy / menpo
expression of the vectorisation code stands for which operation of `Core/C05Src.lean` (namespace `Np`).
Conventions:
  * an object is its model value (`Shape` / `Img` / `Xf`); an in-place method returns the updated receiver
    (`end` = `.ok <current value of self>`); a method that may raise returns `Except Err _`;
  * a call of a method on `self` that Python resolves through the MRO (`self._set_h_matrix`, `self._from_vector_inplace`,
    `self.copy()`, `self._sync_target_from_state()`, ...) is a call of the PARAMETER `v_<method>` of the translated
    definition (open recursion); `GenProps/C05Src.lean` ties the knot through the regenerated tables.  An explicit
    superclass call (`Similarity._from_vector_inplace(self, p)`) is a call of the translated definition of that class;
  * arrays: `Vec` = 1-d, `Mat` = 2-d (rows), `Np.PixArr` = pixel array; a target / source point cloud is its `(n, d)` array;
  * float constants are exact rationals; `np.sqrt` only occurs as `p * np.sqrt(s)` followed by `np.outer(p, p)` and is kept
    symbolic (`Np.scaleSqrt` / `Np.outerSelf`); `np.linalg.eigh` is the contract parameter `eig` of the Core model.
"""
import ast
import os
from fractions import Fraction

from . import py2lean2w as P
from .py2lean2 import Untranslatable, translate_or_stub

GEN_REL = os.path.join("MenpoModel", "Generated", "C05Src.lean")
GEN_TARGETS = ["MenpoModel.Generated.C05Src", "MenpoModel.Generated.C05Sync", "MenpoModel.Generated.C05SrcDt",
               "MenpoModel.GenProps.C05Src", "MenpoModel.GenProps.C05SrcAsm", "MenpoModel.GenProps.C05SrcDt"]


class _Normalise(ast.NodeTransformer):
    """source-level normal forms (behaviour preserving, independent of any property):
         if X is None: X = E          ->  X = E if X is None else X
       (an optional parameter replaced by its default: the conditional expression is what the rules know)"""

    def visit_If(self, node):
        self.generic_visit(node)
        t = node.test
        if (not node.orelse and len(node.body) == 1 and isinstance(node.body[0], ast.Assign)
                and len(node.body[0].targets) == 1 and isinstance(node.body[0].targets[0], ast.Name)
                and isinstance(t, ast.Compare) and len(t.ops) == 1 and isinstance(t.ops[0], ast.Is)
                and isinstance(t.left, ast.Name) and t.left.id == node.body[0].targets[0].id
                and isinstance(t.comparators[0], ast.Constant) and t.comparators[0].value is None):
            x = t.left.id
            return ast.copy_location(ast.Assign(
                targets=[ast.Name(id=x, ctx=ast.Store())],
                value=ast.IfExp(test=t, body=node.body[0].value, orelse=ast.Name(id=x, ctx=ast.Load()))), node)
        return node


def _inline_helpers(node, globs, has_rule, depth=3):
    """statement-level calls `helper(a, b)` of a plain module-level Python FUNCTION (resolved in the globals of the function
    being translated: a helper extracted from, or shared by, several methods) for which the vocabulary has no rule are
    replaced by the helper's body, the parameters substituted by the argument expressions.  Sound because Python passes
    references and the conditions below are checked: the helper is a procedure (no `return` at all, no yield, nested def,
    global / nonlocal, try / with / loops), it never rebinds its parameters, every argument is a name or an attribute chain
    rooted at a name (a pure reference expression, so evaluating it where the parameter is read gives the same object),
    positional arguments only, same count; the helper's own locals are renamed apart.  Otherwise the call is left alone
    (and stays untranslatable: fail-safe)."""
    import inspect
    import textwrap
    import types

    def ref_expr(e):
        while isinstance(e, ast.Attribute):
            e = e.value
        return isinstance(e, ast.Name)

    def body_of(fn):
        try:
            h = ast.parse(textwrap.dedent(inspect.getsource(fn))).body[0]
        except (OSError, TypeError, SyntaxError, IndexError):
            return None
        if not isinstance(h, ast.FunctionDef) or h.decorator_list:
            return None
        a = h.args
        if a.vararg or a.kwarg or a.kwonlyargs or a.defaults or a.posonlyargs:
            return None
        params = [x.arg for x in a.args]
        for n in ast.walk(h):
            if isinstance(n, (ast.Return, ast.Yield, ast.YieldFrom, ast.Global, ast.Nonlocal, ast.Try, ast.With, ast.For,
                              ast.While, ast.Lambda, ast.ClassDef)) or (isinstance(n, ast.FunctionDef) and n is not h):
                return None
            if isinstance(n, ast.Name) and isinstance(n.ctx, (ast.Store, ast.Del)) and n.id in params:
                return None
        return h, params

    counter = [0]

    def expand(st):
        if not (isinstance(st, ast.Expr) and isinstance(st.value, ast.Call) and isinstance(st.value.func, ast.Name)):
            return None
        call = st.value
        fn = globs.get(call.func.id)
        if not isinstance(fn, types.FunctionType) or has_rule(st) or call.keywords:
            return None
        if not all(ref_expr(a) for a in call.args):
            return None
        got = body_of(fn)
        if got is None:
            return None
        h, params = got
        if len(params) != len(call.args):
            return None
        counter[0] += 1
        env = dict(zip(params, call.args))
        locs = {n.id for n in ast.walk(h) if isinstance(n, ast.Name) and isinstance(n.ctx, ast.Store)}
        tag = "_h%d_" % counter[0]

        class Sub(ast.NodeTransformer):
            def visit_Name(self, n):
                if n.id in env and isinstance(n.ctx, ast.Load):
                    import copy as _c
                    return ast.copy_location(_c.deepcopy(env[n.id]), n)
                if n.id in locs:
                    return ast.copy_location(ast.Name(id=tag + n.id, ctx=n.ctx), n)
                return n
        body = [b for b in h.body if not (isinstance(b, ast.Expr) and isinstance(b.value, ast.Constant)
                                          and isinstance(b.value.value, str))]
        return [Sub().visit(b) for b in body] or [ast.Pass()]

    def do_block(stmts):
        out = []
        for st in stmts:
            rep = expand(st)
            if rep is not None:
                out.extend(rep)
                continue
            if isinstance(st, ast.If):
                st.body = do_block(st.body)
                st.orelse = do_block(st.orelse)
            out.append(st)
        return out

    for _ in range(depth):
        before = counter[0]
        node.body = do_block(node.body)
        if counter[0] == before:
            break
    return node


def _inline_self_aliases(node):
    """`x = self.attr` (a bare reference to an attribute of the receiver, no copy) followed by uses of `x`: the local is
    an ALIAS of the attribute — reads and in-place writes through it are reads and writes of `self.attr`.  The alias is
    replaced by `self.attr` everywhere after its definition when that is obviously sound: `x` is bound exactly once, at
    the top level of the body, and no later statement rebinds an attribute of `self` or calls a method on `self` (which
    might).  Otherwise the function is left alone (the plain translation still reads `x` as a value)."""
    body = node.body

    def is_self_attr(e):
        return isinstance(e, ast.Attribute) and isinstance(e.value, ast.Name) and e.value.id == "self"

    for i, st in enumerate(body):
        if not (isinstance(st, ast.Assign) and len(st.targets) == 1 and isinstance(st.targets[0], ast.Name)
                and is_self_attr(st.value)):
            continue
        x = st.targets[0].id
        stores = [n for n in ast.walk(node) if isinstance(n, ast.Name) and n.id == x and isinstance(n.ctx, (ast.Store, ast.Del))]
        if len(stores) != 1 or x in [a.arg for a in node.args.args]:
            continue
        rest = body[i + 1:]
        unsafe = False
        for n in (m for r in rest for m in ast.walk(r)):
            if isinstance(n, (ast.Assign, ast.AugAssign)):
                tg = n.targets if isinstance(n, ast.Assign) else [n.target]
                if any(is_self_attr(t) for t in tg):
                    unsafe = True
            if isinstance(n, ast.Call) and is_self_attr(n.func):
                unsafe = True
        if unsafe:
            continue

        class Sub(ast.NodeTransformer):
            def visit_Name(self, n):
                if n.id == x and isinstance(n.ctx, ast.Load):
                    return ast.copy_location(ast.Attribute(value=ast.Name(id="self", ctx=ast.Load()), attr=st.value.attr,
                                                           ctx=ast.Load()), n)
                return n
        node.body = body[:i] + [Sub().visit(r) for r in rest]
        return _inline_self_aliases(node)
    return node


def _inline_pure_locals(node, may_raise):
    """`x = E` with E a pure, total expression and `x` a single-assignment, read-only local: every later read of `x` is
    replaced by E and the assignment is dropped, so that a hoisted temporary and the nested expression it was hoisted out
    of translate to the same term (and rules about nested expressions keep matching).  Conditions (all syntactic, all
    conservative): `x` is bound exactly once in the function and is not a parameter; it is never the base of a subscript /
    attribute store, an augmented assignment or an argument of a statement-level call (it is not mutated in place);
    every read of `x` is in the statements that follow the assignment in the same block; no name occurring in E is bound
    more than once (or is a parameter that is re-bound); E does not mention `self` unless no later statement of the
    function writes to `self` (attribute / subscript stores on it, statement-level calls on it or with it);
    `may_raise(E)` is false (an expression that can raise keeps its place)."""
    params = {a.arg for a in node.args.posonlyargs + node.args.args + node.args.kwonlyargs}
    stores = {}
    for n in ast.walk(node):
        if isinstance(n, ast.Name) and isinstance(n.ctx, (ast.Store, ast.Del)):
            stores[n.id] = stores.get(n.id, 0) + 1
    for a in params:
        stores[a] = stores.get(a, 0) + 1

    def root(e):
        while isinstance(e, (ast.Attribute, ast.Subscript)):
            e = e.value
        return e.id if isinstance(e, ast.Name) else None

    mutated = set()
    for n in ast.walk(node):
        tg = []
        if isinstance(n, ast.Assign):
            tg = n.targets
        elif isinstance(n, (ast.AugAssign, ast.AnnAssign)):
            tg = [n.target]
        for t in tg:
            for e in (t.elts if isinstance(t, (ast.Tuple, ast.List)) else [t]):
                if isinstance(e, (ast.Attribute, ast.Subscript)) or isinstance(n, ast.AugAssign):
                    mutated.add(root(e))
        if isinstance(n, ast.Expr) and isinstance(n.value, ast.Call):
            c = n.value
            mutated.add(root(c.func))
            for a in list(c.args) + [k.value for k in c.keywords]:
                mutated.add(root(a))

    def loads(stmts, x):
        return sum(1 for st in stmts for n in ast.walk(st) if isinstance(n, ast.Name) and n.id == x and isinstance(n.ctx, ast.Load))

    total_loads = lambda x: loads(node.body, x)

    def do_block(stmts):
        out, i = [], 0
        stmts = list(stmts)
        while i < len(stmts):
            st = stmts[i]
            if (isinstance(st, ast.Assign) and len(st.targets) == 1 and isinstance(st.targets[0], ast.Name)):
                x, E = st.targets[0].id, st.value
                names = {n.id for n in ast.walk(E) if isinstance(n, ast.Name)}
                ok = (stores.get(x, 0) == 1 and x not in mutated and x not in names
                      and all(stores.get(nm, 0) <= 1 for nm in names)
                      and not ("self" in names and "self" in mutated)
                      and not any(nm in mutated for nm in names if nm != "self")
                      and not isinstance(E, (ast.Lambda, ast.ListComp, ast.GeneratorExp, ast.Yield, ast.Await))
                      and not may_raise(E)
                      and loads(stmts[i + 1:], x) == total_loads(x))
                if ok:
                    class Sub(ast.NodeTransformer):
                        def visit_Name(self, n):
                            if n.id == x and isinstance(n.ctx, ast.Load):
                                import copy as _c
                                return ast.copy_location(_c.deepcopy(E), n)
                            return n
                    stmts = stmts[:i] + [Sub().visit(r) for r in stmts[i + 1:]]
                    continue
            for f in ("body", "orelse"):
                if isinstance(st, (ast.If, ast.For, ast.While)) and getattr(st, f, None):
                    setattr(st, f, do_block(getattr(st, f)))
            out.append(st)
            i += 1
        return stmts

    node.body = do_block(node.body) or [ast.Pass()]
    return node


class T5(P.Translator2W):
    """Translator2W + float constants as exact rationals (generic; a rule cannot do it because `1 == 1.0 == True` for
    the structural matcher)"""

    _globals = None

    def function(self, fn, arg_names, ind=2, allow_unused=()):
        self._globals = getattr(fn, "__globals__", None)
        return P.Translator2W.function(self, fn, arg_names, ind, allow_unused)

    def _stmt_has_rule(self, st):
        return (any(P.match(pat, st, {}) for pat, _r, _t in self.r.stmt) or any(P.match(pat, st, {}) for pat in self.r.skip)
                or any(P.match(pat, st, {}) for pat, _t in self.r.guard))

    def function_node(self, node, arg_names, ind=2, allow_unused=()):
        import copy as _copy
        node = _copy.deepcopy(node)
        if self._globals:
            node = _inline_helpers(node, self._globals, self._stmt_has_rule)
        node = _inline_self_aliases(_Normalise().visit(node))
        node = _inline_pure_locals(node, self._may_raise_expr)
        ast.fix_missing_locations(node)
        return P.Translator2W.function_node(self, node, arg_names, ind, allow_unused)

    def _may_raise_expr(self, e):
        """does a rule flagged "bind" translate a sub-expression of `e` (an operation that can raise)?"""
        for n in ast.walk(e):
            if isinstance(n, ast.expr):
                for pat, _t, flag in self.r.expr:
                    if P.match(pat, n, {}):
                        if flag == "bind":
                            return True
                        break
        return False

    def expr(self, node, scope):
        # `x in (a, b, ...)` / `x not in [a, b, ...]` on a literal tuple / list: the disjunction of equalities it abbreviates
        if (isinstance(node, ast.Compare) and len(node.ops) == 1 and isinstance(node.ops[0], (ast.In, ast.NotIn))
                and isinstance(node.comparators[0], (ast.Tuple, ast.List)) and node.comparators[0].elts
                and not any(P.match(pat, node, {}) for pat, _t, _f in self.r.expr)):
            x = self.pure(node.left, scope)
            alts = " || ".join("(%s == %s)" % (x, self.pure(e, scope)) for e in node.comparators[0].elts)
            return ("(!(%s))" if isinstance(node.ops[0], ast.NotIn) else "(%s)") % alts, ""
        if isinstance(node, ast.Constant) and type(node.value) is float:
            f = Fraction(repr(node.value))
            return ("(%d : Rat)" % f.numerator if f.denominator == 1 else
                    "((%d : Rat) / %d)" % (f.numerator, f.denominator)), ""
        return P.Translator2W.expr(self, node, scope)

    def _block1(self, stmts, scope, ind, ctx):
        if stmts:
            st, rest = stmts[0], stmts[1:]
            # a bare `return` of an in-place method: the `end` template, formatted with the current variables
            if isinstance(st, ast.Return) and st.value is None and self.r.end is not None:
                return ctx.exit(self._fmt(self.r.end, scope), scope, ind)
            # `a, b = <call that may raise>`: unwrap first, then destructure
            if (isinstance(st, ast.Assign) and len(st.targets) == 1 and isinstance(st.targets[0], (ast.Tuple, ast.List))):
                e, flag = self.expr(st.value, scope)
                if flag == "bind":
                    sc = dict(scope)
                    tmp = self.fresh("t", sc)
                    sc["\0tmp" + tmp] = tmp
                    lines, sc = self.bind_target(st.targets[0], tmp, sc)
                    k = "".join("  " * (ind + 1) + l + "\n" for l in lines) + self.block(rest, sc, ind + 1, ctx)
                    return self._unwrap(e, tmp, k, scope, ind, ctx)
            # `x = <expr with operands that may raise>`: translate the right-hand side once (the base class translates it
            # twice when the value itself is not monadic, which duplicates the hoisted operands)
            if (isinstance(st, ast.Assign) and len(st.targets) == 1 and isinstance(st.targets[0], ast.Name)
                    and not any(P.match(pat, st, {}) for pat, _r, _t in self.r.stmt)
                    and not any(P.match(pat, st, {}) for pat in self.r.skip)):
                mark = len(self._pending[-1])
                e, flag = self.expr(st.value, scope)
                if flag != "bind":
                    lines, sc = self.bind_target(st.targets[0], e, scope)
                    return "".join("  " * ind + l + "\n" for l in lines) + self.block(rest, sc, ind, ctx)
                del self._pending[-1][mark:]
        return P.Translator2W._block1(self, stmts, scope, ind, ctx)


RAISES = {"ValueError": ".error .value", "NotImplementedError": ".error .notImpl"}
UNWRAP = (".error err", ".error err", ".ok {x}")
SKIP = ["warn($m)", "warnings.warn($m, MenpoDeprecationWarning)"]

# ------------------------------------------------------------------------------------------------ transforms

XF_EXPR = [
    # the virtual methods of the receiver (parameters of the translated definition)
    ("self.copy()", "(v_copy self)"),
    ("$s.as_vector().shape[0]", "(Except.map (fun a => Np.shape0 a.val) (v_as_vector {s}))", "bind"),
    ("$s._as_vector(**kwargs)", "(Except.map Np.arrayObject (v__as_vector {s}))", "bind"),
    ("$s._new_target_from_state()", "(v__new_target_from_state {s})", "bind"),
    ("$s.aligned_source()", "(v_aligned_source {s})", "bind"),
    ("$s.apply($s.source)", "(Np.applyToSource {s})", "bind"),
    # attributes
    ("$s.h_matrix is not None", "(!(({s}).h == []))"),
    ("$s.target is None", "(({s}).tgt == [])"),
    ("$s.h_matrix", "({s}).h"),
    ("$s._h_matrix", "({s}).h"),
    ("$s.target.n_dims", "(Np.cloudDims ({s}).tgt)"),
    ("$s.target.n_points", "(Np.cloudPoints ({s}).tgt)"),
    ("new_target.n_dims", "(Np.cloudDims newtarget)"),
    ("new_target.n_points", "(Np.cloudPoints newtarget)"),
    ("$s.n_dims", "(Homogeneous_n_dims {s})"),
    ("$s.scale.size", "(Np.shape0 (NonUniformScale_scale {s}))"),
    ("$s.scale", "(NonUniformScale_scale {s})"),
    # numpy
    ("$v.reshape($m.shape)", "(Np.reshapeLike {v} {m})", "bind"),
    ("$p.reshape(($a, $b), order='F')", "(Np.reshapeF {a} {b} {p})"),
    ("$m.shape[0]", "(Np.shape0 {m})"),
    ("$m.shape[1]", "(Np.ncols {m})"),
    ("$m.shape", "(Np.shapeOf {m})"),
    ("len($p)", "(Np.shape0 {p})"),
    ("np.size($p)", "(Np.shape0 {p})"),
    ("np.eye($n)", "(Np.eye {n})"),
    ("np.identity($n)", "(Np.eye {n})"),
    ("np.dot($a, $b)", "(dot {a} {b})"),
    ("np.finfo(float).eps", "Np.epsF"),
    ("$p * np.sqrt($e)", "(Np.scaleSqrt {p} {e})"),
    ("np.outer($q, $q)", "(Np.outerSelf {q})"),
    ("np.linalg.eigh($K)", "(Np.eigh eig {K})", "bind"),
    ("$V[$idx, np.argmax($w)]", "(Np.topColumn {w} {V} {idx})"),
    ("np.array($l)", "{l}"),
    ("$a.copy()", "{a}"),
    ("$m.diagonal()", "(diag {m})"),
    ("$m.ravel(order='F')", "(Np.ravelF {m})"),
    ("$m.ravel()", "(Np.ravelC {m})"),
    ("np.allclose($m[-1, :-1], 0)", "(Np.bottomRowZero {m})"),
    ("np.allclose($m[-1, -1], 1)", "(Np.cornerOne {m})"),
    ("$x not in [$a, $b]", "(!(({x} == {a}) || ({x} == {b})))"),
    ("$m[:-1, -1]", "(Np.lastColTop {m})"),
    ("$m[:$n, :]", "(Np.topRows {n} {m})"),
    ("$v[:-1]", "(List.dropLast {v})"),
    ("$v[$i:]", "(List.drop {i} {v})"),
    ("$v[[$a, $b, $c, $d]]", "(Np.takeIdx {v} [{a}, {b}, {c}, {d}])"),
    ("$m[$i, $j]", "(Np.at2 {m} {i} {j})"),
    ("$v[$i]", "(Np.at1 {v} {i})"),
    ("None", "(none : Option Mat)"),
]

XF_STMT = [
    # virtual / superclass method calls that update the receiver
    ("$s._from_vector_inplace($v)", "s", "(v__from_vector_inplace {s} {v})", "bind"),
    ("$s._set_h_matrix($m, copy=$c, skip_checks=$k)", "s", "(v__set_h_matrix {s} {m} {c} {k})", "bind"),
    ("$s.set_rotation_matrix($m, skip_checks=$k)", "s", "(v_set_rotation_matrix {s} {m} {k})", "bind"),
    ("$s._sync_target_from_state()", "s", "(v__sync_target_from_state {s})", "bind"),
    ("$s._target_setter_with_verification($t)", "s", "(v__target_setter_with_verification {s} {t})", "bind"),
    ("$s._verify_target($t)", "s", "(v__verify_target {s} {t})", "bind"),
    ("$s._target_setter($t)", "s", "(v__target_setter {s} {t})", "bind"),
    ("Affine._set_h_matrix($s, $m, copy=$c, skip_checks=$k)", "s", "(Affine__set_h_matrix {s} {m} {c} {k})", "bind"),
    ("Similarity._from_vector_inplace($s, $p)", "s", "(Similarity__from_vector_inplace v__set_h_matrix {s} {p})", "bind"),
    ("Translation._from_vector_inplace($s, $p)", "s", "(Translation__from_vector_inplace {s} {p})", "bind"),
    ("UniformScale._from_vector_inplace($s, $p)", "s", "(UniformScale__from_vector_inplace {s} {p})", "bind"),
    ("Rotation.set_rotation_matrix($s, $m, skip_checks=$k)", "s", "(Rotation_set_rotation_matrix {s} {m} {k})", "bind"),
    # attribute / array assignments on the receiver
    ("$s._h_matrix = $m", "s", "{{ {s} with h := {m} }}"),
    ("$s._target = $t", "s", "{{ {s} with tgt := {t} }}"),
    ("$s._h_matrix[:-1, :-1] = $m", "s", "{{ {s} with h := setRotBase ({s}).h {m} }}"),
    ("$s.h_matrix[:-1, -1] = $p", "s",
     "(Except.map (fun m => {{ {s} with h := m }}) (Np.assignLastColTop ({s}).h {p}))", "bind"),
    ("np.fill_diagonal($s.h_matrix, $p)", "s", "{{ {s} with h := Np.fillDiag ({s}).h {p} }}"),
    ("$s.h_matrix[-1, -1] = 1", "s", "{{ {s} with h := Np.setCornerOne ({s}).h }}"),
    # local arrays
    ("$h[:$n, :] += $e", "h", "(Np.addTop {n} {h} {e})"),
    ("$h[:$n, $j] = $e", "h", "(Np.setColTop {h} {n} {j} {e})"),
    ("$h[$i, $j] += $e", "h", "(Np.set2 {h} {i} {j} (Np.at2 {h} {i} {j} + {e}))"),
    ("$h[$i, $j] = $e", "h", "(Np.set2 {h} {i} {j} {e})"),
    ("$K /= $c", "K", "(Np.matDiv {K} {c})"),
    ("$v.flags.writeable = $b", "v", "{{ {v} with writeable := {b} }}"),
]


def xf_rules(ret=".ok ({e})", end=".ok {self}", extra_expr=(), extra_stmt=()):
    return P.Rules2W(expr=list(extra_expr) + XF_EXPR, stmt=list(extra_stmt) + XF_STMT, skip=SKIP, ret=ret, end=end,
                     raise_=".error .other", raise_by=RAISES, unwrap=UNWRAP, names={"kwargs": "()"},
                     binop={ast.Div: "({a} / {b})"})


def _fn(cls, name):
    f = cls.__dict__[name]
    if isinstance(f, property):
        return f.fget
    if isinstance(f, (classmethod, staticmethod)):
        return f.__func__
    return f


SETH_T = "(Xf → Mat → Bool → Bool → Except Err Xf)"
SETROT_T = "(Xf → Mat → Bool → Except Err Xf)"
SYNC_T = "(Xf → Except Err Xf)"


def xf_items():
    import menpo.base as mb
    import menpo.transform as mt
    from menpo.transform.homogeneous.base import Homogeneous
    from menpo.transform.base.alignment import Alignment
    out = []

    def add(sig, stub, cls, name, args, **kw):
        rules = xf_rules(**kw)
        out.append((sig, (lambda c=cls, n=name, a=args, r=rules: T5(r).function(_fn(c, n), a, ind=1)), stub))

    S = {"self": "self"}
    SV = {"self": "self", "value": "value", "copy": "copy", "skip_checks": "skipchecks"}
    # ---- Homogeneous
    add("def Homogeneous_n_dims (self : Xf) : Nat :=", "0", Homogeneous, "n_dims", S, ret="{e}")
    add("def Homogeneous__as_vector (self : Xf) : Except Err Vec :=", ".error .other", Homogeneous, "_as_vector", S)
    add("def Homogeneous__set_h_matrix (self : Xf) (value : Mat) (copy skipchecks : Bool) : Except Err Xf :=",
        ".error .other", Homogeneous, "_set_h_matrix", SV)
    add("def Homogeneous__from_vector_inplace (v__set_h_matrix : %s) (self : Xf) (vector : Vec) : Except Err Xf :=" % SETH_T,
        ".error .other", Homogeneous, "_from_vector_inplace", {"self": "self", "vector": "vector"})
    add("def Homogeneous_from_vector (v_copy : Xf → Xf) (v__from_vector_inplace : Xf → Vec → Except Err Xf) (self : Xf) "
        "(vector : Vec) : Except Err Xf :=", ".error .other", Homogeneous, "from_vector", {"self": "self", "vector": "vector"})
    # ---- Affine
    add("def Affine_n_parameters (self : Xf) : Except Err Nat :=", ".error .other", mt.Affine, "n_parameters", S)
    add("def Affine__as_vector (self : Xf) : Except Err Vec :=", ".error .other", mt.Affine, "_as_vector", S)
    add("def Affine__set_h_matrix (self : Xf) (value : Mat) (copy skipchecks : Bool) : Except Err Xf :=",
        ".error .other", mt.Affine, "_set_h_matrix", SV)
    add("def Affine__from_vector_inplace (v__set_h_matrix : %s) (self : Xf) (p : Vec) : Except Err Xf :=" % SETH_T,
        ".error .other", mt.Affine, "_from_vector_inplace", {"self": "self", "p": "p"})
    # ---- Similarity
    add("def Similarity_n_parameters (self : Xf) : Except Err Nat :=", ".error .other", mt.Similarity, "n_parameters", S)
    add("def Similarity__as_vector (self : Xf) : Except Err Vec :=", ".error .other", mt.Similarity, "_as_vector", S)
    add("def Similarity__from_vector_inplace (v__set_h_matrix : %s) (self : Xf) (p : Vec) : Except Err Xf :=" % SETH_T,
        ".error .other", mt.Similarity, "_from_vector_inplace", {"self": "self", "p": "p"})
    # ---- Translation
    add("def Translation_n_parameters (self : Xf) : Except Err Nat :=", ".error .other", mt.Translation, "n_parameters", S)
    add("def Translation__as_vector (self : Xf) : Except Err Vec :=", ".error .other", mt.Translation, "_as_vector", S)
    add("def Translation__from_vector_inplace (self : Xf) (p : Vec) : Except Err Xf :=", ".error .other",
        mt.Translation, "_from_vector_inplace", {"self": "self", "p": "p"})
    # ---- UniformScale / NonUniformScale
    add("def UniformScale_scale (self : Xf) : Rat :=", "0", mt.UniformScale, "scale", S, ret="{e}")
    add("def UniformScale_n_parameters (self : Xf) : Except Err Nat :=", ".error .other", mt.UniformScale, "n_parameters", S)
    add("def UniformScale__as_vector (self : Xf) : Except Err Vec :=", ".error .other", mt.UniformScale, "_as_vector", S,
        extra_expr=[("$s.scale", "(UniformScale_scale {s})")])
    add("def UniformScale__from_vector_inplace (self : Xf) (p : Vec) : Except Err Xf :=", ".error .other",
        mt.UniformScale, "_from_vector_inplace", {"self": "self", "p": "p"})
    add("def NonUniformScale_scale (self : Xf) : Vec :=", "[]", mt.NonUniformScale, "scale", S, ret="{e}")
    add("def NonUniformScale_n_parameters (self : Xf) : Except Err Nat :=", ".error .other", mt.NonUniformScale, "n_parameters", S)
    add("def NonUniformScale__as_vector (self : Xf) : Except Err Vec :=", ".error .other", mt.NonUniformScale, "_as_vector", S)
    add("def NonUniformScale__from_vector_inplace (self : Xf) (vector : Vec) : Except Err Xf :=", ".error .other",
        mt.NonUniformScale, "_from_vector_inplace", {"self": "self", "vector": "vector"})
    # ---- Rotation
    add("def Rotation_n_parameters (self : Xf) : Except Err Nat :=", ".error .other", mt.Rotation, "n_parameters", S)
    add("def Rotation__as_vector (eig : Mat → Vec) (self : Xf) : Except Err Vec :=", ".error .other", mt.Rotation, "_as_vector", S,
        extra_expr=[("-$q", "(Np.vecNeg {q})")])
    add("def Rotation_set_rotation_matrix (self : Xf) (value : Mat) (skipchecks : Bool) : Except Err Xf :=", ".error .other",
        mt.Rotation, "set_rotation_matrix", {"self": "self", "value": "value", "skip_checks": "skipchecks"})
    add("def Rotation__from_vector_inplace (v_set_rotation_matrix : %s) (self : Xf) (p : Vec) : Except Err Xf :=" % SETROT_T,
        ".error .other", mt.Rotation, "_from_vector_inplace", {"self": "self", "p": "p"}, ret=".ok {self}")
    # ---- Targetable / Alignment: the re-sync of the target
    add("def Targetable__verify_target (self : Xf) (newtarget : Mat) : Except Err Xf :=", ".error .other",
        mb.Targetable, "_verify_target", {"self": "self", "new_target": "newtarget"})
    add("def Alignment__target_setter (self : Xf) (newtarget : Mat) : Except Err Xf :=", ".error .other",
        Alignment, "_target_setter", {"self": "self", "new_target": "newtarget"})
    add("def Targetable__target_setter_with_verification (v__verify_target v__target_setter : Xf → Mat → Except Err Xf) "
        "(self : Xf) (newtarget : Mat) : Except Err Xf :=", ".error .other",
        mb.Targetable, "_target_setter_with_verification", {"self": "self", "new_target": "newtarget"})
    add("def Alignment_aligned_source (self : Xf) : Except Err Mat :=", ".error .other", Alignment, "aligned_source", S)
    add("def Alignment__new_target_from_state (v_aligned_source : Xf → Except Err Mat) (self : Xf) : Except Err Mat :=",
        ".error .other", Alignment, "_new_target_from_state", S)
    add("def Targetable__sync_target_from_state (v__new_target_from_state : Xf → Except Err Mat) "
        "(v__target_setter_with_verification : Xf → Mat → Except Err Xf) (self : Xf) : Except Err Xf :=", ".error .other",
        mb.Targetable, "_sync_target_from_state", S)
    # ---- the alignment variants
    add("def AlignmentAffine__set_h_matrix (v__sync_target_from_state : %s) (self : Xf) (value : Mat) "
        "(copy skipchecks : Bool) : Except Err Xf :=" % SYNC_T, ".error .other", mt.AlignmentAffine, "_set_h_matrix", SV)
    add("def AlignmentSimilarity__from_vector_inplace (v__set_h_matrix : %s) (v__sync_target_from_state : %s) "
        "(self : Xf) (p : Vec) : Except Err Xf :=" % (SETH_T, SYNC_T), ".error .other",
        mt.AlignmentSimilarity, "_from_vector_inplace", {"self": "self", "p": "p"})
    add("def AlignmentTranslation__from_vector_inplace (v__sync_target_from_state : %s) (self : Xf) (p : Vec) : "
        "Except Err Xf :=" % SYNC_T, ".error .other", mt.AlignmentTranslation, "_from_vector_inplace", {"self": "self", "p": "p"})
    add("def AlignmentUniformScale__from_vector_inplace (v__sync_target_from_state : %s) (self : Xf) (p : Vec) : "
        "Except Err Xf :=" % SYNC_T, ".error .other", mt.AlignmentUniformScale, "_from_vector_inplace", {"self": "self", "p": "p"})
    add("def AlignmentRotation_set_rotation_matrix (v__sync_target_from_state : %s) (self : Xf) (value : Mat) "
        "(skipchecks : Bool) : Except Err Xf :=" % SYNC_T, ".error .other", mt.AlignmentRotation, "set_rotation_matrix",
        {"self": "self", "value": "value", "skip_checks": "skipchecks"})
    return out


# ------------------------------------------------------------------------------------------------ Vectorizable (base)

BASE_EXPR = [
    ("self.copy()", "(v_copy self)"),
    ("$s.as_vector().shape[0]", "(Except.map (fun a => Np.shape0 a.val) (v_as_vector {s}))", "bind"),
    ("$s._as_vector(**kwargs)", "(Except.map Np.arrayObject (v__as_vector {s}))", "bind"),
    ("$s._from_vector_inplace($v)", "(v__from_vector_inplace {s} {v})", "bind"),
]
BASE_STMT = [
    ("$s._from_vector_inplace($v)", "s", "(v__from_vector_inplace {s} {v})", "bind"),
    ("$v.flags.writeable = $b", "v", "{{ {v} with writeable := {b} }}"),
]


def base_items():
    import menpo.base as mb
    out = []
    rules = lambda: P.Rules2W(expr=BASE_EXPR, stmt=BASE_STMT, skip=SKIP, ret=".ok ({e})", end=".ok {self}",
                              raise_=".error .other", raise_by=RAISES, unwrap=UNWRAP, names={"kwargs": "()"})

    def add(sig, name, args):
        out.append((sig, (lambda n=name, a=args: T5(rules()).function(_fn(mb.Vectorizable, n), a, ind=1)), ".error .other"))

    add("def Vectorizable_as_vector {α β : Type} (v__as_vector : α → Except Err β) (self : α) : Except Err (Np.Flagged β) :=",
        "as_vector", {"self": "self", "kwargs": "()"})
    add("def Vectorizable_n_parameters {α β : Type} (v_as_vector : α → Except Err (Np.Flagged (List β))) (self : α) : "
        "Except Err Nat :=", "n_parameters", {"self": "self"})
    add("def Vectorizable_from_vector_inplace {α : Type} (v__from_vector_inplace : α → Vec → Except Err α) (self : α) "
        "(vector : Vec) : Except Err α :=", "from_vector_inplace", {"self": "self", "vector": "vector"})
    add("def Vectorizable_from_vector {α : Type} (v_copy : α → α) (v__from_vector_inplace : α → Vec → Except Err α) "
        "(self : α) (vector : Vec) : Except Err α :=", "from_vector", {"self": "self", "vector": "vector"})
    return out


# ------------------------------------------------------------------------------------------------ shapes

LM_EXPR = [
    ("$s._landmarks is not None", "(!(({s}).lms == []))"),
    ("$s.landmarks.n_groups", "(Np.shape0 ({s}).lms)"),
]

SH_EXPR = [
    ("$s.has_landmarks", "(Landmarkable_has_landmarks_shape {s})"),
    ("$s.points.ravel()", "({s}).points"),
    ("$s.points.size", "(Np.shape0 ({s}).points)"),
    ("$s.points.shape[1]", "({s}).d"),
    ("$s.n_dims", "(PointCloud_n_dims {s})"),
    ("$v.size", "(Np.shape0 {v})"),
    ("$v.reshape([-1, $n])", "(Np.reshapeNeg1 {v} {n})", "bind"),
    ("TexturedTriMesh($p, $s.tcoords.points, $s.texture, trilist=$s.trilist)", "(Np.mkTextured {p} {s})"),
]
SH_STMT = [
    ("$s.points = $p", "s", "{{ {s} with points := {p} }}"),
    ("$n.landmarks = $s.landmarks", "n", "{{ {n} with lms := ({s}).lms }}"),
]


def shape_items():
    import menpo.shape as ms
    from menpo.landmark import Landmarkable
    out = []

    def add(sig, stub, cls, name, args, expr=SH_EXPR, **kw):
        kw.setdefault("ret", ".ok ({e})")
        kw.setdefault("end", ".ok {self}")
        rules = P.Rules2W(expr=expr, stmt=SH_STMT, skip=SKIP, raise_=".error .other", raise_by=RAISES, unwrap=UNWRAP, **kw)
        out.append((sig, (lambda c=cls, n=name, a=args, r=rules: T5(r).function(_fn(c, n), a, ind=1)), stub))

    S = {"self": "self"}
    add("def Landmarkable_has_landmarks_shape (self : Shape) : Bool :=", "false", Landmarkable, "has_landmarks", S,
        expr=LM_EXPR, ret="{e}")
    add("def PointCloud_n_dims (self : Shape) : Nat :=", "0", ms.PointCloud, "n_dims", S, ret="{e}")
    add("def PointCloud__as_vector (self : Shape) : Except Err Vec :=", ".error .other", ms.PointCloud, "_as_vector", S)
    add("def PointCloud__from_vector_inplace (self : Shape) (vector : Vec) : Except Err Shape :=", ".error .other",
        ms.PointCloud, "_from_vector_inplace", {"self": "self", "vector": "vector"})
    add("def TexturedTriMesh_from_vector (self : Shape) (flattened : Vec) : Except Err Shape :=", ".error .other",
        ms.TexturedTriMesh, "from_vector", {"self": "self", "flattened": "flattened"})
    return out


# ------------------------------------------------------------------------------------------------ images

IMG_EXPR = [
    ("$s.has_landmarks", "(Landmarkable_has_landmarks_image {s})"),
    ("hasattr($s, 'path')", "false"),
    ("copy_landmarks_and_path($s, $t)", "(copy_landmarks_and_path {s} {t})"),
    ("$a if $n is None else $n", "(Option.getD {n} {a})"),
    ("$m.all_true()", "(allTrue {m})"),
    ("$s.masked_pixels()", "(MaskedImage_masked_pixels {s})"),
    ("$m.reshape([$s.n_channels, -1])", "(Np.Arr.rows {m})"),
    ("$m.ravel()", "(Np.Arr.flat (List.flatten {m}))"),
    ("$s.pixels[..., $m]", "(List.map (fun c => maskFilter c {m}) ({s}).chans)"),
    ("$x.mask", "(Np.HasMask.mask {x})"),
    ("$s.pixels.shape[0]", "(Np.shape0 ({s}).chans)"),
    ("$s.pixels.shape[1:]", "({s}).shape"),
    ("$v.reshape($s.pixels.shape)", "(Np.reshapeImg {v} (Image_n_channels {s}) (Image_shape {s}))", "bind"),
    ("$v.reshape(($k,) + $s.shape)", "(Np.reshapeImg {v} {k} (Image_shape {s}))", "bind"),
    ("$v.reshape(($k, -1))", "(Np.reshapeRows {v} {k})", "bind"),
    ("$v.reshape($s.shape)", "(Np.reshapeShape {v} (Image_shape {s}))", "bind"),
    ("np.zeros(($k,) + $s.shape, dtype=$v.dtype)", "(Np.zerosImg {k} (Image_shape {s}))"),
    ("np.array($a, copy=True, order='C', dtype=$a.dtype)", "{a}"),
    ("$a.flags.c_contiguous", "contig"),
    ("$a.copy()", "{a}"),
    ("Image($d, copy=$c)", "(Np.mkImage {d})"),
    ("MaskedImage($d, mask=$m)", "(Np.mkMasked {d} {m})"),
    ("BooleanImage($d, copy=$c)", "(Np.mkBoolean {d})"),
    ("$s.pixels", "({s}).chans"),
    ("$s.n_channels", "(Image_n_channels {s})"),
    ("$s.shape", "(Image_shape {s})"),
]
IMG_STMT = [
    ("$s._set_masked_pixels($p, copy=$c)", "s", "(v__set_masked_pixels {s} {p} {c})", "bind"),
    ("$n.landmarks = $s.landmarks", "n", "{{ {n} with lms := ({s}).lms }}"),
    ("$s.pixels[..., $m] = $p", "s",
     "(Except.map (fun d => {{ {s} with shape := d.shape, chans := d.chans }}) (Np.assignMasked (Np.pixelsOf {s}) {m} {p}))",
     "bind"),
    ("$s.pixels = $d", "s", "{{ {s} with shape := ({d}).shape, chans := ({d}).chans }}"),
    ("$d[..., $m] = $p", "d", "(Np.assignMasked {d} {m} {p})", "bind"),
]


def image_items():
    import menpo.base as mb
    import menpo.image as mi
    from menpo.landmark import Landmarkable
    out = []

    def add(sig, stub, fn, args, expr=IMG_EXPR, **kw):
        kw.setdefault("ret", ".ok ({e})")
        kw.setdefault("end", ".ok {self}")
        rules = P.Rules2W(expr=expr, stmt=IMG_STMT, skip=SKIP, raise_=".error .other", raise_by=RAISES, unwrap=UNWRAP, **kw)
        out.append((sig, (lambda f=fn, a=args, r=rules: T5(r).function(f, a, ind=1)), stub))

    S = {"self": "self"}
    add("def Landmarkable_has_landmarks_image (self : Img) : Bool :=", "false", _fn(Landmarkable, "has_landmarks"), S,
        expr=LM_EXPR, ret="{e}")
    add("def copy_landmarks_and_path (source target : Img) : Img :=", "target", mb.copy_landmarks_and_path,
        {"source": "source", "target": "target"}, ret="{e}")
    add("def Image_n_channels (self : Img) : Nat :=", "0", _fn(mi.Image, "n_channels"), S, ret="{e}")
    add("def Image_shape (self : Img) : List Nat :=", "[]", _fn(mi.Image, "shape"), S, ret="{e}")
    add("def Image__as_vector (self : Img) (keepchannels : Bool) : Np.Arr :=", "Np.Arr.flat []", _fn(mi.Image, "_as_vector"),
        {"self": "self", "keep_channels": "keepchannels"}, ret="{e}")
    add("def Image_from_vector (self : Img) (vector : Vec) (nchannels : Option Nat) (copy : Bool) : Except Err Img :=",
        ".error .other", _fn(mi.Image, "from_vector"),
        {"self": "self", "vector": "vector", "n_channels": "nchannels", "copy": "copy"})
    add("def Image__from_vector_inplace (contig : Bool) (self : Img) (vector : Vec) (copy : Bool) : Except Err Img :=",
        ".error .other", _fn(mi.Image, "_from_vector_inplace"), {"self": "self", "vector": "vector", "copy": "copy"})
    add("def MaskedImage_masked_pixels (self : Img) : List Vec :=", "[]", _fn(mi.MaskedImage, "masked_pixels"), S, ret="{e}")
    add("def MaskedImage__as_vector (self : Img) (keepchannels : Bool) : Np.Arr :=", "Np.Arr.flat []",
        _fn(mi.MaskedImage, "_as_vector"), {"self": "self", "keep_channels": "keepchannels"}, ret="{e}")
    add("def MaskedImage_from_vector (self : Img) (vector : Vec) (nchannels : Option Nat) : Except Err Img :=",
        ".error .other", _fn(mi.MaskedImage, "from_vector"), {"self": "self", "vector": "vector", "n_channels": "nchannels"})
    add("def MaskedImage__set_masked_pixels (contig : Bool) (self : Img) (pixels : List Vec) (copy : Bool) : Except Err Img :=",
        ".error .other", _fn(mi.MaskedImage, "_set_masked_pixels"), {"self": "self", "pixels": "pixels", "copy": "copy"})
    add("def MaskedImage__from_vector_inplace (v__set_masked_pixels : Img → List Vec → Bool → Except Err Img) (self : Img) "
        "(vector : Vec) (copy : Bool) : Except Err Img :=", ".error .other", _fn(mi.MaskedImage, "_from_vector_inplace"),
        {"self": "self", "vector": "vector", "copy": "copy"})
    add("def BooleanImage_from_vector (self : Img) (vector : Vec) (copy : Bool) : Except Err Img :=", ".error .other",
        _fn(mi.BooleanImage, "from_vector"), {"self": "self", "vector": "vector", "copy": "copy"})
    return out


# ------------------------------------------------------------------------------------------------ the dtype reading
#
# The SAME source text read a second time with another vocabulary: every array expression stands for its dtype
# (`MenpoModel.C05.Dt`), an object for the dtype of its main array (points / pixels / h_matrix), `raise` is `none`.
# What a test that is about values (lengths, dimensions, flags of the data) decides is not modelled: every such test is
# replaced by an opaque guard `g k` before the translation, so the translated definition describes the dtype of the
# result on every path.  Kept as they are: `self.mask.all_true()` (= `full`) and the `copy` flag.  GenProps/C05SrcDt.lean
# proves that on every path that returns, the dtype is the one the model's dtype calculus (`fviDtype`, `fromVecDtype`,
# `asVecDtype`) predicts.

class T5D(T5):
    """T5 + metavariables whose name starts with `_` are wildcards (matched, never translated)"""

    def expr(self, node, scope):
        for i, (pat, tmpl, flag) in enumerate(self.r.expr):
            env = {}
            if P.match(pat, node, env):
                self.used_rules.add(i)
                return self._fmt(tmpl, scope, **{k: self.pure(v, scope) for k, v in env.items() if not k.startswith("_")}), flag
        return T5.expr(self, node, scope)

    def _block1(self, stmts, scope, ind, ctx):
        if stmts:
            st, rest = stmts[0], stmts[1:]
            for i, (pat, recv, tmpl) in enumerate(self.r.stmt):
                env = {}
                if P.match(pat, st, env) and any(k.startswith("_") for k in env):
                    target = env[recv]
                    if not isinstance(target, ast.Name):
                        raise Untranslatable("in-place statement on a non-variable: `%s`" % ast.unparse(st))
                    val = self._fmt(tmpl, scope, **{k: self.pure(v, scope) for k, v in env.items() if not k.startswith("_")})
                    sc = dict(scope)
                    if self.r.stmt_flag[i] == "bind":
                        tmp = self.fresh("p", sc)
                        sc["\0tmp" + tmp] = tmp
                        new = self.fresh(target.id, sc)
                        sc[target.id] = new
                        k = "  " * (ind + 1) + "let %s := %s\n" % (new, tmp) + self.block(rest, sc, ind + 1, ctx)
                        return self._unwrap(val, tmp, k, scope, ind, ctx)
                    new = self.fresh(target.id, sc)
                    sc[target.id] = new
                    return "  " * ind + "let %s := %s\n" % (new, val) + self.block(rest, sc, ind, ctx)
        return T5._block1(self, stmts, scope, ind, ctx)


D_KEEP = [P._pat("$m.all_true()", "expr"), P._pat("copy", "expr"), P._pat("keep_channels", "expr")]


class _Guards(ast.NodeTransformer):
    """every `if` / conditional-expression / assert test that is not (the negation of) a kept test becomes `__guard(k)`"""

    def __init__(self):
        self.k = 0

    def _test(self, t):
        core = t.operand if isinstance(t, ast.UnaryOp) and isinstance(t.op, ast.Not) else t
        if any(P.match(p, core, {}) for p in D_KEEP):
            return t
        self.k += 1
        return ast.Call(func=ast.Name(id="__guard", ctx=ast.Load()), args=[ast.Constant(value=self.k - 1)], keywords=[])

    def visit_If(self, node):
        self.generic_visit(node)
        node.test = self._test(node.test)
        return node

    def visit_Assert(self, node):
        node.test = self._test(node.test)
        return node


D_EXPR = [
    ("__guard($k)", "(g {k})"),
    ("$_m.all_true()", "full"),
    ("$_s.mask", "()"),
    ("$_a if $_n is None else $_n", "()"),
    ("$_m.shape", "()"),
    ("$_s.n_dims", "()"),
    ("$_x.size", "()"),
    ("$_x.n_channels", "()"),
    ("$_x.n_points", "()"),
    ("len($_x)", "()"),
    ("np.size($_x)", "()"),
    ("copy_landmarks_and_path($_s, $t)", "{t}"),
    ("$s.masked_pixels()", "(MaskedImage_masked_pixels full {s})"),
    ("$v.reshape($_a, order='F')", "{v}"),
    ("$v.reshape($_a)", "{v}"),
    ("$v.ravel(order='F')", "{v}"),
    ("$v.ravel()", "{v}"),
    ("np.zeros($_a, dtype=$v.dtype)", "{v}"),
    ("np.array($a, copy=True, order='C', dtype=$a.dtype)", "{a}"),
    ("np.array([$e])", "{e}"),
    ("np.array($_l)", "Dt.float64"),
    ("np.eye($_n)", "Dt.float64"),
    ("np.identity($_n)", "Dt.float64"),
    ("np.dot($_a, $_b)", "Dt.float64"),
    ("np.outer($_a, $_b)", "Dt.float64"),
    ("$_p * np.sqrt($_e)", "Dt.float64"),
    ("$_a - np.eye($_n)", "Dt.float64"),
    ("$a.copy()", "{a}"),
    ("$m.diagonal()", "{m}"),
    ("$s.pixels", "{s}"),
    ("$s.points", "{s}"),
    ("$s.h_matrix", "{s}"),
    ("$s._h_matrix", "{s}"),
    ("$s.scale", "{s}"),
    ("$v[$_i]", "{v}"),
    ("Image($d, copy=$_c)", "{d}"),
    ("MaskedImage($d, mask=$_m)", "{d}"),
    ("BooleanImage($_d, copy=$_c)", "Dt.bool"),
    ("TexturedTriMesh($p, $_a, $_b, trilist=$_c)", "{p}"),
    ("None", "Dt.other"),
]
D_STMT = [
    ("$s._from_vector_inplace($v)", "s", "(v__from_vector_inplace {s} {v})", "bind"),
    ("$s._set_h_matrix($m, copy=$_c, skip_checks=$_k)", "s", "(v__set_h_matrix {s} {m})", "bind"),
    ("$s.set_rotation_matrix($m, skip_checks=$_k)", "s", "(v_set_rotation_matrix {s} {m})", "bind"),
    ("$s._set_masked_pixels($p, copy=$c)", "s", "(v__set_masked_pixels {s} {p} {c})", "bind"),
    ("$s._sync_target_from_state()", "s", "{s}"),
    ("Affine._set_h_matrix($s, $m, copy=$c, skip_checks=$_k)", "s", "(Affine__set_h_matrix g {s} {m} {c})", "bind"),
    ("Similarity._from_vector_inplace($s, $p)", "s", "(Similarity__from_vector_inplace g v__set_h_matrix {s} {p})", "bind"),
    ("Translation._from_vector_inplace($s, $p)", "s", "(Translation__from_vector_inplace g {s} {p})", "bind"),
    ("UniformScale._from_vector_inplace($s, $p)", "s", "(UniformScale__from_vector_inplace g {s} {p})", "bind"),
    ("Rotation.set_rotation_matrix($s, $m, skip_checks=$_k)", "s", "(Rotation_set_rotation_matrix g {s} {m})", "bind"),
    ("$s._h_matrix = $m", "s", "{m}"),
    ("$s.points = $p", "s", "{p}"),
    ("$s.pixels = $d", "s", "{d}"),
    ("$s._h_matrix[$_i] = $_m", "s", "{s}"),
    ("$s.h_matrix[$_i] = $_p", "s", "{s}"),
    ("np.fill_diagonal($s.h_matrix, $_p)", "s", "{s}"),
    ("$s.pixels[$_i] = $_p", "s", "{s}"),
    ("$h[$_i] += $_e", "h", "{h}"),
    ("$h[$_i] = $_e", "h", "{h}"),
    ("$n.landmarks = $_l", "n", "{n}"),
    ("$n.path = $_l", "n", "{n}"),
]


def d_items():
    import menpo.base as mb
    import menpo.shape as ms
    import menpo.image as mi
    import menpo.transform as mt
    from menpo.transform.homogeneous.base import Homogeneous
    out = []

    def add(sig, cls, name, args, unused=(), **kw):
        kw.setdefault("ret", "some ({e})")
        kw.setdefault("end", "some {self}")
        rules = P.Rules2W(expr=D_EXPR, stmt=D_STMT, skip=SKIP, raise_="none", unwrap=("none", "none", "some {x}"),
                          names={"kwargs": "()"}, **kw)

        def thunk(c=cls, n=name, a=args, r=rules, u=unused):
            fn = _fn(c, n) if isinstance(c, type) else c
            node, _src = P.source_ast(fn)
            t = T5D(r)
            if getattr(fn, "__globals__", None):
                node = _inline_helpers(node, fn.__globals__, t._stmt_has_rule)
            node = _Guards().visit(_inline_self_aliases(_Normalise().visit(node)))
            ast.fix_missing_locations(node)
            return t.function_node(node, a, ind=1, allow_unused=u)
        out.append((sig, thunk, "some Dt.other"))

    G = "(g : Nat → Bool) "
    S = {"self": "self"}
    SV = {"self": "self", "vector": "vector"}
    SP = {"self": "self", "p": "p"}
    SETH = "(v__set_h_matrix : Dt → Dt → Option Dt) "
    # shapes
    add("def PointCloud__as_vector " + G + "(self : Dt) : Option Dt :=", ms.PointCloud, "_as_vector", S)
    add("def PointCloud__from_vector_inplace " + G + "(self vector : Dt) : Option Dt :=", ms.PointCloud, "_from_vector_inplace", SV)
    add("def TexturedTriMesh_from_vector " + G + "(self flattened : Dt) : Option Dt :=", ms.TexturedTriMesh, "from_vector",
        {"self": "self", "flattened": "flattened"})
    # images
    add("def Image__as_vector " + G + "(self : Dt) (keepchannels : Bool) : Option Dt :=", mi.Image, "_as_vector",
        {"self": "self", "keep_channels": "keepchannels"})
    add("def Image_from_vector " + G + "(self vector : Dt) (copy : Bool) : Option Dt :=", mi.Image, "from_vector",
        {"self": "self", "vector": "vector", "n_channels": "()", "copy": "copy"})
    add("def Image__from_vector_inplace " + G + "(self vector : Dt) (copy : Bool) : Option Dt :=", mi.Image,
        "_from_vector_inplace", {"self": "self", "vector": "vector", "copy": "copy"})
    add("def MaskedImage_masked_pixels (full : Bool) (self : Dt) : Dt :=", mi.MaskedImage, "masked_pixels", S, ret="{e}")
    add("def MaskedImage__as_vector " + G + "(full : Bool) (self : Dt) (keepchannels : Bool) : Option Dt :=", mi.MaskedImage,
        "_as_vector", {"self": "self", "keep_channels": "keepchannels"})
    add("def MaskedImage_from_vector " + G + "(full : Bool) (self vector : Dt) : Option Dt :=", mi.MaskedImage, "from_vector",
        {"self": "self", "vector": "vector", "n_channels": "()"})
    add("def MaskedImage__set_masked_pixels " + G + "(full : Bool) (self pixels : Dt) (copy : Bool) : Option Dt :=",
        mi.MaskedImage, "_set_masked_pixels", {"self": "self", "pixels": "pixels", "copy": "copy"})
    add("def MaskedImage__from_vector_inplace " + G + "(v__set_masked_pixels : Dt → Dt → Bool → Option Dt) (self vector : Dt) "
        "(copy : Bool) : Option Dt :=", mi.MaskedImage, "_from_vector_inplace", {"self": "self", "vector": "vector", "copy": "copy"})
    add("def BooleanImage_from_vector " + G + "(self vector : Dt) (copy : Bool) : Option Dt :=", mi.BooleanImage, "from_vector",
        {"self": "self", "vector": "vector", "copy": "copy"})
    # transforms
    SVC = {"self": "self", "value": "value", "copy": "copy"}
    add("def Homogeneous__as_vector " + G + "(self : Dt) : Option Dt :=", Homogeneous, "_as_vector", S)
    add("def Homogeneous__set_h_matrix " + G + "(self value : Dt) (copy : Bool) : Option Dt :=", Homogeneous, "_set_h_matrix",
        SVC, unused=("skip_checks",))
    add("def Homogeneous__from_vector_inplace " + G + SETH + "(self vector : Dt) : Option Dt :=", Homogeneous,
        "_from_vector_inplace", SV)
    add("def Affine__as_vector " + G + "(self : Dt) : Option Dt :=", mt.Affine, "_as_vector", S)
    add("def Affine__set_h_matrix " + G + "(self value : Dt) (copy : Bool) : Option Dt :=", mt.Affine, "_set_h_matrix", SVC,
        unused=("skip_checks",))
    add("def Affine__from_vector_inplace " + G + SETH + "(self p : Dt) : Option Dt :=", mt.Affine, "_from_vector_inplace", SP)
    add("def Similarity__as_vector " + G + "(self : Dt) : Option Dt :=", mt.Similarity, "_as_vector", S)
    add("def Similarity__from_vector_inplace " + G + SETH + "(self p : Dt) : Option Dt :=", mt.Similarity,
        "_from_vector_inplace", SP)
    add("def Translation__as_vector " + G + "(self : Dt) : Option Dt :=", mt.Translation, "_as_vector", S)
    add("def Translation__from_vector_inplace " + G + "(self p : Dt) : Option Dt :=", mt.Translation, "_from_vector_inplace", SP)
    add("def UniformScale__as_vector " + G + "(self : Dt) : Option Dt :=", mt.UniformScale, "_as_vector", S)
    add("def UniformScale__from_vector_inplace " + G + "(self p : Dt) : Option Dt :=", mt.UniformScale, "_from_vector_inplace", SP)
    add("def NonUniformScale_scale (self : Dt) : Dt :=", mt.NonUniformScale, "scale", S, ret="{e}")
    add("def NonUniformScale__as_vector " + G + "(self : Dt) : Option Dt :=", mt.NonUniformScale, "_as_vector", S)
    add("def NonUniformScale__from_vector_inplace " + G + "(self vector : Dt) : Option Dt :=", mt.NonUniformScale,
        "_from_vector_inplace", SV)
    add("def Rotation_set_rotation_matrix " + G + "(self value : Dt) : Option Dt :=", mt.Rotation, "set_rotation_matrix",
        {"self": "self", "value": "value"}, unused=("skip_checks",))
    add("def Rotation__from_vector_inplace " + G + "(v_set_rotation_matrix : Dt → Dt → Option Dt) (self p : Dt) : Option Dt :=",
        mt.Rotation, "_from_vector_inplace", SP, ret="some {self}")
    add("def AlignmentAffine__set_h_matrix " + G + "(self value : Dt) (copy : Bool) : Option Dt :=", mt.AlignmentAffine,
        "_set_h_matrix", dict(SVC, skip_checks="()"))
    add("def AlignmentSimilarity__from_vector_inplace " + G + SETH + "(self p : Dt) : Option Dt :=", mt.AlignmentSimilarity,
        "_from_vector_inplace", SP)
    add("def AlignmentTranslation__from_vector_inplace " + G + "(self p : Dt) : Option Dt :=", mt.AlignmentTranslation,
        "_from_vector_inplace", SP)
    add("def AlignmentUniformScale__from_vector_inplace " + G + "(self p : Dt) : Option Dt :=", mt.AlignmentUniformScale,
        "_from_vector_inplace", SP)
    add("def AlignmentRotation_set_rotation_matrix " + G + "(self value : Dt) : Option Dt :=", mt.AlignmentRotation,
        "set_rotation_matrix", {"self": "self", "value": "value", "skip_checks": "()"})
    return out


DT_REL = os.path.join("MenpoModel", "Generated", "C05SrcDt.lean")
DT_HEADER = """/- TRANSLATED by harness/trans_c05.py from the SOURCE TEXT of the same functions as Generated/C05Src.lean, read with the
   DTYPE vocabulary (an array expression = its dtype, an object = the dtype of its main array, a value-dependent test = an
   opaque guard `g k`, `raise` = `none`); regenerated on every run of `./check C05`; do not edit.
   GenProps/C05SrcDt.lean proves that on every returning path the dtype is the one the model's dtype calculus predicts. -/
import MenpoModel.Core.Vectorize

set_option linter.unusedVariables false

namespace MenpoModel.C05.SrcDt
open MenpoModel.C05
"""
DT_FOOTER = "end MenpoModel.C05.SrcDt\n"


HEADER = """/- TRANSLATED by harness/trans_c05.py (harness/py2lean2.py, harness/py2lean2w.py) from the SOURCE TEXT of
   menpo/base.py, menpo/shape/pointcloud.py, menpo/shape/mesh/textured.py, menpo/image/{base,masked,boolean}.py and
   menpo/transform/homogeneous/*.py of the current working tree on every run of `./check C05`; do not edit.
   GenProps/C05Src.lean proves every definition equal to the Core definition the C05 theorems are about. -/
import MenpoModel.Core.C05Src

set_option linter.unusedVariables false

namespace MenpoModel.C05.Src
open MenpoModel.C05
open scoped MenpoModel.C05.Np
"""
FOOTER = "end MenpoModel.C05.Src\n"


def items():
    return base_items() + shape_items() + image_items() + xf_items()


SYNC_REL = os.path.join("MenpoModel", "Generated", "C05Sync.lean")
SYNC_METHODS = ["_sync_target_from_state", "_new_target_from_state", "_target_setter_with_verification",
                "_verify_target", "_target_setter", "aligned_source"]
SYNC_CLASSES = ["AlignmentAffine", "AlignmentSimilarity", "AlignmentTranslation", "AlignmentUniformScale",
                "AlignmentRotation"]


def sync_table():
    """[(class, [supplier of each SYNC_METHODS entry])] from the live MRO of the alignment classes of the affine family"""
    import menpo.transform as mt
    from menpo.transform.homogeneous.base import HomogFamilyAlignment
    names = [n for n in SYNC_CLASSES if hasattr(mt, n)]
    names += sorted(n for n in dir(mt) if isinstance(getattr(mt, n), type) and issubclass(getattr(mt, n), HomogFamilyAlignment)
                    and getattr(mt, n) is not HomogFamilyAlignment and n not in names)
    rows = []
    for n in names:
        c = getattr(mt, n)
        sups = []
        for m in SYNC_METHODS:
            sup = next((k.__name__ for k in c.__mro__ if m in k.__dict__), None)
            sups.append(".absent" if sup is None else "." + sup if sup in ("Targetable", "Alignment") else ".unknown")
        rows.append((n, sups))
    return rows


def sync_text():
    rows = sync_table()
    body = ",\n".join("  ⟨%s, %s⟩" % ("." + n if n in SYNC_CLASSES else ".unknown", ", ".join(s)) for n, s in rows)
    return ("/- REGENERATED by harness/trans_c05.py from the live classes of the menpo working tree on every run of\n"
            "   `./check C05`; do not edit.  Columns: " + ", ".join(SYNC_METHODS) + " -/\n"
            "import MenpoModel.Core.C05Src\n\nnamespace MenpoModel.C05.Generated\nopen MenpoModel.C05 MenpoModel.C05.Np\n\n"
            "def syncDispatch : List SyncRow := [\n" + body + " ]\n\nend MenpoModel.C05.Generated\n")


def generated_files():
    """({path relative to lean/: text}, [reasons of untranslatable functions])"""
    text, reasons = generated_text()
    dtext, dreasons = translate_or_stub(d_items(), DT_HEADER, DT_FOOTER)
    return {GEN_REL: text, SYNC_REL: sync_text(), DT_REL: dtext}, reasons + ["dtype reading: " + r for r in dreasons]


# the obligations `lake build` re-checks over the regenerated files: one "translated = Core definition" equality per
# translated function (GenProps/C05Src.lean), the assembled equalities and the property theorems over the assembled
# translated code (GenProps/C05SrcAsm.lean)
SUPPLIER_OBLIGATIONS = [
    "Homogeneous__set_h_matrix_eq", "Affine__set_h_matrix_eq", "Affine__set_h_matrix_checked", "Homogeneous__as_vector_eq",
    "Homogeneous__from_vector_inplace_eq", "Homogeneous_from_vector_eq", "Affine_n_parameters_eq", "Affine__as_vector_eq",
    "Affine__from_vector_inplace_eq", "Similarity_n_parameters_eq", "Similarity__as_vector_eq",
    "Similarity__from_vector_inplace_eq", "Translation_n_parameters_eq", "Translation__as_vector_eq",
    "Translation__from_vector_inplace_eq", "UniformScale_n_parameters_eq", "UniformScale__as_vector_eq",
    "UniformScale__from_vector_inplace_eq", "NonUniformScale_n_parameters_eq", "NonUniformScale__as_vector_eq",
    "NonUniformScale__from_vector_inplace_eq", "Rotation_n_parameters_eq", "Rotation__as_vector_eq",
    "Rotation_set_rotation_matrix_eq", "Rotation__from_vector_inplace_eq", "sync_eq", "AlignmentAffine__set_h_matrix_eq",
    "AlignmentRotation_set_rotation_matrix_eq", "AlignmentSimilarity__from_vector_inplace_eq",
    "AlignmentTranslation__from_vector_inplace_eq", "AlignmentUniformScale__from_vector_inplace_eq",
    "Vectorizable_as_vector_eq", "Vectorizable_n_parameters_eq", "Vectorizable_from_vector_inplace_eq",
    "Vectorizable_from_vector_eq", "has_landmarks_shape_eq", "PointCloud__as_vector_eq", "PointCloud__from_vector_inplace_eq",
    "TexturedTriMesh_from_vector_eq", "has_landmarks_image_eq", "copy_landmarks_eq", "Image__as_vector_flat",
    "Image__as_vector_keep", "MaskedImage__as_vector_flat", "MaskedImage__as_vector_keep", "Image_from_vector_some",
    "Image_from_vector_none", "Image__from_vector_inplace_eq", "BooleanImage_from_vector_eq", "MaskedImage_from_vector_some",
    "MaskedImage_from_vector_none", "MaskedImage__from_vector_inplace_eq"]
ASSEMBLED_OBLIGATIONS = [
    "sync_ok", "xfFvi_src", "xfFromVec_src", "xfFromVecInplace_src", "xfAsVec_src", "xfNParams_src", "shapeFromVec_src",
    "shapeAsVec_src", "shapeNParams_src", "imgFromVec_src", "imgFromVecN_src", "imgAsVec_src", "imgAsVecKeep_src",
    "imgFvi_src", "src_as_vector_read_only", "src_as_vector_total", "src_xf_from_as", "src_xf_as_from",
    "src_xf_length_eq_nparams", "src_alignment_target_resynced", "src_alignment_target_resynced_any",
    "src_alignment_target_resynced_inplace",
    "src_xf_rejected_or_wellformed", "src_xf_right_length_accepted", "src_shape_from_as", "src_shape_as_from",
    "src_shape_rejected_or_wellformed", "src_img_from_as", "src_img_as_from", "src_masked_vector_layout", "src_img_fromVecN"]
DTYPE_OBLIGATIONS = [
    "PointCloud__as_vector_dt", "PointCloud__from_vector_inplace_dt", "TexturedTriMesh_from_vector_dt", "Image__as_vector_dt",
    "Image_from_vector_dt", "Image__from_vector_inplace_dt", "MaskedImage__as_vector_dt", "MaskedImage_from_vector_dt",
    "MaskedImage__from_vector_inplace_dt", "BooleanImage_from_vector_dt", "Homogeneous__as_vector_dt",
    "Homogeneous__set_h_matrix_dt", "Affine__set_h_matrix_dt", "AlignmentAffine__set_h_matrix_dt", "Affine__as_vector_dt",
    "Similarity__as_vector_dt", "Translation__as_vector_dt", "UniformScale__as_vector_dt", "NonUniformScale__as_vector_dt",
    "Homogeneous__from_vector_inplace_dt", "Affine__from_vector_inplace_dt", "Similarity__from_vector_inplace_dt",
    "AlignmentSimilarity__from_vector_inplace_dt", "Translation__from_vector_inplace_dt",
    "AlignmentTranslation__from_vector_inplace_dt", "UniformScale__from_vector_inplace_dt",
    "AlignmentUniformScale__from_vector_inplace_dt", "NonUniformScale__from_vector_inplace_dt",
    "Rotation_set_rotation_matrix_dt", "AlignmentRotation_set_rotation_matrix_dt", "Rotation__from_vector_inplace_dt",
    "fvi_dtype_src", "fromVec_dtype_src", "asVec_dtype_src", "fromVec_dtype_reachable", "masked_and_similarity_dtype"]
THEOREMS = (["MenpoModel.C05.SrcProps." + n for n in SUPPLIER_OBLIGATIONS] +
            ["MenpoModel.C05.Asm." + n for n in ASSEMBLED_OBLIGATIONS] +
            ["MenpoModel.C05.DtProps." + n for n in DTYPE_OBLIGATIONS])
N_OBLIGATIONS = len(THEOREMS)
IMPORTS = ["MenpoModel.GenProps.C05SrcAsm", "MenpoModel.GenProps.C05SrcDt"]


def n_translated():
    return len(items()) + len(d_items())


def failing(output):
    """names of the obligations (theorems of GenProps/C05Src*.lean) and translated definitions that the errors of a
    `lake build` output point at: [(file, line, enclosing declaration)]"""
    import re
    out, cache = [], {}
    for m in re.finditer(r"(MenpoModel/(?:GenProps|Generated)/C05S[A-Za-z]*\.lean):(\d+):\d+", output):
        rel, line = m.group(1), int(m.group(2))
        if rel not in cache:
            try:
                cache[rel] = open(os.path.join(os.path.dirname(os.path.dirname(os.path.abspath(__file__))), "lean", rel),
                                  encoding="utf-8").read().splitlines()
            except OSError:
                cache[rel] = []
        name = None
        for l in reversed(cache[rel][:line]):
            mm = re.match(r"\s*(?:theorem|def|example)\s+([A-Za-z0-9_'.]+)", l)
            if mm:
                name = mm.group(1)
                break
        if (rel, name) not in [(a, c) for a, _b, c in out]:
            out.append((rel, line, name))
    return out


def classes_of(names):
    """the menpo classes a list of declaration names speaks about (for the directed search)"""
    known = ["AlignmentAffine", "AlignmentSimilarity", "AlignmentTranslation", "AlignmentUniformScale", "AlignmentRotation",
             "Homogeneous", "Affine", "Similarity", "Translation", "NonUniformScale", "UniformScale", "Rotation",
             "TexturedTriMesh", "PointCloud", "MaskedImage", "BooleanImage", "Image"]
    out = []
    for n in names:
        for k in known:
            if n and n.startswith(k) and k not in out:
                out.append(k)
                break
    return out


def generated_text():
    """(text of Generated/C05Src.lean, [reasons of untranslatable functions])"""
    return translate_or_stub(items(), HEADER, FOOTER)


if __name__ == "__main__":
    text, reasons = generated_text()
    print(text)
    print("-- untranslatable:", reasons)
