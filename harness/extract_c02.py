"""C02 — regenerated tables (DESIGN 2.3b, Appendix 13 items 2 and 3, restricted to what C02 needs).

Nothing is parsed from source text.  From the live classes of the current working tree:

* method-resolution table: for the 8 shape classes, LandmarkManager and Image the class whose ``__dict__``
  supplies ``_transform_inplace``, ``_transform_self_inplace``, ``_transform`` and ``copy``;
* attribute-kind table: for populated instances of those classes (with and without landmarks, 2-D and 3-D)
  every instance attribute with the kind of its runtime value.

* write table (measured by harness.c02.measure_writes on live objects, passed in): which instance attributes
  ``_transform_inplace`` rebinds on each object of the private copy, per class.

Written to lean/MenpoModel/Generated/C02Dispatch.lean; lean/MenpoModel/GenProps/C02.lean states the
obligations (`decide`) that tie them to `MenpoModel.C02.expectedDispatch`, `kindsWF` and `inplaceWrites`, over
which the Core model is assembled and the theorems are proved.
"""

METHODS = ["_transform_inplace", "_transform_self_inplace", "_transform", "copy"]
SHAPES = ["PointCloud", "TriMesh", "ColouredTriMesh", "TexturedTriMesh", "PointUndirectedGraph",
          "PointDirectedGraph", "PointTree", "LabelledPointUndirectedGraph"]
CLS_ORDER = SHAPES + ["LandmarkManager", "Image"]
SUPPLIERS = ["Shape", "PointCloud", "LandmarkManager", "Transformable", "Copyable", "LabelledPointUndirectedGraph"]
# the module each supplier name must come from (a same-named class elsewhere is `unknown`)
SUP_MODULE = {"Shape": "menpo.shape.base", "PointCloud": "menpo.shape.pointcloud",
              "LandmarkManager": "menpo.landmark.base", "Transformable": "menpo.transform.base",
              "Copyable": "menpo.base", "LabelledPointUndirectedGraph": "menpo.shape.labelled"}


def live_classes():
    """name -> class: every Shape subclass exported by menpo.shape, plus LandmarkManager and Image"""
    import menpo.shape
    from menpo.shape.base import Shape
    from menpo.landmark import LandmarkManager
    from menpo.image import Image
    out = {}
    for n in sorted(dir(menpo.shape)):
        c = getattr(menpo.shape, n)
        if isinstance(c, type) and issubclass(c, Shape) and c is not Shape and not n.startswith("_"):
            if getattr(c, "__abstractmethods__", None):
                continue
            out[c.__name__] = c
    # PointGraph is the abstract base of the point graphs (never instantiated by users)
    out.pop("PointGraph", None)
    out["LandmarkManager"] = LandmarkManager
    out["Image"] = Image
    return out


def supplier(cls, name):
    for k in cls.__mro__:
        if name in k.__dict__:
            return k
    return None


def _sup(k):
    if k is None:
        return ".absent"
    if k.__name__ in SUPPLIERS and k.__module__ == SUP_MODULE[k.__name__]:
        return "." + k.__name__
    return ".unknown"


def _cls(n):
    if n in SHAPES:
        return "(.shape .%s)" % n
    if n in ("LandmarkManager", "Image"):
        return "." + n
    return ".other"


def dispatch_rows():
    classes = live_classes()
    names = [n for n in CLS_ORDER if n in classes] + sorted(n for n in classes if n not in CLS_ORDER)
    return [(n, [supplier(classes[n], m) for m in METHODS]) for n in names]


# ------------------------------------------------------------------------------- attribute kinds

def _is_imm(v):
    import numpy as np
    import types
    import functools
    if isinstance(v, (bool, int, float, str, bytes, np.generic, type, types.FunctionType, types.BuiltinFunctionType,
                      functools.partial)):
        return True
    if isinstance(v, tuple):
        return all(_is_imm(x) or x is None for x in v)
    try:
        from pathlib import PurePath
        if isinstance(v, PurePath):
            return True
    except ImportError:
        pass
    return False


def kind_of(v):
    import numpy as np
    import scipy.sparse as sp
    from menpo.shape.base import Shape
    from menpo.landmark import LandmarkManager
    from menpo.image import Image
    if v is None:
        return "none"
    if _is_imm(v):
        return "imm"
    if isinstance(v, np.ndarray):
        return "arr"
    if sp.issparse(v):
        return "sparse"
    if isinstance(v, Shape):
        return "objShape"
    if isinstance(v, LandmarkManager):
        return "objLM"
    if isinstance(v, Image):
        return "objImage"
    if isinstance(v, (dict, list)):
        vals = list(v.values()) if isinstance(v, dict) else list(v)
        if not vals:
            return "dictEmpty"
        ks = set(kind_of(x) for x in vals)
        if ks <= {"imm", "none"}:
            return "dictImm"
        if ks == {"arr"}:
            return "dictArr"
        if ks == {"objShape"}:
            return "dictShape"
        return "other"
    return "other"


def populated_instances():
    """(class name, instance) — each shape class in 2-D and 3-D, with and without landmark groups"""
    import numpy as np
    from collections import OrderedDict
    import menpo.shape as ms
    from menpo.image import Image
    from menpo.landmark import LandmarkManager
    out = []
    tl = np.array([[0, 1, 2], [1, 3, 2]])
    edges = np.array([[0, 1], [1, 2], [2, 3]])
    for d in (2, 3):
        pts = np.arange(4 * d, dtype=float).reshape(4, d) ** 2 % 7
        masks = OrderedDict([("a", np.array([True, True, False, False])), ("b", np.array([False, False, True, True]))])

        def make(name):
            if name == "PointCloud":
                return ms.PointCloud(pts)
            if name == "TriMesh":
                return ms.TriMesh(pts, trilist=tl)
            if name == "ColouredTriMesh":
                return ms.ColouredTriMesh(pts, trilist=tl, colours=np.ones((4, 3)) * 0.5)
            if name == "TexturedTriMesh":
                return ms.TexturedTriMesh(pts, tcoords=np.ones((4, 2)) * 0.25, texture=Image(np.ones((3, 4, 4))),
                                          trilist=tl)
            if name == "PointUndirectedGraph":
                return ms.PointUndirectedGraph.init_from_edges(pts, edges)
            if name == "PointDirectedGraph":
                return ms.PointDirectedGraph.init_from_edges(pts, edges)
            if name == "PointTree":
                return ms.PointTree.init_from_edges(pts, edges, root_vertex=0)
            if name == "LabelledPointUndirectedGraph":
                return ms.LabelledPointUndirectedGraph.init_from_edges(pts, edges, masks)
            return None

        for n in SHAPES:
            bare = make(n)
            out.append((n, bare))
            full = make(n)
            full.landmarks["g0"] = make("PointCloud")
            full.landmarks["g1"] = make("LabelledPointUndirectedGraph")
            out.append((n, full))
            out.append(("LandmarkManager", full._landmarks))
    out.append(("LandmarkManager", LandmarkManager()))
    img = Image(np.ones((2, 5, 5)))
    out.append(("Image", img))
    img2 = Image(np.ones((2, 5, 5)))
    img2.landmarks["g"] = ms.PointCloud(np.ones((3, 2)))
    out.append(("Image", img2))
    # classes the model does not know: observed too, so that a new Shape subclass breaks the obligation
    for n, c in live_classes().items():
        if n not in CLS_ORDER:
            out.append((n, None))
    return out


def kind_rows():
    """deduplicated list of (class name, [(attr, kind)]) in a stable order"""
    seen, rows = set(), []
    for n, o in populated_instances():
        attrs = [] if o is None else [(k, kind_of(v)) for k, v in o.__dict__.items()]
        key = (n, tuple(attrs))
        if key not in seen:
            seen.add(key)
            rows.append((n, attrs))
    return rows


TSUPS = {"Transform": "menpo.transform.base", "Homogeneous": "menpo.transform.homogeneous.base",
         "Affine": "menpo.transform.homogeneous.affine", "TransformChain": "menpo.transform.base.composable",
         "WithDims": "menpo.transform", "ThinPlateSplines": "menpo.transform.thinplatesplines",
         "AbstractPWA": "menpo.transform.piecewiseaffine.base"}


def _tsup(k):
    if k is None:
        return ".absent"
    if k.__name__ in TSUPS and k.__module__ == TSUPS[k.__name__]:
        return "." + k.__name__
    if k.__module__ == "menpo.transform.rbf":
        return ".RBF"
    return ".unknown"


def apply_rows():
    """[(transform class name, supplier of _apply, of _apply_batched, of apply)] for every concrete Transform
    subclass exported by menpo.transform"""
    import menpo.transform as mt
    from menpo.transform.base import Transform
    out = []
    for n in sorted(dir(mt)):
        c = getattr(mt, n)
        if isinstance(c, type) and issubclass(c, Transform) and c is not Transform and not n.startswith("_"):
            if getattr(c, "__abstractmethods__", None):
                continue
            out.append((n, supplier(c, "_apply"), supplier(c, "_apply_batched"), supplier(c, "apply")))
    return out


def lean_files(measured=None):
    """`measured` = (writes rows [(class name, [attribute])], other writes [text]) from harness.c02.measure_writes"""
    rows = dispatch_rows()
    body = ["  ⟨%s, %s⟩" % (_cls(n), ", ".join(_sup(s) for s in sups)) for n, sups in rows]
    comment = "\n".join("--   %s: %s" % (n, ", ".join("%s<-%s" % (m, (s.__module__ + "." + s.__name__) if s else None)
                                                        for m, s in zip(METHODS, sups))) for n, sups in rows)
    krows = kind_rows()
    kbody = ["  ⟨%s, [%s]⟩" % (_cls(n), ", ".join('("%s", .%s)' % (a, k) for a, k in attrs)) for n, attrs in krows]
    wrows, others = measured if measured is not None else ([], ["not measured"])
    wbody = ["  (%s, [%s])" % (_cls(n), ", ".join('"%s"' % a for a in attrs)) for n, attrs in wrows]
    obody = ['  "%s"' % o.replace('"', "'") for o in others]
    gen = ("/- REGENERATED by harness/extract_c02.py from the live classes of the menpo working tree on every run\n"
           "   of `./check C02`; do not edit.  dispatch columns: " + ", ".join(METHODS) + " -/\n"
           "import MenpoModel.Core.C02Deep\nimport MenpoModel.Core.C02Batch\n\n"
           "namespace MenpoModel.C02.Generated\nopen MenpoModel.C02\n\n"
           "def dispatch : Dispatch := [\n" + ",\n".join(body) + " ]\n\n" + comment + "\n\n"
           "/-- instance attributes of populated objects (each class with and without landmarks, 2-D and 3-D) -/\n"
           "def attrKinds : List KRow := [\n" + ",\n".join(kbody) + " ]\n\n"
           "/-- MEASURED on live objects: for every object of the private copy of a shape of each of the 8 classes\n"
           "(root, landmark manager, groups at depth 1 and 2; 2-D and 3-D; every transform class; with and without\n"
           "batch_size) the instance attributes whose binding differs after `_transform_inplace` -/\n"
           "def measuredWrites : WritesTable := [\n" + ",\n".join(wbody) + " ]\n\n"
           "/-- MEASURED: array buffers written in place, dict items rebound, attributes of the transform written,\n"
           "classes rebinding different attributes under different transforms (must be empty) -/\n"
           "def otherWrites : List String := [" + ("\n" + ",\n".join(obody) + " " if obody else "") + "]\n\n"
           "/-- which class supplies `_apply`, `_apply_batched` and the public `apply` of every concrete transform class of\nmenpo.transform -/\n"
           "def applyTable : List TRow := [\n" +
           ",\n".join('  ⟨"%s", %s, %s, %s⟩' % (n, _tsup(a), _tsup(b), _tsup(e)) for n, a, b, e in apply_rows()) + " ]\n\n"
           "end MenpoModel.C02.Generated\n")
    props = ("/- Obligations over the regenerated tables (written by harness/extract_c02.py; the text is constant, the\n"
             "   tables it speaks about are not).  `dispatch_ok` is what makes every theorem of Props/C02.lean, proved\n"
             "   over `expectedDispatch`, a statement about the current class hierarchy; `attrKinds_ok` is what makes\n"
             "   the heap layout assumed by `Rep` the layout of the live objects; `writes_ok` is what makes the frame of\n"
             "   the heap model (the in-place pass rebinds `points` of shape objects and nothing else) the behaviour of\n"
             "   the live methods. -/\n"
             "import MenpoModel.Generated.C02Dispatch\n\n"
             "namespace MenpoModel.C02.GenProps\nopen MenpoModel.C02\n\n"
             "/-- the 8 shape classes, LandmarkManager and Image resolve `_transform_inplace`, `_transform_self_inplace`,\n"
             "`_transform` and `copy` exactly as the model assumes; no Shape subclass has appeared or disappeared -/\n"
             "theorem dispatch_ok : Generated.dispatch = expectedDispatch := by decide\n\n"
             "/-- points are an array, `_landmarks` is None or a manager, a manager holds a dict of shapes, a labelled\n"
             "graph a dict of mask arrays; no attribute of unknown kind; every container of mutable values belongs to a\n"
             "class whose resolved `copy` deepens it -/\n"
             "theorem attrKinds_ok : kindsWF Generated.dispatch Generated.attrKinds = true := by decide\n\n"
             "/-- every class of the table was observed -/\n"
             "theorem attrKinds_cover : kindsCover Generated.dispatch Generated.attrKinds = true := by decide\n\n"
             "/-- the attributes the live `_transform_inplace` rebinds on each object of the private copy are exactly\n"
             "those the heap model rebinds (`inplaceWrites`, `inplace_writes_in_table`) -/\n"
             "theorem writes_ok : writesAgree Generated.dispatch Generated.measuredWrites = true := by decide\n\n"
             "/-- every transformable class of the table was measured -/\n"
             "theorem writes_cover : writesCover Generated.dispatch Generated.measuredWrites = true := by decide\n\n"
             "/-- no array buffer written in place, no dict item rebound, the transform untouched -/\n"
             "theorem no_other_writes : Generated.otherWrites = [] := by decide\n\n"
             "/-- every concrete transform class resolves `apply` to `Transform.apply` (transcribed as `applyT`) and\n"
             "`_apply` / `_apply_batched` to the implementation the model\n"
             "transcribes for it (`homApply`, `affineApply`, `chainFn`, `withDims`, `applyBatched`) or treats as a contract\n"
             "parameter; no transform class has appeared or disappeared -/\n"
             "theorem applyTable_ok : Generated.applyTable = expectedApplyTable := by decide\n\n"
             "end MenpoModel.C02.GenProps\n")
    return {"MenpoModel/Generated/C02Dispatch.lean": gen, "MenpoModel/GenProps/C02.lean": props}


TARGETS = ["MenpoModel.Generated.C02Dispatch", "MenpoModel.GenProps.C02"]
N_OBLIGATIONS = 7
