"""C11 — the anchored functions TRANSLATED from the source text of the current working tree into Lean
(`Generated/C11Src.lean`) on every run; `GenProps/C11Src.lean` proves every translated definition equal, for all
arguments, to the definition of `Core/C11Src.lean` (or `Core/C11.lean`) that the property theorems are about.
harness/py2lean2.py + harness/py2lean2numpy.py are the translator; this file is the C11 vocabulary: which numpy expression
of menpo/model/gmrf.py, menpo/model/pca.py, menpo/math/decomposition.py stands for which operation of the array
vocabulary `MenpoModel.C11.NP` (Core/C11Src.lean: 1-D / 2-D arrays with their shapes over Q, `+ - * /` with numpy's
broadcasting as instances, `.T`, `.dot`, `vstack`, `hstack`, slices, fancy column indexing, `np.sum/mean(axis=0)`).
Library calls that leave Q or that are LAPACK are fields of a parameter `lib` (`sqrt`, `qrQ`, `svd`, block inverse
`inv`): the theorems take them with their contracts.

  function (source)                                   generated definition     equal to (Core/C11Src.lean)
  gmrf._increment_multivariate_gaussian_mean          genIncMean               Src.incMean  (= Core meanUpdate, entrywise)
  gmrf._increment_multivariate_gaussian_cov           genIncCov                Src.incCov   (= Core covUpdate, entrywise)
  gmrf._increment_dense_diagonal_precision            genIncDenseDiag          Src.incDenseDiag
  gmrf._increment_dense_precision                     genIncDense              Src.incDense
  gmrf._increment_sparse_diagonal_precision           genIncSparseDiag         Src.incSparseDiag
  gmrf._increment_sparse_precision                    genIncSparse             Src.incSparse
  gmrf.GMRFVectorModel._data_to_matrix                genDataToMatrix          Src.dataToMatrix
  gmrf.GMRFVectorModel._increment                     genIncrementInner        Src.incrementInner
  gmrf.GMRFVectorModel.increment                      genIncrement             Src.increment
  gmrf.GMRFModel.increment                            genIncrementObj          Src.incrementObj
  decomposition.ipca                                  genIpca                  Src.ipca
  pca.PCAVectorModel._data_to_matrix                  genPcaDataToMatrix       Src.dataToMatrix
  pca.PCAVectorModel.increment                        genPcaIncrement          Src.pcaIncrement
  pca.PCAModel.increment                              genPcaIncrementObj       Src.pcaIncrementObj
  math.linalg.as_matrix (with storage dtypes)         genAsMatrix              Src.asMatrixT
"""
import ast
import os

from . import py2lean2 as P
from . import py2lean2numpy as N

GEN_REL = os.path.join("MenpoModel", "Generated", "C11Src.lean")
GEN_TARGETS = ["MenpoModel.Generated.C11Src", "MenpoModel.GenProps.C11Src"]

# ---------------------------------------------------------------------------------------------- the vocabulary
GRAPH = [
    ("$g.n_edges", "(NP.Graph.nEdges {g})"),
    ("$g.n_vertices", "(NP.Graph.nVertices {g})"),
    ("$g.edges[$e, 0]", "(NP.Graph.edge {g} {e}).1"),
    ("$g.edges[$e, 1]", "(NP.Graph.edge {g} {e}).2"),
    ("range($n)", "(List.range {n})"),
    ("list(range($a, $b))", "(NP.Idx.range {a} {b})"),
]

ARRAY = [
    # slices of a 2-D array (python's `a:b` bounds, `:` = everything); the metavariable patterns come last
    ("$A[:$k, :$l]", "(NP.sl {A} 0 {k} 0 {l})"),
    ("$A[$k:, $l:]", "(NP.sl {A} {k} (NP.shape0 {A}) {l} (NP.shape1 {A}))"),
    ("$A[:$k, $l:]", "(NP.sl {A} 0 {k} {l} (NP.shape1 {A}))"),
    ("$A[$k:, :$l]", "(NP.sl {A} {k} (NP.shape0 {A}) 0 {l})"),
    ("$A[:, $a:$b]", "(NP.sl {A} 0 (NP.shape0 {A}) {a} {b})"),
    ("$A[:$k, :]", "(NP.sl {A} 0 {k} 0 (NP.shape1 {A}))"),
    ("$A[:, $idx]", "(NP.cols {A} {idx})"),
    ("$v[$a:$b]", "(NP.slV {v} {a} {b})"),
    ("np.zeros(($a, $b), dtype=$t)", "(NP.zeros {a} {b})"),
    ("np.zeros($d, dtype=$t)", "(NP.zerosV {d})"),
    ("$x.shape[0]", "(NP.shape0 {x})"),
    ("$x.shape[1]", "(NP.shape1 {x})"),
    ("$x.shape", "(NP.shape {x})"),
    ("$x.dtype", "()"),
    ("np.sum($x, axis=0)", "(NP.sum0 {x})"),
    ("np.mean($x, axis=0)", "(NP.mean0 {x})"),
    ("$m[None, :]", "(NP.row {m})"),
    ("$a.T", "(NP.T {a})"),
    ("$a.dot($b)", "(NP.dot {a} {b})"),
    ("np.dot($a, $b)", "(NP.dot {a} {b})"),
    ("$a[$i]", "(NP.getItem {a} {i})"),
]

STRINGS = {"concatenation": '"concatenation"', "subtraction": '"subtraction"'}

BUILDER_EXPR = [
    ("_covariance_matrix_inverse($c, $nc)", "(inv {c} {nc})"),
    ("$x not in $l", "(!(List.contains {l} {x}))"),
]
BUILDER_STMT = [
    ("_, $c[$e] = _increment_multivariate_gaussian_cov($X, $m, $S, $n, bias=$b)", "c",
     "((genIncCov {X} {m} {S} {n} {b}).map fun p => NP.setItem {c} {e} p.2)", "bind"),
    ("$P[$a:$b, $c:$d] += $v", "P", "(NP.addSlice {P} {a} {b} {c} {d} {v})"),
    ("$P[$a:$b, $c:$d] = $v", "P", "(NP.setSlice {P} {a} {b} {c} {d} {v})"),
]
BUILDER_NAMES = {"verbose": "false", "dtype": "()", "np": "()"}
BUILDER_ARGS = {"X": "X", "mean_vector": "meanvector", "covariances": "covariances", "n": "n", "graph": "graph",
                "n_features": "nfeatures", "n_features_per_vertex": "k", "dtype": "()", "n_components": "nc",
                "bias": "bias", "verbose": "false"}
BUILDER_SIG = ("(inv : NP.M → Option Nat → NP.M) (X : NP.M) (meanvector : NP.V) (covariances : Nat → NP.M) (n : Rat) "
               "(graph : NP.Graph) (nfeatures k : Nat) (nc : Option Nat) (bias : Nat) : Option (NP.M × (Nat → NP.M))")

STATS_CALLS = [
    ("_increment_multivariate_gaussian_mean($X, $m, $n)", "(genIncMean {X} {m} {n})"),
    ("_increment_multivariate_gaussian_cov($X, $m, $S, $n, bias=$b)", "(genIncCov {X} {m} {S} {n} {b})"),
]


def R(expr=(), **kw):
    return N.RulesNP(expr=list(expr) + GRAPH + ARRAY, strings=STRINGS, binop={ast.MatMult: "(NP.dot {a} {b})"}, **kw)


SPARSE_EXPR = [
    ("np.zeros(($a, $b, $c), dtype=$t)", "(NP.zeros3 {a} {b} {c})"),
    ("np.zeros($d)", "(NP.zerosV {d})"),
    ("$r.argsort()", "(NP.argsort {r})"),
    ("np.where($r == $i)", "(NP.whereEq {r} {i})"),
    ("$x.size", "(NP.size {x})"),
    ("$x[0]", "(NP.first {x})"),
    ("$x[-1]", "(NP.last {x})"),
    ("bsr_matrix(($b, $c, $p), shape=($n, $m), dtype=$t)", "(NP.bsr {b} {c} {p} {n} {m})"),
]
SPARSE_STMT = [
    ("$a[$i] = $v", "a", "(NP.setItem {a} {i} {v})"),
]


def builder_rules():
    return R(STATS_CALLS + BUILDER_EXPR + SPARSE_EXPR, stmt=BUILDER_STMT + SPARSE_STMT, ret="some ({e})", raise_="none")


INCREMENT_ATTRS = {"precision": "self_precision", "_covariance_matrices": "self_covs", "mean_vector": "self_mean",
                   "n_samples": "self_n", "graph": "self_graph", "sparse": "self_sparse", "mode": "self_mode",
                   "n_features": "self_nf", "n_features_per_vertex": "self_k", "dtype": "self_dtype",
                   "n_components": "self_nc", "bias": "self_bias", "is_incremental": "self_incremental"}
GMRF_STATE_SIG = ("(inv : NP.M → Option Nat → NP.M) (graph : NP.Graph) (sparse : Bool) (mode : String) (nf k : Nat) "
                  "(nc : Option Nat) (bias : Nat) (st : NP.GState)")
GMRF_STATE_ARGS = {"self": "()", "self_precision": "st.precision", "self_covs": "st.covs", "self_mean": "st.mean",
                   "self_n": "st.n", "self_graph": "graph", "self_sparse": "sparse", "self_mode": "mode", "self_nf": "nf",
                   "self_k": "k", "self_dtype": "()", "self_nc": "nc", "self_bias": "bias"}
GMRF_END = "some (NP.GState.mk {self_precision} {self_covs} {self_mean} {self_n})"
INCREMENT_EXPR = [
    ("partial($f, mode=$m)", "({f} {m})"),
    ("$f($X, $m, $c, $n, $g, $nf, $k, dtype=$d, n_components=$nc, bias=$b, verbose=$v)",
     "({f} inv {X} {m} {c} {n} {g} {nf} {k} {nc} {b})", "bind"),
]
INCREMENT_NAMES = {"_increment_sparse_diagonal_precision": "genIncSparseDiag",
                   "_increment_dense_diagonal_precision": "genIncDenseDiag",
                   "_increment_sparse_precision": "genIncSparse", "_increment_dense_precision": "genIncDense"}


def _functions():
    """[(name, lean signature, thunk -> body text, stub body)]; the stub is what an untranslatable function becomes: it
    is chosen so that the equality obligation cannot be proved"""
    from menpo.model import gmrf as G
    T = N.TranslatorNP
    items = []

    def add(name, sig, fn, args, rules, stub, **kw):
        items.append((name, "def %s %s :=" % (name, sig), (lambda: T(rules).function(fn, args, ind=1, **kw)), stub))

    add("genIncMean", "(X : NP.M) (m : NP.V) (n : Rat) : NP.V", G._increment_multivariate_gaussian_mean,
        {"X": "X", "m": "m", "n": "n"}, R(), "⟨0, fun _ => 0⟩")
    add("genIncCov", "(X : NP.M) (m : NP.V) (S : NP.M) (n : Rat) (bias : Nat) : Option (NP.V × NP.M)",
        G._increment_multivariate_gaussian_cov, {"X": "X", "m": "m", "S": "S", "n": "n", "bias": "bias"},
        R(STATS_CALLS, ret="some ({e})", raise_="none"), "none")
    add("genIncDenseDiag", BUILDER_SIG, G._increment_dense_diagonal_precision, BUILDER_ARGS, builder_rules(), "none")
    add("genIncDense", "(mode : String) " + BUILDER_SIG, G._increment_dense_precision, dict(BUILDER_ARGS, mode="mode"),
        builder_rules(), "none")
    add("genIncSparseDiag", BUILDER_SIG, G._increment_sparse_diagonal_precision, BUILDER_ARGS, builder_rules(), "none")
    add("genIncSparse", "(mode : String) " + BUILDER_SIG, G._increment_sparse_precision, dict(BUILDER_ARGS, mode="mode"),
        builder_rules(), "none")
    DTM_RULES = dict(expr=[("n_samples is None", "(nsamples).isNone"), ("n_samples is not None", "(nsamples).isSome"),
                           ("len($d)", "(NP.len {d})"),
                           ("isinstance($d, np.ndarray)", "(NP.isArray {d})"),
                           ("np.array($d)[:$n]", "(NP.Samples.arr (NP.sl (NP.arrayOf {d}) 0 {n} 0 (NP.shape1 (NP.arrayOf {d}))))")],
                     ret="{e}")
    DTM_ARGS = {"self": "()", "data": "data", "n_samples": "(NP.the nsamples)"}
    add("genDataToMatrix", "(data : NP.Samples) (nsamples : Option Nat) : NP.Samples × Nat",
        G.GMRFVectorModel._data_to_matrix, DTM_ARGS, R(**DTM_RULES), "(data, 0)")
    add("genIncrementInner", GMRF_STATE_SIG + " (data : NP.M) : Option NP.GState", G.GMRFVectorModel._increment,
        dict(GMRF_STATE_ARGS, data="data", verbose="false"),
        R(STATS_CALLS + INCREMENT_EXPR, skip=["self_precision = 0"], attr_vars=INCREMENT_ATTRS, names=INCREMENT_NAMES,
          end=GMRF_END, raise_="none"), "none")
    INC_STMT = [("$s._increment(data=$d, verbose=$v)", "s",
                 "(genIncrementInner inv graph sparse mode nf k nc bias {s} (NP.arrayOf {d}))", "bind")]
    INC_EXPR = [("self.is_incremental", "incremental"), ("self._data_to_matrix($s, $n)", "(genDataToMatrix {s} {n})"),
                ("as_matrix($s, length=$n, verbose=$v)", "(NP.Samples.arr (NP.asMatrix {s} {n}))")]
    add("genIncrement", GMRF_STATE_SIG + " (incremental : Bool) (samples : NP.Samples) (nsamples : Option Nat) : Option NP.GState",
        G.GMRFVectorModel.increment, {"self": "st", "samples": "samples", "n_samples": "nsamples", "verbose": "false"},
        R(INC_EXPR, stmt=INC_STMT, end="some {self}", raise_="none"), "none")
    add("genIncrementObj", GMRF_STATE_SIG + " (incremental : Bool) (samples : List NP.V) (nsamples : Option Nat) : Option NP.GState",
        G.GMRFModel.increment, {"self": "st", "samples": "samples", "n_samples": "nsamples", "verbose": "false"},
        R(INC_EXPR, stmt=INC_STMT, end="some {self}", raise_="none"), "none")
    # ---------------------------------------------------------------------------------------------- PCA
    from menpo.math import decomposition as D
    from menpo.model import pca as PM
    IPCA_EXPR = [
        ("m_a is not None", "(ma).isSome"), ("m_a is None", "(ma).isNone"), ("centre is None", "(centre).isNone"),
        ("centre is not None", "(centre).isSome"),
        ("np.sqrt($x)", "(NP.sqrt lib.sqrt {x})"),
        ("np.all($v == 0)", "(NP.allZero {v})"),
        ("np.linalg.qr($a)[0]", "(lib.qrQ {a})"),
        ("np.linalg.svd($a)", "(lib.svd {a})"),
        ("np.diag($v)", "(NP.diag {v})"),
        ("np.vstack(($a, $b))", "(NP.vstack {a} {b})"),
        ("np.hstack(($a, $b))", "(NP.hstack {a} {b})"),
        ("$x ** 2", "(NP.sq {x})"),
        # dtypes: the model is exact arithmetic and carries none; what numpy says of them is a parameter (`lib`)
        ("np.finfo($t).eps", "(lib.eps {t})"),
        ("np.float64", "lib.float64"),
        ("np.issubdtype($t, np.inexact)", "(lib.inexact {t})"),
        ("$x.dtype", "(NP.dtypeIn lib {x})"),
        ("max($x.shape)", "(NP.maxShape {x})"),
        ("max($a, $b)", "(max {a} {b})"),
        ("max($l)", "(NP.maxList {l})"),
        ("$l.max()", "(NP.vmax {l})"),
        ("$l[$l > $e]", "(NP.filterGt {l} {e})"),
        ("len($l)", "(NP.len {l})"),
    ]
    add("genIpca", "(lib : NP.Lib) (B Ua : NP.M) (la : NP.V) (na : Rat) (ma : Option NP.V) (f eps : Rat) "
        "(centre : Option Bool) : NP.M × NP.V × NP.V", D.ipca,
        {"B": "B", "U_a": "Ua", "l_a": "la", "n_a": "na", "m_a": "(NP.the ma)", "f": "f", "eps": "eps",
         "centre": "(NP.truthy centre)"}, R(IPCA_EXPR, ret="{e}"), "(B, la, la)")
    PCA_ATTRS = {"_mean": "self_mean", "_components": "self_components", "_eigenvalues": "self_eigs", "n_samples": "self_n",
                 "n_active_components": "self_nactive", "centred": "self_centred"}
    PCA_ARGS = {"self": "()", "self_mean": "st.mean", "self_components": "st.components", "self_eigs": "st.eigs",
                "self_n": "st.n", "self_nactive": "st.nactive", "self_centred": "st.centred"}
    PCA_END = "NP.PcaState.mk {self_mean} {self_components} {self_eigs} {self_n} {self_nactive} {self_centred}"
    add("genPcaDataToMatrix", "(data : NP.Samples) (nsamples : Option Nat) : NP.Samples × Nat",
        PM.PCAVectorModel._data_to_matrix, DTM_ARGS, R(**DTM_RULES), "(data, 0)")
    add("genPcaIncrement", "(lib : NP.Lib) (st : NP.PcaState) (data : NP.Samples) (nsamples : Option Nat) (ff : Rat) : NP.PcaState",
        PM.PCAVectorModel.increment,
        dict(PCA_ARGS, data="data", n_samples="nsamples", forgetting_factor="ff", verbose="false"),
        R([("self._data_to_matrix($s, $n)", "(genPcaDataToMatrix {s} {n})"),
           ("self.n_components", "(NP.shape0 {self_components})"),
           ("ipca($d, $U, $l, $n, m_a=$m, f=$f, centre=$c)",
            "(genIpca lib (NP.arrayOf {d}) {U} {l} {n} (some {m}) {f} ipcaDefaultEps (some {c}))")],
          attr_vars=PCA_ATTRS, end=PCA_END), "st")
    add("genPcaIncrementObj", "(lib : NP.Lib) (st : NP.PcaState) (samples : List NP.V) (nsamples : Option Nat) (ff : Rat) : NP.PcaState",
        PM.PCAModel.increment,
        {"self": "st", "samples": "samples", "n_samples": "nsamples", "forgetting_factor": "ff", "verbose": "false"},
        R([("as_matrix($s, length=$n, verbose=$v)", "(NP.asMatrix {s} {n})")],
          stmt=[("PCAVectorModel.increment($s, $d, n_samples=$n, forgetting_factor=$f, verbose=$v)", "s",
                 "(genPcaIncrement lib {s} (NP.Samples.arr {d}) (some {n}) {f})")],
          end="{self}"), "st")
    # ---------------------------------------------------------------------------------------------- as_matrix (dtypes!)
    from menpo.math import linalg as L
    ASM_EXPR = [
        ("length is None", "(length).isNone"), ("length is not None", "(length).isSome"),
        ("len($l)", "(List.length {l})"),
        ("$l[0]", "(List.head? {l})", "bind"),
        ("$l[1:]", "(List.tail {l})"),
        ("$t.n_parameters", "(NP.Sample.nParameters {t})"),
        ("$t.as_vector()", "(NP.Sample.asVector {t})"),
        ("$x.dtype", "(NP.dtypeOf {x})"),
        ("np.zeros(($a, $b), dtype=$t)", "(NP.tzeros {a} {b} {t})"),
        ("islice($l, $n)", "(List.take {n} {l})"),
        ("enumerate($l, 1)", "(NP.enumFrom1 {l})"),
        ('np.can_cast($a, $b, casting="same_kind")', "(NP.canCastSameKind {a} {b})"),
        # numpy's "safe": no narrowing within a kind either; in the two-kind model the same relation (Core/C11Src.lean)
        ('np.can_cast($a, $b, casting="safe")', "(NP.canCastSafe {a} {b})"),
        ("np.promote_types($a, $b)", "(NP.promote {a} {b})"),
        ("$d.astype($t)", "(NP.TM.astype {d} {t})"),
    ]
    ASM_STMT = [
        ("$t = next($it)", ("t", "it"), "((List.head? {it}).map fun h => (h, List.tail {it}))", "bind"),
        ("$d[$i] = $v", "d", "(NP.TM.setRow {d} {i} {v})"),
    ]
    add("genAsMatrix", "(vectorizables : List NP.Sample) (length : Option Nat) : Option NP.TM", L.as_matrix,
        {"vectorizables": "vectorizables", "length": "(NP.the length)", "return_template": "false", "verbose": "false"},
        R(ASM_EXPR, stmt=ASM_STMT, skip=["del template_vector"], ret="some ({e})", raise_="none"), "none")
    return items


HEADER = """/- TRANSLATED by harness/trans_c11.py (harness/py2lean2.py, harness/py2lean2numpy.py) from the SOURCE TEXT of
   menpo/model/gmrf.py, menpo/model/pca.py and menpo/math/decomposition.py of the current working tree on every run of
   `./check C11`; do not edit.  GenProps/C11Src.lean proves every definition equal to the definition of
   Core/C11Src.lean the C11 theorems are about. -/
import MenpoModel.Core.PyLoop
import MenpoModel.Core.C11Src
set_option linter.unusedVariables false

namespace MenpoModel.Generated.C11Src
open MenpoModel.C11
"""


def defaults_text():
    """the defaults of `ipca` the call site in PCAVectorModel.increment relies on (it passes neither `eps` nor a mean of
    `None`), from the source text of the signature"""
    from fractions import Fraction
    from menpo.math import decomposition as D
    try:
        d = N.TranslatorNP(R()).defaults(D.ipca)
        eps = Fraction(d.get("eps", "-1"))
    except (P.Untranslatable, ValueError, ZeroDivisionError):
        eps = Fraction(-1)
    return ("/-- the default of `ipca`'s `eps` (source text of the signature) -/\n"
            "def ipcaDefaultEps : Rat := (%d : Rat) / %d\n" % (eps.numerator, eps.denominator))


def generated_files():
    """({relative path: text}, [reasons why a function could not be translated])"""
    items = _functions()
    text, reasons = P.translate_or_stub([(sig, thunk, stub) for _n, sig, thunk, stub in items],
                                        HEADER + "\n" + defaults_text())
    text += "\nend MenpoModel.Generated.C11Src\n"
    return {GEN_REL: text}, reasons


if __name__ == "__main__":
    files, why = generated_files()
    print(files[GEN_REL])
    print("untranslatable:", why)
