"""C10 — PCA models satisfy the defining identities, also after trimming (DESIGN.md section 6, C10).

Three parties per case:
  * the implementation: real `menpo.math.decomposition.{pca, eigenvalue_decomposition, pcacov}`,
    `menpo.model.{PCAVectorModel, PCAModel}` (vector-, PointCloud- and Image-backed), public API only;
  * the property oracle (this file, numpy + Fractions, independent of the Lean model);
  * the Lean model (`Core/C10Linear.lean`, `Core/C10Book.lean`) through `Drive/C10.lean`:
      - `pca`: certificate check of the factors the code returned against the exact rational
        covariance of the data (orthonormality, eigen-equation, eigenvalue = sample variance, trace,
        training reconstruction) — the definitions the theorems of `Props/C10.lean` are about;
      - `lin`: project / instance / reconstruct / project_out evaluated exactly on the same components;
      - `post`: the sort / positivity / eps*max post-processing of `eigenvalue_decomposition`;
      - `book`: the bookkeeping state machine, compared after every operation of random histories (float form
        away from ties through the exact model, at / near ties and for cross-checks through the float values the
        real object computed; orthonormalize_against_inplace; pool order exact);
      - `obj`: PCAModel's object layer on concrete PointCloud / Image models, compared with the real objects' own
        arrays and landmark tags;
      - `white`: whitened_components / project_whitened / component / normalized weights with the sqrt contract;
      - `lvm`: LinearVectorModel / MeanLinearVectorModel entry points.
"""
import json
from fractions import Fraction

import numpy as np

from . import common

PROP = "C10"
INFO = dict(
    technique="Lean 4 proof: (a) the PCA identities proved for every dimension and EVERY linearly ordered field K "
              "(Mathlib matrices; R, where the ideal output of eigh lives, is an instance - eig_contract_real_witness; "
              "the driver evaluates the same definitions at K = Q) from the eigen-decomposition contract, tied to "
              "the code by certificate checking: the RESIDUALS of the contract and of the conclusions are evaluated "
              "on the float factors the code returned against the exact rational covariance (<= 1e-9; no "
              "perturbation theorem turns a small residual into a bound on the conclusions); (b) the n_active_components / trim_components / "
              "orthonormalize_against_inplace state machine (float form both in exact arithmetic and on the float "
              "values the code itself computed) proved invariant by induction over every operation list, compared "
              "exactly with the real models on random histories incl. exact ties; (c) PCAModel's object layer "
              "(template as_vector/from_vector, PointCloud and Image reshaping) modelled and proved equal to the vector "
              "level, compared with the real objects' own arrays and landmarks; (d) THE SOURCE TEXT of the working tree "
              "is translated into Lean on every run (harness/py2lean2.py + harness/trans_c10.py, 69 definitions: "
              "pca.py: n_components / n_active_components getter and setter (all branches, Python's dynamic typing of "
              "`value` kept), trim_components, components getter / setter, eigenvalues, every variance / ratio "
              "accessor, noise_variance, inverse_noise_variance, orthonormalize_against_inplace, _constructor_helper, "
              "_data_to_matrix, the three constructors of PCAVectorModel and of PCAModel (calls bound to the callee's "
              "live signature: positional / keyword / default arguments by parameter NAME); linear.py / vectorizable.py: "
              "the __init__s, project / instance / reconstruct / project_out, their _vectors variants, "
              "_instance_vectors_for_full_weights, component, whitened_components, project_whitened, once per class "
              "through the live MRO; decomposition.py: "
              "eigenvalue_decomposition, pca, pcacov) and every translated definition is PROVED equal to the Core "
              "definition the theorems are about, for all arguments; the bookkeeping, spectrum and projection clauses "
              "are then stated for the translated definitions themselves",
    level_text="(a) For all n, d, k and every linearly ordered field K: from `U U^T = 1`, `U C = diag(l) U` (what eigh promises, for the symmetrised "
               "covariance on the d<n path, for the Gram matrix plus the sqrt contract on the d>=n path) the rows are "
               "orthonormal eigen-rows of the sample covariance with the n-1 normaliser, each eigenvalue equals the "
               "sample variance along its component, project(instance(w)) = w, reconstruct is an idempotent symmetric "
               "projection about the mean, x = reconstruct + project_out, the residual is orthogonal to all "
               "components, all training samples are reconstructed when no variance is discarded, and every prefix "
               "(active / trimmed components) satisfies the same contract; the post-processing of any eigen-witness "
               "is descending, positive, above eps*max and complete; LinearVectorModel / MeanLinearVectorModel entry "
               "points, weight-list padding, component(), whitened_components(), project_whitened(), normalized "
               "weights and the QR contract of orthonormalize_against_inplace reduce to the same identities.  "
               "(b) For every finite history of setter calls (int, float, numpy-int form, every early-return and raise "
               "branch; the float form for ARBITRARY rounded values of the code's ratios), trims and "
               "orthonormalize_against_inplace calls: original variance constant, kept + discarded = original with "
               "discarded = noise_variance x #discarded, counts consistent, 1 <= n_active <= n_components, spectrum "
               "stays a descending positive prefix, trimming (int or fraction) equals building with "
               "max_n_components up to the order of the trimmed pool, which is characterised exactly (slices in "
               "order of removal) and proved unobservable through every accessor and every later call; exact ties "
               "select the tied count in exact arithmetic (fraction 1.0 keeps everything), rounding cannot change "
               "the count away from ties; ratio accessors consistent.  (c) For every Vectorizable class satisfying "
               "the round-trip law (proved for the modelled PointCloud and Image reshaping): each object-level "
               "operation of PCAModel is from_vector of the vector-level one, carries the right object's non-vector "
               "state, and satisfies the identities as objects.  (d) For the definitions TRANSLATED from the source text: "
               "translated setter = Core setActive on the value the Python argument stands for (python int, numpy int, "
               "None for every state; python float: the clamped form on whatever the float evaluation of the two ratios "
               "returned, for every state with n_active <= n_components), translated trim / components setter / "
               "orthonormalize_against_inplace / accessors = the Core ones; the clamp min(count+1, n_components) is a "
               "no-op in exact arithmetic on every reachable state; over every history of Python-level calls and ANY "
               "rounding of the ratios the translated methods keep the reachable-state invariant, original variance, "
               "variance accounting and count consistency; translated _constructor_helper + translated trim satisfy "
               "trim = build up to pool order; every constructor of both classes builds `build rows eigenvalues "
               "max_n_components` on the library's factors (PCAModel: n_samples = rows of the data matrix, template = "
               "as_matrix' template); translated project / instance / reconstruct / project_out of the three classes = "
               "the matrix definitions (all dimensions; PCA: on the ACTIVE components, weights padded, wrong weight "
               "count raises) and satisfy the projection identities for orthonormal components; translated "
               "eigenvalue_decomposition = Core postprocess of the zipped witness with threshold max(eps, n*machine "
               "eps) for every witness (argsort + gathering = sorting the pairs), hence descending / positive / complete; "
               "translated pca / pcacov = the plan (mean or zeros, d<n: X^T X else X X^T, n-1, symmetrise, "
               "is_inverse=False, eps, transposition, Gram rescale) whatever the in-place / copy decisions.",
    level_note="Trusted: Lean kernel, propext/Classical.choice/Quot.sound, Mathlib; numpy.linalg.eigh / qr and numpy.sqrt "
               "enter the theorems as contracts and are certificate-checked numerically on every case; float "
               "rounding of matrix arithmetic is outside the model (inputs are small dyadic numbers, comparisons at "
               "1e-9); for the variance-fraction comparison the rounded values are *inputs* of the model (read from the "
               "real object), so exact and near ties are followed exactly; the harness and the driver's parser; the "
               "source-to-Lean translator (harness/py2lean2.py, py2lean.py) and the C10 rule tables of "
               "harness/trans_c10.py (which numpy / menpo expression stands for which Core operation; library calls "
               "of the constructors and of pca / pcacov are symbolic: fields of Src.NP / Src.ND).",
    rule="a case is one data set (n in 3..12, d in 2..12, both sides of n = d, centred/uncentred, full rank or rank "
         "deficient, vector / PointCloud / single- or multi-channel Image backed, data or covariance constructor) with "
         "its probes (vector-level, object-level with tagged landmarks, accessors, Linear/MeanLinear twins), one "
         "eigen-witness post-processing, or one bookkeeping history (<= 12 ops, int/float/numpy-int/None forms, "
         "fractions away from ties, at exact ties, one ulp from ties and 1.0, orthonormalize_against_inplace, "
         "synthetic (a third with power-of-two total) or data-built spectrum), one numpy-float fraction probe, one "
         "LARGE-d model (n in 3..6, d in {999, 1000, 1001, 1024 (32x32 image), 1030, 1099, 1100, 2050}, built in "
         "place: the blocked dot_inplace_right of the Gram path; oracle only) or one dot_inplace_left/right vs np.dot "
         "comparison at block-boundary sizes; distinct = distinct input; "
         "non-trivial = at least 2 components",
    partial=["half (a) is a statement about EXACT factors (in any ordered field, e.g. the real eigen-decomposition); over Q "
             "alone the contract is satisfiable only for data with a rational eigen-decomposition (of the generated "
             "data sets only the rank-1 ones), so on generated data the check evaluates residuals of the contract and "
             "of the conclusions (<= 1e-9), not an instance of the hypothesis (audit F1)",
             "clauses proved in a weaker / conditional form than worded: the eigen contract gives eigenvalue = sample "
             "variance >= 0; STRICT positivity and the descending order are theorems about eigenvalue_decomposition's "
             "post-processing (spectrum_desc_pos, src_spectrum), linked to the contract's eigenvalues by the translated "
             "plan + certificate, not by a theorem; 'every training sample is reconstructed exactly' is proved under "
             "tr C = sum of the kept eigenvalues (false when a positive eigenvalue below eps*max is dropped: such data "
             "are rejected by the generator); 'the sample mean as its mean' holds for centred models, an uncentred model "
             "has mean exactly zero (what the code does and mean_clause states); object_level_eq_vector_level restates "
             "the definition of the object model (its tie to the code is the regenerated call table delegates_ok)",
             "float rounding inside eigh/qr/sqrt/division is not modelled: the eigen / QR / sqrt contracts are theorem "
             "hypotheses, checked numerically (<= 1e-9) on the factors the code returns for every generated data set",
             "equal eigenvalues (a degenerate spectrum) are excluded by the generators as the property text does "
             "('well-separated spectrum'); variance fractions AT a tie are generated and followed through the float "
             "values the code computed (model input), where the property text leaves the count open: the oracle "
             "admits the two neighbouring counts there, and ValueError within 1e-6 of the kept ratio (the guard "
             "`value <= _total_variance_ratio()` is a float comparison) except for the fraction 1.0 on an untrimmed "
             "model, which must succeed (the fixed defect adec1e3 is reported again if it returns); the count itself is "
             "clamped by the code (translated and proved: genSetActive_float, repaired_float_never_raises); whether "
             "a request OUTSIDE 1..n_components / (0, kept ratio] is refused or clamped is not judged by the oracle "
             "(not in the property text), only compared with the model",
             "pca / pcacov are translated as PLANS over symbolic arrays (which numpy operation on which operand in "
             "which branch: genPca_eq / genPcacov_eq); that these numpy operations are the matrix operations of "
             "Core/C10Linear (mean, centring, covariance / Gram matrix with n-1, symmetrisation, Gram rescale) is tied "
             "by the `pca` certificate correspondence, not by a theorem; likewise the library calls of the "
             "constructors (pca, pcacov, as_matrix, np.zeros) are symbolic",
             "not translated (correspondence / oracle only): the object layer of PCAModel / VectorizableBackedModel (template.from_vector, instance.as_vector: "
             "regenerated call table `delegates_ok`), LinearVectorModel.orthonormalize_inplace / "
             "orthonormalize_against_inplace; increment (incremental PCA) belongs to C11; __setstate__, plotting and "
             "__str__ are not modelled"],
    assumptions=["numpy.linalg.eigh returns orthonormal eigenvectors of the symmetric input (contract, checked "
                 "numerically per case)",
                 "value types: the argument of the setter / trim_components / max_n_components is None, a python int, "
                 "a python float (numpy.float64 is one) or a numpy integer - the model's PyVal / Val are closed over "
                 "these four; numpy.float32/float16 fractions are exercised by the oracle only (known finding "
                 "C10/bookkeeping/numpy-float, patch notes/fixes/C10-numpy-float-fraction.diff); None assigned directly "
                 "to the setter is TypeError in Python, `error` in the model (error kinds are not distinguished)",
                 "pca / pcacov return as many eigenvalues as eigenvector rows, and init_from_components is given matching "
                 "arrays (hypothesis `hlen` of src_trim_eq_build_with_max; the bookkeeping theorems are stated for "
                 "init eig0.length eig0; init_from_components itself does not check it)",
                 "shape of numpy's reduced QR: qr(hstack(other.T, self.T))[0].T has min(d, k1 + n_components) rows "
                 "(Core orthoQRows; compared through the histories with orthonormalize_against_inplace)",
                 "trusted vocabulary of the translation, coarser than the source: `.copy()`, `np.copyto`, in-place vs "
                 "rebinding and object identity are invisible to the translated obligations (VALUE level: aliasing / "
                 "non-mutation is judged by the oracle - copy-not-independent, argument-mutated, "
                 "state-changed-by-failed-call - not by the tie); dtype decisions of pca (np.issubdtype -> one Boolean, "
                 "np.zeros(d, dtype=..) -> zeros d) are only exercised by the integer-dtype generator cases; in the "
                 "vector-level vocabulary n_components and n_active_components are the same number k (the methods see "
                 "the active view only); np.dot with mismatching inner dimensions is the zero matrix (numpy raises; "
                 "the callers' guards come first); empty-list mean / division by a zero original variance are "
                 "totalised to 0 (unreachable for a positive spectrum)",
                 "the correspondence (not the oracle) reads private attributes (_eigenvalues, _trimmed_eigenvalues, "
                 "_components) and the MRO / call-target tables are snapshot equalities: a behaviour-preserving change "
                 "of the representation or a method moved between base classes is reported as a broken tie", "numpy.sqrt(x)**2 = x (contract of the Gram-path rescale, of "
                 "whitened_components and of component/normalized weights)",
                 "numpy.linalg.qr returns orthonormal columns (orthonormalize_against_inplace; checked per case)",
                 "PointCloud / Image as_vector and from_vector are C-order ravel / reshape (modelled; compared with "
                 "the real objects' own arrays on every object-backed case; the law itself is property C05)"],
    design_ref="DESIGN.md section 6, C10")
IMPORTS = ["MenpoModel.Props.C10", "MenpoModel.GenProps.C10", "MenpoModel.GenProps.C10Src",
           "MenpoModel.GenProps.C10SrcProps", "MenpoModel.GenProps.C10SrcLin", "MenpoModel.GenProps.C10SrcDec"]
THEOREMS = [
    "MenpoModel.C10.mean_clause",
    "MenpoModel.C10.cov_path_identities",
    "MenpoModel.C10.gram_path_identities",
    "MenpoModel.C10.spectrum_desc_pos",
    "MenpoModel.C10.spectrum_desc_pos_inverse",
    "MenpoModel.C10.project_instance_clause",
    "MenpoModel.C10.reconstruct_idempotent_clause",
    "MenpoModel.C10.reconstruct_is_orthogonal_projection",
    "MenpoModel.C10.residual_orthogonal_clause",
    "MenpoModel.C10.full_model_reconstructs_training_clause",
    "MenpoModel.C10.identities_after_trimming",
    "MenpoModel.C10.original_variance_constant",
    "MenpoModel.C10.variance_accounting",
    "MenpoModel.C10.counts_consistent",
    "MenpoModel.C10.spectrum_stays_sorted_positive",
    "MenpoModel.C10.trim_eq_build_with_max",
    "MenpoModel.C10.trim_eq_build_after_setters",
    "MenpoModel.C10.float_setter_selects_minimal",
    "MenpoModel.C10.trim_float_eq_build",
    "MenpoModel.C10.materialize_eq",
    "MenpoModel.C10.vmaterialize_eq",
    "MenpoModel.C10.driver_forms",
    "MenpoModel.C10.driver_object_forms",
    # object layer
    "MenpoModel.C10.object_level_eq_vector_level",
    "MenpoModel.C10.object_level_identities",
    "MenpoModel.C10.object_training_reconstructed",
    "MenpoModel.C10.concrete_templates_lawful",
    # other entry points
    "MenpoModel.C10.linear_model_clause",
    "MenpoModel.C10.instance_weights_clause",
    "MenpoModel.C10.component_and_whitening_clause",
    "MenpoModel.C10.ortho_against_clause",
    # bookkeeping: pool order, float form as evaluated, ratios, ortho
    "MenpoModel.C10.trimmed_pool_order",
    "MenpoModel.C10.pool_order_unobservable",
    "MenpoModel.C10.trim_eq_build_observably",
    "MenpoModel.C10.float_rounding_keeps_bookkeeping",
    "MenpoModel.C10.float_rounding_irrelevant_away_from_ties",
    "MenpoModel.C10.float_setter_exact_tie",
    "MenpoModel.C10.float_setter_observed_selection",
    "MenpoModel.C10.fraction_one_rounding_witness",
    "MenpoModel.C10.repaired_float_never_raises",
    "MenpoModel.C10.ratio_accessors_consistent",
    "MenpoModel.C10.ortho_against_bookkeeping",
    # obligations over the dispatch tables regenerated from the live classes on every run
    "MenpoModel.C10.GenProps.dispatch_ok",
    "MenpoModel.C10.GenProps.delegates_ok",
    "MenpoModel.C10.GenProps.object_layer_resolution",
    # Core-level facts the translated-source theorems rest on
    "MenpoModel.C10.eig_contract_sqrt_two_witness",
    "MenpoModel.C10.eig_contract_real_witness",
    "MenpoModel.C10.clamp_is_noop_in_exact_arithmetic",
    "MenpoModel.C10.constructors_build",
    # obligations over the SOURCE TEXT translated on every run (harness/trans_c10.py -> Generated/C10Src.lean):
    # translated definition = Core definition, for all arguments
    "MenpoModel.C10.GenProps.genFl_exact",
    "MenpoModel.C10.GenProps.genNoiseVariance_eq",
    "MenpoModel.C10.GenProps.genInverseNoiseVariance_eq",
    "MenpoModel.C10.GenProps.genSetActive_eq",
    "MenpoModel.C10.GenProps.genTrimComponents_eq",
    "MenpoModel.C10.GenProps.genOrthoAgainst_eq",
    "MenpoModel.C10.GenProps.genConstructorHelper_eq",
    "MenpoModel.C10.GenProps.genVecInit_eq",
    "MenpoModel.C10.GenProps.genVecFromCov_eq",
    "MenpoModel.C10.GenProps.genVecFromComponents_eq",
    "MenpoModel.C10.GenProps.genObjInit_eq",
    "MenpoModel.C10.GenProps.genObjFromCov_eq",
    "MenpoModel.C10.GenProps.genObjFromComponents_eq",
    # the bookkeeping clauses for the translated methods themselves
    "MenpoModel.C10.GenProps.genRun_eq",
    "MenpoModel.C10.GenProps.src_reach",
    "MenpoModel.C10.GenProps.src_original_variance_constant",
    "MenpoModel.C10.GenProps.src_variance_accounting",
    "MenpoModel.C10.GenProps.src_counts_consistent",
    "MenpoModel.C10.GenProps.src_exact_float_is_model",
    "MenpoModel.C10.GenProps.src_trim_eq_build_with_max",
    "MenpoModel.C10.GenProps.src_pcamodel_init",
    "MenpoModel.C10.GenProps.src_other_constructors",
    # vector-level methods translated per class (Generated/C10SrcLin.lean)
    "MenpoModel.C10.GenProps.genLinProject_eq",
    "MenpoModel.C10.GenProps.genLinInstance_eq",
    "MenpoModel.C10.GenProps.genLinReconstruct_eq",
    "MenpoModel.C10.GenProps.genLinProjectOut_eq",
    "MenpoModel.C10.GenProps.genMeanProject_eq",
    "MenpoModel.C10.GenProps.genMeanInstance_eq",
    "MenpoModel.C10.GenProps.genMeanReconstruct_eq",
    "MenpoModel.C10.GenProps.genMeanProjectOut_eq",
    "MenpoModel.C10.GenProps.genMeanComponent_eq",
    "MenpoModel.C10.GenProps.genPcaProject_eq",
    "MenpoModel.C10.GenProps.genPcaInstance_eq",
    "MenpoModel.C10.GenProps.genPcaInstance_normalized_eq",
    "MenpoModel.C10.GenProps.genPcaReconstruct_eq",
    "MenpoModel.C10.GenProps.genPcaProjectOut_eq",
    "MenpoModel.C10.GenProps.genPcaComponent_eq",
    "MenpoModel.C10.GenProps.genPcaWhitenedComponents_eq",
    "MenpoModel.C10.GenProps.genPcaProjectWhitened_eq",
    "MenpoModel.C10.GenProps.genPcaProjectVectors_row",
    "MenpoModel.C10.GenProps.genPcaReconstructVectors_eq",
    "MenpoModel.C10.GenProps.genPcaProjectOutVectors_row",
    "MenpoModel.C10.GenProps.src_identities",
    # menpo/math/decomposition.py translated (Generated/C10SrcDec.lean)
    "MenpoModel.C10.GenProps.sorted_witness",
    "MenpoModel.C10.GenProps.genEigenvalueDecomposition_eq",
    "MenpoModel.C10.GenProps.genEigenvalueDecomposition_sparse_eq",
    "MenpoModel.C10.GenProps.genPca_eq",
    "MenpoModel.C10.GenProps.genPcacov_eq",
    "MenpoModel.C10.GenProps.src_spectrum",
]

TOL = 1e-9


F = Fraction


# ============================================================================ data sets

def gen_data(rng):
    """small dyadic data matrix; returns a JSON-able case dict (floats are exactly representable)"""
    while True:
        n = rng.randint(3, 12)
        side = rng.random()
        if side < 0.42:
            d = rng.randint(2, max(2, n - 1))            # covariance path (d < n)
        elif side < 0.55:
            d = n                                        # boundary: Gram path
        else:
            d = rng.randint(n, 12) if n <= 12 else n     # Gram path (d >= n)
        kind = rng.choice(["vector", "vector", "pointcloud", "image"])
        if kind == "pointcloud":
            if d % 2:
                d += 1
            if d < 2:
                d = 2
        if kind == "image" and d < 2:
            d = 2
        centre = rng.random() < 0.6
        mexp = rng.choice([0, 0, 1, 2])
        rankdef = rng.random() < 0.3
        if rankdef:
            r = rng.randint(1, max(1, min(n, d) - 2))
            B = [[rng.randint(-3, 3) for _ in range(d)] for _ in range(r)]
            Y = [[rng.randint(-3, 3) for _ in range(r)] for _ in range(n)]
            X = [[sum(Y[i][t] * B[t][j] for t in range(r)) / float(2 ** mexp) for j in range(d)] for i in range(n)]
            if centre:
                off = [rng.randint(-8, 8) / float(2 ** mexp) for _ in range(d)]
                X = [[X[i][j] + off[j] for j in range(d)] for i in range(n)]
        else:
            X = [[rng.randint(-16, 16) / float(2 ** mexp) for _ in range(d)] for _ in range(n)]
        far = centre and rng.random() < 0.25
        if far:
            # data far from the origin (|mean| >> spread, still exactly representable): the covariance of a centred
            # model does not depend on where the cloud sits
            big = [2.0 ** rng.choice([16, 20]) * rng.choice([1, -1, 3]) for _ in range(d)]
            X = [[X[i][j] + big[j] for j in range(d)] for i in range(n)]
        case = dict(n=n, d=d, centre=centre, kind=kind, X=X, far_from_origin=far, inplace=rng.random() < 0.5,
                    ctor=rng.choice(["data", "data", "data", "cov"]) if kind != "image" else "data")
        if kind == "vector" and mexp == 0 and case["ctor"] == "data" and rng.random() < 0.2:
            # integer-dtype data matrix (all entries are integers here); with inplace=True the code cannot centre /
            # rescale it in place and raises a numpy casting TypeError - see run_model_case
            # (repaired by e25cf8a).  Narrow integer dtypes as well: uncentred, `X - zeros(dtype)` used to stay
            # integer and the scatter X^T X overflowed silently (uint8 pixel matrices)
            dt = rng.choice(["int64", "int64", "int32", "int16", "int8", "uint8"])
            lo = min(min(r) for r in X)
            if dt == "uint8" and lo < 0 and not centre:
                X = [[v - lo for v in r] for r in X]
                case["X"] = X
            hi = max(max(abs(v) for v in r) for r in X)
            if (dt == "uint8" and min(min(r) for r in X) < 0) or hi > {"int8": 120, "uint8": 120, "int16": 32000,
                                                                        "int32": 2 ** 31 - 8}.get(dt, 2 ** 62):
                dt = "int64"
            case["dtype"] = dt
        if case["ctor"] == "data" and "dtype" not in case and rng.random() < 0.25:
            # the other documented ways to hand over the samples: a python list of vectors / an iterator of objects
            # together with n_samples; the source may hold MORE than n_samples items, which must be ignored
            # (`_data_to_matrix`: np.array(data)[:n_samples]; `as_matrix(samples, length=n_samples)`)
            case["feed"] = "list" if kind == "vector" else "iter"
            case["extra"] = [[rng.randint(-16, 16) / float(2 ** mexp) for _ in range(d)]
                             for _ in range(rng.choice([0, 1, 2]))]
        if kind == "image":
            # (channels, height, width) with c*h*w = d: single- and multi-channel templates
            shapes = [(c, h, d // (c * h)) for c in (1, 2, 3) for h in (1, 2, 3) if d % (c * h) == 0]
            case["imshape"] = list(rng.choice(shapes))
        if conditioned(case):
            return case


def exact_stats(case):
    """exact mean / centred data / covariance (n-1 normaliser) in Fractions — from the input only"""
    n, d = case["n"], case["d"]
    X = [[F(v) for v in row] for row in case["X"]]
    if case["centre"]:
        m = [sum(X[i][j] for i in range(n)) / n for j in range(d)]
    else:
        m = [F(0)] * d
    Xc = [[X[i][j] - m[j] for j in range(d)] for i in range(n)]
    C = [[sum(Xc[s][a] * Xc[s][b] for s in range(n)) / (n - 1) for b in range(d)] for a in range(d)]
    return m, Xc, C


def _exact_rank(rows):
    """rank of a Fraction matrix by Gaussian elimination"""
    A = [list(r) for r in rows]
    rank, ncol = 0, len(A[0]) if A else 0
    for c in range(ncol):
        piv = next((i for i in range(rank, len(A)) if A[i][c] != 0), None)
        if piv is None:
            continue
        A[rank], A[piv] = A[piv], A[rank]
        pv = A[rank][c]
        for i in range(rank + 1, len(A)):
            if A[i][c] != 0:
                f = A[i][c] / pv
                A[i] = [a - f * b for a, b in zip(A[i], A[rank])]
        rank += 1
    return rank


def conditioned(case):
    """spectrum of the exact covariance: something to find, eigenvalues either clearly non-zero or zero,
    clearly separated (the property's 'well-separated spectrum'); decided on the input, never on the
    implementation's output"""
    m, Xc, C = exact_stats(case)
    Cf = np.array([[float(v) for v in row] for row in C])
    ev = np.linalg.eigvalsh(Cf)[::-1]
    top = ev[0]
    if not top > 1e-3:
        return False
    nz = [v for v in ev if abs(v) > 1e-11 * top]
    if any(v < 1e-3 * top for v in nz):       # pcacov's eps is 1e-5, pca's 1e-10: stay far from both
        return False
    # "zero" must mean exactly zero: the rank is decided in exact arithmetic (corrected false alarm: a 12x12
    # uncentred data set had a true eigenvalue 7e-13 of the largest, below the float test above, which the code's
    # eps threshold rightly discards - so "all components kept" did not reconstruct the training set)
    if _exact_rank(Xc) != len(nz):
        return False
    for a, b in zip(nz, nz[1:]):
        if (a - b) < 1e-3 * top:
            return False
    case["rank"] = len(nz)
    return True


class Adapter(object):
    """uniform vector-level view of PCAVectorModel and PCAModel (public API only)"""

    def __init__(self, model, kind, shape=None):
        self.m, self.kind, self.shape = model, kind, shape

    def wrap(self, x, tag=None):
        x = np.asarray(x, dtype=float)
        if self.kind == "vector":
            return x.copy()
        if self.kind == "pointcloud":
            from menpo.shape import PointCloud
            o = PointCloud(x.reshape(-1, 2).copy())
        else:
            from menpo.image import Image
            o = Image(x.reshape(self.shape).copy())
        if tag is not None:
            set_tag(o, tag)
        return o

    def unwrap(self, o):
        if self.kind == "vector":
            return np.asarray(o, dtype=float).ravel()
        return o.as_vector().ravel()

    def mean(self):
        return self.unwrap(self.m.mean())

    def project(self, x):
        return np.asarray(self.m.project(self.wrap(x))).ravel()

    def instance(self, w):
        return self.unwrap(self.m.instance(np.asarray(w, dtype=float)))

    def reconstruct(self, x):
        return self.unwrap(self.m.reconstruct(self.wrap(x)))

    def project_out(self, x):
        return self.unwrap(self.m.project_out(self.wrap(x)))


TAG_TEMPLATE, TAG_QUERY = 7, 3


def set_tag(o, tag):
    """non-vector state of a Vectorizable object: a one-point landmark group holding `tag`"""
    from menpo.shape import PointCloud
    o.landmarks["tag"] = PointCloud(np.array([[float(tag), float(tag)]]))


def get_tag(o):
    try:
        return int(o.landmarks["tag"].points[0, 0])
    except Exception:
        return None


def nested(o):
    """the object's own array (PointCloud.points / Image.pixels), read in its own nested index order -
    *not* through as_vector"""
    a = o.points if hasattr(o, "points") else o.pixels
    return [float(v) for v in _flat(np.asarray(a).tolist())]


def _flat(l):
    out = []
    for v in l:
        if isinstance(v, list):
            out.extend(_flat(v))
        else:
            out.append(v)
    return out


def image_shape(case):
    if case.get("imshape"):
        return tuple(case["imshape"])
    d = case["d"]
    h = 2 if d % 2 == 0 else 1
    return (h, d // h)


def build_model(case, max_n=None):
    from menpo.model import PCAModel, PCAVectorModel
    X = np.array(case["X"], dtype=case.get("dtype", "float64"))
    kind = case["kind"]
    shape = None
    if case.get("ctor") == "cov":
        # covariance constructor (pcacov): hand it the float image of the exact covariance and mean
        m, Xc, C = exact_stats(case)
        Cf = np.array([[float(v) for v in row] for row in C])
        mf = np.array([float(v) for v in m])
        if kind == "vector":
            mod = PCAVectorModel.init_from_covariance_matrix(Cf, mf, case["n"], centred=case["centre"],
                                                             max_n_components=max_n)
        else:
            from menpo.shape import PointCloud
            tmpl = PointCloud(mf.reshape(-1, 2))
            set_tag(tmpl, TAG_TEMPLATE)
            mod = PCAModel.init_from_covariance_matrix(Cf, tmpl, case["n"],
                                                       centred=case["centre"], max_n_components=max_n)
        return Adapter(mod, kind, shape)
    feed = case.get("feed")
    if feed:
        X = np.vstack([X] + [np.array([r], dtype=float) for r in case.get("extra", [])])
    if kind == "vector":
        if feed == "list":
            mod = PCAVectorModel([x.copy() for x in X], centre=case["centre"], n_samples=case["n"],
                                 max_n_components=max_n, inplace=case["inplace"])
        else:
            mod = PCAVectorModel(X.copy(), centre=case["centre"], max_n_components=max_n, inplace=case["inplace"])
    elif kind == "pointcloud":
        from menpo.shape import PointCloud
        samples = [PointCloud(x.reshape(-1, 2).copy()) for x in X]
        set_tag(samples[0], TAG_TEMPLATE)                  # the first sample becomes the template
        if feed == "iter":
            mod = PCAModel(iter(samples), centre=case["centre"], n_samples=case["n"], max_n_components=max_n,
                           inplace=case["inplace"])
        else:
            mod = PCAModel(samples, centre=case["centre"], max_n_components=max_n, inplace=case["inplace"])
    else:
        from menpo.image import Image
        shape = image_shape(case)
        samples = [Image(x.reshape(shape).copy()) for x in X]
        set_tag(samples[0], TAG_TEMPLATE)
        if feed == "iter":
            mod = PCAModel(iter(samples), centre=case["centre"], n_samples=case["n"], max_n_components=max_n,
                           inplace=case["inplace"])
        else:
            mod = PCAModel(samples, centre=case["centre"], max_n_components=max_n, inplace=case["inplace"])
    return Adapter(mod, kind, shape)


def probes(rng, case, k):
    """weight vectors and novel vectors (small dyadic)"""
    d = case["d"]
    xs = [[rng.randint(-16, 16) / 2.0 for _ in range(d)] for _ in range(2)]
    if case.get("far_from_origin"):
        # novel vectors near the data (first sample + small offsets): a query a million spreads away from the
        # cloud would only measure float cancellation, not the model
        xs = [[case["X"][0][j] + v for j, v in enumerate(x)] for x in xs]
    ws = [[rng.randint(-12, 12) / 4.0 for _ in range(k)], [rng.randint(-12, 12) / 4.0 for _ in range(max(1, k - 1))]]
    return xs, ws


def maxabs(a):
    a = np.asarray(a, dtype=float)
    return float(np.abs(a).max()) if a.size else 0.0


def oracle_identities(ctx, ad, case, U, l, mean, scale, rp, site, full, rng, lines, expect, cid):
    """the algebraic clauses on the real model in its current state (U = active components);
    also emits the `lin` correspondence lines"""
    k, d = U.shape
    tol = TOL * (1.0 + scale)
    ok = True
    ok &= ctx.check(maxabs(U.dot(U.T) - np.eye(k)) <= TOL * 10, site, "not-orthonormal",
                    "components are not orthonormal: max |U U^T - I| = %.3g" % maxabs(U.dot(U.T) - np.eye(k)), rp)
    ok &= ctx.check(all(l[i] > 0 for i in range(k)) and all(l[i] >= l[i + 1] for i in range(k - 1)), site,
                    "spectrum-order", "eigenvalues not positive and descending: %r" % (list(l),), rp)
    Xf = np.array(case["X"], dtype=float)
    Xc = Xf - mean
    sv = (Xc.dot(U.T) ** 2).sum(axis=0) / (case["n"] - 1)
    ok &= ctx.check(maxabs(sv - l) <= tol, site, "eigenvalue-not-sample-variance",
                    "eigenvalues %r, sample variance along the components %r" % (list(l), list(sv)), rp)
    xs, ws = probes(rng, case, k)
    for j, w in enumerate(ws):
        try:
            inst = ad.instance(w)
            back = ad.project(inst)
            wfull = np.zeros(k)
            wfull[:len(w)] = w
            ok &= ctx.check(maxabs(back - wfull) <= tol, site, "project-instance",
                            "project(instance(w)) = %r for w = %r" % (list(back), list(wfull)), dict(rp, w=w))
        except Exception as e:
            ctx.fail(site, "raises", "instance/project raised %s: %s" % (type(e).__name__, e), dict(rp, w=w))
            ok = False
    for j, x in enumerate(xs):
        x = np.array(x)
        try:
            r1 = ad.reconstruct(x)
            r2 = ad.reconstruct(r1)
            po = ad.project_out(x)
            pr = ad.project(x)
        except Exception as e:
            ctx.fail(site, "raises", "reconstruct/project_out raised %s: %s" % (type(e).__name__, e), dict(rp, x=list(x)))
            ok = False
            continue
        ok &= ctx.check(maxabs(r2 - r1) <= tol, site, "reconstruct-not-idempotent",
                        "reconstruct(reconstruct(x)) differs from reconstruct(x) by %.3g" % maxabs(r2 - r1),
                        dict(rp, x=list(x)))
        ok &= ctx.check(maxabs(U.dot(po)) <= tol, site, "residual-not-orthogonal",
                        "components . project_out(x) = %r" % (list(U.dot(po)),), dict(rp, x=list(x)))
        # a projection ONTO THE MODEL: the reconstruction lies in mean + span(active components) (seeded C10-4: with a
        # lowered active count reconstruct / project_out used every stored component; idempotence, orthogonality of
        # the residual to the active components and the decomposition all survive that)
        off = (r1 - mean) - U.T.dot(U.dot(r1 - mean))
        ok &= ctx.check(maxabs(off) <= tol * (1 + maxabs(x)), site, "reconstruction-outside-model",
                        "reconstruct(x) - mean has a part of size %.3g outside the span of the %d active components"
                        % (maxabs(off), U.shape[0]), dict(rp, x=list(x)))
        ok &= ctx.check(maxabs(ad.project(r1) - pr) <= tol * (1 + maxabs(x)), site, "project-of-reconstruction",
                        "project(reconstruct(x)) differs from project(x)", dict(rp, x=list(x)))
        ok &= ctx.check(maxabs(r1 + po - x) <= tol, site, "decomposition",
                        "reconstruct(x) + project_out(x) differs from x by %.3g" % maxabs(r1 + po - x), dict(rp, x=list(x)))
        # orthogonal: the residual is orthogonal to the reconstructed part (about the mean), and the
        # map is symmetric: <R x - m, y - m> = <x - m, R y - m>
        ok &= ctx.check(abs(float((r1 - mean).dot(po))) <= tol * (1 + maxabs(x)), site, "projection-not-orthogonal",
                        "<reconstruct(x) - mean, residual> = %.3g" % float((r1 - mean).dot(po)), dict(rp, x=list(x)))
        y = np.array(xs[(j + 1) % len(xs)])
        ry = ad.reconstruct(y)
        lhs, rhs = float((r1 - mean).dot(y - mean)), float((x - mean).dot(ry - mean))
        ok &= ctx.check(abs(lhs - rhs) <= tol * (1 + maxabs(x) * maxabs(y)), site, "projection-not-symmetric",
                        "<Rx-m, y-m> = %.12g but <x-m, Ry-m> = %.12g" % (lhs, rhs), dict(rp, x=list(x), y=list(y)))
        w = ws[j % len(ws)]
        try:
            iw = list(ad.instance(w))
        except Exception:
            iw = None
        if j and not full:
            continue                                   # one exact evaluation per reduced state is enough
        lid = "%s.L%d" % (cid, len(expect))
        lines.append("%s lin %s %d %s %d %s %d %s" % (lid, common.fmat(U), d, common.fqs(mean), d, common.fqs(x),
                                                      len(w), common.fqs(w)))
        expect[lid] = dict(kind="lin", project=list(pr), instance=iw, reconstruct=list(r1), project_out=list(po),
                           scale=scale + maxabs(x) ** 2, rp=dict(rp, x=list(x), w=w))
    if full:
        # all components kept: every training sample is reconstructed exactly
        worst = 0.0
        for s in range(case["n"]):
            worst = max(worst, maxabs(ad.reconstruct(Xf[s]) - Xf[s]))
        ok &= ctx.check(worst <= tol, site, "training-not-reconstructed",
                        "with all components kept a training sample is off by %.3g" % worst, rp)
    return ok


def object_case(ctx, ad, case, U, l, mean, scale, rp, site, rng, lines, expect, cid):
    """object-backed models: the object-level operations of PCAModel against (a) the vector-level ones on the
    real code (oracle) and (b) the Lean object model (`obj` line), objects read through their own arrays"""
    if ad.kind == "vector":
        return
    M = ad.m
    k, d = U.shape
    xs, ws = probes(rng, case, k)
    x = np.array(xs[0])
    w = ws[rng.randrange(len(ws))]
    idx = rng.randrange(k)
    sc = rng.choice([1.0, -0.5, 2.0, 0.25])
    site = site + "/object"
    rpo = dict(rp, x=list(x), w=w, index=idx, scale=sc)
    try:
        o = ad.wrap(x, TAG_QUERY)
        res = dict(project=np.asarray(M.project(o)).ravel(), mean=M.mean(), instance=M.instance(np.array(w)),
                   reconstruct=M.reconstruct(o), project_out=M.project_out(o), component=M.component(idx, scale=sc))
        vec = dict(project=np.asarray(M.project_vector(x)).ravel(), mean=np.asarray(M.mean_vector),
                   instance=M.instance_vector(np.array(w)), reconstruct=M.reconstruct_vector(x),
                   project_out=M.project_out_vector(x), component=M.component_vector(idx, scale=sc))
    except Exception as e:
        ctx.fail(site, "raises", "an object-level operation raised %s: %s" % (type(e).__name__, e), rpo)
        return
    tmpl = M.template_instance
    ctx.check(np.array_equal(res["project"], vec["project"]), site, "project-differs-from-vector-level",
              "project(obj) %r, project_vector(obj.as_vector()) %r" % (list(res["project"]), list(vec["project"])), rpo)
    # (which object's landmarks a result carries - the template's or the argument's - is compared with the Lean
    # object model in compare_obj; the property text does not speak about it, so the oracle does not either)
    for name in ("mean", "instance", "reconstruct", "project_out", "component"):
        ob = res[name]
        ctx.check(type(ob) is type(tmpl), site, "wrong-class", "%s returned %s, template is %s" % (
            name, type(ob).__name__, type(tmpl).__name__), rpo)
        arr = np.asarray(ob.points if hasattr(ob, "points") else ob.pixels)
        tarr = np.asarray(tmpl.points if hasattr(tmpl, "points") else tmpl.pixels)
        ctx.check(arr.shape == tarr.shape, site, "wrong-shape", "%s has shape %s, template %s" % (name, arr.shape, tarr.shape), rpo)
        ctx.check(np.array_equal(arr.ravel(), np.asarray(vec[name]).ravel()) and
                  np.array_equal(ob.as_vector(), np.asarray(vec[name]).ravel()), site, "object-differs-from-vector-level",
                  "%s(obj) is not from_vector of the vector-level result" % name, rpo)
    ctx.check(get_tag(o) == TAG_QUERY and get_tag(tmpl) == TAG_TEMPLATE and np.array_equal(o.as_vector(), x), site,
              "argument-mutated", "the argument or the template was changed by the calls", rpo)
    if ad.kind == "pointcloud":
        head = "pc %d 2" % (d // 2)
    else:
        shp = ad.shape if len(ad.shape) == 3 else (1,) + tuple(ad.shape)
        head = "img %d %d %d" % tuple(shp)
    sd = np.sqrt(l)
    lid = cid + ".O"
    lines.append("%s obj %s %d %d %s %d %s %d %s %d %s %d %s %d %s" % (
        lid, head, TAG_TEMPLATE, TAG_QUERY, common.fmat(U), d, common.fqs(mean), d, common.fqs(x), len(w),
        common.fqs(w), k, common.fqs(sd), idx, common.fq(sc)))
    expect[lid] = dict(kind="obj", project=list(res["project"]),
                       objs=[(get_tag(res[nm]), nested(res[nm])) for nm in ("mean", "instance", "reconstruct",
                                                                            "project_out", "component")],
                       scale=scale + maxabs(x) ** 2, rp=rpo)
    ctx.count("object:" + ad.kind)


def compare_obj(ctx, cid, reply, ex):
    if not reply.startswith("ok "):
        ctx.mismatch("obj", "driver answered %r" % reply[:80], ex["rp"])
        return
    parts = [p.split() for p in reply[3:].split(";")]
    tol = TOL * (1 + ex["scale"])
    pr = [float(Fraction(v)) for v in parts[0][1:]]
    if len(pr) != len(ex["project"]) or max([abs(a - b) for a, b in zip(pr, ex["project"])] + [0.0]) > tol:
        ctx.mismatch("obj.project", "model %r implementation %r" % (pr, ex["project"]), ex["rp"])
    for name, p, (tag, vals) in zip(("mean", "instance", "reconstruct", "project_out", "component"), parts[1:], ex["objs"]):
        if p[0] == "E":
            ctx.mismatch("obj." + name, "model raises, implementation returned an object", ex["rp"])
            continue
        mv = [float(Fraction(v)) for v in p[1:]]
        if int(p[0]) != tag:
            ctx.mismatch("obj.%s.tag" % name, "model %s implementation %r" % (p[0], tag), ex["rp"])
        if len(mv) != len(vals) or max([abs(a - b) for a, b in zip(mv, vals)] + [0.0]) > tol:
            ctx.mismatch("obj." + name, "model %r implementation %r" % (mv, vals), ex["rp"])


def white_case(ctx, ad, case, U, l, mean, scale, rp, site, rng, lines, expect, cid):
    """whitened_components / project_whitened / component / instance(normalized_weights=True) in the model's
    current state: the `white` correspondence line (these accessors are outside the property text: no oracle)"""
    M = ad.m
    k, d = U.shape
    vecapi = ad.kind == "vector"
    xs, ws = probes(rng, case, k)
    x = np.array(xs[0])
    w = [rng.randint(-8, 8) / 4.0 for _ in range(k)]
    idx = rng.randrange(k)
    sc = rng.choice([1.0, -0.5, 2.0, 3.0])
    site = site + "/accessors"
    rpo = dict(rp, x=list(x), w=w, index=idx, scale=sc)
    try:
        W = np.array(M.whitened_components(), dtype=float)
        pw = np.asarray(M.project_whitened(x) if vecapi else M.project_whitened_vector(x)).ravel()
        comp = np.asarray(M.component(idx, scale=sc) if vecapi else M.component_vector(idx, scale=sc)).ravel()
        comp0 = np.asarray(M.component(idx, with_mean=False) if vecapi else
                           M.component_vector(idx, with_mean=False)).ravel()
        insn = np.asarray(M.instance(np.array(w), normalized_weights=True) if vecapi else
                          M.instance_vector(np.array(w), normalized_weights=True)).ravel()
        noise = float(M.noise_variance())
        nS = int(M.n_samples)
    except Exception as e:
        ctx.mismatch("white.raises", "an accessor raised %s: %s (the model returns values)" % (type(e).__name__, e), rpo)
        return
    sd = np.sqrt(l)
    denom = l * nS + noise
    # whitening / component scaling / normalised weights are not clauses of the property: no oracle here, the values
    # are compared with the Lean model (`white` line; theorem component_and_whitening_clause says what they satisfy)
    if not np.array_equal(comp0, U[idx]):
        ctx.mismatch("white.component-without-mean", "component(%d, with_mean=False) is not row %d" % (idx, idx), rpo)
    lid = cid + ".W"
    eig = [float(v) for v in M._eigenvalues]
    tr = [float(v) for v in M._trimmed_eigenvalues]
    lines.append("%s white %d %d %s %d %s %d %d %s %d %s %d %s %d %s %d %s %d %s %d %s" % (
        lid, int(M.n_components), len(eig), common.fqs(eig), len(tr), common.fqs(tr), int(M.n_active_components), nS,
        common.fmat(U), k, common.fqs(np.sqrt(denom)), k, common.fqs(sd), d, common.fqs(mean), d, common.fqs(x), idx,
        common.fq(sc), k, common.fqs(w)))
    expect[lid] = dict(kind="white", W=[float(v) for v in W.ravel()], pw=list(pw), comp=list(comp), insn=list(insn),
                       scale=scale + maxabs(x) ** 2, rp=rpo)
    ctx.count("accessors:noise=%s" % ("0" if noise == 0 else "pos"))


def compare_white(ctx, cid, reply, ex):
    t = reply.split()
    if t[0] != "ok":
        ctx.mismatch("white", "driver answered %r" % reply[:80], ex["rp"])
        return
    tol = TOL * (1 + ex["scale"])
    res_s, res_d = float(Fraction(t[1])), float(Fraction(t[2]))
    p = 3

    def vec():
        nonlocal p
        m = int(t[p])
        v = [float(Fraction(x)) for x in t[p + 1:p + 1 + m]]
        p += 1 + m
        return v
    W, pw, comp, insn = vec(), vec(), vec(), vec()
    if res_s > tol:
        ctx.mismatch("white.sqrt-contract", "sqrt(l n + noise)^2 is off the model's l n + noise by %.3g" % res_s, ex["rp"])
    if res_d > tol:
        ctx.mismatch("white.sqrt-contract-eig", "sqrt(l)^2 is off the model's eigenvalues by %.3g" % res_d, ex["rp"])
    for name, a, b in (("whitened", W, ex["W"]), ("project_whitened", pw, ex["pw"]), ("component", comp, ex["comp"]),
                       ("instance-normalized", insn, ex["insn"])):
        if len(a) != len(b) or max([abs(x - y) for x, y in zip(a, b)] + [0.0]) > tol:
            ctx.mismatch("white." + name, "model %r implementation %r" % (a, b), ex["rp"])


def lvm_case(ctx, case, U, mean, scale, rp, rng, lines, expect, cid):
    """LinearVectorModel / MeanLinearVectorModel built on the same components: the identities (oracle) and the
    `lvm` correspondence line (exact weight count required by these classes)"""
    from menpo.model import LinearVectorModel, MeanLinearVectorModel
    k, d = U.shape
    has_mean = rng.random() < 0.5
    site = "C10/linear/%s" % ("mean" if has_mean else "plain")
    xs, ws = probes(rng, case, k)
    x = np.array(xs[0])
    w = ws[rng.randrange(len(ws))]                        # k weights or k-1 (must raise)
    rpo = dict(rp, x=list(x), w=w, mean_model=has_mean)
    mvec = np.array(mean, dtype=float) if has_mean else np.zeros(d)
    try:
        L = MeanLinearVectorModel(U.copy(), mvec.copy()) if has_mean else LinearVectorModel(U.copy())
        pr = np.asarray(L.project(x)).ravel()
        rec = np.asarray(L.reconstruct(x)).ravel()
        po = np.asarray(L.project_out(x)).ravel()
        rec2 = np.asarray(L.reconstruct(rec)).ravel()
    except Exception as e:
        ctx.fail(site, "raises", "%s: %s" % (type(e).__name__, e), rpo)
        return
    try:
        ins = np.asarray(L.instance(np.array(w))).ravel()
    except ValueError:
        ins = None
    tol = TOL * (1.0 + scale + maxabs(x) ** 2)
    if ins is not None:
        back = np.asarray(L.project(ins)).ravel()
        ctx.check(maxabs(back - np.array(w)) <= tol, site, "project-instance", "project(instance(w)) = %r" % (list(back),), rpo)
    ctx.check(maxabs(rec2 - rec) <= tol, site, "reconstruct-not-idempotent", "differs by %.3g" % maxabs(rec2 - rec), rpo)
    ctx.check(maxabs(U.dot(po)) <= tol, site, "residual-not-orthogonal", "components . project_out(x) = %r" % (list(U.dot(po)),), rpo)
    ctx.check(maxabs(rec + po - x) <= tol, site, "decomposition", "reconstruct + project_out differs from x", rpo)
    lid = cid + ".V"
    lines.append("%s lvm %d %s %d %s %d %s %d %s" % (lid, 1 if has_mean else 0, common.fmat(U), d, common.fqs(mvec), d,
                                                   common.fqs(x), len(w), common.fqs(w)))
    expect[lid] = dict(kind="lin", project=list(pr), instance=None if ins is None else list(ins), reconstruct=list(rec),
                       project_out=list(po), scale=scale + maxabs(x) ** 2, rp=rpo)
    ctx.count("linear:%s" % ("mean" if has_mean else "plain"))


def run_model_case(ctx, case, rng, cid, lines, expect):
    """one data set: build, oracle on the full model, on a reduced active set and after trimming, trim = build"""
    path = "covctor" if case.get("ctor") == "cov" else ("cov" if case["d"] < case["n"] else "gram")
    site = "C10/model/%s/%s" % (case["kind"], path)
    rp = dict(case=case, how="harness.c10.build_model(case) ; see replay()")
    try:
        ad = build_model(case)
    except Exception as e:
        ctx.fail(site, "raises", "building the model raised %s: %s" % (type(e).__name__, e), rp)
        return
    if case.get("dtype"):
        ctx.count("int-dtype:built:" + case["dtype"])
    M = ad.m
    mex, Xcex, Cex = exact_stats(case)
    mexf = np.array([float(v) for v in mex])
    scale = max(1.0, max(abs(float(v)) for row in Cex for v in row))
    U = np.array(M.components, dtype=float)
    l = np.array(M.eigenvalues, dtype=float)
    k = U.shape[0]
    ctx.count("path:" + path)
    ctx.count("kind:" + case["kind"])
    ctx.count("ctor:" + case.get("ctor", "data"))
    if case.get("feed"):
        ctx.count("feed:%s+%d-extra" % (case["feed"], len(case.get("extra", []))))
    if case.get("ctor", "data") == "data" and int(M.n_samples) != case["n"]:
        # constructor plumbing (theorems constructors_build / src_pcamodel_init: n_samples = rows of the data matrix);
        # not a clause of the property text by itself: a correspondence mismatch, followed by the directed search
        ctx.mismatch("ctor.n_samples", "model built from %d samples records n_samples = %r" % (case["n"], M.n_samples), rp)
    ctx.count("centre:%s" % case["centre"])
    ctx.count("far-from-origin:%s" % bool(case.get("far_from_origin")))
    ctx.count("rankdef:%s" % (case["rank"] < min(case["d"], case["n"] - (1 if case["centre"] else 0))))
    # mean
    mean = ad.mean()
    if case["centre"]:
        ctx.check(maxabs(mean - mexf) <= TOL * (1 + maxabs(mexf)), site, "mean-not-sample-mean",
                  "model mean %r, sample mean %r" % (list(mean), list(mexf)), rp)
    else:
        ctx.check(maxabs(mean) == 0.0, site, "uncentred-mean-not-zero", "uncentred model has mean %r" % (list(mean),), rp)
    # counts, rank, total variance
    ctx.check(k == case["rank"] and len(l) == k and M.n_active_components == k and M.n_components == k, site,
              "component-count", "rank of the data is %d, model has %d components / %d eigenvalues / %d active" % (
                  case["rank"], k, len(l), M.n_active_components), rp)
    trC = float(sum(Cex[i][i] for i in range(case["d"])))
    ctx.check(abs(float(l.sum()) - trC) <= TOL * (1 + scale), site, "total-variance",
              "sum of eigenvalues %.12g, trace of the sample covariance %.12g" % (float(l.sum()), trC), rp)
    ctx.check(abs(M.original_variance() - trC) <= TOL * (1 + scale), site, "original-variance",
              "original_variance() %.12g, trace of the sample covariance %.12g" % (M.original_variance(), trC), rp)
    oracle_identities(ctx, ad, case, U, l, mean, scale, rp, site, True, rng, lines, expect, cid)
    object_case(ctx, ad, case, U, l, mean, scale, rp, site, rng, lines, expect, cid)
    if rng.random() < 0.5:
        lvm_case(ctx, case, U, mean, scale, rp, rng, lines, expect, cid)
    if k < 2 or rng.random() < 0.3:
        white_case(ctx, ad, case, U, l, mean, scale, rp, site, rng, lines, expect, cid)
    # certificate line for the Lean model
    lines.append("%s pca %d %s %s %d %s" % (cid, 1 if case["centre"] else 0, common.fmat(case["X"]), common.fmat(U),
                                            k, common.fqs(l)))
    expect[cid] = dict(kind="pca", mean=list(mean), trC=trC, scale=scale, full=True, rp=rp)
    if k < 2:
        return
    # fewer active components, then trimmed: the same identities on the prefix
    ka = rng.randint(1, k - 1)
    try:
        M.n_active_components = ka
    except Exception as e:
        ctx.fail(site, "raises", "n_active_components = %d raised %s" % (ka, type(e).__name__), dict(rp, k=ka))
        return
    Ua = np.array(M.components, dtype=float)
    la = np.array(M.eigenvalues, dtype=float)
    ctx.check(Ua.shape[0] == ka and len(la) == ka and np.array_equal(Ua, U[:ka]) and np.array_equal(la, l[:ka]), site,
              "active-prefix", "active view is not the first %d components/eigenvalues" % ka, dict(rp, k=ka))
    oracle_identities(ctx, ad, case, Ua, la, mean, scale, dict(rp, n_active=ka), site + "/active", False, rng, lines,
                      expect, cid + "a")
    white_case(ctx, ad, case, Ua, la, mean, scale, dict(rp, n_active=ka), site + "/active", rng, lines, expect, cid + "a")
    if rng.random() < 0.4:
        object_case(ctx, ad, case, Ua, la, mean, scale, dict(rp, n_active=ka), site + "/active", rng, lines, expect,
                    cid + "a")
    kt = rng.randint(1, k - 1)
    use_float = rng.random() < 0.35
    arg = kt
    if use_float:
        cum = np.cumsum(l) / l.sum()
        lo = cum[kt - 2] if kt >= 2 else 0.0
        arg = float((lo + cum[kt - 1]) / 2.0)
    try:
        M.trim_components(arg)
    except Exception as e:
        ctx.fail(site, "raises", "trim_components(%r) raised %s" % (arg, type(e).__name__), dict(rp, trim=arg))
        return
    Ut = np.array(M.components, dtype=float)
    lt = np.array(M.eigenvalues, dtype=float)
    ctx.check(Ut.shape[0] == kt and np.array_equal(Ut, U[:kt]) and np.array_equal(lt, l[:kt]) and
              M.n_components == kt and M.n_active_components == kt, site, "trim-prefix",
              "after trim_components(%r): %d components, %d eigenvalues, n_active %d, expected the first %d" % (
                  arg, Ut.shape[0], len(lt), M.n_active_components, kt), dict(rp, trim=arg))
    ctx.check(abs(M.original_variance() - trC) <= TOL * (1 + scale), site, "original-variance-after-trim",
              "original_variance() %.12g after trimming, was %.12g" % (M.original_variance(), trC), dict(rp, trim=arg))
    nv = M.noise_variance()
    ctx.check(abs(M.variance() + nv * (k - kt) - trC) <= TOL * (1 + scale), site, "variance-accounting",
              "variance %.12g + noise_variance %.12g x %d discarded != original %.12g" % (M.variance(), nv, k - kt, trC),
              dict(rp, trim=arg))
    oracle_identities(ctx, ad, case, Ut, lt, mean, scale, dict(rp, trim=arg), site + "/trimmed", False, rng, lines,
                      expect, cid + "t")
    if rng.random() < 0.4:
        white_case(ctx, ad, case, Ut, lt, mean, scale, dict(rp, trim=arg), site + "/trimmed", rng, lines, expect, cid + "t")
    lines.append("%st pca %d %s %s %d %s" % (cid, 1 if case["centre"] else 0, common.fmat(case["X"]), common.fmat(Ut),
                                             kt, common.fqs(lt)))
    expect[cid + "t"] = dict(kind="pca", mean=list(mean), trC=trC, scale=scale, full=False, rp=dict(rp, trim=arg))
    # same model as building with that many components in the first place
    try:
        fresh = build_model(case, max_n=arg).m
    except Exception as e:
        ctx.fail(site, "raises", "building with max_n_components=%r raised %s" % (arg, type(e).__name__), dict(rp, trim=arg))
        return
    Uf = np.array(fresh.components, dtype=float)
    same = (Uf.shape == Ut.shape and fresh.n_components == M.n_components and fresh.n_samples == M.n_samples and
            fresh.n_active_components == M.n_active_components and
            maxabs(np.array(fresh.eigenvalues) - lt) <= TOL * (1 + scale) and
            all(min(maxabs(Uf[i] - Ut[i]), maxabs(Uf[i] + Ut[i])) <= 1e-7 for i in range(min(len(Uf), len(Ut)))) and
            abs(fresh.original_variance() - M.original_variance()) <= TOL * (1 + scale) and
            abs(fresh.noise_variance() - M.noise_variance()) <= TOL * (1 + scale) and
            abs(fresh.variance() - M.variance()) <= TOL * (1 + scale))
    ctx.check(same, site, "trim-differs-from-build",
              "trimming to %r gives a model different from building with max_n_components=%r (components %s vs %s, "
              "eigenvalues %r vs %r, original variance %.12g vs %.12g, noise %.12g vs %.12g, n_samples %r vs %r)" % (
                  arg, arg, Ut.shape, Uf.shape, list(lt), list(fresh.eigenvalues), M.original_variance(),
                  fresh.original_variance(), M.noise_variance(), fresh.noise_variance(), M.n_samples,
                  fresh.n_samples), dict(rp, trim=arg))


def compare_pca(ctx, cid, reply, ex):
    """reply of the Lean certificate check: every residual of the contract / of the theorems' conclusions, computed
    exactly from the exact covariance and the returned factors, must vanish to tolerance"""
    t = reply.split()
    if t[0] != "ok":
        ctx.mismatch("pca", "driver answered %r" % reply[:80], ex["rp"])
        return
    p = 1
    dd = int(t[p]); p += 1
    mean = [float(Fraction(v)) for v in t[p:p + dd]]; p += dd
    trC, sumL, mOrth, mEig, mVar = [float(Fraction(v)) for v in t[p:p + 5]]; p += 5
    kk = int(t[p]); p += 1 + kk
    mRec = float(Fraction(t[p]))
    s = ex["scale"]
    tol = TOL * (1 + s)
    bad = []
    if max(abs(a - b) for a, b in zip(mean, ex["mean"])) > TOL * (1 + max(abs(v) for v in mean)):
        bad.append("mean: model %r implementation %r" % (mean, ex["mean"]))
    if abs(trC - ex["trC"]) > tol:
        bad.append("trace of covariance: model %.12g harness %.12g" % (trC, ex["trC"]))
    if ex["full"] and abs(trC - sumL) > tol:
        bad.append("tr C = %.12g but sum of eigenvalues = %.12g" % (trC, sumL))
    if mOrth > TOL * 10:
        bad.append("max |U U^T - 1| = %.3g" % mOrth)
    if mEig > tol:
        bad.append("max |U C - diag(l) U| = %.3g against the exact covariance" % mEig)
    if mVar > tol:
        bad.append("max |l_i - sample variance_i| = %.3g" % mVar)
    if ex["full"] and mRec > tol:
        bad.append("training reconstruction residual %.3g" % mRec)
    for b in bad:
        ctx.mismatch("pca-certificate", b, ex["rp"])


def compare_lin(ctx, cid, reply, ex):
    t = reply.split()
    if t[0] != "ok":
        ctx.mismatch("lin", "driver answered %r" % reply[:80], ex["rp"])
        return
    p = 1

    def vec():
        nonlocal p
        if t[p] == "E":
            p += 1
            return None
        m = int(t[p])
        v = [float(Fraction(x)) for x in t[p + 1:p + 1 + m]]
        p += 1 + m
        return v
    pr, ins, rec, po = vec(), vec(), vec(), vec()
    tol = TOL * (1 + ex["scale"])
    for name, a, b in [("project", pr, ex["project"]), ("instance", ins, ex["instance"]),
                       ("reconstruct", rec, ex["reconstruct"]), ("project_out", po, ex["project_out"])]:
        if (a is None) != (b is None):
            ctx.mismatch("lin." + name, "model %r implementation %r" % (a, b), ex["rp"])
        elif a is not None and (len(a) != len(b) or max([abs(x - y) for x, y in zip(a, b)] + [0.0]) > tol):
            ctx.mismatch("lin." + name, "model %r implementation %r" % (a, b), ex["rp"])


# ============================================================================ eigen-witness post-processing

def householder(v):
    v = np.array(v, dtype=float)
    return np.eye(len(v)) - 2.0 * np.outer(v, v) / float(v.dot(v))


def gen_post(rng):
    """symmetric matrix with a chosen spectrum (positive, negative, zero, below/above the eps*max threshold),
    all clearly separated from each other and from the threshold"""
    N = rng.randint(2, 7)
    eps = rng.choice([1e-10, 1e-10, 1e-5, 1.0 / 64, 1.0 / 8])
    inv = rng.random() < 0.25
    while True:
        top = rng.choice([1.0, 4.0, 16.0, 0.5])
        lam = []
        for i in range(N):
            r = rng.random()
            if i == 0:
                v = top if rng.random() < 0.8 else -top          # the largest |lambda| may be negative
            elif r < 0.5:
                v = top * rng.randint(1, 60) / 64.0
            elif r < 0.65:
                v = -top * rng.randint(1, 60) / 64.0
            elif r < 0.8:
                v = 0.0
            else:
                v = top * eps * rng.choice([1.0 / 16, 1.0 / 4, 4.0, 16.0])
            lam.append(v)
        if inv:
            lam = [abs(v) if v != 0 else top / 2 for v in lam]   # precision matrices are positive definite
        limit = max(abs(v) for v in lam) * eps

        def sep(a, b):
            if a == b:
                return False
            if abs(a) >= top / 256 or abs(b) >= top / 256:
                return abs(a - b) > 1e-3 * top
            return abs(a - b) > 0.25 * max(abs(a), abs(b))
        okc = all(sep(a, b) for i, a in enumerate(lam) for b in lam[i + 1:])
        okc = okc and all(v == 0.0 or abs(abs(v) - limit) > 0.5 * limit for v in lam)
        okc = okc and any(v > limit for v in lam)
        if okc:
            break
    Q = householder([rng.randint(-3, 3) or 1 for _ in range(N)])
    if rng.random() < 0.5:
        Q = Q.dot(householder([rng.randint(-3, 3) or 1 for _ in range(N)]))
    C = Q.dot(np.diag(lam)).dot(Q.T)
    C = (C + C.T) / 2.0
    return dict(N=N, eps=eps, inv=inv, lam=lam, C=C.tolist())


def run_post_case(ctx, pc, cid, lines, expect):
    from menpo.math.decomposition import eigenvalue_decomposition
    site = "C10/eigenvalue_decomposition"
    C = np.array(pc["C"], dtype=float)
    rp = dict(post=pc, how="menpo.math.decomposition.eigenvalue_decomposition(C, is_inverse=inv, eps=eps)")
    try:
        vecs, vals = eigenvalue_decomposition(C.copy(), is_inverse=pc["inv"], eps=pc["eps"])
    except Exception as e:
        ctx.fail(site, "raises", "eigenvalue_decomposition raised %s: %s" % (type(e).__name__, e), rp)
        return
    vals = np.array(vals, dtype=float)
    lam = pc["lam"]
    limit = max(abs(v) for v in lam) * pc["eps"]
    want = sorted([v for v in lam if v > 0 and v > limit], reverse=True)
    if pc["inv"]:
        want = sorted([1.0 / v for v in want], reverse=True)
    ctx.count("post:inv=%s" % pc["inv"])
    ok = ctx.check(len(vals) == len(want), site, "kept-count",
                   "kept %d eigenvalues %r; the spectrum %r has %d above max*eps = %.3g" % (
                       len(vals), list(vals), lam, len(want), limit), rp)
    ctx.check(all(v > 0 for v in vals) and all(vals[i] >= vals[i + 1] for i in range(len(vals) - 1)), site,
              "spectrum-order", "kept eigenvalues not positive and descending: %r" % (list(vals),), rp)
    if ok:
        # compared in the domain of the matrix' own eigenvalues (eigh is accurate to ~1e-16 * max|lambda|
        # absolutely, so the *inverse* of a tiny eigenvalue is not determined to 1e-9 relatively)
        un = (lambda v: 1.0 / v) if pc["inv"] else (lambda v: v)
        ctx.check(all(abs(un(a) - un(b)) <= 1e-9 * (1 + max(abs(v) for v in lam)) for a, b in zip(vals, want)), site,
                  "kept-values", "kept %r, expected %r" % (list(vals), want), rp)
        for i in range(len(vals)):
            lv = 1.0 / vals[i] if pc["inv"] else vals[i]
            ctx.check(maxabs(C.dot(vecs[:, i]) - lv * vecs[:, i]) <= 1e-9 * (1 + maxabs(C)), site, "eigenpair",
                      "column %d is not an eigenvector for its eigenvalue" % i, rp)
    # correspondence: the Lean post-processing on the raw eigh witness
    w, V = np.linalg.eigh(C)
    lines.append("%s post %s %d %d %s" % (cid, common.fq(pc["eps"]), 1 if pc["inv"] else 0, len(w), common.fqs(w)))
    expect[cid] = dict(kind="post", w=[float(x) for x in w], V=V, vals=list(vals), vecs=np.array(vecs), inv=pc["inv"], rp=rp)


def compare_post(ctx, cid, reply, ex):
    t = reply.split()
    if t[0] != "ok":
        ctx.mismatch("post", "driver answered %r" % reply[:80], ex["rp"])
        return
    m = int(t[1])
    idx = [int(v) for v in t[2:2 + m]]
    vals = [float(Fraction(v)) for v in t[3 + m:3 + 2 * m]]
    if m != len(ex["vals"]):
        ctx.mismatch("post.count", "model keeps %d (witness indices %r), implementation %d" % (m, idx, len(ex["vals"])), ex["rp"])
        return
    # (audit F7) up to rounding: the code may obtain the witness from another LAPACK driver than the harness
    good = all(abs(a - b) <= 1e-9 * (1 + abs(b)) for a, b in zip(vals, ex["vals"]))
    if not good:
        ctx.mismatch("post.values", "model %r implementation %r" % (vals, ex["vals"]), ex["rp"])
    W = np.asarray(ex["V"])[:, idx]
    got = np.asarray(ex["vecs"])
    same = W.shape == got.shape and all(
        min(maxabs(W[:, c] - got[:, c]), maxabs(W[:, c] + got[:, c])) <= 1e-7 for c in range(W.shape[1]))
    if not same:                       # up to the sign of each eigenvector and rounding (audit F7)
        ctx.mismatch("post.vectors", "implementation's eigenvectors are not the witness columns %r" % idx, ex["rp"])


# ============================================================================ bookkeeping histories

def gen_spectrum(rng):
    """descending positive dyadic spectrum with distinct cumulative ratios; a third of them have a power-of-two
    total, so that every cumulative ratio is a float and exact ties (fraction == ratio of j components, 1.0
    included) are hit *exactly* by the float code as well"""
    k = rng.randint(1, 9)
    if rng.random() < 0.33:
        for _ in range(50):
            total = 2 ** rng.randint(3, 7) * 8                    # in units of 1/8
            cuts = sorted(rng.sample(range(1, total), k - 1)) if k > 1 else []
            parts = sorted([b - a for a, b in zip([0] + cuts, cuts + [total])], reverse=True)
            if len(set(parts)) == len(parts):
                return [p / 8.0 for p in parts]
    vals = set()
    while len(vals) < k:
        vals.add(rng.randint(1, 96) / float(2 ** rng.randint(0, 3)))
    return sorted(vals, reverse=True)


def cum_ratios(eig):
    tot = sum(F(v) for v in eig)
    acc, out = F(0), []
    for v in eig:
        acc += F(v)
        out.append(acc / tot)
    return out


def gen_value(rng, eig0, allow_none):
    """argument of the setter / trim: ('I', k) python int, ('F', r) python float (away from every cumulative
    ratio, *or* an exact / one-ulp tie with one of them, *or* 1.0), ('P', k) numpy int, ('N',) None"""
    k0 = len(eig0)
    r = rng.random()
    if allow_none and r < 0.15:
        return ("N",)
    if r < 0.55:
        return ("I", rng.randint(-1, k0 + 2))
    if r < 0.65:
        return ("P", rng.randint(-1, k0 + 2))
    cum = cum_ratios(eig0)
    q = rng.random()
    if q < 0.10:
        return ("F", 1.0)                                         # "keep all the variance"
    if q < 0.22:
        return ("F", float(cum[rng.randrange(k0)]))               # tie: exact when the ratio is a float
    while True:
        q = rng.random()
        if q < 0.45 and k0 >= 1:
            j = rng.randrange(k0)
            lo = cum[j - 1] if j else F(0)
            f = float(lo + (cum[j] - lo) * F(rng.randint(1, 7), 8))
        elif q < 0.8:
            f = rng.randint(1, 79) / 64.0
        elif q < 0.9:
            f = rng.choice([0.0, -0.25, 1.5, 2.0])
        else:
            f = rng.randint(1, 63) / 1024.0
        if all(abs(F(f) - c) > F(1, 10 ** 6) for c in cum):
            return ("F", f)


TIE = F(1, 10 ** 6)


def near_tie(r, cum0, ncomp):
    """is the float fraction r within 1e-6 of a cumulative ratio the setter compares it with (the kept ratio is
    the last of them)?  Decided on the exact ratios of the input spectrum."""
    return any(abs(F(r) - c) <= TIE for c in cum0[:ncomp])


def val_py(v):
    if v[0] == "N":
        return None
    if v[0] == "I":
        return int(v[1])
    if v[0] == "P":
        return np.int64(v[1])
    return float(v[1])


def val_tok(v, obs=None):
    """wire form; a float near a tie (or chosen for cross-checking) carries the values the code's own float
    evaluation produced: G r total_variance_ratio <cumulative ratios>"""
    if v[0] == "N":
        return "N"
    if v[0] == "F":
        if obs is not None:
            # `R`: the float form with the count clamped to n_components - what the code does since fix adec1e3; the
            # unclamped pre-fix form (`G`) is no longer accepted as an alternative (audit F4)
            return "R %s %s %d %s" % (common.fq(v[1]), common.fq(obs[0]), len(obs[1]), common.fqs(obs[1]))
        return "F " + common.fq(v[1])
    return "%s %d" % (v[0], v[1])


def observed(M):
    """what the float setter is about to compare the fraction with (pure reads of the model)"""
    return float(M._total_variance_ratio()), [float(c) for c in M._total_eigenvalues_cumulative_ratio()]


def gen_history(rng, eig0):
    mx = None
    if rng.random() < 0.4:
        mx = gen_value(rng, eig0, False)
    ops = []
    for _ in range(rng.randint(1, 12)):
        q = rng.random()
        if q < 0.56:
            ops.append(("S", gen_value(rng, eig0, False)))
        elif q < 0.89:
            ops.append(("T", gen_value(rng, eig0, True)))
        elif q < 0.93:
            ops.append(("C", ("N",)))                  # continue on `M.copy()`; the original must stay as it was
        else:
            # orthonormalize_against_inplace(other) with other.n_components = k1 (often more than there is room for)
            ops.append(("O", ("I", rng.randint(0, 4))))
    return mx, ops


def snapshot(M):
    """observable bookkeeping state through the public API (+ the trimmed pool, which has no accessor)"""
    return dict(rows=int(M.n_components), nact=int(M.n_active_components), arows=int(np.asarray(M.components).shape[0]),
                eig=[float(v) for v in M._eigenvalues], trimmed=[float(v) for v in M._trimmed_eigenvalues],
                eigenvalues=[float(v) for v in M.eigenvalues], variance=float(M.variance()),
                original=float(M.original_variance()), noise=float(M.noise_variance()),
                vratio=float(M.variance_ratio()), nratio=float(M.noise_variance_ratio()),
                cum=[float(v) for v in M.eigenvalues_cumulative_ratio()],
                eratio=[float(v) for v in M.eigenvalues_ratio()], inv=inverse_noise(M))


def inverse_noise(M):
    try:
        return float(M.inverse_noise_variance())
    except ValueError:
        return None


def ortho_other(k1, d):
    """the model to orthonormalise against: k1 deterministic small-integer components"""
    from menpo.model import LinearVectorModel
    return LinearVectorModel(np.random.RandomState(31 * k1 + d).randint(-3, 4, size=(k1, d)).astype(float))


def make_book_model(spec, max_n):
    """spec: dict(source='synthetic'|'data', eig0=[...], case=...)"""
    from menpo.model import PCAModel, PCAVectorModel
    if spec["source"] == "data":
        return build_model(spec["case"], max_n=max_n).m
    eig0 = spec["eig0"]
    k = len(eig0)
    d = k + spec.get("extra", 1)
    comps = np.eye(k, d)
    mean = np.arange(d, dtype=float)
    if spec.get("kind") == "pointcloud":
        from menpo.shape import PointCloud
        if d % 2:
            d += 1
            comps = np.eye(k, d)
            mean = np.arange(d, dtype=float)
        return PCAModel.init_from_components(comps, np.array(eig0, dtype=float), PointCloud(mean.reshape(-1, 2)),
                                             k + 2, True, max_n_components=max_n)
    return PCAVectorModel.init_from_components(comps, np.array(eig0, dtype=float), mean, k + 2, True,
                                               max_n_components=max_n)


def book_oracle(ctx, M, eig0, orig, site, rp):
    """the bookkeeping clauses on the real object, independent of the Lean model"""
    k0 = len(eig0)
    sc = 1.0 + abs(orig)
    comps = np.asarray(M.components)
    allc = np.asarray(M._components)
    ok = True
    ok &= ctx.check(abs(M.original_variance() - orig) <= TOL * sc, site, "original-variance-changed",
                    "original_variance() is %.15g, was %.15g" % (M.original_variance(), orig), rp)
    nact, ncomp = M.n_active_components, M.n_components
    ok &= ctx.check(1 <= nact <= ncomp, site, "active-out-of-range", "n_active %r, n_components %r" % (nact, ncomp), rp)
    ok &= ctx.check(comps.shape[0] == len(M.eigenvalues) == nact and allc.shape[0] == len(M._eigenvalues) == ncomp,
                    site, "counts-inconsistent",
                    "components %d/%d, eigenvalues %d/%d, n_active %d, n_components %d" % (
                        comps.shape[0], allc.shape[0], len(M.eigenvalues), len(M._eigenvalues), nact, ncomp), rp)
    ok &= ctx.check(len(M._eigenvalues) + len(M._trimmed_eigenvalues) == k0, site, "eigenvalue-lost",
                    "%d kept + %d trimmed eigenvalues, the model was built on %d" % (
                        len(M._eigenvalues), len(M._trimmed_eigenvalues), k0), rp)
    ndisc = k0 - nact
    ok &= ctx.check(abs(M.variance() + M.noise_variance() * ndisc - orig) <= TOL * sc, site, "variance-accounting",
                    "variance %.15g + noise_variance %.15g x %d discarded != original %.15g" % (
                        M.variance(), M.noise_variance(), ndisc, orig), rp)
    ev = [float(v) for v in M._eigenvalues]
    ok &= ctx.check(ev == [float(v) for v in eig0[:len(ev)]], site, "eigenvalues-not-prefix",
                    "stored eigenvalues %r are not the leading ones of %r" % (ev, list(eig0)), rp)
    ok &= ctx.check(sorted(float(v) for v in M._trimmed_eigenvalues) == sorted(float(v) for v in eig0[len(ev):]), site,
                    "trimmed-pool", "trimmed pool %r is not the rest of %r" % (list(M._trimmed_eigenvalues), list(eig0)), rp)
    # ratio accessors
    er = np.asarray(M.eigenvalues_ratio(), dtype=float)
    cr = np.asarray(M.eigenvalues_cumulative_ratio(), dtype=float)
    vr, nr = float(M.variance_ratio()), float(M.noise_variance_ratio())
    ok &= ctx.check(len(er) == len(cr) == nact and abs(er.sum() - vr) <= TOL and abs(cr[-1] - vr) <= TOL and
                    all(cr[i] < cr[i + 1] for i in range(len(cr) - 1)) and cr[0] > 0 and vr <= 1 + TOL and
                    abs(vr + nr * ndisc - 1.0) <= TOL, site, "ratio-accessors",
                    "eigenvalues_ratio %r, cumulative %r, variance_ratio %.15g, noise_variance_ratio %.15g x %d discarded" % (
                        list(er), list(cr), vr, nr, ndisc), rp)
    return ok


def float_outcomes(r, cum0, ncomp):
    """outcomes of the float form the property allows on a model with `ncomp` components of the spectrum whose
    exact cumulative ratios are `cum0`: set of admissible new active counts, and whether ValueError is admissible.
    Away from ties this is a single outcome; within 1e-6 of a tie both neighbours are admissible (the property
    text excludes ties; the model then follows the observed float values)."""
    fr = F(r)
    kept = cum0[ncomp - 1]
    if not fr > 0:
        return set(), True
    lo = sum(1 for c in cum0[:ncomp] if c < fr - TIE) + 1
    hi = sum(1 for c in cum0[:ncomp] if c < fr + TIE) + 1
    counts = set(k for k in range(lo, hi + 1) if k <= ncomp)
    may_raise = fr > kept - TIE            # above (or at a rounding error from) the kept ratio
    if fr == 1 and ncomp == len(cum0):
        # "keep all the variance" on an untrimmed model: the kept ratio is x / x == 1.0 exactly in float arithmetic too,
        # so the guard `value <= _total_variance_ratio()` holds and the request is valid (fixed defect adec1e3: the
        # count used to overshoot n_components by a rounding error and raise)
        may_raise = False
    if fr > kept + TIE:
        counts = set()
    return counts, may_raise


def float_in_range(r, cum0, ncomp):
    """is the fraction a request the property speaks about: 0 < r <= kept ratio (clearly)"""
    return F(r) > 0 and F(r) <= cum0[ncomp - 1] + TIE


def run_book_case(ctx, spec, mx, ops, cid, lines, expect, cross=False):
    site = "C10/bookkeeping"
    rp = dict(spec=spec, max_n_components=mx, ops=ops,
              how="make_book_model(spec, max_n) then `M.n_active_components = v` for ('S', v), "
                  "`M.trim_components(v)` for ('T', v), `M.orthonormalize_against_inplace(ortho_other(k1, d))` for "
                  "('O', ('I', k1)), `M = M.copy()` for ('C', ('N',)); v: ('I',k) int, ('F',r) float, ('P',k) numpy.int64, ('N',) None")
    eig0 = spec["eig0"]
    k0 = len(eig0)
    cum0 = cum_ratios(eig0)
    orig = float(sum(F(v) for v in eig0))
    trace = []
    try:
        M = make_book_model(spec, val_py(mx) if mx else None)
    except ValueError:
        M = None
    except Exception as e:
        ctx.fail(site, "raises", "constructor raised %s: %s" % (type(e).__name__, e), rp)
        return
    mx_tok = "N"
    if mx is not None:
        obs = None
        if mx[0] == "F" and (near_tie(mx[1], cum0, k0) or cross):
            obs = observed(make_book_model(spec, None))          # the untrimmed twin: same arrays, same floats
            ctx.count("float:observed")
        mx_tok = val_tok(mx, obs)
    # constructor: max_n_components follows trim semantics
    if mx is not None:
        # the property speaks about requests for 1..n_components components / a fraction in (0, kept ratio]: those must
        # be honoured.  Whether a request OUTSIDE that range is refused or clamped is not in the text (audit F2): it is
        # compared with the model only (the `book` line below), never judged by the oracle.
        if mx[0] == "F":
            if float_in_range(mx[1], cum0, k0):
                counts, may_raise = float_outcomes(mx[1], cum0, k0)
                ctx.check((M is None and may_raise) or (M is not None and int(M.n_components) in counts), site,
                          "constructor-request", "max_n_components=%r: %s" % (
                              val_py(mx), "raised ValueError" if M is None else "kept %d" % M.n_components), rp)
            else:
                ctx.count("out-of-range:ctor:" + ("refused" if M is None else "accepted"))
        elif 1 <= mx[1] <= k0:
            ctx.check(M is not None and int(M.n_components) == mx[1], site, "constructor-request",
                      "max_n_components=%r: %s" % (val_py(mx), "raised ValueError" if M is None else
                                                   "kept %d" % M.n_components), rp)
        else:
            ctx.count("out-of-range:ctor:" + ("refused" if M is None else "accepted"))
    if M is None:
        lines.append("%s book %d %d %s %s 0" % (cid, k0, k0, common.fqs(eig0), mx_tok))
        expect[cid] = dict(kind="book", trace=None, rp=rp)
        return
    d = int(np.asarray(M._components).shape[1])
    book_oracle(ctx, M, eig0, orig, site, dict(rp, after="constructor"))
    trace.append(("ok", snapshot(M)))
    toks = []
    orthos = 0
    left_behind = []
    for i, (o, v) in enumerate(ops):
        before = snapshot(M)
        pv = val_py(v)
        rpi = dict(rp, failing_op_index=i, op=(o, v))
        if o == "C":
            # a previous life: the history continues on a copy; what the original looked like is re-checked at the end
            left_behind.append((i, M, before, np.array(M._components, copy=True), np.array(M._mean, copy=True)))
            M = M.copy()
            ctx.check(snapshot(M) == before and np.array_equal(M._components, left_behind[-1][3]), site, "copy-differs",
                      "copy() of the model differs from the model", rpi)
            ctx.count("op:copy")
            continue
        ncomp_b, nact_b = before["rows"], before["nact"]
        obs = None
        if o != "O" and v[0] == "F":
            tie = near_tie(v[1], cum0, ncomp_b)
            if tie:
                ctx.count("float:tie" if any(F(v[1]) == c for c in cum0[:ncomp_b]) else "float:near-tie")
            if tie or cross:
                obs = observed(M)
                ctx.count("float:observed")
        toks.append("O %d %d" % (d, v[1]) if o == "O" else "%s %s" % (o, val_tok(v, obs)))
        try:
            if o == "S":
                M.n_active_components = pv
            elif o == "T":
                M.trim_components(pv)
            else:
                M.orthonormalize_against_inplace(ortho_other(v[1], d))
            status = "ok"
        except ValueError:
            status = "err"
        except Exception as e:
            ctx.fail(site, "raises", "%s %r raised %s: %s" % (o, pv, type(e).__name__, e), rpi)
            return
        ctx.count("op:%s%s:%s" % (o, v[0], status))
        after = snapshot(M)
        book_oracle(ctx, M, eig0, orig, site, rpi)
        if status == "err":
            ctx.check(after == before, site, "state-changed-by-failed-call",
                      "a call that raised ValueError changed the model: %r -> %r" % (before, after), rpi)
        # (the *order* of the pool - slices in order of removal, theorem trimmed_pool_order - is an internal: it is
        # compared exactly with the Lean model in compare_book, the oracle only requires the multiset, book_oracle)
        # semantics of one call, stated on the real object (independent of the model)
        if o == "O":
            k1 = v[1]
            orthos += status == "ok"
            if status == "ok":
                Uo = np.asarray(M._components, dtype=float)
                if maxabs(Uo.dot(Uo.T) - np.eye(Uo.shape[0])) > 1e-8:
                    ctx.mismatch("ortho.qr-contract", "components not orthonormal after orthonormalize_against_inplace "
                                                      "(numpy.linalg.qr contract)", rpi)
            trace.append((status, after))
            continue
        # requests the property speaks about (1..n_components components, a fraction in (0, kept ratio], None for trim)
        # must be honoured; what happens to a request outside that range (refused / clamped) is not in the text
        # (audit F2): compared with the model (`book` line), judged only through the invariants of book_oracle and
        # "a call that raised changed nothing" above
        if v[0] == "F":
            if float_in_range(v[1], cum0, ncomp_b):
                counts, may_raise = float_outcomes(v[1], cum0, ncomp_b)
                ctx.check((status == "err" and may_raise) or (status == "ok" and after["nact"] in counts), site,
                          "float-selection", "%s %r on n_components=%d n_active=%d: %s; admissible counts %r%s" % (
                              o, pv, ncomp_b, nact_b, "raised ValueError" if status == "err" else "n_active=%d" % after["nact"],
                              sorted(counts), " or ValueError" if may_raise else ""), rpi)
                if status == "err" and counts:
                    ctx.count("float:raised-at-tie")   # the float guard `value <= kept ratio` within 1e-6 of the kept ratio
            else:
                ctx.count("out-of-range:%s%s:%s" % (o, v[0], status))
            tgt = after["nact"] if status == "ok" and float_in_range(v[1], cum0, ncomp_b) else None
        else:
            if v[0] == "N":
                tgt = nact_b
            else:
                tgt = v[1] if 1 <= v[1] <= ncomp_b else None
            if tgt is not None:
                ctx.check(status == "ok", site, "valid-request-refused",
                          "%s %r on n_components=%d n_active=%d raised ValueError" % (o, pv, ncomp_b, nact_b), rpi)
            else:
                ctx.count("out-of-range:%s%s:%s" % (o, v[0], status))
        if tgt is not None and status == "ok":
            ctx.check(after["nact"] == tgt, site, "active-count",
                      "%s %r on n_components=%d n_active=%d gives n_active=%d, expected %d" % (
                          o, pv, ncomp_b, nact_b, after["nact"], tgt), rpi)
            if o == "T":
                ctx.check(after["rows"] == tgt, site, "trim-count",
                          "trim_components(%r) leaves %d components, expected %d" % (pv, after["rows"], tgt), rpi)
            else:
                ctx.check(after["rows"] == ncomp_b, site, "setter-trimmed",
                          "the setter changed n_components from %d to %d" % (ncomp_b, after["rows"]), rpi)
        trace.append((status, after))
    for i, M0, snap0, comps0, mean0 in left_behind:
        ctx.check(snapshot(M0) == snap0 and np.array_equal(M0._components, comps0) and np.array_equal(M0._mean, mean0),
                  site, "copy-not-independent",
                  "operations on a copy changed the model it was copied from (copied before op %d): %r -> %r" % (
                      i, snap0, snapshot(M0)), dict(rp, copied_before_op=i))
    lines.append("%s book %d %d %s %s %d %s" % (cid, k0, k0, common.fqs(eig0), mx_tok, len(toks), " ".join(toks)))
    alt = None
    if mx_tok.startswith("G ") or any(" G " in t for t in toks):
        # the same history through the *repaired* float form (count clamped to n_components): the tree may carry
        # either; both satisfy the property, the implementation has to agree with one of them
        alt = cid + "r"
        lines.append("%s book %d %d %s %s %d %s" % (alt, k0, k0, common.fqs(eig0), "R" + mx_tok[1:] if mx_tok.startswith("G ") else mx_tok,
                                                    len(toks), " ".join(t.replace(" G ", " R ") for t in toks)))
    # the end state equals building with that many components in the first place
    try:
        fresh = make_book_model(spec, int(M.n_components))
        fresh.n_active_components = int(M.n_active_components)
        a, b = snapshot(M), snapshot(fresh)
        b["trimmed"], a["trimmed"] = sorted(b["trimmed"]), sorted(a["trimmed"])
        same = all(a[key] == b[key] for key in ("rows", "nact", "arows", "eig", "eigenvalues", "trimmed")) and \
            all(abs(a[key] - b[key]) <= TOL * (1 + abs(orig)) for key in ("variance", "original", "noise", "vratio", "nratio")) \
            and (a["inv"] is None) == (b["inv"] is None) and \
            (a["inv"] is None or abs(a["inv"] - b["inv"]) <= TOL * (1 + abs(a["inv"]))) and \
            max([abs(x - y) for x, y in zip(a["cum"] + a["eratio"], b["cum"] + b["eratio"])] + [0.0]) <= TOL \
            and (orthos > 0 or np.array_equal(np.asarray(M.components), np.asarray(fresh.components)))
        ctx.check(same, site, "history-differs-from-build",
                  "after the history the model differs from building with max_n_components=%d: %r vs %r" % (
                      M.n_components, a, b), rp)
    except Exception as e:
        ctx.fail(site, "raises", "rebuilding with max_n_components raised %s: %s" % (type(e).__name__, e), rp)
    expect[cid] = dict(kind="book", trace=trace, orig=orig, exact=(spec["source"] == "synthetic"), rp=rp, alt_id=alt)


def run_npfloat_case(ctx, rng, idx):
    """audit F3: a variance fraction handed over as a numpy floating scalar that is NOT a python float (np.float32 /
    np.float16 - e.g. computed from float32 data).  Outside the Lean model's value types (python int / python float /
    numpy integer / None): oracle only.  A refusal that changes nothing is acceptable; an accepted request must keep
    1 <= n_active <= n_components and select the count the fraction asks for."""
    site = "C10/bookkeeping/numpy-float"
    eig0 = gen_spectrum(rng)
    k0 = len(eig0)
    cum0 = cum_ratios(eig0)
    for _ in range(50):
        f = rng.randint(1, 63) / 64.0                       # exactly representable in float16 / float32
        if all(abs(F(f) - c) > F(1, 1000) for c in cum0):
            break
    else:
        return
    dt = rng.choice(["float32", "float16"])
    op = rng.choice(["S", "T"])
    spec = dict(source="synthetic", eig0=eig0, extra=1, kind="vector")
    rp = dict(spec=spec, op=op, value="numpy.%s(%r)" % (dt, f),
              how="M = make_book_model(spec, None); M.n_active_components = v  (S) / M.trim_components(v)  (T)")
    M = make_book_model(spec, None)
    v = getattr(np, dt)(f)
    before = (int(M.n_components), int(M.n_active_components), [float(x) for x in M._eigenvalues])
    try:
        if op == "S":
            M.n_active_components = v
        else:
            M.trim_components(v)
        status = "ok"
    except (ValueError, TypeError):
        status = "err"
    except Exception as e:
        ctx.fail(site, "raises", "%s %r raised %s: %s" % (op, v, type(e).__name__, e), rp)
        return
    ctx.count("numpy-float:%s:%s:%s" % (dt, op, status))
    ctx.case(("npfloat", json.dumps([eig0, f, dt, op])), nontrivial=k0 >= 2,
             sample=dict(kind="numpy-float", spectrum=eig0, value=rp["value"], op=op) if idx < 1 else None)
    nact, ncomp = int(M.n_active_components), int(M.n_components)
    if status == "err":
        ctx.check((ncomp, nact, [float(x) for x in M._eigenvalues]) == before, site, "state-changed-by-failed-call",
                  "a refused numpy-float request changed the model", rp)
        return
    counts, _may = float_outcomes(f, cum0, k0)
    ctx.check(1 <= nact <= ncomp and nact in counts and (op == "S" or ncomp == nact), site,
              "fraction-truncated-to-integer",
              "%s numpy.%s(%r) on %d components: n_active_components = %d, n_components = %d; the fraction asks for %r" % (
                  op, dt, f, k0, nact, ncomp, sorted(counts)), rp)


LARGE_D = [1001, 1024, 1030, 1099, 2050, 1000, 1100, 999]


def run_large_case(ctx, rng, idx, given=None):
    """many more features than samples, built IN PLACE from writeable float data: the Gram path of pca() forms the
    components with the blocked in-place product dot_inplace_right (block size 1000), so d around and beyond a block
    boundary matters (seeded C10-6: a short tail block was dropped).  Oracle only, float64, tolerance scaled by the
    size of the numbers; vector- and image-backed (32 x 32 single-channel image = 1024 features)."""
    from menpo.model import PCAModel, PCAVectorModel
    d = LARGE_D[idx % len(LARGE_D)]
    kind = "image" if d == 1024 and rng.random() < 0.7 else "vector"
    n = rng.randint(3, 6)
    centre = rng.random() < 0.6
    if given is not None:
        n, d, centre, kind = given["n"], given["d"], given["centre"], given["kind"]
    for _ in range(20):
        X = np.array(given["X"], dtype=float) if given is not None else \
            np.array([[rng.randint(-16, 16) / 4.0 for _ in range(d)] for _ in range(n)])
        Xc = X - X.mean(axis=0) if centre else X
        ev = np.linalg.eigvalsh(Xc.dot(Xc.T))[::-1]
        k = n - 1 if centre else n
        if ev[k - 1] > 1e-2 * ev[0] and all(ev[i] - ev[i + 1] > 1e-3 * ev[0] for i in range(k - 1)):
            break
    else:
        return
    site = "C10/model/%s/gram/large-d" % kind
    rp = dict(n=n, d=d, centre=centre, kind=kind, inplace=True, X_first_rows=[X[i, :4].tolist() for i in range(n)],
              how="X = entries k/4 (see generator run_large_case, seed in the replay header); vector: "
                  "PCAVectorModel(X.copy(), centre=centre, inplace=True); image: PCAModel([Image(x.reshape(1, 32, 32))...], "
                  "centre=centre, inplace=True); then the identities of the property on the model", X=X.tolist())
    ctx.count("large-d:%s:d=%d" % (kind, d))
    ctx.case(("large", json.dumps([n, d, centre, kind, X[:, :8].tolist()])), nontrivial=True,
             sample=dict(kind="large-d", n=n, d=d, centre=centre, backing=kind) if idx < 1 else None)
    try:
        if kind == "vector":
            M = PCAVectorModel(X.copy(), centre=centre, inplace=True)
            ad = Adapter(M, "vector")
        else:
            from menpo.image import Image
            M = PCAModel([Image(x.reshape(1, 32, 32).copy()) for x in X], centre=centre, inplace=True)
            ad = Adapter(M, "image", (1, 32, 32))
        U = np.array(M.components, dtype=float)
        l = np.array(M.eigenvalues, dtype=float)
        mean = ad.mean()
    except Exception as e:
        ctx.fail(site, "raises", "building the model raised %s: %s" % (type(e).__name__, e), rp)
        return
    scale = max(1.0, float(ev[0]) / (n - 1))
    tol = 1e-8 * (1.0 + scale)
    ctx.check(U.shape == (k, d) and len(l) == k, site, "component-count",
              "%d samples (centre=%s) in %d dimensions: %r components, %d eigenvalues" % (n, centre, d, U.shape, len(l)), rp)
    if U.shape != (k, d) or len(l) != k:
        return
    ctx.check(maxabs(U.dot(U.T) - np.eye(k)) <= 1e-8, site, "not-orthonormal",
              "components are not orthonormal: max |U U^T - I| = %.3g" % maxabs(U.dot(U.T) - np.eye(k)), rp)
    ctx.check(all(l[i] > 0 for i in range(k)) and all(l[i] >= l[i + 1] for i in range(k - 1)), site, "spectrum-order",
              "eigenvalues not positive and descending: %r" % (list(l),), rp)
    Xm = X - mean
    sv = (Xm.dot(U.T) ** 2).sum(axis=0) / (n - 1)
    ctx.check(maxabs(sv - l) <= tol, site, "eigenvalue-not-sample-variance",
              "eigenvalues %r, sample variance along the components %r" % (list(l), list(sv)), rp)
    if centre:
        ctx.check(maxabs(mean - X.mean(axis=0)) <= 1e-9 * (1 + maxabs(X)), site, "mean-not-sample-mean",
                  "model mean differs from the sample mean", rp)
    try:
        worst = max(maxabs(ad.reconstruct(X[i]) - X[i]) for i in range(n))
        w = np.array([rng.randint(-12, 12) / 4.0 for _ in range(k)])
        back = ad.project(ad.instance(w))
        x = np.array([rng.randint(-16, 16) / 2.0 for _ in range(d)])
        po = ad.project_out(x)
        r1 = ad.reconstruct(x)
    except Exception as e:
        ctx.fail(site, "raises", "reconstruct / project / instance / project_out raised %s: %s" % (type(e).__name__, e), rp)
        return
    ctx.check(worst <= 1e-8 * (1 + maxabs(X)), site, "training-not-reconstructed",
              "with all components kept a training sample is off by %.3g" % worst, rp)
    ctx.check(maxabs(back - w) <= 1e-8 * (1 + maxabs(w)), site, "project-instance",
              "project(instance(w)) differs from w by %.3g" % maxabs(back - w), rp)
    ctx.check(maxabs(U.dot(po)) <= 1e-8 * (1 + maxabs(x) * np.sqrt(d)), site, "residual-not-orthogonal",
              "components . project_out(x) = %.3g" % maxabs(U.dot(po)), rp)
    ctx.check(maxabs(r1 + po - x) <= 1e-8 * (1 + maxabs(x)), site, "decomposition",
              "reconstruct(x) + project_out(x) differs from x by %.3g" % maxabs(r1 + po - x), rp)


DOT_SIZES = [999, 1000, 1001, 1050, 1099, 1100, 1999, 2001, 2050, 2099]


def run_dot_inplace_case(ctx, rng, idx):
    """menpo.math.linalg.dot_inplace_left / dot_inplace_right (the blocked in-place products of the Gram path) against
    np.dot at block-boundary sizes, default and small block sizes; integer-valued operands, so the products are exact.
    A helper's contract, not a clause of the property text: a correspondence observation (directed search follows)."""
    from menpo.math.linalg import dot_inplace_left, dot_inplace_right
    if idx % 2 == 0:
        n_big, bs = DOT_SIZES[(idx // 2) % len(DOT_SIZES)], None
    else:
        bs = rng.choice([20, 30, 50])
        n_big = bs * rng.randint(1, 4) + rng.choice([0, 1, 2, bs // 10, bs // 10 + 1, bs - 1])
    n_small = rng.randint(1, 4)
    kk = rng.randint(n_small, n_small + 3)
    kw = {} if bs is None else dict(block_size=bs)
    rp = dict(n_big=n_big, n_small=n_small, k=kk, block_size=bs)
    ctx.count("dot-inplace:block=%s" % (bs or 1000))
    ctx.case(("dot", json.dumps([n_big, n_small, kk, bs, idx])), nontrivial=True)
    try:
        a = np.array([[float(rng.randint(-4, 4)) for _ in range(kk)] for _ in range(n_small)])
        b = np.array([[float(rng.randint(-4, 4)) for _ in range(n_big)] for _ in range(kk)])
        want = a.dot(b)
        got = dot_inplace_right(a.copy(), b.copy(), **kw)
        if got.shape != want.shape or not np.array_equal(got, want):
            ctx.mismatch("linalg.dot_inplace_right", "differs from np.dot for a %r, b %r, block_size %r (first bad column %r)" % (
                a.shape, b.shape, bs, int(np.argmax(np.abs(got - want).sum(axis=0) > 0)) if got.shape == want.shape else None), rp)
        a2 = np.array([[float(rng.randint(-4, 4)) for _ in range(kk)] for _ in range(n_big)])
        b2 = np.array([[float(rng.randint(-4, 4)) for _ in range(n_small)] for _ in range(kk)])
        want2 = a2.dot(b2)
        got2 = dot_inplace_left(a2.copy(), b2.copy(), **kw)
        if got2.shape != want2.shape or not np.array_equal(got2, want2):
            ctx.mismatch("linalg.dot_inplace_left", "differs from np.dot for a %r, b %r, block_size %r" % (
                a2.shape, b2.shape, bs), rp)
    except Exception as e:
        ctx.mismatch("linalg.dot_inplace", "raised %s: %s" % (type(e).__name__, e), rp)


def parse_state(txt):
    parts = [p.split() for p in txt.split("|")]

    def lst(p):
        return [float(Fraction(v)) for v in p[1:1 + int(p[0])]]
    head = parts[0]
    nums = [float(Fraction(v)) for v in parts[4]]
    inv = None if parts[7][0] == "E" else float(Fraction(parts[7][0]))
    return head[0], dict(rows=int(head[1]), nact=int(head[2]), arows=int(head[3]), eig=lst(parts[1]), trimmed=lst(parts[2]),
                         eigenvalues=lst(parts[3]), variance=nums[0], original=nums[1], noise=nums[2], vratio=nums[3],
                         nratio=nums[4], cum=lst(parts[5]), eratio=lst(parts[6]), inv=inv)


def book_diff(reply, ex):
    """first disagreement between the model's trace and the implementation's: (op, text, step) or None"""
    if ex["trace"] is None:
        if reply.strip() != "err value":
            return ("book.constructor", "implementation raised ValueError, model %r" % reply[:60], None)
        return None
    if reply.strip() == "err value":
        return ("book.constructor", "model raises, implementation accepted", None)
    steps = [parse_state(s) for s in reply.split(";")]
    if len(steps) != len(ex["trace"]):
        return ("book", "model has %d steps, implementation %d" % (len(steps), len(ex["trace"])), None)
    tol = TOL * (1 + abs(ex["orig"]))
    for i, ((ms, mst), (st, ist)) in enumerate(zip(steps, ex["trace"])):
        diffs = []
        if ms != st:
            diffs.append("status model %s implementation %s" % (ms, st))
        for key in ("rows", "nact", "arows", "eig", "trimmed", "eigenvalues"):
            if mst[key] != ist[key]:
                diffs.append("%s model %r implementation %r" % (key, mst[key], ist[key]))
        for key in ("variance", "original", "noise", "vratio", "nratio"):
            if ex["exact"] and key in ("variance", "original"):
                good = mst[key] == ist[key]
            else:
                good = abs(mst[key] - ist[key]) <= tol
            if not good:
                diffs.append("%s model %.17g implementation %.17g" % (key, mst[key], ist[key]))
        if len(mst["cum"]) != len(ist["cum"]) or any(abs(a - b) > 1e-9 for a, b in zip(mst["cum"], ist["cum"])):
            diffs.append("cumulative ratio model %r implementation %r" % (mst["cum"], ist["cum"]))
        if len(mst["eratio"]) != len(ist["eratio"]) or any(abs(a - b) > 1e-9 for a, b in zip(mst["eratio"], ist["eratio"])):
            diffs.append("eigenvalues_ratio model %r implementation %r" % (mst["eratio"], ist["eratio"]))
        if (mst["inv"] is None) != (ist["inv"] is None) or \
                (mst["inv"] is not None and abs(mst["inv"] - ist["inv"]) > 1e-9 * (1 + abs(mst["inv"]))):
            diffs.append("inverse_noise_variance model %r implementation %r" % (mst["inv"], ist["inv"]))
        if diffs:
            return ("book.step%d" % i, "; ".join(diffs), i - 1)
    return None


def compare_book(ctx, cid, reply, ex):
    d = book_diff(reply, ex)
    if d is not None and ex.get("alt_reply") is not None:
        if book_diff(ex["alt_reply"], ex) is None:
            ctx.count("float-form:repaired(clamped)")
            return
    if d is not None:
        ctx.mismatch(d[0], d[1], ex["rp"] if d[2] is None else dict(ex["rp"], step=d[2]))
    elif ex.get("alt_reply") is not None and book_diff(ex["alt_reply"], ex) is not None:
        ctx.count("float-form:as-coded")


# ============================================================================ regenerated dispatch table

DISPATCH_CLASSES = ["LinearVectorModel", "MeanLinearVectorModel", "PCAVectorModel", "PCAModel"]
DISPATCH_NAMES = [
    "mean", "project", "instance", "reconstruct", "project_out", "component", "project_whitened",
    "project_vector", "instance_vector", "reconstruct_vector", "project_out_vector", "component_vector",
    "project_whitened_vector", "mean_vector",
    "project_vectors", "instance_vectors", "reconstruct_vectors", "project_out_vectors",
    "_instance_vectors_for_full_weights",
    "components", "eigenvalues", "n_components", "n_features", "n_active_components", "trim_components",
    "_constructor_helper", "whitened_components", "original_variance", "variance", "variance_ratio",
    "eigenvalues_ratio", "eigenvalues_cumulative_ratio", "noise_variance", "noise_variance_ratio",
    "inverse_noise_variance", "_total_variance", "_total_variance_ratio", "_total_eigenvalues_ratio",
    "_total_eigenvalues_cumulative_ratio", "orthonormalize_against_inplace", "orthonormalize_inplace"]
# the delegating one-liners of the object layer: which calls they make, receiver included
DELEGATES = [("VectorizableBackedModel", n) for n in ("project", "reconstruct", "project_out", "instance", "component")] + \
    [("PCAModel", n) for n in ("mean", "instance", "component", "project_whitened", "project_vector", "instance_vector",
                               "reconstruct_vector", "project_out_vector", "component_vector",
                               "project_whitened_vector")]
GEN_TARGETS = ["MenpoModel.Generated.C10Dispatch", "MenpoModel.GenProps.C10"]
GEN_OBLIGATIONS = 3


def live_dispatch():
    """(class, name, class whose __dict__ supplies it) from the live MRO, and (class, name, calls made) for the
    delegating methods of the object layer (ast of the live function: call targets with their receivers)"""
    import ast
    import inspect
    import textwrap
    import menpo.model as mm
    from menpo.model.vectorizable import VectorizableBackedModel
    classes = dict((n, getattr(mm, n)) for n in DISPATCH_CLASSES)
    classes["VectorizableBackedModel"] = VectorizableBackedModel
    rows = []
    for cn in DISPATCH_CLASSES:
        for name in DISPATCH_NAMES:
            sup = next((k.__name__ for k in classes[cn].__mro__ if name in k.__dict__), "absent")
            rows.append((cn, name, sup))
    calls = []
    for cn, name in DELEGATES:
        f = classes[cn].__dict__.get(name)
        if f is None:
            calls.append((cn, name, ["<absent>"]))
            continue
        f = getattr(f, "mthd", f)                          # menpo.base.doc_inherit keeps the function in .mthd
        f = getattr(f, "fget", f)
        f = getattr(f, "__func__", f)
        fn = ast.parse(textwrap.dedent(inspect.getsource(f))).body[0]
        found = sorted(set(ast.unparse(n.func) for st in fn.body for n in ast.walk(st) if isinstance(n, ast.Call)))
        calls.append((cn, name, found))
    return rows, calls


def lean_str(x):
    return '"' + x.replace("\\", "\\\\").replace('"', '\\"') + '"'


def generated_files():
    rows, calls = live_dispatch()
    body = ["/- REGENERATED by harness/c10.py (live_dispatch) from the live classes of the menpo working tree on every",
            "   run of `./check C10`; do not edit.  `dispatch`: (class, attribute, class supplying it through the MRO);",
            "   `delegates`: (class, method, call targets of its body, receivers included). -/",
            "", "namespace MenpoModel.C10.Generated", "",
            "def dispatch : List (String × String × String) := ["]
    body.append(",\n".join("  (%s, %s, %s)" % tuple(lean_str(x) for x in r) for r in rows))
    body += ["]", "", "def delegates : List (String × String × List String) := ["]
    body.append(",\n".join("  (%s, %s, [%s])" % (lean_str(c), lean_str(n), ", ".join(lean_str(x) for x in cs))
                           for c, n, cs in calls))
    body += ["]", "", "end MenpoModel.C10.Generated", ""]
    return {"MenpoModel/Generated/C10Dispatch.lean": "\n".join(body)}


def generated(ctx):
    """ONE `lake build` for everything regenerated from the working tree (the dispatch tables and the three translated
    source files) - each call waits for the shared build lock."""
    files = generated_files()
    # the bookkeeping methods, accessors and constructors TRANSLATED from the source text of the working tree
    # (harness/trans_c10.py): Generated/C10Src.lean, obligations GenProps/C10Src.lean (translated = Core definition, for
    # all arguments) and GenProps/C10SrcProps.lean (the property's bookkeeping clauses for the translated methods)
    from . import trans_c10
    sfiles, reasons = trans_c10.generated_files()
    ctx.notes["source_translation"] = "ok: %d definitions" % trans_c10.N_DEFS if not reasons else \
        "untranslatable: " + "; ".join(reasons)
    # the vector-level methods of linear.py / pca.py (project / instance / reconstruct / project_out, their _vectors
    # variants, component), once per class through the live MRO: Generated/C10SrcLin.lean, GenProps/C10SrcLin.lean
    lfiles, lreasons = trans_c10.lin_generated_files()
    ctx.notes["source_translation_linear"] = "ok: %d definitions" % trans_c10.LIN_DEFS if not lreasons else \
        "untranslatable: " + "; ".join(lreasons)
    # menpo/math/decomposition.py: eigenvalue_decomposition (= Core postprocess on the zipped eigen-witness), pca / pcacov
    # (which operation on which operand in which branch): Generated/C10SrcDec.lean, GenProps/C10SrcDec.lean
    dfiles, dreasons = trans_c10.dec_generated_files()
    ctx.notes["source_translation_decomposition"] = "ok: %d definitions" % trans_c10.DEC_DEFS if not dreasons else \
        "untranslatable: " + "; ".join(dreasons)
    for f in (sfiles, lfiles, dfiles):
        files.update(f)
    ok = common.build_generated(
        ctx, files, GEN_TARGETS + trans_c10.GEN_TARGETS + trans_c10.LIN_TARGETS + trans_c10.DEC_TARGETS,
        GEN_OBLIGATIONS + trans_c10.N_OBLIGATIONS + trans_c10.LIN_OBLIGATIONS + trans_c10.DEC_OBLIGATIONS)
    errs = "" if ok else " ".join(ctx.broken_obligations[-1]["errors"]) + ctx.broken_obligations[-1]["output_tail"]
    table_ok = ok or not ("GenProps/C10.lean" in errs or "C10Dispatch" in errs)
    src_ok = ok or not ("C10Src" in errs)
    ctx.count("dispatch-table:" + ("ok" if table_ok else "BROKEN"))
    ctx.count("source-translation:" + ("ok" if src_ok else "BROKEN"))


# ============================================================================ driver of a run

def gen_book_spec(rng, data_cases):
    if data_cases and rng.random() < 0.3:
        case = rng.choice(data_cases)
        try:
            M = build_model(case).m
        except Exception:
            return None
        eig0 = [float(v) for v in M._eigenvalues]
        if len(eig0) < 1:
            return None
        return dict(source="data", case=case, eig0=eig0)
    return dict(source="synthetic", eig0=gen_spectrum(rng), extra=rng.randint(0, 2),
                kind=rng.choice(["vector", "vector", "pointcloud"]))


def explore(ctx, rng, n_models, n_post, n_books, with_model=True):
    lines, expect = [], {}
    data_cases = []
    for i in range(n_models):
        case = gen_data(rng)
        if not (case.get("dtype") == "int64" and case["inplace"]):
            data_cases.append(case)                      # (integer data + inplace=True may not build, see above)
        cid = "m%d" % i
        run_model_case(ctx, case, rng, cid, lines, expect)
        ctx.case(("model", json.dumps(case, sort_keys=True)), nontrivial=case["rank"] >= 2,
                 sample=dict(kind="model", n=case["n"], d=case["d"], centre=case["centre"], backing=case["kind"],
                             ctor=case.get("ctor"), rank=case["rank"]) if i < 3 else None)
    for i in range(n_post):
        pc = gen_post(rng)
        run_post_case(ctx, pc, "p%d" % i, lines, expect)
        ctx.case(("post", json.dumps(pc, sort_keys=True)), nontrivial=True,
                 sample=dict(kind="post", spectrum=pc["lam"], eps=pc["eps"], inverse=pc["inv"]) if i < 1 else None)
    for i in range(n_books):
        spec = gen_book_spec(rng, data_cases[:40])
        if spec is None:
            continue
        mx, ops = gen_history(rng, spec["eig0"])
        run_book_case(ctx, spec, mx, ops, "b%d" % i, lines, expect, cross=rng.random() < 0.2)
        ctx.count("book:" + spec["source"])
        ctx.case(("book", json.dumps([spec["eig0"], mx, ops])), nontrivial=len(spec["eig0"]) >= 2,
                 sample=dict(kind="book", spectrum=spec["eig0"], max_n_components=mx, ops=ops) if i < 2 else None)
    for i in range(max(1, n_books // 15)):
        run_npfloat_case(ctx, rng, i)
    for i in range(max(2, n_models // 20)):
        run_large_case(ctx, rng, i)
    for i in range(max(4, n_models // 10)):
        run_dot_inplace_case(ctx, rng, i)
    if with_model and lines:
        replies = common.run_driver(PROP, lines)
        cmp = dict(pca=compare_pca, lin=compare_lin, post=compare_post, book=compare_book, obj=compare_obj,
                   white=compare_white)
        for cid, ex in expect.items():
            if ex.get("alt_id"):
                ex["alt_reply"] = replies[ex["alt_id"]]
            cmp[ex["kind"]](ctx, cid, replies[cid], ex)
    return lines


def search(ctx):
    """directed search after a broken tie: many more cases through the oracle only"""
    rng = ctx.rng
    for _ in range(ctx.n(12, 40)):
        explore(ctx, rng, 40, 20, 120, with_model=False)
        ctx.searched += 180
        if ctx.failures:
            return True
    return False


def prepare(ctx):
    """regenerate the dispatch tables and their obligations, build, audit.  When a regenerated obligation no longer
    checks (a finding about /repo, recorded in ctx.broken_obligations, followed by the directed search) the audit
    covers the hand-written theorems only, since GenProps/C10.olean does not exist then."""
    generated(ctx)
    if ctx.broken_obligations:
        imports = [m for m in IMPORTS if "GenProps" not in m]
        theorems = [t for t in THEOREMS if ".GenProps." not in t]
    else:
        imports, theorems = IMPORTS, THEOREMS
    common.prepare_lean(ctx, PROP, imports, theorems)


def run(ctx):
    prepare(ctx)
    ctx.trusted.extend(["contract: numpy.linalg.eigh returns orthonormal eigenvectors (checked numerically per case)",
                        "contract: numpy.sqrt (Gram-path rescale, whitening, component scale)",
                        "contract: numpy.linalg.qr returns orthonormal columns (orthonormalize_against_inplace)"])
    explore(ctx, ctx.rng, ctx.n(200, 2000), ctx.n(150, 1500), ctx.n(300, 4000))
    return ctx.finish(search)


def replay(ctx, path):
    data = json.load(open(path))
    rp = data.get("replay") or (data.get("broken_correspondence") or [{}])[0].get("case", {})
    lines, expect = [], {}
    rng = ctx.rng
    if "case" in rp:
        run_model_case(ctx, rp["case"], rng, "m0", lines, expect)
        ctx.case(("replay-model", json.dumps(rp["case"], sort_keys=True)))
    elif "post" in rp:
        run_post_case(ctx, rp["post"], "p0", lines, expect)
        ctx.case(("replay-post", json.dumps(rp["post"], sort_keys=True)))
    elif "X" in rp and "d" in rp:
        run_large_case(ctx, rng, 0, given=rp)
    elif "spec" in rp and "ops" in rp:
        mx = tuple(rp["max_n_components"]) if rp.get("max_n_components") else None
        ops = [(o, tuple(v)) for o, v in rp["ops"]]
        run_book_case(ctx, rp["spec"], mx, ops, "b0", lines, expect)
        ctx.case(("replay-book", json.dumps(rp["ops"])))
    else:
        print("replay file carries no C10 case")
        return 2
    ctx.case(("replay", path))
    replies = common.run_driver(PROP, lines) if lines else {}
    cmp = dict(pca=compare_pca, lin=compare_lin, post=compare_post, book=compare_book, obj=compare_obj,
                   white=compare_white)
    for cid, ex in expect.items():
        print("model   %s: %s" % (cid, replies[cid][:300]))
        if ex.get("alt_id"):
            ex["alt_reply"] = replies[ex["alt_id"]]
        cmp[ex["kind"]](ctx, cid, replies[cid], ex)
    for f in ctx.failures:
        print("oracle  : %s [%s] %s" % (f[0], f[1], f[2][:300]))
    return ctx.finish(None)
