"""py2lean2g — generic extensions of harness/py2lean2.py (a module of its own so that builders working on py2lean2.py
at the same time are not disturbed; nothing here depends on a property; first user: harness/trans_c19.py).

`Translator2G(Rules2G(...))` is a `Translator2` that additionally translates

  generators           a function containing `yield e` is a LIST BUILDER: a hidden variable (python pseudo name
                       `yielded__`) starts as `[]`, `yield e` appends, falling off the end / a bare `return` returns it
                       through the `ret` template (what the consumer of the generator sees when it exhausts it;
                       laziness of the generator itself is not modelled).  Yields inside `for` loops make the hidden
                       variable loop-carried.
  nested defs          `def inner(a, b): …` inside a body becomes `let inner0 := fun a0 b0 => …` (body translated with
                       `nested_ret`, default the returned expression itself) — or is skipped when `skip_defs` names it
                       (then its body is translated on its own with `nested(fn, name)` + `function_node`, and calls to it
                       go through the rules).
  while loops          `while c: body` -> `MenpoModel.Py.whileG <fuel> state (fun acc => c) (fun acc => body)`
                       (Core/PyWhileG.lean) : `Option state`; `none` = the fuel ran out, the function's value is then
                       `fuel_out`.  `fuel` is a template over the python variables in scope.  No break / return inside.
  effectful operands   expression rule with flag "mut" and two more elements (receiver metavariable, template of the
                       receiver's new value): `xs.pop(0)` = the value, and `xs` is rebound in front of the statement
                       (`let h0 := xs.head; let xs1 := xs.tail`).  Receivers are loop-carried variables.
  monadic operands     expression rule with flag "bind" used as an operand is hoisted into a bind in front of its
                       statement, operands left to right (not under `and` / `or` / conditional expressions /
                       comprehensions, where Python would not always evaluate it: untranslatable there).
                       With `match_bind=dict(ok=, err=, reraise=)` the hoisted operand becomes
                       `match m with | <err> => <leave with reraise> | <ok x> => …`, which also works INSIDE loop bodies
                       (the failure leaves the loop through the early-exit component of the loop state) and for
                       `x = <monadic call>` assignments.  `if a and <monadic>` / `if a or <monadic>` become nested ifs.
  iterables            `iterable` : template applied to the iterable of every `for` / comprehension (`(Py.iter {e})`).
  truth values         `truthy={"name": template}` : a bare variable used as a condition (`if xs`, `while a and xs`,
                       `not xs`) is translated through the template (Python's truth value of a list / an Optional).
  skipped statements   `skip=[statement patterns]` : statements the model has no word for and that cannot change the
                       result (`print(...)`, logging, attaching a path); `if` / `for` built only from them are dropped.
  generator expression `genexp` : template applied to the list translation of a `(e for x in xs)` expression.
  keyword arguments    are matched in any order (patterns and source are normalised by sorting them).
  calls of nested defs `inner(a, b)` -> `(inner0 a0 b0)`.
  x is None            `({x}).isNone` / `(!({x}).isNone)` unless a rule matches first
  import               `import` / `from .. import` inside a function body is dropped
  ret / end            may mention python variables of the scope: `{e}` is the returned expression, `{name}` a variable.
"""
import ast
import copy as _copy

from .py2lean2 import Rules2, Translator2, _Ctx, _proj, _tuple, Untranslatable, source_ast, match, _pat  # noqa: F401

YIELDED = "yielded__"


def _norm_kw(node):
    """sort the keyword arguments of every call (in place): their order does not matter, neither for matching"""
    for n in ast.walk(node):
        if isinstance(n, ast.Call) and n.keywords:
            n.keywords.sort(key=lambda k: (k.arg is None, k.arg or ""))
    return node


class Rules2G(Rules2):
    def __init__(self, expr=(), iterable=None, skip_defs=(), nested_ret="{e}", fuel=None, fuel_out=None, skip=(),
                 truthy=None, genexp=None, match_bind=None, strings=None, typed=(), var_types=None, fuel_by_type=None,
                 inline=False, **kw):
        expr = list(expr)
        self.expr_extra = [tuple(r[3:]) for r in expr]
        Rules2.__init__(self, expr=[tuple(r[:3]) for r in expr], **kw)
        self.expr = [(_norm_kw(p), t, f) for p, t, f in self.expr]
        self.stmt = [(_norm_kw(p), r, t) for p, r, t in self.stmt]
        self.skip = [_norm_kw(_pat(p, "stmt")) for p in skip]
        self.truthy = dict(truthy or {})
        self.genexp = genexp
        # match_bind=dict(ok=".ok {x}", err=".error {e}", reraise=".error {e}"): hoisted monadic operands become
        # `match m with | <err> => <leave the function with reraise> | <ok x> => …` — also inside loop bodies, where
        # the failure leaves the loop through the early-exit component of the loop state
        self.match_bind = match_bind
        # strings: the one Lean value every string-valued expression (literal, merged / split literals, f-string,
        #          `"..".format(..)`, `"..." % x`, `a + "..."`) is translated to — messages carry no decision
        self.strings = strings
        # typed / var_types: type marks.  `typed=[(pattern, tag)]` gives a tag to an expression, `var_types={param: tag}`
        #          to a parameter; a local keeps the tag of what it was assigned from (also through renamings and
        #          copies `a = b`), so `truthy` and `fuel_by_type` can be keyed by TAG instead of by variable name
        self.typed = [(_norm_kw(_pat(p, "expr")), tag) for p, tag in typed]
        self.var_types = dict(var_types or {})
        self.fuel_by_type = dict(fuel_by_type or {})
        # inline: calls of helper functions of the same module / class that no rule names are inlined at the call
        #          site (the helper's body is translated with the same rules, as a local `fun`)
        self.inline = inline
        self.iterable = iterable
        self.skip_defs = set(skip_defs)
        self.nested_ret = nested_ret
        self.fuel = fuel
        self.fuel_out = fuel_out


def _contains_yield(stmts):
    for st in stmts:
        for n in ast.walk(st):
            if isinstance(n, (ast.Yield, ast.YieldFrom)):
                return True
    return False


class Translator2G(Translator2):
    def __init__(self, rules):
        Translator2.__init__(self, rules)
        self._frames = []          # innermost open statement frame: list of ("let" | "bind", lean name, text)
        self._iters = set()
        self._truthy = set()
        self._local_defs = set()
        self._vtype = dict(getattr(rules, "var_types", {}) or {})
        self._inline_ns = {}
        self._inline_depth = 0
        self._ind = [2]
        self._no_hoist = 0

    # ------------------------------------------------------------------------------------------ helpers
    @staticmethod
    def _fmt(tmpl, scope, **extra):
        env = {k: v for k, v in scope.items() if k.isidentifier()}
        env.update(extra)
        try:
            return tmpl.format(**env)
        except (KeyError, IndexError) as e:
            raise Untranslatable("template %r needs the variable %s" % (tmpl, e))

    def _tmp(self, scope, base="h"):
        v = self.fresh(base, scope)
        scope["\0tmp" + v] = v
        return v

    # ------------------------------------------------------------------------------------------ expressions
    def expr(self, node, scope):
        for i, (pat, tmpl, flag) in enumerate(self.r.expr):
            env = {}
            if match(pat, node, env):
                guard = next((x for x in self.r.expr_extra[i] if isinstance(x, dict)), None)
                if guard and any(self._tag_of(env[mv]) != tag for mv, tag in guard.items()):
                    continue          # a rule guarded by type marks: {metavariable: tag}
                self.used_rules.add(i)
                if flag == "mut":
                    recv_mv, new_tmpl = [x for x in self.r.expr_extra[i] if not isinstance(x, dict)][:2]
                    target = env[recv_mv]
                    if not isinstance(target, ast.Name) or target.id not in scope:
                        raise Untranslatable("effectful call on a non-variable: `%s`" % ast.unparse(node))
                    if not self._frames or self._no_hoist:
                        raise Untranslatable("effectful operand where it cannot be hoisted: `%s`" % ast.unparse(node))
                    vals = {k: self.pure(v, scope) for k, v in env.items()}
                    h = self._tmp(scope)
                    self._frames[-1].append(("let", h, tmpl.format(**vals)))
                    new = self.fresh(target.id, scope)
                    self._frames[-1].append(("let", new, new_tmpl.format(**vals)))
                    scope[target.id] = new
                    return h, ""
                return tmpl.format(**{k: self.pure(v, scope) for k, v in env.items()}), flag
        if self.r.strings is not None and self._is_string(node):
            return self.r.strings, ""
        inl = self._try_inline(node, scope)
        if inl is not None:
            return inl, ""
        if (isinstance(node, ast.Compare) and len(node.ops) == 1 and isinstance(node.ops[0], (ast.Is, ast.IsNot))
                and isinstance(node.comparators[0], ast.Constant) and node.comparators[0].value is None):
            x = self.pure(node.left, scope)
            return ("(!(%s).isNone)" if isinstance(node.ops[0], ast.IsNot) else "((%s).isNone)") % x, ""
        if (isinstance(node, ast.Call) and isinstance(node.func, ast.Name) and node.func.id in self._local_defs
                and node.func.id in scope and not node.keywords and not any(isinstance(a, ast.Starred) for a in node.args)):
            # a call of a nested def translated to a `fun`
            args = [self.pure(a, scope) for a in node.args] or ["()"]
            return "(%s %s)" % (scope[node.func.id], " ".join(args)), ""
        if isinstance(node, ast.BoolOp):
            for v in node.values:
                self._mark_truthy(v)
        if isinstance(node, ast.UnaryOp) and isinstance(node.op, ast.Not):
            self._mark_truthy(node.operand)
        if isinstance(node, ast.GeneratorExp) and self.r.genexp:
            self._no_hoist += 1
            try:
                return self.r.genexp.format(e=self.comprehension(node, scope, "list")), ""
            finally:
                self._no_hoist -= 1
        if isinstance(node, (ast.BoolOp, ast.IfExp, ast.ListComp, ast.GeneratorExp)) or (
                isinstance(node, ast.Call) and isinstance(node.func, ast.Name) and node.func.id in ("any", "all")):
            # Python does not always evaluate the operands of these: nothing may be hoisted out of them
            self._no_hoist += 1
            try:
                return Translator2.expr(self, node, scope)
            finally:
                self._no_hoist -= 1
        return Translator2.expr(self, node, scope)

    def pure(self, node, scope):
        e, flag = self.expr(node, scope)
        if flag == "bind":
            if not self._frames or self._no_hoist:
                raise Untranslatable("monadic expression used as an operand where it cannot be hoisted: `%s`" % ast.unparse(node))
            h = self._tmp(scope)
            self._frames[-1].append(("bind", h, e))
            e = h
        if id(node) in self._iters and self.r.iterable:
            e = self.r.iterable.format(e=e)
        if id(node) in self._truthy:
            key = node.id if node.id in self.r.truthy else self._vtype.get(node.id)
            if key in self.r.truthy:
                e = self.r.truthy[key].format(e=e)
        return e

    def _mark_truthy(self, node):
        """a bare variable in a boolean context: Python's truth value of it (the rules say what that is, by the
        variable's name or by its type mark)"""
        if isinstance(node, ast.Name) and (node.id in self.r.truthy or self._vtype.get(node.id) in self.r.truthy):
            self._truthy.add(id(node))

    def _tag_of(self, node):
        if isinstance(node, ast.Name):
            return self._vtype.get(node.id)
        for pat, tag in self.r.typed:
            if match(pat, node, {}):
                return tag
        for i, (pat, _t, flag) in enumerate(self.r.expr):          # `xs.pop(0)`-like rules keep no tag
            if flag == "mut" and match(pat, node, {}):
                return None
        return None

    def _is_string(self, node):
        if isinstance(node, ast.Constant):
            return isinstance(node.value, str)
        if isinstance(node, ast.JoinedStr):
            return True
        if isinstance(node, ast.Call) and isinstance(node.func, ast.Attribute) and node.func.attr == "format":
            return self._is_string(node.func.value)
        if isinstance(node, ast.BinOp) and isinstance(node.op, (ast.Add, ast.Mod)):
            return self._is_string(node.left) or (isinstance(node.op, ast.Add) and self._is_string(node.right))
        return False

    # ------------------------------------------------------------------------------------------ helper inlining
    def _resolve_helper(self, func, scope):
        """(python function, receiver node or None) for `helper(..)`, `self.helper(..)`, `cls.helper(..)`,
        `ClassName.helper(..)` when the helper lives in the module / class of the translated function"""
        if not self.r.inline or not self._inline_ns:
            return None, None
        import inspect
        if isinstance(func, ast.Name) and func.id not in scope:
            f = self._inline_ns.get(func.id)
            return (f, None) if inspect.isfunction(f) else (None, None)
        if isinstance(func, ast.Attribute) and isinstance(func.value, ast.Name):
            owner = func.value.id
            cls = self._inline_ns.get("\0class")
            if cls is not None and (owner in ("self", "cls") or owner == cls.__name__) and func.attr in vars(cls):
                raw = vars(cls)[func.attr]
                if isinstance(raw, staticmethod):
                    return raw.__func__, None
                if isinstance(raw, classmethod):
                    return raw.__func__, func.value
                if inspect.isfunction(raw):
                    return raw, (func.value if owner == "self" else None)
        return None, None

    def _splice_helper(self, call, scope):
        """a helper called as a STATEMENT (`_check(x)`: it can only raise or do nothing the model sees): its body is
        spliced in place, locals renamed apart; only helpers whose single exit besides `raise` is the end of the body"""
        fn, recv = self._resolve_helper(call.func, scope)
        if fn is None or self._inline_depth >= 3 or call.keywords or any(isinstance(a, ast.Starred) for a in call.args):
            return None
        try:
            hnode, _src = source_ast(fn)
        except (OSError, TypeError, Untranslatable):
            return None
        a = hnode.args
        if a.vararg or a.kwarg or a.kwonlyargs or a.posonlyargs or a.defaults or _contains_yield(hnode.body):
            return None
        body = [st for st in hnode.body
                if not (isinstance(st, ast.Expr) and isinstance(st.value, ast.Constant) and isinstance(st.value.value, str))]
        if body and isinstance(body[-1], ast.Return) and body[-1].value is None:
            body = body[:-1]
        if any(isinstance(n, (ast.Return, ast.FunctionDef, ast.Lambda)) for st in body for n in ast.walk(st)):
            return None
        params = [x.arg for x in a.args]
        args = ([recv] if recv is not None else []) + list(call.args)
        if len(args) != len(params):
            return None
        prefix = (hnode.name.strip("_") or "helper") + "__"
        local = set(params)
        for st in body:
            for n in ast.walk(st):
                if isinstance(n, ast.Name) and isinstance(n.ctx, ast.Store):
                    local.add(n.id)

        class Ren(ast.NodeTransformer):
            def visit_Name(self, n):
                return ast.copy_location(ast.Name(id=prefix + n.id, ctx=n.ctx), n) if n.id in local else n
        new = [ast.Assign(targets=[ast.Name(id=prefix + pn, ctx=ast.Store())], value=arg) for pn, arg in zip(params, args)]
        new += [Ren().visit(_copy.deepcopy(st)) for st in body]
        for st in new:
            ast.fix_missing_locations(st)
        _norm_kw(ast.Module(body=new, type_ignores=[]))
        return new or [ast.Pass()]

    def _try_inline(self, node, scope):
        if not isinstance(node, ast.Call) or not self.r.inline:
            return None
        fn, recv = self._resolve_helper(node.func, scope)
        if fn is None or self._inline_depth >= 3 or not self._frames:
            return None          # (the local `fun` is only a definition: it may be hoisted out of anything)
        if node.keywords or any(isinstance(a, ast.Starred) for a in node.args):
            return None
        try:
            hnode, _src = source_ast(fn)
        except (OSError, TypeError, Untranslatable):
            return None
        a = hnode.args
        if a.vararg or a.kwarg or a.kwonlyargs or a.posonlyargs or _contains_yield(hnode.body):
            return None
        params = [x.arg for x in a.args]
        args = ([recv] if recv is not None else []) + list(node.args)
        defaults = dict(zip(params[len(params) - len(a.defaults):], a.defaults))
        actual = []
        for i, pn in enumerate(params):
            if i < len(args):
                actual.append(self.pure(args[i], scope))
            elif pn in defaults and isinstance(defaults[pn], ast.Constant):
                actual.append(self.pure(defaults[pn], {}))
            else:
                return None
        if len(args) > len(params):
            return None
        _norm_kw(hnode)
        hnode.body = _norm_append_loops(hnode.body)
        sc, names = {}, []
        for k, v in scope.items():                      # only the temporaries' names (to keep fresh names apart)
            if k.startswith("\0tmp"):
                sc[k] = v
        for pn in params:
            new = self.fresh(pn, dict(scope, **sc))
            sc[pn] = new
            sc["\0tmp" + new] = new
            names.append(new)

        def end(_s, _i):
            raise Untranslatable("helper `%s` may fall off its end" % hnode.name)
        inner = _Ctx(exit_=lambda v, s_, i: "  " * i + v, end=end)
        saved = (self.r.ret, self.r.end, dict(self._vtype))
        self.r.ret, self.r.end = self.r.nested_ret, None
        self._inline_depth += 1
        try:
            body = self.block(list(hnode.body), sc, self._ind[-1] + 2, inner)
        finally:
            self.r.ret, self.r.end = saved[0], saved[1]
            self._vtype = saved[2]
            self._inline_depth -= 1
        name = self._tmp(scope, hnode.name.strip("_") or "helper")
        self._frames[-1].append(("let", name, "fun %s =>\n%s" % (" ".join(names) if names else "(_ : Unit)", body)))
        return "(%s %s)" % (name, " ".join(actual) if actual else "()")

    def comprehension(self, node, scope, kind):
        if node.generators:
            self._iters.add(id(node.generators[0].iter))
        return Translator2.comprehension(self, node, scope, kind)

    def loop(self, st, rest, scope, ind, ctx):
        self._iters.add(id(st.iter))
        return Translator2.loop(self, st, rest, scope, ind, ctx)

    # ------------------------------------------------------------------------------------------ statements
    def assigned_names(self, stmts):
        def strip(sts):
            res = []
            for st in sts:
                if isinstance(st, ast.FunctionDef) or self._is_noop([st]):
                    continue
                if isinstance(st, (ast.If, ast.For, ast.While)):
                    st = _copy.copy(st)
                    st.body = strip(st.body)
                    st.orelse = strip(st.orelse)
                res.append(st)
            return res
        out = Translator2.assigned_names(self, [st for st in strip(stmts) if not isinstance(st, ast.While)])
        for st in strip(stmts):
            if isinstance(st, ast.While):
                for n in self.assigned_names(st.body):
                    if n not in out:
                        out.append(n)
        for st in stmts:
            for n in ast.walk(st):
                for i, (pat, _t, flag) in enumerate(self.r.expr):
                    if flag == "mut":
                        env = {}
                        if isinstance(n, ast.expr) and match(pat, n, env):
                            t = env[self.r.expr_extra[i][0]]
                            if isinstance(t, ast.Name) and t.id not in out:
                                out.append(t.id)
                if isinstance(n, (ast.Yield, ast.YieldFrom)) and YIELDED not in out:
                    out.append(YIELDED)
        return out

    def block(self, stmts, scope, ind, ctx):
        self._ind.append(ind)
        try:
            return self._block0(stmts, scope, ind, ctx)
        finally:
            self._ind.pop()

    def _block0(self, stmts, scope, ind, ctx):
        self._frames.append([])
        saved, self._no_hoist = self._no_hoist, 0
        try:
            text = self._block1(stmts, scope, ind, ctx)
        finally:
            frame = self._frames.pop()
            self._no_hoist = saved
        pad = "  " * ind
        for kind, name, e in reversed(frame):
            if kind == "let":
                text = "%slet %s := %s\n%s" % (pad, name, e, text)
            elif self.r.match_bind:
                mb = self.r.match_bind
                err = self._tmp(scope, "err")
                fail = ctx.exit(mb["reraise"].format(e=err), scope, ind + 1)
                text = "%smatch %s with\n%s| %s =>\n%s\n%s| %s =>\n%s" % (
                    pad, e, pad, mb["err"].format(e=err), fail, pad, mb["ok"].format(x=name),
                    "\n".join("  " + l for l in text.split("\n")))
            else:
                if ctx.brk is not None:
                    raise Untranslatable("monadic operand inside a loop body (the loop state is not monadic)")
                text = pad + self.r.bind.format(m=e, x=name, k="\n".join("  " + l for l in text.split("\n")))
        return text

    def _has(self, stmts, kinds, into_loops):
        """as Translator2._has; with `match_bind` a monadic operand is a possible `raise`"""
        if Translator2._has(stmts, kinds, into_loops):
            return True
        if self.r.match_bind and ast.Raise in kinds:
            for st in stmts:
                if isinstance(st, ast.FunctionDef):
                    continue
                for n in ast.walk(st):
                    if isinstance(n, ast.expr) and any(f == "bind" and match(p, n, {}) for p, _t, f in self.r.expr):
                        return True
        return False

    def _block1(self, stmts, scope, ind, ctx):
        pad = "  " * ind
        if not stmts:
            return ctx.end(scope, ind)
        st, rest = stmts[0], stmts[1:]
        if isinstance(st, (ast.Import, ast.ImportFrom)) or self._is_noop([st], scope=scope):
            return self.block(rest, scope, ind, ctx)
        if isinstance(st, ast.Expr) and isinstance(st.value, ast.Call) and self.r.inline \
                and not any(match(p_, st, {}) for p_, _r, _t in self.r.stmt):
            spliced = self._splice_helper(st.value, scope)
            if spliced is not None:
                return self.block(spliced + rest, scope, ind, ctx)
        if isinstance(st, ast.Assign) and len(st.targets) == 1 and isinstance(st.targets[0], ast.Name):
            tag = self._tag_of(st.value)
            if tag is None:
                self._vtype.pop(st.targets[0].id, None)
            else:
                self._vtype[st.targets[0].id] = tag
        if isinstance(st, ast.If):
            self._mark_truthy(st.test)
            if isinstance(st.test, ast.BoolOp):
                # `a and b` / `a or b` with an operand that must be hoisted: nested ifs (short circuit kept)
                state = (list(self._frames[-1]), dict(scope))
                try:
                    return Translator2.block(self, stmts, scope, ind, ctx)
                except Untranslatable as e:
                    if "cannot be hoisted" not in str(e):
                        raise
                    self._frames[-1][:] = state[0]
                    scope.clear()
                    scope.update(state[1])
                    vals = st.test.values
                    first, other = vals[0], (vals[1] if len(vals) == 2 else ast.BoolOp(op=st.test.op, values=vals[1:]))
                    if isinstance(st.test.op, ast.And):
                        new = ast.If(test=first, body=[ast.If(test=other, body=st.body, orelse=st.orelse)], orelse=st.orelse)
                    else:
                        new = ast.If(test=first, body=st.body, orelse=[ast.If(test=other, body=st.body, orelse=st.orelse)])
                    return self._block1([new] + rest, scope, ind, ctx)
        if isinstance(st, ast.Expr) and isinstance(st.value, ast.Yield):
            if st.value.value is None:
                raise Untranslatable("bare yield")
            if YIELDED not in scope:
                raise Untranslatable("yield outside a generator function")
            e = self.pure(st.value.value, scope)
            new = self.fresh(YIELDED, scope)
            sc = dict(scope)
            sc[YIELDED] = new
            return "%slet %s := %s ++ [%s]\n%s" % (pad, new, scope[YIELDED], e, self.block(rest, sc, ind, ctx))
        if isinstance(st, ast.Return):
            if st.value is None:
                if YIELDED in scope:
                    return ctx.exit(self._fmt(self.r.ret, scope, e=scope[YIELDED]), scope, ind)
                if self.r.end is None:
                    raise Untranslatable("bare return")
                return ctx.exit(self._fmt(self.r.end, scope), scope, ind)
            e, flag = self.expr(st.value, scope)
            return ctx.exit(e if flag == "bind" else self._fmt(self.r.ret, scope, e=e), scope, ind)
        if (self.r.match_bind and isinstance(st, ast.Assign) and len(st.targets) == 1
                and isinstance(st.targets[0], (ast.Name, ast.Tuple)) and not any(match(p, st, {}) for p, _r, _t in self.r.stmt)):
            e = self.pure(st.value, scope)       # a monadic value is hoisted (match form), also inside loops
            lines, sc = self.bind_target(st.targets[0], e, scope)
            return "".join(pad + l + "\n" for l in lines) + self.block(rest, sc, ind, ctx)
        if isinstance(st, ast.FunctionDef):
            if st.name in self.r.skip_defs:
                return self.block(rest, scope, ind, ctx)
            return self._nested(st, rest, scope, ind, ctx)
        if isinstance(st, ast.While):
            return self._while(st, rest, scope, ind, ctx)
        return Translator2.block(self, stmts, scope, ind, ctx)

    PURE_CALLS = ("isinstance", "hasattr", "callable", "len")

    def _pure_expr(self, node):
        """an expression whose evaluation cannot change anything (type tests, comparisons, names, constants)"""
        if isinstance(node, (ast.Name, ast.Constant)):
            return True
        if isinstance(node, ast.Attribute):
            return self._pure_expr(node.value)
        if isinstance(node, ast.BoolOp):
            return all(self._pure_expr(v) for v in node.values)
        if isinstance(node, ast.UnaryOp):
            return self._pure_expr(node.operand)
        if isinstance(node, ast.Compare):
            return self._pure_expr(node.left) and all(self._pure_expr(c) for c in node.comparators)
        if isinstance(node, ast.Call) and isinstance(node.func, ast.Name) and node.func.id in self.PURE_CALLS \
                and not node.keywords:
            return all(self._pure_expr(a) for a in node.args)
        return False

    def _is_noop(self, stmts, in_loop=False, scope=None, local=None):
        """statements the rules drop (`skip`), and `if` / `for` built from nothing else; inside such a loop also
        `continue` and assignments of effect-free expressions to names that exist only inside the loop"""
        if not self.r.skip:
            return False
        local = set() if local is None else local
        for st in stmts:
            if isinstance(st, ast.Pass):
                continue
            if any(match(p, st, {}) for p in self.r.skip):
                continue
            if in_loop and isinstance(st, ast.Continue):
                continue
            if in_loop and isinstance(st, ast.Assign) and len(st.targets) == 1 and isinstance(st.targets[0], ast.Name) \
                    and (scope is None or st.targets[0].id not in scope) and self._pure_expr(st.value):
                local.add(st.targets[0].id)
                continue
            if isinstance(st, ast.If) and (st.body or st.orelse) and self._pure_test(st.test) \
                    and self._is_noop(st.body or [ast.Pass()], in_loop, scope, local) \
                    and self._is_noop(st.orelse or [ast.Pass()], in_loop, scope, local):
                continue
            if isinstance(st, ast.For) and not st.orelse and self._is_noop(st.body, True, scope, local):
                continue
            return False
        return bool(stmts)

    def _pure_test(self, node):
        return self._pure_expr(node)

    def _nested(self, st, rest, scope, ind, ctx):
        pad = "  " * ind
        a = st.args
        if a.vararg or a.kwarg or a.kwonlyargs or a.defaults or a.posonlyargs or st.decorator_list:
            raise Untranslatable("nested def with a non-trivial signature: `%s`" % st.name)
        if _contains_yield(st.body):
            raise Untranslatable("nested generator `%s`" % st.name)
        sc, names = dict(scope), []
        sc.pop(YIELDED, None)
        for x in a.args:
            new = self.fresh(x.arg, sc)
            sc[x.arg] = new
            names.append(new)

        def end(_s, _i):
            raise Untranslatable("nested def `%s` may fall off its end" % st.name)
        inner = _Ctx(exit_=lambda v, s, i: "  " * i + v, end=end)
        saved_ret, saved_end = self.r.ret, self.r.end
        self.r.ret, self.r.end = self.r.nested_ret, None
        try:
            body = self.block(list(st.body), sc, ind + 2, inner)
        finally:
            self.r.ret, self.r.end = saved_ret, saved_end
        new = self.fresh(st.name, scope)
        after = dict(scope)
        after[st.name] = new
        self._local_defs.add(st.name)
        head = "%slet %s := fun %s =>\n%s\n" % (pad, new, " ".join(names) if names else "(_ : Unit)", body)
        return head + self.block(rest, after, ind, ctx)

    def _while(self, st, rest, scope, ind, ctx):
        pad = "  " * ind
        if st.orelse:
            raise Untranslatable("while/else")
        if self._has(st.body, (ast.Return, ast.Raise, ast.Assert, ast.Break, ast.Continue), True):
            raise Untranslatable("while loop with break / continue / return / raise in its body")
        if (self.r.fuel is None and not self.r.fuel_by_type) or self.r.fuel_out is None:
            raise Untranslatable("while loop, and the rules give no fuel")
        carried = [n for n in self.assigned_names(st.body) if n in scope]
        if not carried:
            raise Untranslatable("while loop without any effect on the variables in scope")
        n = len(carried)
        sc0 = dict(scope)
        acc = self._tmp(sc0, "acc")
        lines, sc = [], dict(sc0)
        for c in carried:
            new = self.fresh(c, sc)
            sc[c] = new
            lines.append("let %s := %s" % (new, _proj(acc, carried.index(c), n)))
        p3 = "  " * (ind + 2)
        lets = "".join(p3 + l + "\n" for l in lines)
        # the test must not have effects (it is evaluated once more than the body)
        self._mark_truthy(st.test)
        self._no_hoist += 1
        try:
            cond = self.pure(st.test, dict(sc))
        finally:
            self._no_hoist -= 1
        def no_brk(_s, _i):
            raise Untranslatable("break / continue inside a while loop")
        inner = _Ctx(exit_=None, end=lambda s, i: "  " * i + _tuple([s[c] for c in carried]), brk=no_brk)
        body = self.block(list(st.body), dict(sc), ind + 2, inner)
        res = self._tmp(sc0, "w")
        try:
            if self.r.fuel is None:
                raise Untranslatable("no fuel template")
            fuel = self._fmt(self.r.fuel, scope)
        except Untranslatable:
            parts = [self.r.fuel_by_type[self._vtype[c]].format(e=scope[c]) for c in carried
                     if self._vtype.get(c) in self.r.fuel_by_type]
            if not parts:
                raise
            fuel = " + ".join(parts)
        init = _tuple([scope[c] for c in carried])
        out = "%smatch MenpoModel.Py.whileG (%s) %s (fun %s =>\n%s%s%s) (fun %s =>\n%s%s) with\n" % (
            pad, fuel, init, acc, lets, p3, cond, acc, lets, body)
        out += "%s| none => %s\n%s| some %s =>\n" % (pad, self._fmt(self.r.fuel_out, scope), pad, res)
        after = dict(scope)
        after["\0tmp" + res] = res
        p1 = "  " * (ind + 1)
        for c in carried:
            new = self.fresh(c, after)
            after[c] = new
            out += "%slet %s := %s\n" % (p1, new, _proj(res, carried.index(c), n))
        return out + self.block(rest, after, ind + 1, ctx)

    # ------------------------------------------------------------------------------------------ functions
    def top_ctx(self, generator=False):
        def end(scope, ind):
            if YIELDED in scope:
                return "  " * ind + self._fmt(self.r.ret, scope, e=scope[YIELDED])
            if self.r.end is None:
                raise Untranslatable("control reaches the end of the function without return/raise")
            return "  " * ind + self._fmt(self.r.end, scope)
        return _Ctx(exit_=lambda v, s, i: "  " * i + v, end=end)

    def function_node(self, node, arg_names, ind=2, allow_unused=()):
        _norm_kw(node)
        node.body = _norm_append_loops(node.body)
        self._vtype = dict(self.r.var_types)
        a = node.args
        params = [x.arg for x in a.posonlyargs + a.args + a.kwonlyargs]
        if a.vararg:
            params.append(a.vararg.arg)
        if a.kwarg:
            params.append(a.kwarg.arg)
        mentioned = {n.id for st in node.body for n in ast.walk(st) if isinstance(n, ast.Name)}
        for p in params:
            if p not in arg_names and not (p in allow_unused and p not in mentioned):
                raise Untranslatable("signature of %s changed: %s" % (node.name, ast.unparse(node.args)))
        scope = dict(arg_names)
        pad = "  " * ind
        head = ""
        own = [st for st in node.body]
        if _contains_yield_own(own):
            y = self.fresh(YIELDED, scope)
            scope[YIELDED] = y
            head = "%slet %s := []\n" % (pad, y)
        return head + self.block(list(node.body), scope, ind, self.top_ctx())

    def function(self, fn, arg_names, ind=2, allow_unused=()):
        node, _src = source_ast(fn)
        self._inline_ns = helper_namespace(fn) if self.r.inline else {}
        return self.function_node(node, arg_names, ind, allow_unused)

    @staticmethod
    def nested(fn, name):
        """the AST of `def name` nested (at any depth of if / for / while / with) in the body of the live function"""
        node, _src = source_ast(fn)
        for n in ast.walk(node):
            if n is not node and isinstance(n, ast.FunctionDef) and n.name == name:
                return n
        raise Untranslatable("no nested def %r in %s" % (name, node.name))


def _contains_yield_own(stmts):
    """a yield that belongs to this function (not to a nested def / lambda)"""
    def walk(n):
        for c in ast.iter_child_nodes(n):
            if isinstance(c, (ast.FunctionDef, ast.Lambda, ast.AsyncFunctionDef)):
                continue
            if isinstance(c, (ast.Yield, ast.YieldFrom)):
                return True
            if walk(c):
                return True
        return False
    return any(isinstance(st, ast.Expr) and isinstance(st.value, (ast.Yield, ast.YieldFrom)) or walk(st) for st in stmts)


def helper_namespace(fn):
    """the functions a body can call by name: those defined in the module of `fn` (not imported ones), plus — under the
    key "\\0class" — the class `fn` is a method of"""
    import inspect
    import sys
    fn = getattr(fn, "__func__", fn)
    mod = sys.modules.get(fn.__module__)
    ns = {}
    if mod is not None:
        for k, v in vars(mod).items():
            if inspect.isfunction(v) and v.__module__ == fn.__module__ and v is not fn:
                ns[k] = v
        parts = fn.__qualname__.split(".")
        if len(parts) >= 2 and "<locals>" not in parts:
            cls = getattr(mod, parts[-2], None)
            if inspect.isclass(cls):
                ns["\0class"] = cls
    return ns


def _mentions(node, name):
    return any(isinstance(n, ast.Name) and n.id == name for n in ast.walk(node))


def _norm_append_loops(stmts):
    """canonical form of list-building loops:  `xs = []` directly followed by `for t in it: xs.append(e)` (optionally
    under one `if c:`) is the comprehension `xs = [e for t in it if c]` (when e, c, it do not mention xs)"""
    out, i = [], 0
    stmts = list(stmts)
    while i < len(stmts):
        st = stmts[i]
        for f in ("body", "orelse"):
            if isinstance(st, (ast.If, ast.For, ast.While)) and getattr(st, f, None):
                setattr(st, f, _norm_append_loops(getattr(st, f)))
        nxt = stmts[i + 1] if i + 1 < len(stmts) else None
        if (isinstance(st, ast.Assign) and len(st.targets) == 1 and isinstance(st.targets[0], ast.Name)
                and isinstance(st.value, ast.List) and not st.value.elts and isinstance(nxt, ast.For) and not nxt.orelse
                and len(nxt.body) == 1):
            x = st.targets[0].id
            inner, ifs = nxt.body[0], []
            if isinstance(inner, ast.If) and not inner.orelse and len(inner.body) == 1:
                ifs, inner = [inner.test], inner.body[0]
            if (isinstance(inner, ast.Expr) and isinstance(inner.value, ast.Call) and isinstance(inner.value.func, ast.Attribute)
                    and inner.value.func.attr == "append" and isinstance(inner.value.func.value, ast.Name)
                    and inner.value.func.value.id == x and len(inner.value.args) == 1 and not inner.value.keywords
                    and not _mentions(inner.value.args[0], x) and not _mentions(nxt.iter, x)
                    and not any(_mentions(c, x) for c in ifs)):
                comp = ast.ListComp(elt=inner.value.args[0], generators=[ast.comprehension(
                    target=nxt.target, iter=nxt.iter, ifs=ifs, is_async=0)])
                out.append(ast.fix_missing_locations(ast.copy_location(
                    ast.Assign(targets=[ast.Name(id=x, ctx=ast.Store())], value=comp), st)))
                i += 2
                continue
        out.append(st)
        i += 1
    return out
