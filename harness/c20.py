"""C20 — convenience transform constructors follow their documented conventions (DESIGN.md section 6, C20)."""
import json
import math
from fractions import Fraction as F

from . import common
from .common import fq, close

PROP = "C20"
INFO = dict(
    technique="Lean 4 proof (algebraic laws of the constructor matrices over Q with the angle as a point on the unit "
              "circle; Rodrigues axis-angle recovery; about-centre, Scale factory, tcoords, quaternion identities) + "
              "model/implementation correspondence on rational-circle angles",
    level_text="Theorems over an executable rational model of the constructors: R(theta) maps e0 to (cos, sin) and "
               "composes by the addition formulas, the 3-D constructors fix their axis and are the right-handed "
               "Rodrigues rotation about it, the axis/angle recovery returns (cos, sin) exactly for every unit axis and "
               "every perpendicular probe vector, transforms about a centre fix it and act on offsets, the Scale factory "
               "decision, tcoords corner mapping and mutual inverse for h,w>=2, quaternion matrix orthogonality and the "
               "eigen-identity behind as_vector.  The 2-D axis/angle recovery as coded is proved correct exactly for "
               "non-negative angles and refuted by witness otherwise (known finding pinned by a stable test).  Tied to "
               "/repo by calling every constructor on rational-circle angles (all quadrants, beyond a turn, negative, "
               "degrees and radians) and diffing matrices against the Lean driver; an independent trigonometric oracle "
               "decides the property on the real code.",
    level_note="Trusted: Lean kernel; axioms propext/Classical.choice/Quot.sound; harness; driver parser.  Contract "
               "parameters (not verified, checked numerically each run): cos/sin/tan/arccos/deg2rad of numpy "
               "(c^2+s^2=1, theta=atan2(s,c)), np.linalg.eig/eigh returning a unit eigenvector, the random perpendicular.",
    rule="a case = one constructor call with parameters drawn from rational points of the circle / sphere, dyadic "
         "centres and factors; distinct = distinct (constructor, parameters); non-trivial = angle not a multiple of a "
         "quarter turn, factors not all 1, centre not the origin",
    partial=["angles are modelled as points (c,s) of the unit circle over Q; that numpy's cos/sin return such a point "
             "for the requested angle is a contract checked numerically, not a theorem about real trigonometry",
             "2-D axis/angle sign: known finding (test_basic_2d_rotation_axis_angle pins the wrong sign)"],
    assumptions=["numpy trigonometric functions are accurate to 1e-12"],
    design_ref="DESIGN.md section 6, C20")
IMPORTS = ["MenpoModel.Props.C20"]
THEOREMS = [
    "MenpoModel.C20.rot2_basis", "MenpoModel.C20.rot2_comp", "MenpoModel.C20.rot2_det", "MenpoModel.C20.rot2_neg_inverse",
    "MenpoModel.C20.rot3x_spec", "MenpoModel.C20.rot3y_spec", "MenpoModel.C20.rot3z_spec",
    "MenpoModel.C20.rot3x_rodrigues", "MenpoModel.C20.rot3y_rodrigues", "MenpoModel.C20.rot3z_rodrigues",
    "MenpoModel.C20.rot3_orthogonal", "MenpoModel.C20.axis_angle_reconstructs_3d", "MenpoModel.C20.rodrigues_neg_axis",
    "MenpoModel.C20.axis_angle_2d_spec", "MenpoModel.C20.axis_angle_2d_coded_iff", "MenpoModel.C20.axis_angle_2d_coded_refuted",
    "MenpoModel.C20.about_centre2_offsets", "MenpoModel.C20.about_centre2_fixes",
    "MenpoModel.C20.about_centre3_offsets", "MenpoModel.C20.about_centre3_fixes", "MenpoModel.C20.factories_are_linear",
    "MenpoModel.C20.scale_factory_spec", "MenpoModel.C20.tcoords_formula", "MenpoModel.C20.tcoords_corners",
    "MenpoModel.C20.tcoords_mutual_inverse", "MenpoModel.C20.quat_matrix_orthogonal", "MenpoModel.C20.quat_K_eigen",
    "MenpoModel.C20.quat_scale_invariant",
]
TOL = 1e-9


def flat(m):
    return [float(v) for row in m for v in row]


def vec_close(a, b, tol=TOL):
    return len(a) == len(b) and all(close(x, y, max(abs(float(y)), 1.0), tol) for x, y in zip(a, b))


def rat_sphere(rng, dim):
    """rational point on the unit sphere S^(dim-1) by inverse stereographic projection"""
    while True:
        t = [F(rng.randint(-6, 6), rng.randint(1, 6)) for _ in range(dim - 1)]
        n = sum(x * x for x in t)
        p = [2 * x / (1 + n) for x in t] + [(1 - n) / (1 + n)]
        rng.shuffle(p)
        if rng.random() < 0.5:
            p = [-x for x in p]
        return p


class Run:
    def __init__(self, ctx):
        self.ctx = ctx
        self.lines = []
        self.pending = {}

    def ask(self, op, args, observed, replay, tol=TOL):
        """queue a model query; `observed` = list of floats or a literal string"""
        cid = "q%d" % len(self.lines)
        self.lines.append("%s %s %s" % (cid, op, args))
        self.pending[cid] = (op, observed, replay, tol)

    def settle(self):
        if not self.lines:
            return
        model = common.run_driver(PROP, self.lines)
        for cid, (op, obs, rp, tol) in self.pending.items():
            rep = model[cid]
            if isinstance(obs, str):
                if rep != obs:
                    self.ctx.mismatch(op, "model %r vs implementation %r" % (rep, obs), rp)
                continue
            parts = rep.split()
            if parts[0] != "ok":
                self.ctx.mismatch(op, "model %r vs implementation values" % rep, rp)
                continue
            mv = [float(F(x)) for x in parts[1:]]
            if not vec_close(obs, mv, tol):
                self.ctx.mismatch(op, "model %r vs implementation %r" % (mv, obs), rp)


def angle_variants(rng, c, s):
    """the angle of the circle point (c,s), shifted by whole turns; (theta_passed, degrees_flag)"""
    base = math.atan2(float(s), float(c))
    k = rng.choice([0, 0, 1, -1, 2, -2])
    th = base + 2 * math.pi * k
    if rng.random() < 0.5:
        return math.degrees(th), True
    return th, False


def rot_cases(run, rng, n):
    import numpy as np
    from menpo.transform import Rotation
    ctx = run.ctx
    for _ in range(n):
        c, s = common.rat_circle(rng)
        th, deg = angle_variants(rng, c, s)
        nontriv = c != 0 and s != 0
        rp = {"cos": str(c), "sin": str(s), "theta": th, "degrees": deg}
        # contract of the numeric externals
        tr = math.radians(th) if deg else th
        ctx.check(close(math.cos(tr), c) and close(math.sin(tr), s), "C20/contract", "trig",
                  "math.cos/sin do not return the circle point for the generated angle", rp)
        # 2-D
        site = "C20/init_from_2d_ccw_angle"
        ctx.case(("rot2", c, s, th, deg), nontrivial=nontriv, sample=dict(rp, constructor="init_from_2d_ccw_angle"))
        ctx.count("rot2:" + ("deg" if deg else "rad"))
        try:
            r = Rotation.init_from_2d_ccw_angle(th, degrees=deg)
            m = r.h_matrix
            e0 = r.apply(np.array([[1.0, 0.0]]))[0]
            e1 = r.apply(np.array([[0.0, 1.0]]))[0]
            ctx.check(vec_close(e0, [c, s]) and vec_close(e1, [-s, c]), site, "wrong-sense",
                      "e0 -> %r, e1 -> %r; a counter-clockwise rotation by the signed angle gives (%s,%s), (%s,%s)" % (
                          e0.tolist(), e1.tolist(), float(c), float(s), float(-s), float(c)), rp)
            run.ask("rot2", "%s %s" % (fq(c), fq(s)), [m[0, 0], m[0, 1], m[0, 2], m[1, 0], m[1, 1], m[1, 2]], rp)
            # axis and angle
            ax, ang = r.axis_and_angle_of_rotation()
            ok = close(math.cos(ang), c) and close(math.sin(ang), s)
            if not ok:
                lost = close(math.cos(ang), c) and close(math.sin(ang), -s) and s < 0
                ctx.fail("C20/axis_angle_2d", "sign-lost" if lost else "wrong-angle",
                         "2-D axis_and_angle_of_rotation reports %+.6f rad for the rotation by %+.6f rad%s" % (
                             ang, math.atan2(float(s), float(c)),
                             " (the sign of a clockwise rotation is lost: arccos of one component only)" if lost else ""), rp)
            run.ask("axis2", "%s %s" % (fq(c), fq(s)), [math.cos(ang), math.sin(ang), float(c), float(s)], rp, 1e-7)
            ctx.check(list(ax) == [0, 0, 1], "C20/axis_angle_2d", "axis", "2-D axis is %r" % (list(ax),), rp)
        except Exception as e:
            ctx.fail(site, "raises", "raised %s: %s" % (type(e).__name__, e), rp)
        # 3-D about each axis
        for axn, fix, a, b in (("x", 0, 1, 2), ("y", 1, 2, 0), ("z", 2, 0, 1)):
            site = "C20/init_from_3d_ccw_angle_around_" + axn
            ctx.case(("rot3", axn, c, s, th, deg), nontrivial=nontriv)
            ctx.count("rot3" + axn)
            try:
                r = getattr(Rotation, "init_from_3d_ccw_angle_around_" + axn)(th, degrees=deg)
                eye = np.eye(3)
                img = r.apply(eye)   # row i = image of e_i
                want = np.zeros((3, 3))
                want[fix, fix] = 1.0
                want[a, a], want[a, b] = float(c), float(s)       # e_a -> c e_a + s e_b (right-handed about e_fix)
                want[b, a], want[b, b] = -float(s), float(c)
                ctx.check(bool(np.allclose(img, want, atol=1e-9)), site, "wrong-sense",
                          "images of the basis vectors %r; right-handed rotation about %s gives %r" % (
                              img.tolist(), axn, want.tolist()), dict(rp, axis=axn))
                run.ask("rot3", "%s %s %s" % (axn, fq(c), fq(s)), flat(r.linear_component), dict(rp, axis=axn))
            except Exception as e:
                ctx.fail(site, "raises", "raised %s: %s" % (type(e).__name__, e), dict(rp, axis=axn))


def rodrigues_np(a, c, s):
    import numpy as np
    a = np.asarray(a, dtype=float)
    K = np.array([[0, -a[2], a[1]], [a[2], 0, -a[0]], [-a[1], a[0], 0]])
    return c * np.eye(3) + s * K + (1 - c) * np.outer(a, a)


def axis_angle_3d_cases(run, rng, n):
    import numpy as np
    from menpo.transform import Rotation
    ctx = run.ctx
    site = "C20/axis_angle_3d"
    done = 0
    while done < n:
        a = rat_sphere(rng, 3)
        c, s = common.rat_circle(rng)
        if abs(s) < F(1, 10):     # the clause excludes the identity and half-turns
            continue
        done += 1
        # exact rational Rodrigues matrix
        K = [[0, -a[2], a[1]], [a[2], 0, -a[0]], [-a[1], a[0], 0]]
        R = [[(c if i == j else 0) + s * K[i][j] + (1 - c) * a[i] * a[j] for j in range(3)] for i in range(3)]
        Rf = np.array([[float(x) for x in row] for row in R])
        rp = {"axis": [str(x) for x in a], "cos": str(c), "sin": str(s), "matrix": Rf.tolist()}
        ctx.case(("aa3", tuple(a), c, s), nontrivial=True, sample=dict(rp, constructor="axis_and_angle_of_rotation 3D"))
        ctx.count("axis_angle_3d")
        np.random.seed(rng.randrange(2 ** 31))
        try:
            ax, ang = Rotation(Rf).axis_and_angle_of_rotation()
        except Exception as e:
            ctx.fail(site, "raises", "raised %s: %s" % (type(e).__name__, e), rp)
            continue
        if ax is None:
            ctx.fail(site, "no-axis", "no axis reported for a rotation that is neither the identity nor a half-turn", rp)
            continue
        back = rodrigues_np(ax, math.cos(ang), math.sin(ang))
        ctx.check(bool(np.allclose(back, Rf, atol=1e-7)), site, "does-not-reconstruct",
                  "axis %r and angle %+.6f do not reconstruct the rotation (max error %.2e)" % (
                      np.asarray(ax).tolist(), ang, float(np.abs(back - Rf).max())), rp)
        run.ask("rodrigues", "%s %s %s" % (" ".join(fq(float(x)) for x in ax), fq(math.cos(ang)), fq(math.sin(ang))),
                flat(Rf), rp, 1e-7)


def quaternion_cases(run, rng, n):
    import numpy as np
    from menpo.transform import Rotation
    ctx = run.ctx
    site = "C20/quaternion"
    for _ in range(n):
        q = rat_sphere(rng, 4)
        if q[0] < 0:
            q = [-x for x in q]
        if q[0] == 0:
            continue
        qf = np.array([float(x) for x in q])
        rp = {"q": [str(x) for x in q]}
        ctx.case(("quat", tuple(q)), nontrivial=sum(1 for x in q if x != 0) >= 2, sample=dict(rp, constructor="init_3d_from_quaternion"))
        ctx.count("quaternion")
        try:
            r = Rotation.init_3d_from_quaternion(qf)
            m = r.linear_component
            ctx.check(bool(np.allclose(m.dot(m.T), np.eye(3), atol=1e-9)) and close(np.linalg.det(m), 1.0), site,
                      "not-a-rotation", "matrix of a unit quaternion is not a proper rotation", rp)
            back = r.as_vector()
            ctx.check(vec_close(back, qf, 1e-7), site, "roundtrip",
                      "as_vector gives %r for the canonical unit quaternion %r" % (back.tolist(), qf.tolist()), rp)
            r2 = r.from_vector(back)
            ctx.check(bool(np.allclose(r2.h_matrix, r.h_matrix, atol=1e-7)), site, "roundtrip-matrix",
                      "from_vector(as_vector()) changes the rotation", rp)
            run.ask("quat", " ".join(fq(x) for x in q), flat(m), rp)
            run.ask("quatk", " ".join(fq(x) for x in q), [float(q[1]), float(q[2]), float(q[3]), float(q[0])], rp)
        except Exception as e:
            ctx.fail(site, "raises", "raised %s: %s" % (type(e).__name__, e), rp)


def about_centre_cases(run, rng, n):
    import numpy as np
    import menpo.transform as mt
    from menpo.shape import PointCloud, TriMesh
    from menpo.image import Image
    ctx = run.ctx
    for _ in range(n):
        d = rng.choice([2, 2, 2, 3])
        kind = rng.choice(["PointCloud", "TriMesh", "Image"]) if d == 2 else rng.choice(["PointCloud", "TriMesh"])
        npts = rng.randint(3, 7)
        pts = np.array([[common.dyadic(rng, 64, 2) for _ in range(d)] for _ in range(npts)])
        if kind == "PointCloud":
            obj = PointCloud(pts)
        elif kind == "TriMesh":
            obj = TriMesh(pts, trilist=np.array([[0, 1, 2]]))
        else:
            obj = Image.init_blank((rng.randint(2, 40), rng.randint(2, 40)))
        ctr = np.asarray(obj.centre(), dtype=float)
        op = rng.choice(["scale", "rotate", "shear", "affine"]) if d == 2 else rng.choice(["scale", "affine"])
        rp = {"object": kind, "n_dims": d, "centre": ctr.tolist(), "op": op,
              "points": pts.tolist() if kind != "Image" else list(obj.shape)}
        site = "C20/about_centre/" + op
        try:
            if op == "scale":
                k = common.dyadic(rng, 16, 2, nonzero=True)
                rp["factor"] = k
                t = mt.scale_about_centre(obj, k)
                plain = mt.UniformScale(k, d)
            elif op == "rotate":
                c, s = common.rat_circle(rng)
                th, deg = angle_variants(rng, c, s)
                rp.update(theta=th, degrees=deg)
                t = mt.rotate_ccw_about_centre(obj, th, degrees=deg)
                plain = mt.Rotation.init_from_2d_ccw_angle(th, degrees=deg)
            elif op == "shear":
                tp, ts = F(rng.randint(-8, 8), 4), F(rng.randint(-8, 8), 4)
                deg = rng.random() < 0.5
                phi, psi = math.atan(float(tp)), math.atan(float(ts))
                if deg:
                    phi, psi = math.degrees(phi), math.degrees(psi)
                rp.update(phi=phi, psi=psi, degrees=deg)
                t = mt.shear_about_centre(obj, phi, psi, degrees=deg)
                plain = mt.Affine.init_from_2d_shear(phi, psi, degrees=deg)
                ctx.check(vec_close(flat(plain.h_matrix), [1, float(tp), 0, float(ts), 1, 0, 0, 0, 1]), "C20/init_from_2d_shear",
                          "matrix", "shear matrix %r for tan(phi)=%s tan(psi)=%s" % (plain.h_matrix.tolist(), tp, ts), rp)
            else:
                h = np.eye(d + 1)
                h[:d, :d] = [[common.dyadic(rng, 8, 2) for _ in range(d)] for _ in range(d)]
                h[:d, :d] += 2 * np.eye(d)
                rp["h_matrix"] = h.tolist()
                plain = mt.Affine(h)
                t = mt.transform_about_centre(obj, plain)
        except Exception as e:
            ctx.fail(site, "raises", "raised %s: %s" % (type(e).__name__, e), rp)
            continue
        ctx.case(("about", kind, d, op, json.dumps(rp, sort_keys=True, default=str)), nontrivial=bool(np.any(ctr != 0)),
                 sample=rp)
        ctx.count("about:%s:%s:%dD" % (op, kind, d))
        got_c = t.apply(ctr[None, :])[0]
        ctx.check(vec_close(got_c, ctr), site, "centre-moves", "centre %r is mapped to %r" % (ctr.tolist(), got_c.tolist()), rp)
        v = np.array([[common.dyadic(rng, 32, 2) for _ in range(d)] for _ in range(4)])
        lhs = t.apply(ctr + v) - ctr
        rhs = plain.apply(v)
        ctx.check(bool(np.allclose(lhs, rhs, atol=1e-9 * (1 + np.abs(rhs).max()))), site, "offsets",
                  "offsets from the centre are not mapped by the plain transform", rp)
        ctx.check(isinstance(t, mt.Homogeneous) and not isinstance(t, mt.TransformChain), site, "not-single-matrix",
                  "result is a %s" % type(t).__name__, rp)
        pm = plain.h_matrix
        if d == 2:
            run.ask("about2", "%s %s %s" % (fq(ctr[0]), fq(ctr[1]), " ".join(fq(x) for x in flat(pm[:2, :]))),
                    flat(t.h_matrix[:2, :]), rp)
        else:
            run.ask("about3", "%s %s %s" % (" ".join(fq(x) for x in ctr), " ".join(fq(x) for x in flat(pm[:3, :3])),
                                            " ".join(fq(x) for x in pm[:3, 3])),
                    flat(t.h_matrix[:3, :3]) + [float(x) for x in t.h_matrix[:3, 3]], rp)


def scale_cases(run, rng, n):
    import numpy as np
    import menpo.transform as mt
    ctx = run.ctx
    site = "C20/Scale"
    for _ in range(n):
        d = rng.choice([2, 3])
        mode = rng.choice(["equal", "different", "zero", "scalar", "scalar-zero"])
        rp = {"mode": mode, "n_dims": d}
        if mode in ("scalar", "scalar-zero"):
            k = 0.0 if mode == "scalar-zero" else common.dyadic(rng, 32, 3, nonzero=True)
            rp["factor"] = k
            args, model_q = (k, d), ("scalescalar", "%s %d" % (fq(k), d))
            ks = [k] * d
        else:
            k = common.dyadic(rng, 32, 3, nonzero=True)
            ks = [k] * d
            if mode == "different":
                i = rng.randrange(d)
                ks[i] = k + rng.choice([-1, 1]) * rng.choice([0.5, 1.0, 2.25])   # clearly different
                if ks[i] == 0:
                    ks[i] = k + 3.0
            if mode == "zero":
                ks[rng.randrange(d)] = 0.0
            rp["factors"] = ks
            container = rng.choice(["list", "ndarray", "tuple"])
            arg = ks if container == "list" else np.array(ks) if container == "ndarray" else tuple(ks)
            args, model_q = (arg,), ("scalefac", "%d %s" % (d, " ".join(fq(x) for x in ks)))
        ctx.case(("scale", mode, d, tuple(ks)), nontrivial=True, sample=rp)
        ctx.count("Scale:" + mode)
        try:
            t = mt.Scale(*args)
            kind = type(t).__name__
            sc = np.atleast_1d(t.scale).astype(float).tolist()
            obs = ("ok uniform %s %d" % (fq(sc[0]), t.n_dims)) if kind == "UniformScale" else \
                  ("ok nonuniform " + " ".join(fq(x) for x in sc)) if kind == "NonUniformScale" else "ok " + kind
        except ValueError:
            kind, obs = "ValueError", "err"
        except Exception as e:
            kind, obs = type(e).__name__, "exc"
        want = "ValueError" if "zero" in mode else "NonUniformScale" if mode == "different" else "UniformScale"
        ctx.check(kind == want, site, "wrong-kind", "Scale(%r) gives %s, expected %s" % (args, kind, want), rp)
        if kind == want and kind != "ValueError":
            pts = np.array([[1.0] * d, [common.dyadic(rng, 8, 1) for _ in range(d)]])
            ctx.check(bool(np.allclose(t.apply(pts), pts * np.array(ks))), site, "wrong-map", "scale does not multiply by the factors", rp)
        run.ask(model_q[0], model_q[1], obs, rp)


def tcoords_cases(run, rng, n):
    import numpy as np
    import menpo.transform as mt
    ctx = run.ctx
    site = "C20/tcoords"
    for _ in range(n):
        h, w = rng.randint(2, 64), rng.randint(2, 64)
        rp = {"shape": [h, w]}
        ctx.case(("tcoords", h, w), nontrivial=h != w, sample=rp)
        ctx.count("tcoords")
        try:
            t = mt.tcoords_to_image_coords((h, w))
            ti = mt.image_coords_to_tcoords((h, w))
        except Exception as e:
            ctx.fail(site, "raises", "raised %s: %s" % (type(e).__name__, e), rp)
            continue
        corners = np.array([[0.0, 0.0], [0.0, 1.0], [1.0, 1.0], [1.0, 0.0]])
        want = np.array([[h - 1, 0], [0, 0], [0, w - 1], [h - 1, w - 1]], dtype=float)
        got = t.apply(corners)
        ctx.check(bool(np.allclose(got, want, atol=1e-9)), site, "corners",
                  "unit-square corners map to %r, corner pixels (vertical axis flipped) are %r" % (got.tolist(), want.tolist()), rp)
        p = np.array([[rng.randint(0, 16) / 16.0, rng.randint(0, 16) / 16.0] for _ in range(4)])
        ctx.check(bool(np.allclose(ti.apply(t.apply(p)), p, atol=1e-9)) and
                  bool(np.allclose(t.apply(ti.apply(want)), want, atol=1e-9)), site, "not-inverse",
                  "the two transforms are not mutual inverses", rp)
        run.ask("tcoords", "%d %d" % (h, w), flat(t.h_matrix[:2, :]) + flat(ti.h_matrix[:2, :]), rp)
    # a side of length 1: the scale is zero and must be refused
    for shape in ((1, 5), (7, 1)):
        ctx.case(("tcoords-degenerate", shape), nontrivial=True)
        try:
            mt.tcoords_to_image_coords(shape)
            ok = False
        except ValueError:
            ok = True
        except Exception:
            ok = False
        ctx.check(ok, site, "degenerate-accepted", "image shape %r (zero scale) is not refused with ValueError" % (shape,), {"shape": list(shape)})
        run.ask("tcoords", "%d %d" % shape, "err", {"shape": list(shape)})


def explore(run, k):
    rng = run.ctx.rng
    rot_cases(run, rng, 40 * k)
    axis_angle_3d_cases(run, rng, 30 * k)
    quaternion_cases(run, rng, 30 * k)
    about_centre_cases(run, rng, 60 * k)
    scale_cases(run, rng, 40 * k)
    tcoords_cases(run, rng, 20 * k)


def search(ctx):
    run_ = Run(ctx)
    before = ctx.evaluations
    explore(run_, 6)
    ctx.searched += ctx.evaluations - before
    return bool(ctx.failures)


def run(ctx):
    common.prepare_lean(ctx, PROP, IMPORTS, THEOREMS)
    r = Run(ctx)
    explore(r, ctx.n(1, 12))
    r.settle()
    return ctx.finish(search)


def replay(ctx, path):
    data = json.load(open(path))
    print(json.dumps(data, indent=1)[:3000])
    ctx2 = common.Ctx(PROP, "quick", int(data.get("seed", 0)))
    return run(ctx2)
