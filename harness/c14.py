"""C14 - graphs, trees and their queries agree with the edges they were built from (DESIGN.md section 6, C14).

Three parties per case:
  * the implementation: the real menpo graph classes (abstract and point-carrying), built from edge
    lists, dense or sparse adjacency matrices;
  * the property oracle: plain python sets / textbook algorithms (union-find, Kahn, Dijkstra, Prim, simple
    path enumeration) written here, independent of the Lean model;
  * the Lean model (`Core/C14Graph.lean`) through the line driver.
scipy's csgraph results that menpo post-processes (distance / predecessor rows, BFS / DFS predecessors, the
listing of the breadth-first tree) are fetched by the harness with the same calls and handed to the model as
contract parameters; the contract itself is checked against the model's Bellman-Ford on every case.
"""
import heapq
import itertools
import json

import numpy as np

from . import common

PROP = "C14"
INFO = dict(
    technique="Lean 4 proof (general theorems by induction + kernel-decided tables over the property's two "
              "exhaustive small domains) + exhaustive/random model-implementation correspondence on the real classes",
    level_text="Theorems over an executable model of menpo/shape/graph.py: edge list -> adjacency reports exactly the "
               "edge set (each undirected edge once, symmetric); neighbours/children/parents/isolated/adjacency "
               "list/edge test consistent; masking = induced subgraph renumbered in order with points following; "
               "tree parent/children/depth/leaf relations; find_all_paths = exactly the simple routes; Bellman-Ford "
               "reference distances sound and optimal; the reconstructed shortest route weighs d(start,end) under "
               "scipy's predecessor contract; the recursive DFS cycle detector, is_tree and the Tree constructor "
               "agree with reference algorithms on ALL 1+2+8+64+1024 undirected graphs on <=5 vertices and ALL "
               "1+4+64+4096 loop-free digraphs on <=4 vertices (decide +kernel, 24 chunk files).  The model is tied "
               "to /repo by running every graph of both small domains (every mask, root, start/end pair) and "
               "random graphs/trees/weighted graphs up to 40 vertices on the real classes and diffing every "
               "observable against the Lean driver; an independent python oracle decides the property.",
    level_note="Trusted: Lean kernel; axioms propext/Classical.choice/Quot.sound; the Python harness and the driver's "
               "parser; scipy.sparse.csgraph (shortest_path, breadth/depth_first_order, breadth_first_tree, "
               "connected_components, minimum_spanning_tree) as contract parameters whose outputs are validated "
               "against the model's reference algorithms on every case; scipy.sparse indexing.",
    rule="a case is one (graph, operation, arguments) evaluation on the real classes; distinct = distinct "
         "(kind, n, stored entries, operation, arguments); non-trivial = the graph has at least one edge",
    partial=["unbounded correctness of the DFS cycle detector is not proved (proved for every graph of the two "
             "small domains, which is the property's quantifier; larger graphs: correspondence + oracle)",
             "minimum spanning trees: the model's Kruskal reference has no optimality theorem (decided by the python "
             "Prim oracle and the model's Kruskal both agreeing with scipy on every case)",
             "PointTree.from_mask component pruning: model + correspondence + oracle, no theorem",
             "find_shortest_path cost, find_shortest_path(v,v) and find_path(v,v) are recorded known findings (pinned "
             "by test_find_shortest_path / test_find_path): refuted by witness in Lean, the model carries the coded "
             "formula, the repaired statement is shortest_route_weight_is_distance",
             "quick tier samples masks / start-end pairs per small graph (every graph, every root of every candidate "
             "tree and every mask of every arborescence are always run); the thorough tier runs every combination"],
    assumptions=["edge weights are positive integers (exact in float64) except for trees, whose edges also get "
                 "negative and mixed-sign integer weights (oracle only: the Lean model carries natural-number weights)",
                 "a single-vertex Tree is outside menpo's Tree domain by design ('a tree cannot have isolated "
                 "vertices'); minimum spanning trees are only defined for connected graphs"],
    design_ref="DESIGN.md section 6, C14")
IMPORTS = ["MenpoModel.Props.C14"]
_T = "MenpoModel.C14."
THEOREMS = [_T + t for t in [
    "directed_edges_exact", "undirected_edges_once_symmetric",
    "neighbours_iff_isEdge", "children_iff_parents", "neighbours_symmetric", "isolated_iff_no_incident_edge",
    "adjacencyList_rows", "edge_test_iff_in_edges",
    "mask_induced", "mask_points_follow", "fromMask_spec",
    "tree_parent_children_inverse", "tree_depth_parent", "tree_leaf_iff_no_children",
    "hasCycles_correct_small_undirected", "hasCycles_correct_small_directed",
    "isTree_directed_coded_refuted", "isTree_spec_small_directed", "treeCtor_spec_small",
    "treeCompareCoded_order_sensitive", "treeCompareCoded_empty_broadcast",
    "allPaths_exactly_simple_routes",
    "shortest_path_cost_coded", "shortest_path_cost_refuted", "shortest_path_self_refuted",
    "shortest_route_weight_is_distance", "reference_distance_correct",
]]

S_COST = "C14/find_shortest_path.cost/start!=end"
P_COST = "cost=sum_{k<len-1}d(start,path[k])"
S_SELF = "C14/find_shortest_path/start=end"
P_SELF = "([],inf)"
S_FPSELF = "C14/find_path/start=end"
P_FPSELF = "[]"
INF = float("inf")


# ----------------------------------------------------------------------------- plain graphs (harness side)

class G(object):
    """kind 'U'|'D', n, w: {(i, j): positive int}; for 'U' both orientations are present"""

    def __init__(self, kind, n, w):
        self.kind, self.n, self.w = kind, n, dict(w)
        self.directed = kind == "D"
        self.out = [[] for _ in range(n)]
        self.inn = [[] for _ in range(n)]
        for (i, j) in sorted(self.w):
            self.out[i].append(j)
            self.inn[j].append(i)

    @staticmethod
    def undirected(n, pairs, weights=None):
        w = {}
        for k, (a, b) in enumerate(pairs):
            x = 1 if weights is None else weights[k]
            w[(a, b)] = x
            w[(b, a)] = x
        return G("U", n, w)

    @staticmethod
    def directed_(n, pairs, weights=None):
        return G("D", n, {(a, b): (1 if weights is None else weights[k]) for k, (a, b) in enumerate(pairs)})

    def edge_set(self):
        if self.directed:
            return set(self.w)
        return set((i, j) for (i, j) in self.w if i <= j)

    def wire(self):
        ks = sorted(self.w)
        return "%s %d %d %s" % (self.kind, self.n, len(ks), " ".join("%d %d %d" % (i, j, self.w[(i, j)]) for i, j in ks))

    def key(self):
        return (self.kind, self.n, tuple(sorted(self.w.items())))

    def dense(self):
        a = np.zeros((self.n, self.n), dtype=int)
        for (i, j), x in self.w.items():
            a[i, j] = x
        return a

    def unweighted(self):
        return G(self.kind, self.n, {k: 1 for k in self.w})

    def masked(self, mask):
        keep = [v for v in range(self.n) if mask[v]]
        rk = {v: i for i, v in enumerate(keep)}
        return G(self.kind, len(keep), {(rk[i], rk[j]): x for (i, j), x in self.w.items() if mask[i] and mask[j]}), keep

    def py(self, cls=None, point=False):
        """runnable construction snippet for replays"""
        cls = cls or (("Point" if point else "") + ("DirectedGraph" if self.directed else "UndirectedGraph"))
        s = "import numpy as np; from menpo.shape import *; A = np.zeros((%d, %d), dtype=int); " % (self.n, self.n)
        s += "".join("A[%d, %d] = %d; " % (i, j, x) for (i, j), x in sorted(self.w.items()))
        if point:
            s += "P = np.arange(%d, dtype=float).reshape(%d, 2); g = %s(P, A)" % (2 * self.n, self.n, cls)
        else:
            s += "g = %s(A)" % cls
        return s

    def rp(self, **kw):
        d = {"kind": self.kind, "n": self.n, "entries": [[i, j, x] for (i, j), x in sorted(self.w.items())],
             "construct": self.py()}
        d.update(kw)
        return d

    @staticmethod
    def from_rp(d):
        return G(d["kind"], d["n"], {(i, j): x for i, j, x in d["entries"]})


# ----------------------------------------------------------------------------- reference algorithms (oracle)

def components(g):
    """labels of the weakly connected components"""
    lab = list(range(g.n))

    def find(x):
        while lab[x] != x:
            lab[x] = lab[lab[x]]
            x = lab[x]
        return x
    for (i, j) in g.w:
        a, b = find(i), find(j)
        if a != b:
            lab[a] = b
    return [find(v) for v in range(g.n)]


def ref_cycle(g):
    if g.directed:  # Kahn: a digraph is acyclic iff it can be peeled completely
        indeg = [len(g.inn[v]) for v in range(g.n)]
        todo = [v for v in range(g.n) if indeg[v] == 0]
        seen = 0
        while todo:
            v = todo.pop()
            seen += 1
            for c in g.out[v]:
                indeg[c] -= 1
                if indeg[c] == 0:
                    todo.append(c)
        return seen != g.n
    m = len(g.edge_set())
    return m + len(set(components(g))) > g.n


def ref_tree_undirected_reading(g):
    """the underlying undirected graph is a tree (connected, n-1 undirected edges, no antiparallel pair / loop)"""
    und = set((min(i, j), max(i, j)) for (i, j) in g.w)
    simple = all(i != j for (i, j) in g.w) and (not g.directed or len(und) == len(g.w))
    return simple and len(set(components(g))) == 1 and len(und) == g.n - 1


def ref_arborescence(g, r):
    if not (0 <= r < g.n) or g.inn[r]:
        return False
    if any(len(g.inn[v]) != 1 for v in range(g.n) if v != r):
        return False
    seen, todo = {r}, [r]
    while todo:
        v = todo.pop()
        for c in g.out[v]:
            if c not in seen:
                seen.add(c)
                todo.append(c)
    return len(seen) == g.n


def dijkstra(g, s):
    d = [INF] * g.n
    d[s] = 0
    h = [(0, s)]
    while h:
        x, v = heapq.heappop(h)
        if x > d[v]:
            continue
        for c in g.out[v]:
            y = x + g.w[(v, c)]
            if y < d[c]:
                d[c] = y
                heapq.heappush(h, (y, c))
    return d


def simple_paths(g, s, t):
    res = []

    def go(v, path):
        if v == t:
            res.append(tuple(path))
            return
        for c in g.out[v]:
            if c not in path:
                go(c, path + [c])
    if 0 <= s < g.n:
        go(s, [s])
    elif s == t:
        res.append((s,))
    return res


def route_weight(g, path):
    tot = 0
    for a, b in zip(path, path[1:]):
        if (a, b) not in g.w:
            return None
        tot += g.w[(a, b)]
    return tot


def prim_weight(g):
    seen = {0}
    h = [(g.w[(0, c)], c) for c in g.out[0]]
    heapq.heapify(h)
    tot = 0
    while h:
        x, v = heapq.heappop(h)
        if v in seen:
            continue
        seen.add(v)
        tot += x
        for c in g.out[v]:
            if c not in seen:
                heapq.heappush(h, (g.w[(v, c)], c))
    return tot if len(seen) == g.n else None


# ----------------------------------------------------------------------------- implementation runner

def points_for(n, dims=2):
    return np.array([[(3 * i + 1) * 0.5, 7.0 - 0.25 * i * i, 1.0 + i][:dims] for i in range(n)], dtype=float)


def build(g, variant, point, rng=None):
    """the real menpo object; variant: edges | dense | csr"""
    from scipy.sparse import csr_matrix
    from menpo import shape as ms
    cls = getattr(ms, ("Point" if point else "") + ("DirectedGraph" if g.directed else "UndirectedGraph"))
    if variant == "edges":
        es = sorted(g.edge_set())
        if rng is not None and es:
            if not g.directed:  # any orientation, duplicates allowed: they collapse
                es = [(b, a) if rng.random() < 0.4 else (a, b) for a, b in es]
                es += [rng.choice(es) for _ in range(rng.randint(0, 2))]
                es += [(b, a) for a, b in es[:rng.randint(0, 2)]]
            rng.shuffle(es)
        arr = np.array(es, dtype=int) if es else (None if rng is None or rng.random() < 0.5 else np.zeros((0, 2), dtype=int))
        if point:
            return cls.init_from_edges(points_for(g.n), arr)
        return cls.init_from_edges(arr, g.n)
    a = g.dense()
    if variant == "csr":
        a = csr_matrix(a)
    if point:
        return cls(points_for(g.n), a)
    return cls(a)


def ints(xs):
    return [int(x) for x in xs]


def fl(xs):
    xs = list(xs)
    return ",".join(str(int(x)) for x in xs) if xs else "-"


def fll(rows):
    return "|".join(fl(r) for r in rows)


def fe(es):
    es = list(es)
    return ",".join("%d-%d" % (a, b) for a, b in es) if es else "-"


def fo(x):
    return "N" if x is None else str(int(x))


def guarded(f, *a, **k):
    """('ok', value) | ('err', exception type name); ValueError is the documented refusal"""
    try:
        return "ok", f(*a, **k)
    except ValueError:
        return "err", "ValueError"
    except Exception as e:  # any other exception type is a failure of the call, reported by the oracle
        return "exc", type(e).__name__


def through_menpo(e):
    """did the exception pass through menpo code (then the implementation raised it; otherwise it is a harness bug)"""
    import os
    root = os.path.realpath(common.REPO) + os.sep
    tb = e.__traceback__
    while tb is not None:
        if os.path.realpath(tb.tb_frame.f_code.co_filename).startswith(root):
            return True
        tb = tb.tb_next
    return False


def build_checked(ctx, g, variant, point):
    return build(g, variant, point)


def safely(ctx, f, *a, **k):
    """run one check; an exception raised inside the implementation where the property needs an answer is an
    oracle failure with a replay, never a harness crash"""
    try:
        return f(ctx, *a, **k)
    except common.Infra:
        raise
    except Exception as e:
        if not through_menpo(e):
            raise
        g = next((x for x in a if isinstance(x, G)), None)
        rp = g.rp() if g is not None else {}
        rp["check"] = f.__name__
        rp["args"] = [x if isinstance(x, (int, str, bool, tuple, list)) else type(x).__name__ for x in a if not isinstance(x, (G, Batch))]
        ctx.fail("C14/%s/exception" % f.__name__, "raises:" + type(e).__name__,
                 "%s: the implementation raised %s: %s" % (f.__name__, type(e).__name__, str(e)[:160]), rp)
        return None


# ----------------------------------------------------------------------------- the per-graph checks

class Batch(object):
    """collects driver requests and the implementation's observation to compare with"""

    def __init__(self):
        self.lines = []
        self.expect = {}   # id -> (op, impl string or callable(reply) -> problem text | None, replay)

    def add(self, op, args, impl, replay):
        if "-" in args:
            # a negative edge weight (vertex ids are never negative): the Lean graph model carries natural-number
            # weights, so such graphs are judged by the oracle on the real code only
            self.skipped_negative = getattr(self, "skipped_negative", 0) + 1
            return
        cid = "q%d" % len(self.lines)
        self.lines.append("%s %s %s" % (cid, op, args))
        self.expect[cid] = (op, impl, replay)


def check_basic(ctx, b, g, variant, point, rng=None, full=True):
    """queries of one graph on the real class vs the oracle; returns the object"""
    site = "C14/queries"
    rp = g.rp(variant=variant, point=point, call="g.edges, g.get_adjacency_list(), g.isolated_vertices(), g.has_cycles(), g.is_tree(), "
              + ("g.children(v), g.parents(v)" if g.directed else "g.neighbours(v)") + ", g.is_edge(u, v)")
    st, obj = guarded(build, g, variant, point, rng)
    ctx.case(("basic", g.key(), variant, point), nontrivial=bool(g.w),
             sample={"graph": g.wire(), "op": "basic queries", "class": type(obj).__name__ if st == "ok" else st})
    ctx.count("basic:%s:%s:%s" % (g.kind, variant, "point" if point else "abstract"))
    if st != "ok":
        ctx.fail("C14/construct", "raises:" + str(obj), "constructing the graph raised %s" % obj, rp)
        return None
    n = g.n
    exp_edges = g.edge_set()
    ed = [tuple(ints(e)) for e in obj.edges.tolist()] if obj.edges.size else []
    ned = ed if g.directed else [tuple(sorted(e)) for e in ed]   # the orientation of a reported undirected pair is free
    ctx.check(set(ned) == exp_edges and len(ned) == len(exp_edges) and obj.n_edges == len(exp_edges), site, "edges",
              "edges %r, built from %r" % (sorted(ed), sorted(exp_edges)), rp)
    ctx.check(obj.n_vertices == n and list(obj.vertices) == list(range(n)), site, "vertices", "n_vertices/vertices", rp)
    A = obj.adjacency_matrix
    if not g.directed:
        ctx.check((A != A.T).nnz == 0, site, "asymmetric", "adjacency of an undirected graph is not symmetric", rp)
    adj = [sorted(ints(r)) for r in obj.get_adjacency_list()]
    ctx.check(adj == [sorted(g.out[v]) for v in range(n)], site, "adjacency-list",
              "adjacency list %r vs edges %r" % (adj, sorted(exp_edges)), rp)
    par = []
    vs = range(n) if full or rng is None or n <= 2 else sorted(rng.sample(range(n), 2))   # quick: 2 seeded vertices
    for v in vs:
        if g.directed:
            ch = sorted(ints(obj.children(v)))
            pa = sorted(ints(obj.parents(v)))
            ctx.check(ch == sorted(g.out[v]) and obj.n_children(v) == len(ch), site, "children",
                      "children(%d) = %r" % (v, ch), dict(rp, vertex=v))
            ctx.check(pa == sorted(g.inn[v]) and obj.n_parents(v) == len(pa), site, "parents",
                      "parents(%d) = %r" % (v, pa), dict(rp, vertex=v))
            par.append(pa)
        else:
            nb = sorted(ints(obj.neighbours(v)))
            ctx.check(nb == sorted(g.out[v]) and obj.n_neighbours(v) == len(nb), site, "neighbours",
                      "neighbours(%d) = %r" % (v, nb), dict(rp, vertex=v))
            par.append(nb)
        for u in (range(n) if full or rng is None else [rng.randrange(n)]):
            ie = bool(obj.is_edge(v, u))
            ctx.check(ie == ((v, u) in g.w), site, "is_edge", "is_edge(%d,%d) = %r" % (v, u, ie), dict(rp, pair=[v, u]))
    iso = sorted(ints(obj.isolated_vertices()))
    exp_iso = [v for v in range(n) if not g.out[v] and not g.inn[v]]
    ctx.check(iso == exp_iso and obj.has_isolated_vertices() == bool(exp_iso), site, "isolated",
              "isolated %r expected %r" % (iso, exp_iso), rp)
    for bad in (-1, n):
        st2, _ = guarded(obj.is_edge, 0, bad)
        ctx.check(st2 == "err", site, "vertex-check", "is_edge(0,%d) did not raise ValueError" % bad, rp)
    # cycle / tree tests
    cyc = bool(obj.has_cycles())
    rc = ref_cycle(g)
    ctx.check(cyc == rc, "C14/has_cycles", "detector!=reference",
              "has_cycles() = %r, reference (%s) = %r" % (cyc, "Kahn" if g.directed else "cyclomatic number", rc), rp)
    it = bool(obj.is_tree())
    und_tree = ref_tree_undirected_reading(g)
    oracle_tree_ok = True
    if not g.directed:
        oracle_tree_ok = ctx.check(it == und_tree, "C14/is_tree/undirected", "is_tree!=connected-acyclic",
                                   "is_tree() = %r, connected and acyclic = %r" % (it, und_tree), rp)
    else:
        arb = any(ref_arborescence(g, r) for r in range(n))
        if it and not und_tree:
            oracle_tree_ok = False
            ctx.fail("C14/is_tree/directed", "accepts-non-tree",
                     "DirectedGraph.is_tree() is True although the underlying graph is not a tree "
                     "(disconnected or with an undirected cycle)", rp)
        if arb and not it:
            oracle_tree_ok = False
            ctx.fail("C14/is_tree/directed", "rejects-arborescence", "is_tree() is False for a rooted tree", rp)
    impl = "ok edges=%s;adj=%s;iso=%s;" % (fe(sorted(ed)), fll(adj), fl(iso))

    def cmp(reply, impl=impl, it=it, ok=oracle_tree_ok, directed=g.directed, vs=list(vs), par=par, cyc=cyc):
        if not reply.startswith(impl):
            return "model %r vs implementation %r" % (reply[:300], impl[:300])
        f = dict(x.split("=") for x in reply[3:].split(";"))
        mpar = f["par"].split("|")
        for v, pa in zip(vs, par):
            if mpar[v] != fl(pa):
                return "parents/neighbours of %d: model %s vs implementation %s" % (v, mpar[v], fl(pa))
        if f["cyc"] != str(int(cyc)):
            return "has_cycles: model %s vs implementation %d" % (f["cyc"], cyc)
        if not directed and f["sym"] != "1":
            return "model says the adjacency is not symmetric"
        if ok and f["tree"] != str(int(it)):
            return "is_tree: model %s vs implementation %d" % (f["tree"], it)
        return None
    b.add("basic", g.wire(), cmp, rp)
    return obj


def check_from_edges(ctx, b, rng, kind, n, es):
    """edge list (duplicates, both orientations, loops) -> adjacency, on the real converter"""
    from menpo import shape as ms
    directed = kind == "D"
    cls = ms.DirectedGraph if directed else ms.UndirectedGraph
    rp = {"kind": kind, "n": n, "edges": [list(e) for e in es],
          "construct": "import numpy as np; from menpo.shape import *; g = %s.init_from_edges(np.array(%r), %d)"
                       % (cls.__name__, [list(e) for e in es], n)}
    how = rng.choice(["array", "list"]) if es else rng.choice(["none", "empty"])
    arg = {"array": np.array(es, dtype=int), "list": [list(e) for e in es], "none": None,
           "empty": np.zeros((0, 2), dtype=int)}[how] if es or how in ("none", "empty") else None
    ctx.count("from_edges:%s:%s" % (kind, how))
    ctx.case(("fe", kind, n, tuple(es)), nontrivial=bool(es), sample={"op": "init_from_edges", "edges": es, "n": n})
    st, obj = guarded(cls.init_from_edges, arg, n)
    if st != "ok":
        ctx.fail("C14/init_from_edges", "raises:" + str(obj), "init_from_edges raised %s" % obj, rp)
        return
    exp = set(es) if directed else set((min(a, c), max(a, c)) for a, c in es)
    ed = [tuple(ints(e)) for e in obj.edges.tolist()] if obj.edges.size else []
    ned = ed if directed else [tuple(sorted(e)) for e in ed]
    ctx.check(set(ned) == exp and len(ned) == len(exp), "C14/init_from_edges", "edge-set",
              "edges %r from edge list %r" % (sorted(ed), es), rp)
    A = obj.adjacency_matrix
    if not directed:
        ctx.check((A != A.T).nnz == 0, "C14/init_from_edges", "asymmetric", "adjacency not symmetric", rp)
    dense = np.asarray(A.todense()).astype(int)
    impl = "ok edges=%s;w=%s" % (fe(sorted(ed)), fll(dense.tolist()))
    b.add("fe", "%s %d %d %s" % (kind, n, len(es), " ".join("%d %d" % e for e in es)), impl, rp)


def check_mask(ctx, b, g, obj, mask):
    """Point(Un)directedGraph.from_mask"""
    site = "C14/from_mask"
    rp = g.rp(point=True, mask=[int(x) for x in mask],
              call="g.from_mask(np.array(%r, dtype=bool))" % [bool(x) for x in mask])
    ctx.case(("mask", g.key(), tuple(mask)), nontrivial=bool(g.w), sample={"graph": g.wire(), "op": "from_mask", "mask": list(mask)})
    pts = obj.points.copy()
    st, h = guarded(obj.from_mask, np.array(mask, dtype=bool))
    eg, keep = g.masked(mask)
    if not keep:
        ctx.count("mask:all-false")
        ctx.check(st == "err", site, "empty-mask-accepted", "an all-False mask did not raise ValueError (%s)" % st, rp)
        impl = "err empty"
    else:
        ctx.count("mask:kept=%d/%d" % (len(keep), g.n) if g.n <= 5 else "mask:random")
        if st != "ok":
            ctx.fail(site, "raises:" + str(h), "from_mask raised %s" % h, rp)
            return
        ctx.check(type(h) is type(obj), site, "class", "from_mask returned %s" % type(h).__name__, rp)
        dense = np.asarray(h.adjacency_matrix.todense()).astype(int)
        ok = h.n_vertices == len(keep) and all(dense[i, j] == eg.w.get((i, j), 0)
                                                for i in range(len(keep)) for j in range(len(keep)))
        ctx.check(ok, site, "not-induced-subgraph",
                  "masked graph has entries %r, induced subgraph on %r is %r" % (dense.tolist(), keep, sorted(eg.w.items())), rp)
        if sum(mask) % 3 == 0:   # the masked object's own `edges` (its queries are covered by the basic checks)
            ed = set(tuple(ints(e) if g.directed else sorted(ints(e))) for e in h.edges.tolist()) if h.edges.size else set()
            ctx.check(ed == eg.edge_set(), site, "edges", "masked edges %r expected %r" % (sorted(ed), sorted(eg.edge_set())), rp)
        ctx.check(h.points.shape[0] == len(keep) and np.array_equal(h.points, pts[keep]), site, "points",
                  "points do not follow the surviving vertices", rp)
        ctx.check(np.array_equal(obj.points, pts), site, "receiver-changed", "from_mask changed the receiver's points", rp)
        impl = "ok n=%d;keep=%s;w=%s" % (len(keep), fl(keep), fll(dense.tolist()))
    b.add("mask", "%s %d %s" % (g.wire(), len(mask), " ".join(str(int(x)) for x in mask)), impl, rp)


def check_paths(ctx, b, g, obj, s, t, all_paths=True):
    """find_all_paths / n_paths / find_path (bfs, dfs)"""
    from scipy.sparse import csgraph
    rp = g.rp(start=s, end=t)
    ctx.case(("paths", g.key(), s, t), nontrivial=bool(g.w), sample={"graph": g.wire(), "op": "find_path/find_all_paths", "pair": [s, t]})
    ref = simple_paths(g, s, t) if all_paths else None
    if all_paths:
        st, ps = guarded(obj.find_all_paths, s, t)
        if st != "ok":
            ctx.fail("C14/find_all_paths", "raises:" + str(ps), "find_all_paths(%d,%d) raised %s" % (s, t, ps), rp)
        else:
            got = [tuple(ints(p)) for p in ps]
            ctx.check(sorted(got) == sorted(ref) and (s > t or obj.n_paths(s, t) == len(ref)), "C14/find_all_paths", "not-all-simple-paths",
                      "find_all_paths(%d,%d) = %r, simple paths are %r" % (s, t, got, ref), dict(rp, call="g.find_all_paths(%d, %d)" % (s, t)))
            b.add("paths", "%s %d %d" % (g.wire(), s, t), "ok " + ("|".join(fl(p) for p in got)), rp)
            ctx.count("n_paths:%s" % (len(ref) if len(ref) < 4 else "4+"))
    if not (0 <= s < g.n and 0 <= t < g.n):
        return
    reach = dijkstra(g.unweighted(), s)
    for method in ("bfs", "dfs"):
        call = "g.find_path(%d, %d, method=%r)" % (s, t, method)
        st, p = guarded(obj.find_path, s, t, method=method)
        if st != "ok":
            ctx.fail("C14/find_path", "raises:" + str(p), "%s raised %s" % (call, p), dict(rp, call=call))
            continue
        p = ints(p)
        if s == t:
            if p == [s]:
                pass
            elif p == []:
                ctx.fail(S_FPSELF, P_FPSELF, "find_path(%d,%d) is [] (the answer for 'no path'), the trivial path is [%d]" % (s, s, s),
                         dict(rp, call=call))
            else:
                ctx.fail(S_FPSELF, "other", "find_path(%d,%d) = %r" % (s, s, p), dict(rp, call=call))
        elif reach[t] == INF:
            ctx.check(p == [], "C14/find_path", "path-to-unreachable", "%s = %r but %d is unreachable" % (call, p, t), dict(rp, call=call))
        else:
            valid = (len(p) >= 2 and p[0] == s and p[-1] == t and len(set(p)) == len(p) and route_weight(g, p) is not None)
            ctx.check(valid, "C14/find_path", "not-a-path", "%s = %r is not a simple path of the graph" % (call, p), dict(rp, call=call))
            if method == "bfs" and valid:
                ctx.check(len(p) - 1 == reach[t], "C14/find_path", "bfs-not-fewest-edges",
                          "%s = %r has %d edges, fewest is %d" % (call, p, len(p) - 1, reach[t]), dict(rp, call=call))
        # correspondence of menpo's reconstruction loop, scipy's predecessor array as parameter
        cache = obj.__dict__.setdefault("_verif_pred", {})   # harness-side memo: the predecessor array depends on s only
        if (method, s) not in cache:
            f = csgraph.breadth_first_order if method == "bfs" else csgraph.depth_first_order
            cache[(method, s)] = f(obj.adjacency_matrix, s, directed=g.directed, return_predecessors=True)[1]
        pred = cache[(method, s)]
        b.add("fp", "%s %d %d %d %s" % (g.kind + " %d 0" % g.n, s, t, g.n, " ".join("N" if x < 0 else str(int(x)) for x in pred)),
              "ok path=" + fl(p), dict(rp, call=call))
        ctx.count("find_path:" + method)


def check_shortest(ctx, b, g, obj, s, t, algorithm="auto", unweighted=False):
    rp = g.rp(start=s, end=t, algorithm=algorithm, unweighted=unweighted,
              call="g.find_shortest_path(%d, %d, algorithm=%r, unweighted=%r)" % (s, t, algorithm, unweighted))
    ctx.case(("sp", g.key(), s, t, algorithm, unweighted), nontrivial=bool(g.w),
             sample={"graph": g.wire(), "op": "find_shortest_path", "pair": [s, t], "algorithm": algorithm})
    ctx.count("shortest:%s%s" % (algorithm, ":unweighted" if unweighted else ""))
    gw = g.unweighted() if unweighted else g
    st, res = guarded(obj.find_shortest_path, s, t, algorithm=algorithm, unweighted=unweighted)
    if st != "ok":
        ctx.fail("C14/find_shortest_path", "raises:" + str(res), "find_shortest_path raised %s" % res, rp)
        return
    path, cost = ints(res[0]), float(res[1])
    d = dijkstra(gw, s)
    if s == t:
        if path == [s] and cost == 0:
            pass
        elif path == [] and cost == INF:
            ctx.fail(S_SELF, P_SELF, "find_shortest_path(%d,%d) = ([], inf), the answer for 'no path'; expected ([%d], 0)" % (s, s, s), rp)
        else:
            ctx.fail(S_SELF, "other", "find_shortest_path(%d,%d) = (%r, %r)" % (s, s, path, cost), rp)
    elif d[t] == INF:
        ctx.check(path == [] and cost == INF, "C14/find_shortest_path.route", "path-to-unreachable",
                  "(%r, %r) returned although %d is unreachable from %d" % (path, cost, t, s), rp)
    else:
        rw = route_weight(gw, path)
        okr = len(path) >= 2 and path[0] == s and path[-1] == t and rw is not None and rw == d[t]
        ctx.check(okr, "C14/find_shortest_path.route", "route-not-shortest",
                  "route %r (weight %r) is not a shortest path, d(%d,%d) = %r" % (path, rw, s, t, d[t]), rp)
        if cost != d[t]:
            coded = sum(d[v] for v in path[:-1]) if okr else None
            pat = P_COST if coded is not None and cost == coded else "cost=other"
            ctx.fail(S_COST, pat, "find_shortest_path(%d,%d) returns cost %r for route %r; d(start,end) = %r"
                     % (s, t, cost, path, d[t]), rp)
        else:
            ctx.count("shortest:cost-right")
    # distances of find_all_shortest_paths against the reference, and the correspondence of the coded loop
    cache = obj.__dict__.setdefault("_verif_sp", {})   # harness-side memo of a pure call (one per graph, not per pair)
    if (algorithm, unweighted) not in cache:
        cache[(algorithm, unweighted)] = obj.find_all_shortest_paths(algorithm=algorithm, unweighted=unweighted)
    dist, pred = cache[(algorithm, unweighted)]
    ctx.check(all((dist[s, v] == d[v]) for v in range(g.n)), "C14/find_all_shortest_paths", "distance!=reference",
              "distances from %d are %r, Dijkstra gives %r" % (s, dist[s].tolist(), d), rp)
    drow = " ".join("N" if x == INF else str(int(x)) for x in dist[s])
    prow = " ".join("N" if x < 0 else str(int(x)) for x in pred[s])
    impl = "ok path=%s;cost=%s;ref=%s;contract=1" % (fl(path), "N" if cost == INF else str(int(cost)),
                                                    "N" if d[t] == INF else str(int(d[t])))
    b.add("sp", "%s %d %d %d %s %d %s" % (gw.wire(), s, t, g.n, drow, g.n, prow), impl, rp)


def check_tree_ctor(ctx, b, g, r, point, via):
    """Tree / PointTree constructor with checks; returns the tree or None"""
    from menpo import shape as ms
    cls = ms.PointTree if point else ms.Tree
    es = sorted(g.edge_set())
    arr = np.array(es, dtype=int) if es else None
    if via == "edges":
        args = (points_for(g.n), arr, r) if point else (arr, g.n, r)
        ctor = cls.init_from_edges
        call = ("PointTree.init_from_edges(P, np.array(%r), %d)" % ([list(e) for e in es], r) if point else
                "Tree.init_from_edges(np.array(%r), %d, %d)" % ([list(e) for e in es], g.n, r))
    else:
        args = (points_for(g.n), g.dense(), r) if point else (g.dense(), r)
        ctor = cls
        call = "%s(%sA, %d)" % (cls.__name__, "P, " if point else "", r)
    rp = g.rp(root=r, point=point, call=call)
    ctx.case(("tree", g.key(), r, point, via), nontrivial=bool(g.w), sample={"graph": g.wire(), "op": "Tree constructor", "root": r})
    st, t = guarded(ctor, *args)
    exp = g.n >= 2 and ref_arborescence(g, r)
    ok = True
    if st == "exc":
        ok = False
        ctx.fail("C14/Tree.__init__", "raises:" + str(t), "%s raised %s" % (call, t), rp)
    elif g.n >= 2 and (st == "ok") != exp:
        ok = False
        if exp:
            ctx.fail("C14/Tree.__init__", "rejects-valid-tree",
                     "the arborescence %r rooted at %d is refused with ValueError" % (es, r), rp)
        else:
            ctx.fail("C14/Tree.__init__", "accepts-non-tree",
                     "%r with root %d is accepted as a tree although it is not a tree rooted there" % (es, r), rp)
    ctx.count("tree-ctor:%s" % ("valid" if exp else "invalid"))
    if st != "ok":
        if ok:
            b.add("tree", "%s %d" % (g.wire(), r), lambda reply: None if reply.startswith("err") else
                  "model accepts the tree, implementation refuses", rp)
        return None
    # relations of an accepted tree (an exception inside a query is an oracle failure, not a harness crash)
    site = "C14/tree-relations"
    n = g.n
    pred, depth, leaves = [], [], []
    try:
        pred = [None if x is None else int(x) for x in t.predecessors_list]
        for v in range(n):
            sd, dv = guarded(t.depth_of_vertex, v)
            depth.append(int(dv) if sd == "ok" else None)
            if not exp:
                continue
            ch = ints(t.children(v))
            ctx.check(sd == "ok", site, "depth-raises", "depth_of_vertex(%d) raised %s" % (v, dv), dict(rp, vertex=v))
            pv = t.parent(v)
            ctx.check(all(t.parent(c) == v for c in ch) and (v == r or (pv is not None and v in ints(t.children(pv)))),
                      site, "parent-children", "parent/children are not inverse at vertex %d" % v, dict(rp, vertex=v))
            ctx.check((pv is None) == (v == r) and pv == pred[v], site, "parent", "parent(%d) = %r" % (v, pv), dict(rp, vertex=v))
            if sd == "ok" and pv is not None:
                ctx.check(dv == t.depth_of_vertex(pv) + 1, site, "depth",
                          "depth(%d) = %r is not depth(parent) + 1" % (v, dv), dict(rp, vertex=v))
            if sd == "ok" and v == r:
                ctx.check(dv == 0, site, "depth", "depth(root) = %r" % dv, dict(rp, vertex=v))
            ctx.check(bool(t.is_leaf(v)) == (len(ch) == 0), site, "leaf", "is_leaf(%d) inconsistent with children" % v, dict(rp, vertex=v))
        leaves = ints(t.leaves)
        if exp:
            ctx.check(leaves == [v for v in range(n) if not g.out[v]] and t.n_leaves == len(leaves), site, "leaves", "leaves = %r" % leaves, rp)
            if all(x is not None for x in depth):
                ctx.check(int(t.maximum_depth) == max(depth) and
                          all(ints(t.vertices_at_depth(k)) == [v for v in range(n) if depth[v] == k] and
                              t.n_vertices_at_depth(k) == depth.count(k) for k in range(max(depth) + 2)),
                          site, "depth-levels", "maximum_depth / vertices_at_depth inconsistent with depth_of_vertex", rp)
    except Exception as e:
        ok = False
        ctx.fail(site, "raises:" + type(e).__name__, "a tree query raised %s: %s" % (type(e).__name__, str(e)[:120]), rp)
    if ok:
        b.add("tree", "%s %d" % (g.wire(), r), "ok pred=%s;depth=%s;leaves=%s" % (
            ",".join(fo(x) for x in pred), ",".join(fo(x) for x in depth), fl(leaves)), rp)
    return t


def check_tree_mask(ctx, b, g, r, tree, mask):
    """PointTree.from_mask: what stays connected to the root, renumbered in order, root re-indexed"""
    site = "C14/PointTree.from_mask"
    rp = g.rp(root=r, mask=[int(x) for x in mask], point=True,
              call="PointTree(P, A, %d).from_mask(np.array(%r, dtype=bool))" % (r, [bool(x) for x in mask]))
    ctx.case(("tmask", g.key(), r, tuple(mask)), nontrivial=True, sample={"graph": g.wire(), "op": "PointTree.from_mask", "root": r, "mask": list(mask)})
    pts = tree.points.copy()
    st, h = guarded(tree.from_mask, np.array(mask, dtype=bool))
    if not mask[r]:
        ctx.count("tree-mask:root-removed")
        ctx.check(st == "err", site, "root-removal-accepted", "masking out the root did not raise ValueError (%s)" % st, rp)
        b.add("tmask", "%s %d %d %s" % (g.wire(), r, len(mask), " ".join(str(int(x)) for x in mask)),
              lambda reply: None if reply.startswith("err") else "model accepts a mask that removes the root", rp)
        return
    # survivors: kept vertices whose whole ancestor chain is kept
    par = {c: p for (p, c) in g.w}
    keep = []
    for v in range(g.n):
        x, ok = v, True
        while ok and x != r:
            ok = bool(mask[x])
            x = par[x]
        if ok and mask[v]:
            keep.append(v)
    rk = {v: i for i, v in enumerate(keep)}
    if len(keep) == 1:
        # only the root survives: menpo's Tree refuses single-vertex trees by design
        ctx.count("tree-mask:only-root-survives(%s)" % st)
        ctx.check(st != "exc", site, "raises:" + str(h), "from_mask raised %s" % h, rp)
        return
    ctx.count("tree-mask:kept=%d/%d" % (len(keep), g.n) if g.n <= 5 else "tree-mask:random")
    if st != "ok":
        ctx.fail(site, "raises:" + str(h), "from_mask raised %s for a mask that keeps the root and %d more connected vertices"
                 % (h, len(keep) - 1), rp)
        return
    exp_w = {(rk[p], rk[c]): x for (p, c), x in g.w.items() if p in rk and c in rk}
    dense = np.asarray(h.adjacency_matrix.todense()).astype(int)
    ok = (h.n_vertices == len(keep) and int(h.root_vertex) == rk[r] and
          all(dense[i, j] == exp_w.get((i, j), 0) for i in range(len(keep)) for j in range(len(keep))))
    ctx.check(ok, site, "not-root-component",
              "result has %d vertices, root %r, entries %r; expected the kept vertices connected to the root %r (root -> %d)"
              % (h.n_vertices, h.root_vertex, dense.tolist(), keep, rk[r]), rp)
    ctx.check(h.points.shape[0] == len(keep) and np.array_equal(h.points, pts[keep]), site, "points", "points do not follow", rp)
    ctx.check([None if x is None else int(x) for x in h.predecessors_list] ==
              [None if v == r else rk[par[v]] for v in keep], site, "predecessors", "predecessor list of the masked tree is stale", rp)
    b.add("tmask", "%s %d %d %s" % (g.wire(), r, len(mask), " ".join(str(int(x)) for x in mask)),
          "ok n=%d;root=%d;keep=%s;w=%s" % (len(keep), int(h.root_vertex), fl(keep), fll(dense.tolist())), rp)


def check_mst(ctx, b, g, obj, r, point):
    site = "C14/minimum_spanning_tree"
    rp = g.rp(root=r, point=point, call="g.minimum_spanning_tree(%d)" % r)
    ctx.case(("mst", g.key(), r, point), nontrivial=bool(g.w), sample={"graph": g.wire(), "op": "minimum_spanning_tree", "root": r})
    iso = [v for v in range(g.n) if not g.out[v]]
    st, t = guarded(obj.minimum_spanning_tree, r)
    if iso:
        ctx.count("mst:isolated-refused")
        ctx.check(st == "err", site, "isolated-accepted", "a graph with isolated vertices did not raise ValueError", rp)
        return
    connected = len(set(components(g))) == 1
    if not connected:
        ctx.count("mst:disconnected-skipped")
        return
    ctx.count("mst:connected")
    if st != "ok":
        ctx.fail(site, "raises:" + str(t), "minimum_spanning_tree raised %s" % t, rp)
        return
    dense = np.asarray(t.adjacency_matrix.todense())
    es = [(i, j) for i in range(g.n) for j in range(g.n) if dense[i, j] != 0]
    tg = G("D", g.n, {(i, j): int(dense[i, j]) for i, j in es})
    ctx.check(all((i, j) in g.w and dense[i, j] == g.w[(i, j)] for i, j in es), site, "edge-not-in-graph",
              "the tree has an edge or weight the graph does not have: %r" % es, rp)
    ctx.check(ref_arborescence(tg, r) and int(t.root_vertex) == r, site, "not-spanning-tree",
              "the result %r is not a spanning tree rooted at %d" % (es, r), rp)
    tot = int(sum(dense[i, j] for i, j in es))
    ref = prim_weight(g)
    ctx.check(tot == ref, site, "weight-not-minimal", "tree weight %r, minimum (Prim) %r" % (tot, ref), rp)
    if point:
        ctx.check(np.array_equal(t.points, obj.points), site, "points", "the spanning tree lost the points", rp)
    pl = [None if x is None else int(x) for x in t.predecessors_list]
    ctx.check(all((pl[v] is None) == (v == r) and (v == r or (pl[v], v) in tg.w) for v in range(g.n)), site, "predecessors",
              "predecessor list %r does not describe the tree" % pl, rp)
    b.add("mst", g.wire(), "ok %d %d 1" % (tot, g.n - 1), rp)


def check_predefined(ctx, rng):
    """graph_predefined.py: documented edge sets"""
    from menpo.shape import PointCloud, PointTree, PointUndirectedGraph, PointDirectedGraph, UndirectedGraph
    from menpo.shape import graph_predefined as gp
    site = "C14/graph_predefined"
    for n in (1, 2, 3, 5, 8):
        try:
            _predefined_n(ctx, rng, n, gp, PointCloud, PointTree, PointUndirectedGraph, PointDirectedGraph, UndirectedGraph, site)
        except Exception as e:
            ctx.fail(site, "raises:" + type(e).__name__, "a predefined-graph constructor or query raised %s" % type(e).__name__, {"n": n})


def _predefined_n(ctx, rng, n, gp, PointCloud, PointTree, PointUndirectedGraph, PointDirectedGraph, UndirectedGraph, site):
    if True:
        pc = PointCloud(points_for(n))
        ctx.case(("predefined", n), nontrivial=n > 1, sample={"op": "graph_predefined", "n": n})
        e = gp.empty_graph(pc)
        ctx.check(e.n_edges == 0 and e.n_vertices == n, site, "empty", "empty_graph has edges", {"n": n})
        c = gp.complete_graph(pc)
        ctx.check(set(tuple(sorted(e)) for e in c.edges.tolist()) == set(itertools.combinations(range(n), 2)) if n > 1 else c.n_edges == 0,
                  site, "complete", "complete_graph edges", {"n": n})
        ch = gp.chain_graph(pc, graph_cls=PointDirectedGraph, closed=False)
        ctx.check(set(map(tuple, ch.edges.tolist())) == set((i, i + 1) for i in range(n - 1)) if n > 1 else ch.n_edges == 0,
                  site, "chain", "chain_graph edges", {"n": n})
        if n >= 3:
            cc = gp.chain_graph(pc, graph_cls=PointUndirectedGraph, closed=True)
            ctx.check(set(tuple(sorted(e)) for e in cc.edges.tolist()) == set((min(i, (i + 1) % n), max(i, (i + 1) % n)) for i in range(n)),
                      site, "closed-chain", "closed chain_graph edges", {"n": n})
        if n >= 2:
            r = rng.randrange(n)
            st, s = guarded(gp.star_graph, pc, r, graph_cls=PointTree)
            if ctx.check(st == "ok", site, "star-raises", "star_graph(root=%d) on %d points raised %s" % (r, n, s if st != "ok" else ""), {"n": n, "root": r}):
                ctx.check(set(map(tuple, s.edges.tolist())) == set((r, v) for v in range(n) if v != r) and s.root_vertex == r,
                          site, "star", "star_graph edges", {"n": n, "root": r})
            su = gp.star_graph(pc, r, graph_cls=UndirectedGraph)
            ctx.check(set(tuple(sorted(e)) for e in su.edges.tolist()) == set((min(r, v), max(r, v)) for v in range(n) if v != r),
                      site, "star-undirected", "star_graph edges", {"n": n, "root": r})


# ----------------------------------------------------------------------------- generators

def pairs_u(n):
    return list(itertools.combinations(range(n), 2))


def pairs_d(n):
    return [(a, c) for a in range(n) for c in range(n) if a != c]


def small_domain():
    """every undirected graph on <= 5 and every loop-free digraph on <= 4 vertices (codes as in Lemmas/C14Small.lean)"""
    for n in range(1, 6):
        ps = pairs_u(n)
        for code in range(2 ** len(ps)):
            yield "U", n, code, G.undirected(n, [p for i, p in enumerate(ps) if code >> i & 1])
    for n in range(1, 5):
        ps = pairs_d(n)
        for code in range(2 ** len(ps)):
            yield "D", n, code, G.directed_(n, [p for i, p in enumerate(ps) if code >> i & 1])


def loop_domain():
    """every undirected / directed graph on <= 3 vertices in which self-loops may occur (at least one does)"""
    for n in range(1, 4):
        ps = [(i, j) for i in range(n) for j in range(i, n)]
        for code in range(2 ** len(ps)):
            es = [p for i, p in enumerate(ps) if code >> i & 1]
            if any(a == c for a, c in es):
                yield G.undirected(n, es)
        ps = [(i, j) for i in range(n) for j in range(n)]
        for code in range(2 ** len(ps)):
            es = [p for i, p in enumerate(ps) if code >> i & 1]
            if any(a == c for a, c in es):
                yield G.directed_(n, es)


def random_graph(rng, nmax=40, weighted=False, kind=None):
    kind = kind or rng.choice("UD")
    n = rng.randint(2, nmax) if rng.random() < 0.8 else rng.randint(1, 6)
    style = rng.choice(["sparse", "sparse", "forest", "dense", "cyclic"])
    ps = pairs_u(n) if kind == "U" else pairs_d(n)
    if style == "forest":
        perm = list(range(n))
        rng.shuffle(perm)
        es = [(perm[rng.randrange(i)], perm[i]) for i in range(1, n) if rng.random() < 0.85]
        if kind == "U":
            es = [(min(e), max(e)) for e in es]
        if rng.random() < 0.4 and n > 2:
            es.append(rng.choice(ps))
        es = sorted(set(es))
    else:
        p = {"sparse": 1.2 / max(n, 1), "dense": 0.5, "cyclic": 2.5 / max(n, 1)}[style]
        es = [e for e in ps if rng.random() < p]
    if rng.random() < 0.08:
        v = rng.randrange(n)
        es.append((v, v))  # a loop
    ws = [rng.randint(1, 9) for _ in es] if weighted else None
    return G.undirected(n, es, ws) if kind == "U" else G.directed_(n, es, ws)


def random_tree(rng, nmax=40, weighted=False):
    n = rng.randint(2, nmax)
    perm = list(range(n))
    rng.shuffle(perm)
    es = [(perm[rng.randrange(i)], perm[i]) for i in range(1, n)]
    ws = [rng.randint(1, 9) for _ in es] if weighted else None
    if weighted and rng.random() < 0.5:
        # negative and mixed-sign edge weights are legal (e.g. a maximum spanning tree of negated similarities)
        ws = [w * rng.choice([-1, -1, 1]) for w in ws]
    return G.directed_(n, es, ws), perm[0]


def random_connected_weighted(rng, nmax=40):
    n = rng.randint(2, nmax)
    perm = list(range(n))
    rng.shuffle(perm)
    es = set((min(perm[rng.randrange(i)], perm[i]), max(perm[rng.randrange(i)], perm[i])) for i in range(1, n))
    # the line above may join perm[i] to two different earlier vertices' labels; make sure it is connected
    es = set()
    for i in range(1, n):
        a, c = perm[rng.randrange(i)], perm[i]
        es.add((min(a, c), max(a, c)))
    for e in pairs_u(n):
        if rng.random() < 2.0 / n:
            es.add(e)
    es = sorted(es)
    return G.undirected(n, es, [rng.randint(1, 12) for _ in es])


def some_masks(rng, n, k):
    full = list(itertools.product([0, 1], repeat=n)) if n <= 5 else None
    if full is not None and (k is None or k >= len(full)):
        return full
    out = [tuple([1] * n), tuple([0] * n)]
    while len(out) < (k or 4):
        p = rng.choice([0.3, 0.6, 0.85])
        out.append(tuple(int(rng.random() < p) for _ in range(n)))
    return out


# ----------------------------------------------------------------------------- run

def settle(ctx, b):
    """one driver run for the batch; diff"""
    if not b.lines:
        return
    model = common.run_driver(PROP, b.lines)
    for cid, (op, impl, rp) in b.expect.items():
        reply = model[cid]
        ctx.count("model-op:" + op)
        if callable(impl):
            why = impl(reply)
        else:
            why = None if reply == impl else "model %r vs implementation %r" % (reply[:400], impl[:400])
        if why:
            ctx.mismatch(op, why, dict(rp, driver_line=b.lines[int(cid[1:])][:2000]))


def exhaustive(ctx, b, rng, deadline=None):
    """both small domains on the real classes.  thorough: every mask, every start/end pair, every root, both
    class variants.  quick: every graph (all queries, cycle/tree tests), every root for every graph with n-1
    edges, every mask of every arborescence, and per graph a seeded sample of 2 masks and 1 start/end pair."""
    import time
    quick = ctx.quick()
    for kind, n, code, g in small_domain():
        if deadline is not None and (time.time() > deadline or ctx.failures):
            return
        variant = ("edges", "dense", "csr")[(code + n) % 3]
        obj = safely(ctx, check_basic, b, g, variant, bool((code + n) % 2 == 0), rng, full=not quick)
        if obj is None:
            continue
        if not quick and code % 4 == 0:   # the other class variant / construction route
            safely(ctx, check_basic, b, g, ("dense", "csr", "edges")[(code + n) % 3], bool((code + n) % 2 == 1), rng)
        pobj = obj if hasattr(obj, "points") else safely(ctx, build_checked, g, "csr", True)
        if pobj is None:
            continue
        masks = some_masks(rng, n, None)
        if quick and n > 2:
            masks = rng.sample(masks, 2)
        for m in masks:
            safely(ctx, check_mask, b, g, pobj, m)
        prs = [(s, t) for s in range(n) for t in range(n)]
        if quick:
            prs = [rng.choice(prs)] + ([(rng.randrange(n),) * 2] if code % 8 == 0 else [])
        for s, t in prs:
            safely(ctx, check_paths, b, g, obj, s, t)
            safely(ctx, check_shortest, b, g, obj, s, t)
        if kind == "D":
            roots = range(n) if (not quick or len(g.w) == n - 1) else ([rng.randrange(n)] if code % 4 == 0 else [])
            for r in roots:
                t = safely(ctx, check_tree_ctor, b, g, r, True, "edges" if (code + r) % 2 else "matrix")
                if t is not None and ref_arborescence(g, r):
                    for m in some_masks(rng, n, None):
                        safely(ctx, check_tree_mask, b, g, r, t, m)
        elif g.w and (not quick or code % 2 == 0):
            safely(ctx, check_mst, b, g, obj, rng.randrange(n), hasattr(obj, "points"))


def with_loops(ctx, b, rng):
    for k, g in enumerate(loop_domain()):
        if ctx.quick() and g.n == 3 and g.directed and k % 3:
            continue
        ctx.count("loops-domain")
        safely(ctx, check_basic, b, g, ("dense", "csr")[k % 2], bool(k % 2), rng, full=not ctx.quick())


def randoms(ctx, b, rng, count):
    for k in range(count):
        what = k % 5
        if what == 0:      # queries + masks on a random graph
            g = random_graph(rng, weighted=rng.random() < 0.5)
            point = rng.random() < 0.6
            obj = safely(ctx, check_basic, b, g, rng.choice(["edges", "dense", "csr"]) if all(x == 1 for x in g.w.values()) and
                              not any(i == j for i, j in g.w) else rng.choice(["dense", "csr"]), point, rng)
            if obj is None:
                continue
            pobj = obj if point else safely(ctx, build_checked, g, "csr", True)
            if pobj is None:
                continue
            for m in some_masks(rng, g.n, 4):
                safely(ctx, check_mask, b, g, pobj, m)
        elif what == 1:    # edge lists with duplicates / both orientations / loops
            kind = rng.choice("UD")
            n = rng.randint(1, 12)
            es = [(rng.randrange(n), rng.randrange(n)) for _ in range(rng.randint(0, 2 * n))]
            es += [rng.choice(es) for _ in range(rng.randint(0, 3))] if es else []
            safely(ctx, check_from_edges, b, rng, kind, n, es)
        elif what == 2:    # paths and shortest paths on weighted graphs
            g = random_graph(rng, nmax=rng.choice([7, 7, 16, 28, 40]), weighted=True)
            obj = safely(ctx, build_checked, g, rng.choice(["dense", "csr"]), rng.random() < 0.5)
            if obj is None:
                continue
            for _ in range(3):
                s, t = rng.randrange(g.n), rng.randrange(g.n)
                safely(ctx, check_paths, b, g, obj, s, t, all_paths=g.n <= 7)
                safely(ctx, check_shortest, b, g, obj, s, t, rng.choice(["auto", "D", "BF", "J", "FW"]),
                               rng.random() < 0.25)
            v = rng.randrange(g.n)
            safely(ctx, check_shortest, b, g, obj, v, v)
        elif what == 3:    # trees: constructor, relations, masks; and non-trees
            g, r = random_tree(rng, weighted=rng.random() < 0.4)
            if rng.random() < 0.25:   # spoil it
                how = rng.choice(["extra", "flip", "root", "drop"])
                w = dict(g.w)
                if how == "extra":
                    w[rng.choice(pairs_d(g.n))] = 1
                elif how == "flip":
                    (a, c) = rng.choice(sorted(w))
                    w[(c, a)] = w.pop((a, c))
                elif how == "drop" and len(w) > 1:
                    w.pop(rng.choice(sorted(w)))
                else:
                    r = rng.randrange(g.n)
                g = G("D", g.n, w)
            t = safely(ctx, check_tree_ctor, b, g, r, True, rng.choice(["edges", "matrix"]) if all(x == 1 for x in g.w.values()) else "matrix")
            if t is not None and ref_arborescence(g, r):
                for m in some_masks(rng, g.n, 4):
                    safely(ctx, check_tree_mask, b, g, r, t, m)
            safely(ctx, check_tree_ctor, b, g, r, False, "matrix")
        else:              # minimum spanning trees
            g = random_connected_weighted(rng) if rng.random() < 0.85 else random_graph(rng, nmax=12, weighted=True, kind="U")
            point = rng.random() < 0.5
            obj = safely(ctx, build_checked, g, rng.choice(["dense", "csr"]), point)
            if obj is None:
                continue
            safely(ctx, check_mst, b, g, obj, rng.randrange(g.n), point)


def search(ctx):
    """directed search after a broken tie (oracle only): first every mask / pair / root on the graphs of the
    mismatching cases and on their one-edge neighbours, then both small domains again (fresh samples in the quick
    tier, everything in the thorough tier), then random cases until the time budget (quick 45 s, thorough 240 s)."""
    import time
    rng = ctx.rng
    t0 = time.time()
    budget = 45 if ctx.quick() else 240
    seen = set()
    for op, why, rp in ctx.mismatches[:12]:
        if "entries" not in rp:
            continue
        g0 = G.from_rp(rp)
        if g0.key() in seen or g0.n > 8:
            continue
        seen.add(g0.key())
        cand = [g0]
        for e in (pairs_d(g0.n) if g0.directed else pairs_u(g0.n))[:20]:   # neighbours: toggle one edge
            w = dict(g0.w)
            ks = [e] if g0.directed else [e, e[::-1]]
            for k in ks:
                if k in w:
                    del w[k]
                else:
                    w[k] = 1
            cand.append(G(g0.kind, g0.n, w))
        b = Batch()
        for g in cand:
            obj = safely(ctx, check_basic, b, g, "csr", True, None)
            if obj is None:
                continue
            for m in some_masks(rng, g.n, None if g.n <= 5 else 8):
                safely(ctx, check_mask, b, g, obj, m)
            for s_ in range(g.n):
                for t_ in range(g.n):
                    safely(ctx, check_paths, b, g, obj, s_, t_)
                    safely(ctx, check_shortest, b, g, obj, s_, t_)
            for r in range(g.n):
                if g.directed:
                    t = safely(ctx, check_tree_ctor, b, g, r, True, "matrix")
                    if t is not None and ref_arborescence(g, r):
                        for m in some_masks(rng, g.n, None if g.n <= 5 else 8):
                            safely(ctx, check_tree_mask, b, g, r, t, m)
                elif g.w:
                    safely(ctx, check_mst, b, g, obj, r, True)
        ctx.searched += len(b.lines)
        if ctx.failures:
            return True
    b = Batch()
    exhaustive(ctx, b, rng, deadline=t0 + budget)
    with_loops(ctx, b, rng)
    ctx.searched += len(b.lines)
    while not ctx.failures and time.time() - t0 < budget:
        b = Batch()
        randoms(ctx, b, rng, 50)
        ctx.searched += len(b.lines)
    return bool(ctx.failures)


def run(ctx):
    common.prepare_lean(ctx, PROP, IMPORTS, THEOREMS,
                        targets=["MenpoModel.Props.C14", "MenpoModel.Drive.C14"])
    ctx.trusted += ["scipy.sparse.csgraph results (shortest_path, breadth/depth_first_order, breadth_first_tree, "
                    "connected_components, minimum_spanning_tree) enter the model as parameters; their contract is "
                    "re-checked against the model's Bellman-Ford / Kruskal on every case",
                    "decide +kernel tables: 1099 undirected graphs on <=5 vertices, 4165 loop-free digraphs on <=4 vertices"]
    rng = ctx.rng
    b = Batch()
    import glob
    import os
    for path in sorted(glob.glob(os.path.join(common.ROOT, "replays", "corpus", "C14-*.json"))):
        replay_case(ctx, b, json.load(open(path)).get("replay", {}))   # minimised past failures first
        ctx.count("corpus-replay")
    check_predefined(ctx, rng)
    exhaustive(ctx, b, rng)
    with_loops(ctx, b, rng)
    randoms(ctx, b, rng, ctx.n(200, 4000))
    settle(ctx, b)
    ctx.notes["exhaustive_small_domains"] = "all 1099 undirected graphs on <=5 vertices and all 4165 loop-free digraphs " \
        "on <=4 vertices run on the real classes (%s masks / start-end pairs per graph, every root)" % (
            "every" if not ctx.quick() else "a seeded sample of")
    return ctx.finish(search)


def replay_case(ctx, b, rp):
    rng = ctx.rng
    if "entries" not in rp:
        safely(ctx, check_from_edges, b, rng, rp["kind"], rp["n"], [tuple(e) for e in rp["edges"]])
        return
    g = G.from_rp(rp)
    point = bool(rp.get("point", False))
    obj = safely(ctx, check_basic, b, g, rp.get("variant", "dense") if rp.get("variant") != "edges" else "dense", point)
    if obj is None:
        return
    if "mask" in rp and "root" in rp:
        t = safely(ctx, check_tree_ctor, b, g, rp["root"], True, "matrix")
        if t is not None:
            safely(ctx, check_tree_mask, b, g, rp["root"], t, tuple(rp["mask"]))
    elif "mask" in rp:
        pobj = safely(ctx, build_checked, g, "csr", True)
        if pobj is not None:
            safely(ctx, check_mask, b, g, pobj, tuple(rp["mask"]))
    elif "start" in rp:
        safely(ctx, check_paths, b, g, obj, rp["start"], rp["end"], all_paths=g.n <= 8)
        safely(ctx, check_shortest, b, g, obj, rp["start"], rp["end"], rp.get("algorithm", "auto"), rp.get("unweighted", False))
    elif "root" in rp:
        if g.directed:
            safely(ctx, check_tree_ctor, b, g, rp["root"], point, "matrix")
        else:
            safely(ctx, check_mst, b, g, obj, rp["root"], point)


def replay(ctx, path):
    data = json.load(open(path))
    rp = data.get("replay") or (data.get("broken_correspondence") or [{}])[0].get("case", {})
    if "entries" not in rp and "edges" not in rp:
        print("replay file carries no graph")
        return 2
    b = Batch()
    print("construct:", rp.get("construct"), "; call:", rp.get("call"))
    replay_case(ctx, b, rp)
    settle(ctx, b)
    for f in ctx.failures:
        print("oracle:", f[0], f[1], "-", f[2])
    for k in ctx.known_seen:
        print("known finding re-observed:", k)
    for m in ctx.mismatches:
        print("model/implementation:", m[0], m[1])
    return ctx.finish(None)
