"""C14 - graphs, trees and their queries agree with the edges they were built from (DESIGN.md section 6, C14).

Three parties per case:
  * the implementation: the real menpo graph classes (abstract and point-carrying), built from edge
    lists, dense or sparse adjacency matrices;
  * the property oracle: plain python sets / textbook algorithms (union-find, Kahn, Dijkstra, Prim, simple
    path enumeration) written here, independent of the Lean model;
  * the Lean model (`Core/C14Graph.lean`) through the line driver.
Inputs reached (see the evidence distribution): adjacency matrices as dense ndarray / csr_matrix in the dtypes
int64, int32, bool, float64, float32, uint8 (csc / coo / lil / csr_array are refused by the constructor with
ValueError by design: counted), csr matrices with explicitly stored zeros, edge lists with repeated edges, both
orientations, self-loops and isolated first / last vertices (abstract and Point variants), weights of any sign
(negative weights: oracle only, `Batch.add` skips the model whose weights are natural numbers; shortest paths with
negative weights only on directed acyclic graphs with the Bellman-Ford / Johnson options, against a python
Bellman-Ford), objects with a previous life (results of from_mask / minimum_spanning_tree are queried with the whole
battery and masked again; `check_history`: the same queries in different orders, repeated, after copy(), the
receiver unchanged after every call).
scipy's csgraph results that menpo post-processes (distance / predecessor rows, BFS / DFS predecessors, the
listing of the breadth-first tree) are fetched by the harness with the same calls and handed to the model as
contract parameters; the contract itself is checked against the model's Bellman-Ford on every case.
"""
import heapq
import itertools
import json
import re

import numpy as np

from . import common

PROP = "C14"
INFO = dict(
    technique="Lean 4 proof (general theorems by induction for graphs of every size; kernel-decided tables over the "
              "property's two exhaustive small domains kept as an independent cross-check) + the Python-level logic of "
              "menpo/shape/graph.py TRANSLATED from the source text of the working tree on every run "
              "(harness/py2lean2.py + py2lean2w.py + trans_c14.py -> Generated/C14Src.lean: 41 definitions, among them the "
              "nested recursive dfs of _has_cycles with fuel, two `while` loops with fuel and nine `for` loops) and "
              "proved EQUAL to the Core definitions the theorems are about, for all arguments (GenProps/C14Src.lean, 42 "
              "obligations re-checked by lake on every run), the property theorems being restated about the translated "
              "definitions (GenProps/C14SrcProps.lean) + exhaustive/random model-implementation correspondence on the "
              "real classes",
    level_text="Theorems over an executable model of menpo/shape/graph.py, for graphs of EVERY size: edge list -> "
               "adjacency reports exactly the edge set (each undirected edge once, symmetric); neighbours/children/"
               "parents/isolated/adjacency list/edge test consistent; masking = induced subgraph renumbered in order "
               "with points following, and a sequence of masks is one mask (mask_mask); PointTree.from_mask keeps "
               "exactly the masked-in vertices joined to the root through masked-in vertices, renumbered in order, "
               "root re-indexed WHENEVER it returns a result (treeFromMask_root_component is a soundness statement; that "
               "a result is returned for every mask keeping the root and one more connected vertex is checked by the "
               "correspondence, not proved); the recursive DFS cycle detector _has_cycles "
               "answers True iff there is a closed walk (directed) / a self-loop or simple cycle (undirected), by a DFS "
               "invariant over a fuel-free big-step semantics that the fuelled recursion provably realises, and equals "
               "the closed-walk / cyclomatic-number references on every graph; is_tree = non-empty, connected, acyclic "
               "(undirected; the n-1 edge count is implied) and = 'the underlying graph is a tree' (directed); the Tree "
               "constructor accepts exactly the arborescences on >= 2 vertices (BFS-tree comparison as coded), and in "
               "every accepted tree parent/children/depth/leaves/levels are total and mutually consistent; "
               "find_all_paths = exactly the simple routes; Bellman-Ford reference distances sound and optimal; the "
               "reconstructed shortest route weighs scipy's d(start,end) under scipy's predecessor contract (hypothesis "
               "PredContract; the harness checks an executable version of it, contractOk in the driver, and d = the model's "
               "Bellman-Ford distances on every case - that executable check is not proved to imply PredContract); the Kruskal "
               "reference returns a minimum spanning forest (forest, spanning, n - #components edges, minimal against "
               "every spanning edge set) and, for pairwise different weights, THE minimum spanning forest "
               "(minimum_spanning_forest_unique: every spanning forest that weighs no more consists of the same edges); "
               "graphs with integer weights of any sign: the structural operations are those of the graph of absolute "
               "values and masking carries the signed entries (signed_structural_ops, signed_mask_induced).  "
               "TRANSLATED FROM THE SOURCE rather than transcribed (each proved equal to its Core definition for all "
               "arguments, so the theorems above are theorems about what graph.py says now): _check_vertex (natural "
               "and integer vertex), is_edge, neighbours, children, parents, n_neighbours, n_children, n_parents (with "
               "their skip_checks guards), both `edges` properties, n_edges, _isolated_vertices, isolated_vertices, "
               "has_isolated_vertices, get_adjacency_list and _get_predecessors_list (loops over the row-major listing), "
               "_has_cycles INCLUDING ITS INNER RECURSIVE dfs (state passing, fuel), has_cycles, is_tree, find_all_paths "
               "(recursive, fuel) and n_paths, Tree.is_leaf / leaves / n_leaves / parent, depth_of_vertex (while loop), "
               "vertices_at_depth, n_vertices_at_depth, Graph.__init__ / UndirectedGraph.__init__ / "
               "DirectedGraph.__init__ / Tree.__init__ (the ORDER and plumbing of their checks, eliminate_zeros, the object "
               "state, the symmetry test _is_symmetric; the Point* constructors are vocabulary, see "
               "partial_clauses), _mask_adjacency_matrix_and_points, "
               "PointUndirectedGraph / PointDirectedGraph / PointTree.from_mask (the latter with its while loop over "
               "scipy's component labels), _convert_edges_to_adjacency_matrix and "
               "_convert_edges_to_symmetric_adjacency_matrix.  The kernel-decided tables over ALL 1+2+8+64+1024 "
               "undirected graphs on <=5 vertices and ALL 1+4+64+4096 loop-free digraphs on <=4 vertices (24 chunk "
               "files) are kept.  The model is further tied to /repo by running every graph of both small domains "
               "(every mask, root, start/end pair) and random graphs/trees/weighted graphs up to 40 vertices (dense / "
               "csr, six dtypes, edge lists, explicit zeros, negative weights, objects with a previous life, every "
               "vertex-taking entry point at the boundary vertices -1, 0, n-1, n) on the real classes and diffing "
               "every observable against the Lean driver; an independent python oracle decides the property.",
    level_note="Trusted: Lean kernel; axioms propext/Classical.choice/Quot.sound; the Python harness and the driver's "
               "parser; the source-to-Lean translator harness/py2lean2.py + harness/py2lean2w.py and the C14 vocabulary "
               "harness/trans_c14.py + Core/C14Src.lean (which numpy / scipy.sparse expression of graph.py stands for "
               "which model operation: A[i, :].nonzero()[1] = row, A.nonzero() = the row-major listing of the stored "
               "non-zeros, sets as lists, dicts as association lists, A[keep, :][:, keep] = select, labels of "
               "connected_components = smallest vertex of the component; "
               "PointUndirectedGraph / PointDirectedGraph / PointTree(points, A, ..) = pointGraphCtor / pointTreeCtor "
               "(hand-written: _check_n_points, then the Graph / Tree constructor), self.copy() = the same value, .copy() / "
               "copy= flags / csr_matrix(x) = identity: the translation is VALUE-level and does not see copying, aliasing or "
               "in-place vs rebinding); scipy.sparse.csgraph (shortest_path, "
               "breadth/depth_first_order, breadth_first_tree, connected_components, minimum_spanning_tree) as contract "
               "parameters whose outputs are validated against the model's reference algorithms (proved correct: "
               "Bellman-Ford, Kruskal, reachability closure, BFS tree) on every case; scipy.sparse indexing.",
    rule="a case is one (graph, operation, arguments) evaluation on the real classes; distinct = distinct "
         "(kind, n, stored entries, operation, arguments); non-trivial = the graph has at least one edge",
    partial=["find_shortest_path cost, find_shortest_path(v,v) and find_path(v,v) are recorded known findings (pinned "
             "by test_find_shortest_path / test_find_path): refuted by witness in Lean, the model carries the coded "
             "formula, the repaired statement is shortest_route_weight_is_distance",
             "quick tier samples masks / start-end pairs per small graph (every graph, every root of every candidate "
             "tree and every mask of every arborescence are always run); the thorough tier runs every combination",
             "shortest paths and spanning trees of graphs with NEGATIVE weights are judged by the python oracle alone "
             "(Bellman-Ford / Prim): the model's reference distances and Kruskal weights are natural numbers; all "
             "structural operations are compared with the model on the signed weights",
             "the translated obligations are value-level: that queries / from_mask / minimum_spanning_tree do not change "
             "the receiver and that copies answer alike is decided by the oracle's before/after snapshots of the state the "
             "property names (adjacency entries, points, root, predecessor list), not by the obligations",
             "menpo code that is VOCABULARY, not translated (a change there does not alter the generated text): "
             "_check_n_points, PointGraph.__init__ / Point*Graph.__init__ / PointTree.__init__ (their super() "
             "chains), every init_from_edges classmethod (which converter feeds which constructor), self.copy(); they are "
             "covered by the correspondence and by the oracle cases `malformed:*` (asymmetric matrix for an undirected "
             "graph, wrong number of points) and from_edges",
             "with skip_checks=True the `...Api` definitions and the obligations model vertices 0..n-1 only (vertices are "
             "naturals; entries outside the matrix read 0): Python raises IndexError for v >= n and wraps negative "
             "vertices; the harness passes skip_checks=True for inside vertices only",
             "treeFromMask_root_component / translated_tree_from_mask are soundness statements (under `= ok`); totality "
             "of PointTree.from_mask on accepted trees is checked by the `tmask` correspondence (every mask of every "
             "arborescence of the small domain), not proved; the conjunct 'it passed the Tree constructor' is definitional",
             "shortest_route_weight_is_distance assumes PredContract; the run-time check of scipy's arrays (contractOk, "
             "in the driver, v < n only; d compared with the model's Bellman-Ford distances; skipped for negative weights) "
             "is executable glue without a lemma contractOk -> PredContract",
             "self-loops: every graph / digraph on <= 3 vertices with loops is always run, on 4 vertices a seeded sample "
             "(2^16 digraphs); the kernel tables and the loop-free domains are complete",
             "the constructor's symmetry test on SIGNED weights (w_ij = -w_ji) is not modelled: graphInit is over natural "
             "entries and the structural operations run on |w|; the harness builds symmetric undirected graphs (and the "
             "`malformed:asymmetric` cases with positive weights)",
             "oracle demands taken from the docstrings rather than the property text are NOT failures any more: the kind "
             "of exception refusing a vertex outside 0..n-1 or an all-False mask, the class of from_mask's result, copy "
             "sharing, the ascending order of leaves / vertices_at_depth are compared with the model (mismatch -> "
             "directed search) or counted as `note:*`",
             "not translated from the source (transcribed, tied by the correspondence): find_path / "
             "find_shortest_path (the walk back along scipy's predecessor array), minimum_spanning_tree, "
             "maximum_depth (np.max), relative_location_edge / relative_locations, the predefined graphs; "
             "PointTree.from_mask is proved equal to the model for index points 0..n-1 (arbitrary points follow by "
             "the same mask, mask_points_follow)"],
    assumptions=["edge weights are integers of any sign (exact in float64) for the plain queries, masks, paths, "
                 "spanning trees and trees; shortest paths with negative weights only on directed acyclic graphs with "
                 "Bellman-Ford / Johnson",
                 "vertices are natural numbers in the model; with skip_checks=True only vertices inside 0..n-1 are modelled",
                 "a single-vertex Tree is outside menpo's Tree domain by design ('a tree cannot have isolated "
                 "vertices'); minimum spanning trees are only defined for connected graphs",
                 "Python's recursion limit is not modelled (the recursive detector is run on graphs of up to 40 "
                 "vertices; the Lean theorems hold for every size of the model); the fuel 2n+2 the translated dfs is "
                 "called with never runs out (Dfs.dfs_exec), nor do n+2 (find_all_paths), n+1 (depth_of_vertex on an "
                 "accepted tree: treeCtor_depth_total) and n+1 (PointTree.from_mask: one round suffices, while_prune)"],
    design_ref="DESIGN.md section 6, C14")
IMPORTS = ["MenpoModel.Props.C14"]
_T = "MenpoModel.C14."
THEOREMS = [_T + t for t in [
    "directed_edges_exact", "undirected_edges_once_symmetric",
    "neighbours_iff_isEdge", "children_iff_parents", "neighbours_symmetric", "isolated_iff_no_incident_edge",
    "adjacencyList_rows", "edge_test_iff_in_edges",
    "mask_induced", "mask_points_follow", "fromMask_spec", "mask_mask",
    "tree_parent_children_inverse", "tree_depth_parent", "tree_leaf_iff_no_children",
    "hasCycles_correct_small_undirected", "hasCycles_correct_small_directed",
    "isTree_directed_coded_refuted", "isTree_spec_small_directed", "treeCtor_spec_small",
    "treeCompareCoded_order_sensitive", "treeCompareCoded_empty_broadcast",
    "allPaths_exactly_simple_routes",
    "shortest_path_cost_coded", "shortest_path_cost_refuted", "shortest_path_self_refuted",
    "shortest_route_weight_is_distance", "reference_distance_correct",
    # graphs of every size
    "hasCyclesL_correct_directed", "hasCyclesL_correct_undirected",
    "hasCycles_correct_directed", "hasCycles_correct_undirected",
    "isTree_undirected_spec", "isTree_directed_spec", "treeCtor_spec", "tree_relations_total", "tree_levels",
    "reference_components_correct",
    "treeFromMask_root_component", "pruneLoop_root_component",
    "kruskal_minimum_spanning_forest", "minimum_spanning_forest_unique",
    "signed_structural_ops", "signed_mask_induced",
    # the lemmas the above rest on, audited by name as well
    "Dfs.dfs_exec", "Dfs.hasCyclesL_directed", "Dfs.hasCyclesL_undirected", "Dfs.back_nil_iff_edge_count",
    "hasCycles_eq_refCycleD", "hasCycles_eq_refCycleU", "refCycleU_iff", "isTree_eq_refTreeU", "isTree_eq_refPolytree",
    "treeCtorOk_eq", "treeCtor_depth_total", "mem_reachFrom", "nComponents_eq_count",
    "kruskal_minimal", "kruskal_spanning", "kruskal_forest", "kruskal_count_components", "kruskal_unique_forestR",
]]

_G = "MenpoModel.GenProps.C14."
# obligations over the translated source (GenProps/C14Src.lean), audited when the generated build succeeds
GEN_THEOREMS = [_G + t for t in [
    "genCheckVertex_eq", "genCheckVertexI_eq", "genIsEdge_eq", "genNeighbours_eq", "genChildren_eq", "genParents_eq",
    "genNNeighbours_eq", "genNChildren_eq", "genNParents_eq", "genEdgesD_eq", "genEdgesU_eq", "genEdges_eq", "genNEdges_eq",
    "genIsolated_eq", "genIsolatedVertices_eq", "genHasIsolatedVertices_eq", "genGetAdjacencyList_eq",
    "genGetPredecessorsList_eq", "genDfs_eq", "genHasCycles_eq", "genHasCyclesM_eq", "genIsTree_eq", "genFindAllPaths_eq",
    "genNPaths_eq", "genIsLeaf_eq", "genLeaves_eq", "genNLeaves_eq", "genParent_eq", "genIsSymmetric_eq", "genGraphInit_eq",
    "genUndirectedGraphInit_eq", "genDirectedGraphInit_eq", "genTreeInit_eq", "genDepthOfVertex_eq",
    "genVerticesAtDepth_eq", "genNVerticesAtDepth_eq", "genConvertEdges_eq", "genConvertEdgesSym_eq", "genMask_eq",
    "genFromMaskD_eq", "genFromMaskU_eq", "genFromMaskT_eq",
    # the property theorems restated about the translated source (GenProps/C14SrcProps.lean)
    "translated_has_cycles_directed", "translated_has_cycles_undirected", "translated_has_cycles_method",
    "translated_is_tree", "translated_find_all_paths", "translated_tree_init", "translated_tree_queries",
    "translated_edges_exact", "translated_from_mask", "translated_tree_from_mask",
]]

S_COST = "C14/find_shortest_path.cost/start!=end"
P_COST = "cost=sum_{k<len-1}d(start,path[k])"
S_SELF = "C14/find_shortest_path/start=end"
P_SELF = "([],inf)"
S_FPSELF = "C14/find_path/start=end"
P_FPSELF = "[]"
INF = float("inf")


# ----------------------------------------------------------------------------- plain graphs (harness side)

class G(object):
    """kind 'U'|'D', n, w: {(i, j): positive int}; for 'U' both orientations are present"""

    def __init__(self, kind, n, w):
        self.kind, self.n, self.w = kind, n, dict(w)
        self.directed = kind == "D"
        self.out = [[] for _ in range(n)]
        self.inn = [[] for _ in range(n)]
        for (i, j) in sorted(self.w):
            self.out[i].append(j)
            self.inn[j].append(i)

    @staticmethod
    def undirected(n, pairs, weights=None):
        w = {}
        for k, (a, b) in enumerate(pairs):
            x = 1 if weights is None else weights[k]
            w[(a, b)] = x
            w[(b, a)] = x
        return G("U", n, w)

    @staticmethod
    def directed_(n, pairs, weights=None):
        return G("D", n, {(a, b): (1 if weights is None else weights[k]) for k, (a, b) in enumerate(pairs)})

    def edge_set(self):
        if self.directed:
            return set(self.w)
        return set((i, j) for (i, j) in self.w if i <= j)

    def wire(self):
        ks = sorted(self.w)
        return "%s %d %d %s" % (self.kind, self.n, len(ks), " ".join("%d %d %d" % (i, j, self.w[(i, j)]) for i, j in ks))

    def key(self):
        return (self.kind, self.n, tuple(sorted(self.w.items())))

    def dense(self):
        a = np.zeros((self.n, self.n), dtype=int)
        for (i, j), x in self.w.items():
            a[i, j] = x
        return a

    def unweighted(self):
        return G(self.kind, self.n, {k: 1 for k in self.w})

    def masked(self, mask):
        keep = [v for v in range(self.n) if mask[v]]
        rk = {v: i for i, v in enumerate(keep)}
        return G(self.kind, len(keep), {(rk[i], rk[j]): x for (i, j), x in self.w.items() if mask[i] and mask[j]}), keep

    def py(self, cls=None, point=False, variant=None):
        """runnable construction snippet for replays (variant 'rep[:dtype]': the matrix representation handed over)"""
        cls = cls or (("Point" if point else "") + ("DirectedGraph" if self.directed else "UndirectedGraph"))
        rep, _, dt = (variant or "dense").partition(":")
        s = "import numpy as np, scipy.sparse as sp; from menpo.shape import *; A = np.zeros((%d, %d), dtype=int); " % (self.n, self.n)
        s += "".join("A[%d, %d] = %d; " % (i, j, x) for (i, j), x in sorted(self.w.items()))
        if dt and dt != "int64":
            s += "A = A.astype(%r); " % dt
        nocopy = "-nocopy" in rep
        rep = rep.replace("-nocopy", "")
        if rep.startswith("csrz"):
            zs = zero_positions(self)
            s += ("A = sp.csr_matrix(A); Z = %r; A = sp.csr_matrix((list(A.data) + [0] * len(Z), (list(A.nonzero()[0]) + [z[0] for z in Z], "
                  "list(A.nonzero()[1]) + [z[1] for z in Z])), shape=A.shape, dtype=A.dtype); " % [list(z) for z in zs])
        elif rep in SPARSE_REPS:
            s += "A = sp.%s(A); " % SPARSE_REPS[rep]
        kw = ", copy=False" if nocopy else ""
        if point:
            s += "P = np.arange(%d, dtype=float).reshape(%d, 2); g = %s(P, A%s)" % (2 * self.n, self.n, cls, kw)
        else:
            s += "g = %s(A%s)" % (cls, kw)
        return s

    def rp(self, **kw):
        d = {"kind": self.kind, "n": self.n, "entries": [[i, j, x] for (i, j), x in sorted(self.w.items())],
             "construct": self.py(point=bool(kw.get("point", False)), variant=kw.get("variant"))}
        d.update(kw)
        return d

    @staticmethod
    def from_rp(d):
        return G(d["kind"], d["n"], {(i, j): x for i, j, x in d["entries"]})


# ----------------------------------------------------------------------------- reference algorithms (oracle)

def components(g):
    """labels of the weakly connected components"""
    lab = list(range(g.n))

    def find(x):
        while lab[x] != x:
            lab[x] = lab[lab[x]]
            x = lab[x]
        return x
    for (i, j) in g.w:
        a, b = find(i), find(j)
        if a != b:
            lab[a] = b
    return [find(v) for v in range(g.n)]


def ref_cycle(g):
    if g.directed:  # Kahn: a digraph is acyclic iff it can be peeled completely
        indeg = [len(g.inn[v]) for v in range(g.n)]
        todo = [v for v in range(g.n) if indeg[v] == 0]
        seen = 0
        while todo:
            v = todo.pop()
            seen += 1
            for c in g.out[v]:
                indeg[c] -= 1
                if indeg[c] == 0:
                    todo.append(c)
        return seen != g.n
    m = len(g.edge_set())
    return m + len(set(components(g))) > g.n


def ref_tree_undirected_reading(g):
    """the underlying undirected graph is a tree (connected, n-1 undirected edges, no antiparallel pair / loop)"""
    und = set((min(i, j), max(i, j)) for (i, j) in g.w)
    simple = all(i != j for (i, j) in g.w) and (not g.directed or len(und) == len(g.w))
    return simple and len(set(components(g))) == 1 and len(und) == g.n - 1


def ref_arborescence(g, r):
    if not (0 <= r < g.n) or g.inn[r]:
        return False
    if any(len(g.inn[v]) != 1 for v in range(g.n) if v != r):
        return False
    seen, todo = {r}, [r]
    while todo:
        v = todo.pop()
        for c in g.out[v]:
            if c not in seen:
                seen.add(c)
                todo.append(c)
    return len(seen) == g.n


def dijkstra(g, s):
    d = [INF] * g.n
    d[s] = 0
    h = [(0, s)]
    while h:
        x, v = heapq.heappop(h)
        if x > d[v]:
            continue
        for c in g.out[v]:
            y = x + g.w[(v, c)]
            if y < d[c]:
                d[c] = y
                heapq.heappush(h, (y, c))
    return d


def bellman_ford(g, s):
    """reference distances with arbitrary-sign weights; None when a negative cycle is reachable from s"""
    d = [INF] * g.n
    d[s] = 0
    es = sorted(g.w.items())
    for _ in range(g.n):
        changed = False
        for (a, c), x in es:
            if d[a] != INF and d[a] + x < d[c]:
                d[c] = d[a] + x
                changed = True
        if not changed:
            return d
    return None


def ref_distances(g, s):
    """Dijkstra for non-negative weights, Bellman-Ford as soon as one weight is negative"""
    if any(x < 0 for x in g.w.values()):
        return bellman_ford(g, s)
    return dijkstra(g, s)


def simple_paths(g, s, t):
    res = []

    def go(v, path):
        if v == t:
            res.append(tuple(path))
            return
        for c in g.out[v]:
            if c not in path:
                go(c, path + [c])
    if 0 <= s < g.n:
        go(s, [s])
    elif s == t:
        res.append((s,))
    return res


def route_weight(g, path):
    tot = 0
    for a, b in zip(path, path[1:]):
        if (a, b) not in g.w:
            return None
        tot += g.w[(a, b)]
    return tot


def prim_weight(g):
    seen = {0}
    h = [(g.w[(0, c)], c) for c in g.out[0]]
    heapq.heapify(h)
    tot = 0
    while h:
        x, v = heapq.heappop(h)
        if v in seen:
            continue
        seen.add(v)
        tot += x
        for c in g.out[v]:
            if c not in seen:
                heapq.heappush(h, (g.w[(v, c)], c))
    return tot if len(seen) == g.n else None


# ----------------------------------------------------------------------------- implementation runner

def points_for(n, dims=2):
    return np.array([[(3 * i + 1) * 0.5, 7.0 - 0.25 * i * i, 1.0 + i][:dims] for i in range(n)], dtype=float)


DTYPES = ("int64", "int32", "bool", "float64", "float32", "uint8")
SPARSE_REPS = {"csr": "csr_matrix", "csc": "csc_matrix", "coo": "coo_matrix", "lil": "lil_matrix", "csr_array": "csr_array"}
# Graph.__init__: "adjacency_matrix must be either a numpy.ndarray or a scipy.sparse.csr_matrix" (ValueError by design)
REFUSED_REPS = ("csc", "coo", "lil", "csr_array")


# A csr matrix may store a zero explicitly.  The class docstring says "non-edges must be represented with zeros", and
# every edge query (edges, n_edges, is_edge, neighbours / children / parents, adjacency list, isolated vertices,
# has_cycles, find_all_paths) indeed reads a stored zero as a non-edge - but scipy.sparse.csgraph reads it as an edge of
# weight zero, so is_tree (connected_components), find_path, find_shortest_path and minimum_spanning_tree walk through
# it (candidate defect, proposed repair notes/fixes/C14-explicit-zeros.diff: eliminate_zeros() in Graph.__init__).
# That defect is FIXED in /repo (1f69a57: eliminate_zeros() in Graph.__init__; `fixed:` line in known_findings.txt), so
# the csgraph-backed queries are judged on such matrices like on any other graph, whatever the constructor does: if the
# fix is reverted the violation is reported again (DESIGN section 4).  (With the switch off the oracle would adapt to the
# implementation: the queries were left out whenever the constructor kept the zeros.)
STORED_ZEROS_STRICT = True


def zeros_dropped(obj):
    A = obj.adjacency_matrix
    return A.nnz == A.count_nonzero()


def dtype_ok(g, dt):
    """can the weights of g be stored exactly in dtype dt"""
    if dt == "bool":
        return all(x == 1 for x in g.w.values())
    if dt == "uint8":
        return all(0 < x < 256 for x in g.w.values())
    return True


def zero_positions(g):
    """non-edge positions that the 'csrz' representation stores as explicit zeros (deterministic; symmetric pattern)"""
    return [(i, j) for i in range(g.n) for j in range(g.n)
            if (i, j) not in g.w and (j, i) not in g.w and (i + j) % 3 != 2]


def matrix_for(g, variant):
    """the adjacency argument of the constructor for variant 'rep[:dtype]';
    rep: dense | csr | csrz (csr with explicitly stored zeros at non-edges) | csc | coo | lil | csr_array"""
    import scipy.sparse as sp
    rep, _, dt = variant.partition(":")
    a = g.dense().astype(np.dtype(dt or "int64"))
    if rep == "dense":
        return a
    rep = rep.replace("-nocopy", "")     # (the copy flag is the constructor's: see build)
    if rep.startswith("csrz"):
        # csr with explicitly STORED zeros at non-edge positions, produced in one of three ways:
        #   csrz  : handed to the csr constructor as data;  csrzt : in-place thresholding of A.data;
        #   csrza : item assignment A[i, j] = 0 on stored entries
        ks = sorted(g.w)
        zs = zero_positions(g)
        rows, cols = [k[0] for k in ks] + [z[0] for z in zs], [k[1] for k in ks] + [z[1] for z in zs]
        if rep == "csrz" or a.dtype == np.bool_ or not zs:
            data = np.array([g.w[k] for k in ks] + [0] * len(zs)).astype(a.dtype)
            return sp.csr_matrix((data, (rows, cols)), shape=(g.n, g.n), dtype=a.dtype)
        big = max([abs(x) for x in g.w.values()] + [1]) + 1       # a placeholder weight no edge carries (fits: see dtype_ok)
        if not dtype_ok(G(g.kind, 1, {(0, 0): big}), str(a.dtype)):
            big = 1 if 1 not in g.w.values() and -1 not in g.w.values() else None
        if big is None:
            data = np.array([g.w[k] for k in ks] + [0] * len(zs)).astype(a.dtype)
            return sp.csr_matrix((data, (rows, cols)), shape=(g.n, g.n), dtype=a.dtype)
        data = np.array([g.w[k] for k in ks] + [big] * len(zs)).astype(a.dtype)
        m = sp.csr_matrix((data, (rows, cols)), shape=(g.n, g.n), dtype=a.dtype)
        if rep == "csrzt":
            m.data[m.data == np.array(big).astype(a.dtype)] = 0          # thresholding in place: the entries stay stored
        else:
            import warnings
            with warnings.catch_warnings():
                warnings.simplefilter("ignore")
                for z in zs:
                    m[z[0], z[1]] = 0                                    # assignment of 0 to a stored entry keeps it stored
        return m
    return getattr(sp, SPARSE_REPS[rep])(a)


def random_variant(rng, g, edges_ok=True):
    """a construction route this graph can take: edge list (unit weights, no loops) or matrix representation x dtype"""
    unit = all(x == 1 for x in g.w.values())
    if edges_ok and unit and not any(i == j for i, j in g.w) and rng.random() < 0.25:
        return "edges"
    return rng.choice(["dense", "csr"]) + ":" + rng.choice([d for d in DTYPES if dtype_ok(g, d)])


def graph_class(g, point):
    from menpo import shape as ms
    return getattr(ms, ("Point" if point else "") + ("DirectedGraph" if g.directed else "UndirectedGraph"))


def build(g, variant, point, rng=None):
    """the real menpo object; variant: edges | rep[:dtype] (see matrix_for)"""
    cls = graph_class(g, point)
    if variant == "edges":
        es = sorted(g.edge_set())
        if rng is not None and es:
            if not g.directed:  # any orientation, duplicates allowed: they collapse
                es = [(b, a) if rng.random() < 0.4 else (a, b) for a, b in es]
                es += [rng.choice(es) for _ in range(rng.randint(0, 2))]
                es += [(b, a) for a, b in es[:rng.randint(0, 2)]]
            rng.shuffle(es)
        arr = np.array(es, dtype=int) if es else (None if rng is None or rng.random() < 0.5 else np.zeros((0, 2), dtype=int))
        if point:
            return cls.init_from_edges(points_for(g.n), arr)
        return cls.init_from_edges(arr, g.n)
    a = matrix_for(g, variant)
    kw = {"copy": False} if "-nocopy" in variant else {}     # copy=False: the object keeps the caller's matrix
    obj = cls(points_for(g.n), a, **kw) if point else cls(a, **kw)
    obj.__dict__["_verif_variant"] = variant    # harness-side note for the replays: how this object was built
    return obj


def how(obj):
    return obj.__dict__.get("_verif_variant")


def base_snap(obj):
    """the snapshot taken when the harness first met the object (every later snapshot must equal it)"""
    d = obj.__dict__
    if "_verif_snap" not in d:
        d["_verif_snap"] = snap(obj)
    return d["_verif_snap"]


def snap(obj):
    """semantic content of the receiver (adjacency values and dtype, points, tree bookkeeping): queries, from_mask
    and minimum_spanning_tree must leave it unchanged.  The dense form is compared, not the raw index arrays:
    scipy may lazily sort the indices of a matrix in place, which is not a change of the graph."""
    A = obj.adjacency_matrix
    s = [A.dtype.str, A.shape, A.toarray().tobytes()]
    if hasattr(obj, "points"):
        s.append(obj.points.tobytes())
    if hasattr(obj, "root_vertex"):
        s.append(int(obj.root_vertex))
        s.append(tuple(None if x is None else int(x) for x in obj.predecessors_list))
    return s


def ints(xs):
    return [int(x) for x in xs]


def fl(xs):
    xs = list(xs)
    return ",".join(str(int(x)) for x in xs) if xs else "-"


def fll(rows):
    return "|".join(fl(r) for r in rows)


def fe(es):
    es = list(es)
    return ",".join("%d-%d" % (a, b) for a, b in es) if es else "-"


def fo(x):
    return "N" if x is None else str(int(x))


def guarded(f, *a, **k):
    """('ok', value) | ('err', exception type name); ValueError is the documented refusal"""
    try:
        return "ok", f(*a, **k)
    except ValueError:
        return "err", "ValueError"
    except Exception as e:  # any other exception type is a failure of the call, reported by the oracle
        return "exc", type(e).__name__


def through_menpo(e):
    """did the exception pass through menpo code (then the implementation raised it; otherwise it is a harness bug)"""
    import os
    root = os.path.realpath(common.REPO) + os.sep
    tb = e.__traceback__
    while tb is not None:
        if os.path.realpath(tb.tb_frame.f_code.co_filename).startswith(root):
            return True
        tb = tb.tb_next
    return False


def build_checked(ctx, g, variant, point):
    return build(g, variant, point)


def safely(ctx, f, *a, **k):
    """run one check; an exception raised inside the implementation where the property needs an answer is an
    oracle failure with a replay, never a harness crash"""
    try:
        return f(ctx, *a, **k)
    except common.Infra:
        raise
    except Exception as e:
        if not through_menpo(e):
            raise
        g = next((x for x in a if isinstance(x, G)), None)
        rp = g.rp() if g is not None else {}
        rp["check"] = f.__name__
        rp["args"] = [x if isinstance(x, (int, str, bool, tuple, list)) else type(x).__name__ for x in a if not isinstance(x, (G, Batch))]
        ctx.fail("C14/%s/exception" % f.__name__, "raises:" + type(e).__name__,
                 "%s: the implementation raised %s: %s" % (f.__name__, type(e).__name__, str(e)[:160]), rp)
        return None


# ----------------------------------------------------------------------------- the per-graph checks

class Batch(object):
    """collects driver requests and the implementation's observation to compare with"""

    def __init__(self):
        self.lines = []
        self.expect = {}   # id -> (op, impl string or callable(reply) -> problem text | None, replay)

    # operations whose answer depends on the zero pattern of the matrix only (weights are at most echoed)
    STRUCTURAL = ("basic", "mask", "tmask", "paths", "tree", "levels", "fp", "api")

    def add(self, op, args, impl, replay):
        if re.search(r"(?<![\d])-\d", args):
            # a negative edge weight (vertex ids are never negative).  The driver parses signed entries: the structural
            # operations run on the graph of absolute values (same zero pattern: theorem signed_structural_ops) and
            # `mask` / `tmask` echo the signed entries (signed_mask_induced), so these are compared as they are;
            # operations that add or order weights (sp, mst, mste, dist) are judged by the oracle on the real code only
            if op not in self.STRUCTURAL:
                self.skipped_negative = getattr(self, "skipped_negative", 0) + 1
                return
            self.signed = getattr(self, "signed", 0) + 1
        cid = "q%d" % len(self.lines)
        self.lines.append("%s %s %s" % (cid, op, args))
        self.expect[cid] = (op, impl, replay)


def battery(ctx, obj, g, rp, rng=None, full=True, site="C14/queries", trees=True, vs=None):
    """every plain query of one graph object against the oracle graph g (whatever the object's history);
    returns the observations the model comparison needs"""
    n = g.n
    exp_edges = g.edge_set()
    ed = [tuple(ints(e)) for e in obj.edges.tolist()] if obj.edges.size else []
    ned = ed if g.directed else [tuple(sorted(e)) for e in ed]   # the orientation of a reported undirected pair is free
    ctx.check(set(ned) == exp_edges and len(ned) == len(exp_edges) and obj.n_edges == len(exp_edges), site, "edges",
              "edges %r, built from %r" % (sorted(ed), sorted(exp_edges)), rp)
    ctx.check(obj.n_vertices == n and list(obj.vertices) == list(range(n)), site, "vertices", "n_vertices/vertices", rp)
    A = obj.adjacency_matrix
    if not g.directed:
        ctx.check((A != A.T).nnz == 0, site, "asymmetric", "adjacency of an undirected graph is not symmetric", rp)
    adj = [sorted(ints(r)) for r in obj.get_adjacency_list()]
    ctx.check(adj == [sorted(g.out[v]) for v in range(n)], site, "adjacency-list",
              "adjacency list %r vs edges %r" % (adj, sorted(exp_edges)), rp)
    par = []
    if vs is None:
        vs = range(n) if full or rng is None or n <= 2 else sorted(rng.sample(range(n), 2))   # quick: 2 seeded vertices
    for v in vs:
        if g.directed:
            ch = sorted(ints(obj.children(v)))
            pa = sorted(ints(obj.parents(v)))
            ctx.check(ch == sorted(g.out[v]) and obj.n_children(v) == len(ch), site, "children",
                      "children(%d) = %r" % (v, ch), dict(rp, vertex=v))
            ctx.check(pa == sorted(g.inn[v]) and obj.n_parents(v) == len(pa), site, "parents",
                      "parents(%d) = %r" % (v, pa), dict(rp, vertex=v))
            par.append(pa)
        else:
            nb = sorted(ints(obj.neighbours(v)))
            ctx.check(nb == sorted(g.out[v]) and obj.n_neighbours(v) == len(nb), site, "neighbours",
                      "neighbours(%d) = %r" % (v, nb), dict(rp, vertex=v))
            par.append(nb)
        for u in (range(n) if full or rng is None else [rng.randrange(n)]):
            ie = bool(obj.is_edge(v, u))
            ctx.check(ie == ((v, u) in g.w), site, "is_edge", "is_edge(%d,%d) = %r" % (v, u, ie), dict(rp, pair=[v, u]))
    iso = sorted(ints(obj.isolated_vertices()))
    exp_iso = [v for v in range(n) if not g.out[v] and not g.inn[v]]
    ctx.check(iso == exp_iso and obj.has_isolated_vertices() == bool(exp_iso), site, "isolated",
              "isolated %r expected %r" % (iso, exp_iso), rp)
    for bad in (-1, n):
        st2, val2 = guarded(obj.is_edge, 0, bad)
        # the property text asks for edge tests consistent with the edge set: an ANSWER about a vertex that does not exist
        # is a failure; which exception refuses it (the docstring says ValueError) is only noted
        ctx.check(st2 != "ok", site, "vertex-check", "is_edge(0,%d) answered %r for a vertex that does not exist" % (bad, val2), rp)
        if st2 == "exc":
            ctx.count("note:vertex-outside-range-refused-with-" + str(val2))
    # cycle / tree tests
    cyc = bool(obj.has_cycles())
    rc = ref_cycle(g)
    ctx.check(cyc == rc, "C14/has_cycles", "detector!=reference",
              "has_cycles() = %r, reference (%s) = %r" % (cyc, "Kahn" if g.directed else "cyclomatic number", rc), rp)
    it, oracle_tree_ok = None, False
    if trees:
        it = bool(obj.is_tree())
        und_tree = ref_tree_undirected_reading(g)
        oracle_tree_ok = True
        if not g.directed:
            oracle_tree_ok = ctx.check(it == und_tree, "C14/is_tree/undirected", "is_tree!=connected-acyclic",
                                       "is_tree() = %r, connected and acyclic = %r" % (it, und_tree), rp)
        else:
            arb = any(ref_arborescence(g, r) for r in range(n))
            if it and not und_tree:
                oracle_tree_ok = False
                ctx.fail("C14/is_tree/directed", "accepts-non-tree",
                         "DirectedGraph.is_tree() is True although the underlying graph is not a tree "
                         "(disconnected or with an undirected cycle)", rp)
            if arb and not it:
                oracle_tree_ok = False
                ctx.fail("C14/is_tree/directed", "rejects-arborescence", "is_tree() is False for a rooted tree", rp)
    impl = "ok edges=%s;adj=%s;iso=%s;" % (fe(sorted(ed)), fll(adj), fl(iso))

    def cmp(reply, impl=impl, it=it, ok=oracle_tree_ok, directed=g.directed, vs=list(vs), par=par, cyc=cyc):
        if not reply.startswith(impl):
            return "model %r vs implementation %r" % (reply[:300], impl[:300])
        f = dict(x.split("=") for x in reply[3:].split(";"))
        mpar = f["par"].split("|")
        for v, pa in zip(vs, par):
            if mpar[v] != fl(pa):
                return "parents/neighbours of %d: model %s vs implementation %s" % (v, mpar[v], fl(pa))
        if f["cyc"] != str(int(cyc)):
            return "has_cycles: model %s vs implementation %d" % (f["cyc"], cyc)
        if not directed and f["sym"] != "1":
            return "model says the adjacency is not symmetric"
        if ok and f["tree"] != str(int(it)):
            return "is_tree: model %s vs implementation %d" % (f["tree"], it)
        return None
    return cmp


def check_entry_points(ctx, b, obj, g, rp, rng, root=None, site="C14/entry-points"):
    """the public entry points with their vertex guards (the functions whose source is translated into Lean and proved
    equal to the `...Api` definitions of Core/C14Src.lean): every vertex-taking method at the boundary vertices
    -1, 0, n-1, n, n+2 and a seeded interior one, with skip_checks left False and (valid vertices only) set True.
    oracle: ValueError exactly for a vertex outside 0..n-1, otherwise the value the edge set dictates; the Lean model
    (`api` op) answers the same questions for the non-negative vertices."""
    n = g.n
    tree = root is not None
    vs = sorted(set([-1, 0, n - 1, n, n + 2] + ([rng.randrange(n)] if n else [])))
    for v in vs:
        inside = 0 <= v < n
        for skip in ((False, True) if inside else (False,)):
            kw = {"skip_checks": True} if skip else {}
            u = rng.randrange(n)
            obs = {}
            calls = [("ie", lambda: obj.is_edge(u, v, **kw)), ("ie2", lambda: obj.is_edge(v, u, **kw))]
            if g.directed:
                calls += [("row", lambda: ints(obj.children(v, **kw))), ("col", lambda: ints(obj.parents(v, **kw))),
                          ("nch", lambda: int(obj.n_children(v, **kw))), ("npar", lambda: int(obj.n_parents(v, **kw)))]
            else:
                calls += [("row", lambda: ints(obj.neighbours(v, **kw))), ("nch", lambda: int(obj.n_neighbours(v, **kw)))]
            if tree:
                calls += [("leaf", lambda: bool(obj.is_leaf(v, **kw))), ("par", lambda: obj.parent(v, **kw)),
                          ("dep", lambda: int(obj.depth_of_vertex(v, **kw)))]
            for name, f in calls:
                st, val = guarded(f)
                obs[name] = val if st == "ok" else ("X" if st == "err" else "EXC:" + str(val))
                # judged: an existing vertex gets an answer, a vertex that does not exist gets none.  WHICH exception
                # refuses it (ValueError by the docstrings) is not in the property text: a different kind shows up as a
                # model / implementation mismatch of the `api` line below ('X' vs 'EXC:...'), not as an oracle failure
                ctx.check((st == "ok") == inside, site, "vertex-guard:" + name,
                          "%s at vertex %d of %d vertices (skip_checks=%r): %s" % (name, v, n, skip, "returned" if st == "ok" else val),
                          dict(rp, vertex=v, skip_checks=skip, method=name))
                if st == "exc":
                    ctx.count("note:vertex-outside-range-refused-with-" + str(val))
            if inside:
                exp = {"ie": (u, v) in g.w, "ie2": (v, u) in g.w, "row": sorted(g.out[v]), "nch": len(g.out[v])}
                if g.directed:
                    exp.update(col=sorted(g.inn[v]), npar=len(g.inn[v]))
                if tree:
                    exp.update(leaf=not g.out[v], par=(g.inn[v][0] if g.inn[v] else None))
                for k, e in exp.items():
                    o = obs.get(k)
                    o = sorted(o) if isinstance(o, list) else (bool(o) if isinstance(e, bool) else o)
                    ctx.check(o == e, site, "value:" + k, "%s at vertex %d (skip_checks=%r) = %r, the edges say %r" % (k, v, skip, o, e),
                              dict(rp, vertex=v, skip_checks=skip, method=k))
            if v >= 0 and n <= MODEL_TREE_NMAX:
                def fx(x, f):
                    return x if isinstance(x, str) else f(x)
                impl = {"ie": fx(obs["ie"], lambda x: str(int(bool(x)))), "row": fx(obs["row"], lambda x: fl(sorted(x))),
                        "nch": fx(obs["nch"], str)}
                if g.directed:
                    impl.update(col=fx(obs["col"], lambda x: fl(sorted(x))), npar=fx(obs["npar"], str))
                if tree:
                    impl.update(leaf=fx(obs["leaf"], lambda x: str(int(x))), par=fx(obs["par"], fo), dep=fx(obs["dep"], str))

                def cmp(reply, impl=impl):
                    if not reply.startswith("ok "):
                        return "model: %s" % reply
                    f = dict(x.split("=") for x in reply[3:].split(";"))
                    for k, x in impl.items():
                        if f.get(k) != x:
                            return "%s: model %s vs implementation %s" % (k, f.get(k), x)
                    return None
                ctx.count("entry-points:model-compared")
                b.add("api", "%s %d %d %d %d 0" % (g.wire(), root if tree else 0, u, v, int(skip)), cmp,
                      dict(rp, vertex=v, other=u, skip_checks=skip, call="every vertex-taking method at this vertex"))
    ctx.count("entry-points:graphs")



def check_basic(ctx, b, g, variant, point, rng=None, full=True):
    """queries of one graph on the real class vs the oracle; returns the object"""
    rep = variant.partition(":")[0]
    rp = g.rp(variant=variant, point=point, call="g.edges, g.get_adjacency_list(), g.isolated_vertices(), g.has_cycles(), g.is_tree(), "
              + ("g.children(v), g.parents(v)" if g.directed else "g.neighbours(v)") + ", g.is_edge(u, v)")
    st, obj = guarded(build, g, variant, point, rng)
    ctx.case(("basic", g.key(), variant, point), nontrivial=bool(g.w),
             sample={"graph": g.wire(), "op": "basic queries", "class": type(obj).__name__ if st == "ok" else st})
    ctx.count("basic:%s:%s:%s" % (g.kind, rep, "point" if point else "abstract"))
    if ":" in variant:
        ctx.count("matrix:%s" % variant)
    ws = list(g.w.values())
    if any(x < 0 for x in ws):
        ctx.count("basic:weights:" + ("all-negative" if all(x < 0 for x in ws) else "mixed-sign"))
    if st == "err" and rep in REFUSED_REPS:
        ctx.count("construct-refused-by-design(ValueError):" + rep)   # documented: ndarray or csr_matrix only
        return None
    if st != "ok":
        ctx.fail("C14/construct", "raises:" + str(obj), "constructing the graph raised %s" % obj, rp)
        return None
    if rep in REFUSED_REPS:
        ctx.count("construct-accepted:" + rep)    # should the class start to accept it, it has to behave like any other graph
    # explicitly stored zeros are non-edges for every edge query; is_tree goes through scipy.csgraph (see STORED_ZEROS_STRICT)
    cmp = battery(ctx, obj, g, rp, rng, full, trees=not rep.startswith("csrz") or STORED_ZEROS_STRICT or zeros_dropped(obj))
    b.add("basic", g.wire(), cmp, rp)
    if rng is not None and (g.n > 5 or getattr(ctx, "entry_all", False) or rng.random() < (0.04 if ctx.quick() else 0.25)):
        # the vertex guards of every entry point (random graphs: always; the exhaustive small domains: a seeded 4 %
        # in the quick tier, 25 % in the thorough tier, all of them in the directed search after a broken tie)
        check_entry_points(ctx, b, obj, g, rp, rng)
    return obj


def check_from_edges(ctx, b, rng, kind, n, es, point=False):
    """edge list (duplicates, both orientations, loops, isolated first / last vertex) -> adjacency, on the real
    converter; the object that comes out answers the whole query battery consistently with the edge set.
    The number of vertices comes from the argument (abstract) / from the points (Point variants), never from the
    largest index of the list."""
    directed = kind == "D"
    proto = G(kind, 1, {})
    cls = graph_class(proto, point)
    lst = [list(e) for e in es]
    rp = {"kind": kind, "n": n, "edges": lst, "point": point,
          "construct": ("import numpy as np; from menpo.shape import *; " +
                        ("g = %s.init_from_edges(np.arange(%d, dtype=float).reshape(%d, 2), np.array(%r))" % (cls.__name__, 2 * n, n, lst)
                         if point else "g = %s.init_from_edges(np.array(%r), %d)" % (cls.__name__, lst, n)))}
    how = rng.choice(["array", "list"]) if es else rng.choice(["none", "empty"])
    arg = {"array": np.array(es, dtype=int), "list": [list(e) for e in es], "none": None,
           "empty": np.zeros((0, 2), dtype=int)}[how] if es or how in ("none", "empty") else None
    ctx.count("from_edges:%s:%s:%s" % (kind, how, "point" if point else "abstract"))
    used = set(v for e in es for v in e)
    if n >= 3 and es and 0 not in used and n - 1 not in used:
        ctx.count("from_edges:isolated-0-and-last:" + cls.__name__)
    ctx.case(("fe", kind, n, tuple(es), point), nontrivial=bool(es), sample={"op": "init_from_edges", "edges": es, "n": n})
    pts = points_for(n)
    st, obj = guarded(cls.init_from_edges, pts, arg) if point else guarded(cls.init_from_edges, arg, n)
    if st != "ok":
        ctx.fail("C14/init_from_edges", "raises:" + str(obj), "init_from_edges raised %s" % obj, rp)
        return
    exp = set(es) if directed else set((min(a, c), max(a, c)) for a, c in es)
    ed = [tuple(ints(e)) for e in obj.edges.tolist()] if obj.edges.size else []
    ned = ed if directed else [tuple(sorted(e)) for e in ed]
    ctx.check(set(ned) == exp and len(ned) == len(exp), "C14/init_from_edges", "edge-set",
              "edges %r from edge list %r" % (sorted(ed), es), rp)
    ctx.check(obj.n_vertices == n, "C14/init_from_edges", "n_vertices",
              "n_vertices = %r for %d requested vertices (largest index used: %r)" % (obj.n_vertices, n, max(used) if used else None), rp)
    A = obj.adjacency_matrix
    if not directed:
        ctx.check((A != A.T).nnz == 0, "C14/init_from_edges", "asymmetric", "adjacency not symmetric", rp)
    if point:
        ctx.check(np.array_equal(obj.points, pts), "C14/init_from_edges", "points", "the points were changed", rp)
    dense = np.asarray(A.todense()).astype(int)
    impl = "ok edges=%s;w=%s" % (fe(sorted(ed)), fll(dense.tolist()))
    b.add("fe", "%s %d %d %s" % (kind, n, len(es), " ".join("%d %d" % e for e in es)), impl, rp)
    # the whole battery on the result: a repeated directed edge is stored with its multiplicity (still one edge)
    if obj.n_vertices == n:
        if directed:
            w = {}
            for e in es:
                w[e] = w.get(e, 0) + 1
            ge = G("D", n, w)
        else:
            ge = G.undirected(n, sorted(exp))
        before = snap(obj)
        cmp = battery(ctx, obj, ge, rp, rng, full=n <= 6, site="C14/init_from_edges/queries",
                      vs=None if n <= 6 else sorted({0, n - 1, rng.randrange(n)}))
        b.add("basic", ge.wire(), cmp, rp)
        ctx.check(snap(obj) == before, "C14/receiver-unchanged", "after:queries", "the basic queries changed the graph they were asked on", rp)


def check_mask(ctx, b, g, obj, mask, rng=None, deep=False, trees=True):
    """Point(Un)directedGraph.from_mask; deep: the result (an object with a previous life) answers the whole
    query battery and is masked a second time"""
    site = "C14/from_mask"
    rp = g.rp(point=True, variant=how(obj), mask=[int(x) for x in mask],
              call="g.from_mask(np.array(%r, dtype=bool))" % [bool(x) for x in mask])
    ctx.case(("mask", g.key(), tuple(mask)), nontrivial=bool(g.w), sample={"graph": g.wire(), "op": "from_mask", "mask": list(mask)})
    pts = obj.points.copy()
    before = base_snap(obj)
    st, h = guarded(obj.from_mask, np.array(mask, dtype=bool))
    ctx.check(snap(obj) == before, "C14/receiver-unchanged", "after:from_mask",
              "from_mask changed the receiver (adjacency matrix or points)", rp)
    eg, keep = g.masked(mask)
    if not keep:
        ctx.count("mask:all-false")
        # nothing survives: menpo refuses (ValueError, a graph needs a vertex); the property text only asks for the
        # induced subgraph, so an answer is a failure only if it is not the empty graph; the refusal itself is compared
        # with the model ('err empty')
        ctx.check(st != "ok" or h.n_vertices == 0, site, "empty-mask-accepted",
                  "an all-False mask returned a graph with %s vertices" % (getattr(h, "n_vertices", "?"),), rp)
        impl = "err empty" if st != "ok" else "ok n=0"
    else:
        ctx.count("mask:kept=%d/%d" % (len(keep), g.n) if g.n <= 5 else "mask:random")
        if st != "ok":
            ctx.fail(site, "raises:" + str(h), "from_mask raised %s" % h, rp)
            return
        if type(h) is not type(obj):     # (not in the property text: noted, not judged)
            ctx.count("note:from_mask-returned-" + type(h).__name__ + "-for-" + type(obj).__name__)
        dense = np.asarray(h.adjacency_matrix.todense()).astype(int)
        ok = h.n_vertices == len(keep) and all(dense[i, j] == eg.w.get((i, j), 0)
                                                for i in range(len(keep)) for j in range(len(keep)))
        ctx.check(ok, site, "not-induced-subgraph",
                  "masked graph has entries %r, induced subgraph on %r is %r" % (dense.tolist(), keep, sorted(eg.w.items())), rp)
        if sum(mask) % 3 == 0:   # the masked object's own `edges` (its queries are covered by the basic checks)
            ed = set(tuple(ints(e) if g.directed else sorted(ints(e))) for e in h.edges.tolist()) if h.edges.size else set()
            ctx.check(ed == eg.edge_set(), site, "edges", "masked edges %r expected %r" % (sorted(ed), sorted(eg.edge_set())), rp)
        ctx.check(h.points.shape[0] == len(keep) and np.array_equal(h.points, pts[keep]), site, "points",
                  "points do not follow the surviving vertices", rp)
        ctx.check(np.array_equal(obj.points, pts), site, "receiver-changed", "from_mask changed the receiver's points", rp)
        impl = "ok n=%d;keep=%s;w=%s" % (len(keep), fl(keep), fll(dense.tolist()))
        if deep and ok and rng is not None:
            _masked_life(ctx, b, rng, eg, h, rp, trees)
    b.add("mask", "%s %d %s" % (g.wire(), len(mask), " ".join(str(int(x)) for x in mask)), impl, rp)


def _masked_life(ctx, b, rng, eg, h, rp, trees=True):
    """the result h of a from_mask (oracle graph eg): whole battery, then a second mask, battery again"""
    site = "C14/from_mask/second-life"
    m = eg.n
    ctx.count("mask:deep")
    rp1 = dict(rp, call=rp["call"] + " -> h; every basic query on h")
    hp = h.points.copy()
    before = snap(h)
    cmp = battery(ctx, h, eg, rp1, rng, full=m <= 6, site="C14/from_mask/queries", trees=trees,
                  vs=None if m <= 6 else sorted({0, m - 1, rng.randrange(m)}))
    b.add("basic", eg.wire(), cmp, rp1)
    m2 = tuple(int(rng.random() < 0.7) for _ in range(m))
    if not any(m2):
        m2 = tuple([1] + [0] * (m - 1))
    rp2 = dict(rp, mask2=list(m2), call=rp["call"] + ".from_mask(np.array(%r, dtype=bool))" % [bool(x) for x in m2])
    st, h2 = guarded(h.from_mask, np.array(m2, dtype=bool))
    ctx.check(snap(h) == before, "C14/receiver-unchanged", "after:from_mask", "queries / a second from_mask changed the masked graph", rp2)
    if st != "ok":
        ctx.fail(site, "raises:" + str(h2), "masking a masked graph raised %s" % h2, rp2)
        return
    eg2, keep2 = eg.masked(m2)
    d2 = np.asarray(h2.adjacency_matrix.todense()).astype(int)
    ok = h2.n_vertices == len(keep2) and all(d2[i, j] == eg2.w.get((i, j), 0) for i in range(len(keep2)) for j in range(len(keep2)))
    ctx.check(ok, site, "not-induced-subgraph", "second mask: entries %r, induced subgraph on %r is %r"
              % (d2.tolist(), keep2, sorted(eg2.w.items())), rp2)
    ctx.check(h2.points.shape[0] == len(keep2) and np.array_equal(h2.points, hp[keep2]), site, "points",
              "second mask: points do not follow the surviving vertices", rp2)
    b.add("mask", "%s %d %s" % (eg.wire(), m, " ".join(str(x) for x in m2)),
          "ok n=%d;keep=%s;w=%s" % (len(keep2), fl(keep2), fll(d2.tolist())), rp2)
    if ok:
        k = eg2.n
        cmp2 = battery(ctx, h2, eg2, rp2, rng, full=k <= 6, site="C14/from_mask/queries", trees=trees,
                       vs=None if k <= 6 else sorted({0, k - 1, rng.randrange(k)}))
        b.add("basic", eg2.wire(), cmp2, rp2)


def check_paths(ctx, b, g, obj, s, t, all_paths=True):
    """find_all_paths / n_paths / find_path (bfs, dfs)"""
    from scipy.sparse import csgraph
    rp = g.rp(start=s, end=t, variant=how(obj), point=hasattr(obj, "points"))
    ctx.case(("paths", g.key(), s, t), nontrivial=bool(g.w), sample={"graph": g.wire(), "op": "find_path/find_all_paths", "pair": [s, t]})
    ref = simple_paths(g, s, t) if all_paths else None
    if all_paths:
        st, ps = guarded(obj.find_all_paths, s, t)
        if st != "ok":
            ctx.fail("C14/find_all_paths", "raises:" + str(ps), "find_all_paths(%d,%d) raised %s" % (s, t, ps), rp)
        else:
            got = [tuple(ints(p)) for p in ps]
            ctx.check(sorted(got) == sorted(ref) and ((g.n > 8 and s > t) or obj.n_paths(s, t) == len(ref)), "C14/find_all_paths", "not-all-simple-paths",
                      "find_all_paths(%d,%d) = %r, simple paths are %r" % (s, t, got, ref), dict(rp, call="g.find_all_paths(%d, %d)" % (s, t)))
            b.add("paths", "%s %d %d" % (g.wire(), s, t), "ok " + ("|".join(fl(p) for p in got)), rp)
            ctx.count("n_paths:%s" % (len(ref) if len(ref) < 4 else "4+"))
    if not (0 <= s < g.n and 0 <= t < g.n):
        return
    reach = dijkstra(g.unweighted(), s)
    for method in ("bfs", "dfs"):
        call = "g.find_path(%d, %d, method=%r)" % (s, t, method)
        st, p = guarded(obj.find_path, s, t, method=method)
        if st != "ok":
            ctx.fail("C14/find_path", "raises:" + str(p), "%s raised %s" % (call, p), dict(rp, call=call))
            continue
        p = ints(p)
        if s == t:
            if p == [s]:
                pass
            elif p == []:
                ctx.fail(S_FPSELF, P_FPSELF, "find_path(%d,%d) is [] (the answer for 'no path'), the trivial path is [%d]" % (s, s, s),
                         dict(rp, call=call))
            else:
                ctx.fail(S_FPSELF, "other", "find_path(%d,%d) = %r" % (s, s, p), dict(rp, call=call))
        elif reach[t] == INF:
            ctx.check(p == [], "C14/find_path", "path-to-unreachable", "%s = %r but %d is unreachable" % (call, p, t), dict(rp, call=call))
        else:
            valid = (len(p) >= 2 and p[0] == s and p[-1] == t and len(set(p)) == len(p) and route_weight(g, p) is not None)
            ctx.check(valid, "C14/find_path", "not-a-path", "%s = %r is not a simple path of the graph" % (call, p), dict(rp, call=call))
            if method == "bfs" and valid:
                ctx.check(len(p) - 1 == reach[t], "C14/find_path", "bfs-not-fewest-edges",
                          "%s = %r has %d edges, fewest is %d" % (call, p, len(p) - 1, reach[t]), dict(rp, call=call))
        # correspondence of menpo's reconstruction loop, scipy's predecessor array as parameter
        cache = obj.__dict__.setdefault("_verif_pred", {})   # harness-side memo: the predecessor array depends on s only
        if (method, s) not in cache:
            f = csgraph.breadth_first_order if method == "bfs" else csgraph.depth_first_order
            cache[(method, s)] = f(obj.adjacency_matrix, s, directed=g.directed, return_predecessors=True)[1]
        pred = cache[(method, s)]
        b.add("fp", "%s %d %d %d %s" % (g.kind + " %d 0" % g.n, s, t, g.n, " ".join("N" if x < 0 else str(int(x)) for x in pred)),
              "ok path=" + fl(p), dict(rp, call=call))
        ctx.count("find_path:" + method)


def check_shortest(ctx, b, g, obj, s, t, algorithm="auto", unweighted=False):
    rp = g.rp(start=s, end=t, algorithm=algorithm, unweighted=unweighted, variant=how(obj), point=hasattr(obj, "points"),
              call="g.find_shortest_path(%d, %d, algorithm=%r, unweighted=%r)" % (s, t, algorithm, unweighted))
    ctx.case(("sp", g.key(), s, t, algorithm, unweighted), nontrivial=bool(g.w),
             sample={"graph": g.wire(), "op": "find_shortest_path", "pair": [s, t], "algorithm": algorithm})
    ctx.count("shortest:%s%s" % (algorithm, ":unweighted" if unweighted else ""))
    gw = g.unweighted() if unweighted else g
    d = ref_distances(gw, s)
    if d is None or (any(x < 0 for x in g.w.values()) and
                     (algorithm not in ("BF", "J") or not g.directed or ref_cycle(g))):
        # shortest paths on graphs with negative weights are only asked where they are well defined: directed
        # acyclic graphs with the Bellman-Ford / Johnson options (the generators never ask for anything else)
        ctx.count("shortest:negative-not-well-defined-skipped")
        return
    if any(x < 0 for x in g.w.values()):
        ctx.count("shortest:negative-weights-dag:%s%s" % (algorithm, ":unweighted" if unweighted else ""))
    before = base_snap(obj)
    st, res = guarded(obj.find_shortest_path, s, t, algorithm=algorithm, unweighted=unweighted)
    ctx.check(snap(obj) == before, "C14/receiver-unchanged", "after:find_shortest_path",
              "find_shortest_path changed the graph it was asked on", rp)
    if st != "ok":
        ctx.fail("C14/find_shortest_path", "raises:" + str(res), "find_shortest_path raised %s" % res, rp)
        return
    path, cost = ints(res[0]), float(res[1])
    if s == t:
        if path == [s] and cost == 0:
            pass
        elif path == [] and cost == INF:
            ctx.fail(S_SELF, P_SELF, "find_shortest_path(%d,%d) = ([], inf), the answer for 'no path'; expected ([%d], 0)" % (s, s, s), rp)
        else:
            ctx.fail(S_SELF, "other", "find_shortest_path(%d,%d) = (%r, %r)" % (s, s, path, cost), rp)
    elif d[t] == INF:
        ctx.check(path == [] and cost == INF, "C14/find_shortest_path.route", "path-to-unreachable",
                  "(%r, %r) returned although %d is unreachable from %d" % (path, cost, t, s), rp)
    else:
        rw = route_weight(gw, path)
        okr = len(path) >= 2 and path[0] == s and path[-1] == t and rw is not None and rw == d[t]
        ctx.check(okr, "C14/find_shortest_path.route", "route-not-shortest",
                  "route %r (weight %r) is not a shortest path, d(%d,%d) = %r" % (path, rw, s, t, d[t]), rp)
        if cost != d[t]:
            coded = sum(d[v] for v in path[:-1]) if okr else None
            pat = P_COST if coded is not None and cost == coded else "cost=other"
            ctx.fail(S_COST, pat, "find_shortest_path(%d,%d) returns cost %r for route %r; d(start,end) = %r"
                     % (s, t, cost, path, d[t]), rp)
        else:
            ctx.count("shortest:cost-right")
    # distances of find_all_shortest_paths against the reference, and the correspondence of the coded loop
    cache = obj.__dict__.setdefault("_verif_sp", {})   # harness-side memo of a pure call (one per graph, not per pair)
    if (algorithm, unweighted) not in cache:
        cache[(algorithm, unweighted)] = obj.find_all_shortest_paths(algorithm=algorithm, unweighted=unweighted)
    dist, pred = cache[(algorithm, unweighted)]
    ctx.check(all((dist[s, v] == d[v]) for v in range(g.n)), "C14/find_all_shortest_paths", "distance!=reference",
              "distances from %d are %r, the reference (Dijkstra / Bellman-Ford) gives %r" % (s, dist[s].tolist(), d), rp)
    drow = " ".join("N" if x == INF else str(int(x)) for x in dist[s])
    prow = " ".join("N" if x < 0 else str(int(x)) for x in pred[s])
    impl = "ok path=%s;cost=%s;ref=%s;contract=1" % (fl(path), "N" if cost == INF else str(int(cost)),
                                                    "N" if d[t] == INF else str(int(d[t])))
    b.add("sp", "%s %d %d %d %s %d %s" % (gw.wire(), s, t, g.n, drow, g.n, prow), impl, rp)


MODEL_TREE_NMAX = 16   # the additional `tree` model lines (spanning trees, masked trees) are sent up to this size:
#                        the interpreted model needs ~0.1 s per 40-vertex tree; larger ones are judged by the oracle


def tree_relations(ctx, t, g, r, rp, site="C14/tree-relations", exp=True):
    """parent / children / depth / leaf relations of the tree object t, whose edges are those of the oracle graph g
    (an arborescence rooted at r when exp).  Returns (ok, pred, depth, leaves); an exception inside a query is an
    oracle failure, not a harness crash."""
    n = g.n
    ok = True
    pred, depth, leaves = [], [], []
    try:
        pred = [None if x is None else int(x) for x in t.predecessors_list]
        if exp:
            ctx.check(int(t.root_vertex) == r and t.n_vertices == n, site, "root", "root_vertex = %r, n_vertices = %r" % (t.root_vertex, t.n_vertices), rp)
        for v in range(n):
            # depth_of_vertex follows predecessors_list until it meets the root: on a predecessor CYCLE it never returns.
            # The walk is done here first, bounded by n steps, on the object's own list: a cycle is an oracle failure
            # (with the vertex), and the call that would hang is not made.
            x, steps = v, 0
            while x is not None and x != t.root_vertex and steps <= n and 0 <= x < len(pred):
                x, steps = pred[x], steps + 1
            if steps > n:
                ok = False
                depth.append(None)
                ctx.fail(site, "depth-does-not-terminate",
                         "predecessors_list %r has a cycle that does not contain the root %r: depth_of_vertex(%d) would never "
                         "return" % (pred, t.root_vertex, v), dict(rp, vertex=v))
                continue
            sd, dv = guarded(t.depth_of_vertex, v)
            depth.append(int(dv) if sd == "ok" else None)
            if not exp:
                continue
            ch = ints(t.children(v))
            ctx.check(sorted(ch) == sorted(g.out[v]) and t.n_children(v) == len(ch), site, "children",
                      "children(%d) = %r, the edges say %r" % (v, ch, sorted(g.out[v])), dict(rp, vertex=v))
            ctx.check(sd == "ok", site, "depth-raises", "depth_of_vertex(%d) raised %s" % (v, dv), dict(rp, vertex=v))
            pv = t.parent(v)
            ctx.check(all(t.parent(c) == v for c in ch) and (v == r or (pv is not None and v in ints(t.children(pv)))),
                      site, "parent-children", "parent/children are not inverse at vertex %d" % v, dict(rp, vertex=v))
            ctx.check((pv is None) == (v == r) and pv == pred[v] and ints(t.parents(v)) == ([] if pv is None else [int(pv)]),
                      site, "parent", "parent(%d) = %r" % (v, pv), dict(rp, vertex=v))
            if sd == "ok" and pv is not None:
                ctx.check(dv == t.depth_of_vertex(pv) + 1, site, "depth",
                          "depth(%d) = %r is not depth(parent) + 1" % (v, dv), dict(rp, vertex=v))
            if sd == "ok" and v == r:
                ctx.check(dv == 0, site, "depth", "depth(root) = %r" % dv, dict(rp, vertex=v))
            ctx.check(bool(t.is_leaf(v)) == (len(ch) == 0), site, "leaf", "is_leaf(%d) inconsistent with children" % v, dict(rp, vertex=v))
        leaves = ints(t.leaves)
        if exp:
            # (the order of `leaves` / `vertices_at_depth` is not in the property text: sets are judged, the ascending
            # order the code produces is compared with the model)
            ctx.check(sorted(leaves) == [v for v in range(n) if not g.out[v]] and t.n_leaves == len(leaves), site, "leaves", "leaves = %r" % leaves, rp)
            if all(x is not None for x in depth):
                ctx.check(int(t.maximum_depth) == max(depth) and
                          all(sorted(ints(t.vertices_at_depth(k))) == [v for v in range(n) if depth[v] == k] and
                              t.n_vertices_at_depth(k) == depth.count(k) for k in range(max(depth) + 2)),
                          site, "depth-levels", "maximum_depth / vertices_at_depth inconsistent with depth_of_vertex", rp)
    except Exception as e:
        if not through_menpo(e):
            raise
        ok = False
        ctx.fail(site, "raises:" + type(e).__name__, "a tree query raised %s: %s" % (type(e).__name__, str(e)[:120]), rp)
    return ok, pred, depth, leaves


def tree_model_lines(ctx, b, t, wire, r, n, pred, depth, leaves, rp):
    """the model comparison of an accepted tree: predecessors / depths / leaves, and (small trees) maximum_depth,
    vertices_at_depth, n_vertices_at_depth for the levels 0 .. maximum_depth + 1, n_leaves"""
    b.add("tree", "%s %d" % (wire, r), "ok pred=%s;depth=%s;leaves=%s" % (
        ",".join(fo(x) for x in pred), ",".join(fo(x) for x in depth), fl(leaves)), rp)
    if n > MODEL_TREE_NMAX or any(x is None for x in depth):
        return
    try:
        M = int(t.maximum_depth)
        lv = [ints(t.vertices_at_depth(k)) for k in range(M + 2)]
        cn = [int(t.n_vertices_at_depth(k)) for k in range(M + 2)]
        nl = int(t.n_leaves)
    except Exception as e:   # reported by tree_relations already when it comes from menpo
        if not through_menpo(e):
            raise
        return
    ctx.count("model-levels")
    b.add("levels", "%s %d" % (wire, r), "ok max=%d;levels=%s;counts=%s;nleaves=%d" % (M, fll(lv), fl(cn), nl),
          dict(rp, call=str(rp.get("call", "")) + "; t.maximum_depth, t.vertices_at_depth(k), t.n_vertices_at_depth(k), t.n_leaves"))


def check_tree_ctor(ctx, b, g, r, point, via, rng=None):
    """Tree / PointTree constructor with checks; returns the tree or None.  via 'edges': init_from_edges (with an
    rng the list is shuffled and may repeat an edge: still the same edge set); via 'matrix[:dtype]'"""
    from menpo import shape as ms
    cls = ms.PointTree if point else ms.Tree
    es = sorted(g.edge_set())
    if via == "edges":
        # an edge of weight k > 1 stands for an edge listed k times (the converter stores the multiplicity)
        if any(x > 1 for x in g.w.values()):
            es = [e for e in es for _ in range(g.w[e])]
            ctx.count("tree-ctor:edge-list-with-duplicate")
        if rng is not None and es:
            rng.shuffle(es)
        arr = np.array(es, dtype=int) if es else None
        args = (points_for(g.n), arr, r) if point else (arr, g.n, r)
        ctor = cls.init_from_edges
        call = ("PointTree.init_from_edges(P, np.array(%r), %d)" % ([list(e) for e in es], r) if point else
                "Tree.init_from_edges(np.array(%r), %d, %d)" % ([list(e) for e in es], g.n, r))
        variant = None
    else:
        variant = via if via.startswith("csrz") else "dense:" + (via.partition(":")[2] or "int64")
        a = matrix_for(g, variant)
        args = (points_for(g.n), a, r) if point else (a, r)
        nocopy = "-nocopy" in variant
        ctor = (lambda *aa: cls(*aa, copy=False)) if nocopy else cls
        call = "%s(%sA, %d%s)" % (cls.__name__, "P, " if point else "", r, ", copy=False" if nocopy else "")
        if variant != "dense:int64":
            ctx.count("tree-ctor:" + variant)
    rp = g.rp(root=r, point=point, call=call, variant=variant)
    ctx.case(("tree", g.key(), r, point, via), nontrivial=bool(g.w), sample={"graph": g.wire(), "op": "Tree constructor", "root": r})
    st, t = guarded(ctor, *args)
    exp = g.n >= 2 and ref_arborescence(g, r)
    ok = True
    if st == "exc":
        ok = False
        ctx.fail("C14/Tree.__init__", "raises:" + str(t), "%s raised %s" % (call, t), rp)
    elif g.n >= 2 and (st == "ok") != exp:
        ok = False
        if exp:
            ctx.fail("C14/Tree.__init__", "rejects-valid-tree",
                     "the arborescence %r rooted at %d is refused with ValueError" % (es, r), rp)
        else:
            ctx.fail("C14/Tree.__init__", "accepts-non-tree",
                     "%r with root %d is accepted as a tree although it is not a tree rooted there" % (es, r), rp)
    ctx.count("tree-ctor:%s" % ("valid" if exp else "invalid"))
    if st != "ok":
        if ok:
            b.add("tree", "%s %d" % (g.wire(), r), lambda reply: None if reply.startswith("err") else
                  "model accepts the tree, implementation refuses", rp)
        return None
    if not ok:
        return t if exp else None    # wrongly accepted: reported above; its queries are not asked (they need not terminate)
    # relations of an accepted tree
    before = snap(t)
    rok, pred, depth, leaves = tree_relations(ctx, t, g, r, rp, exp=exp)
    ctx.check(snap(t) == before, "C14/receiver-unchanged", "after:tree-queries", "the tree queries changed the tree", rp)
    if ok and rok:
        tree_model_lines(ctx, b, t, g.wire(), r, g.n, pred, depth, leaves, rp)
        if exp and (rng or ctx.rng).random() < (1.0 if g.n > 4 or getattr(ctx, "entry_all", False) else 0.1 if ctx.quick() else 0.3):
            check_entry_points(ctx, b, t, g, rp, rng or ctx.rng, root=r)    # is_leaf / parent / depth_of_vertex guards too
    return t


def tree_mask_expect(g, r, mask):
    """oracle of PointTree.from_mask: the kept vertices whose whole ancestor chain is kept, renumbered in order.
    Returns (keep, masked G, new root); mask[r] must be set"""
    par = {c: p for (p, c) in g.w}
    keep = []
    for v in range(g.n):
        x, ok = v, True
        while ok and x != r:
            ok = bool(mask[x])
            x = par[x]
        if ok and mask[v]:
            keep.append(v)
    rk = {v: i for i, v in enumerate(keep)}
    return keep, G("D", len(keep), {(rk[p], rk[c]): x for (p, c), x in g.w.items() if p in rk and c in rk}), rk[r]


def check_tree_mask(ctx, b, g, r, tree, mask, rng=None, deep=False, life=None):
    """PointTree.from_mask: what stays connected to the root, renumbered in order, root re-indexed.
    deep: every tree relation is asked on the result (a tree with a previous life), which is then masked again."""
    site = "C14/PointTree.from_mask"
    rp = g.rp(root=r, mask=[int(x) for x in mask], point=True,
              call="PointTree(P, A, %d).from_mask(np.array(%r, dtype=bool))" % (r, [bool(x) for x in mask]))
    if life is not None:
        rp["previous_life"] = life    # the tree was itself produced by from_mask (graph / root / mask of that step)
    ctx.case(("tmask", g.key(), r, tuple(mask), life is not None), nontrivial=True, sample={"graph": g.wire(), "op": "PointTree.from_mask", "root": r, "mask": list(mask)})
    pts = tree.points.copy()
    before = base_snap(tree)
    st, h = guarded(tree.from_mask, np.array(mask, dtype=bool))
    ctx.check(snap(tree) == before, "C14/receiver-unchanged", "after:PointTree.from_mask",
              "from_mask changed the tree it was called on (adjacency, points, root or predecessor list)", rp)
    wire = "%s %d %d %s" % (g.wire(), r, len(mask), " ".join(str(int(x)) for x in mask))
    if not mask[r]:
        ctx.count("tree-mask:root-removed")
        ctx.check(st == "err", site, "root-removal-accepted", "masking out the root did not raise ValueError (%s)" % st, rp)
        b.add("tmask", wire, lambda reply: None if reply.startswith("err") else "model accepts a mask that removes the root", rp)
        return None
    keep, eg, r1 = tree_mask_expect(g, r, mask)
    if len(keep) == 1:
        # only the root survives: menpo's Tree refuses single-vertex trees by design
        ctx.count("tree-mask:only-root-survives(%s)" % st)
        ctx.check(st != "exc", site, "raises:" + str(h), "from_mask raised %s" % h, rp)
        if st == "ok":    # should a one-vertex tree ever be returned, it has to be the root alone
            ctx.check(h.n_vertices == 1 and h.n_edges == 0 and int(h.root_vertex) == 0, site, "only-root-survives",
                      "only the root survives the mask, the result has %d vertices and %d edges" % (h.n_vertices, h.n_edges), rp)
        return None
    ctx.count("tree-mask:kept=%d/%d" % (len(keep), g.n) if g.n <= 5 else "tree-mask:random")
    if st != "ok":
        ctx.fail(site, "raises:" + str(h), "from_mask raised %s for a mask that keeps the root and %d more connected vertices"
                 % (h, len(keep) - 1), rp)
        return None
    dense = np.asarray(h.adjacency_matrix.todense()).astype(int)
    ok = (h.n_vertices == len(keep) and int(h.root_vertex) == r1 and
          all(dense[i, j] == eg.w.get((i, j), 0) for i in range(len(keep)) for j in range(len(keep))))
    ctx.check(ok, site, "not-root-component",
              "result has %d vertices, root %r, entries %r; expected the kept vertices connected to the root %r (root -> %d)"
              % (h.n_vertices, h.root_vertex, dense.tolist(), keep, r1), rp)
    ctx.check(h.points.shape[0] == len(keep) and np.array_equal(h.points, pts[keep]), site, "points", "points do not follow", rp)
    epred = [None] * len(keep)
    for (p_, c_) in eg.w:
        epred[c_] = p_
    ctx.check([None if x is None else int(x) for x in h.predecessors_list] == epred, site, "predecessors",
              "predecessor list of the masked tree is stale", rp)
    b.add("tmask", wire, "ok n=%d;root=%d;keep=%s;w=%s" % (len(keep), int(h.root_vertex), fl(keep), fll(dense.tolist())), rp)
    if deep and ok:
        ctx.count("tree-mask:deep")
        rp1 = dict(rp, call=rp["call"] + " -> h; every tree relation on h")
        rok, pred, depth, leaves = tree_relations(ctx, h, eg, r1, rp1, site="C14/PointTree.from_mask/relations")
        if rok and eg.n <= MODEL_TREE_NMAX:
            tree_model_lines(ctx, b, h, eg.wire(), r1, eg.n, pred, depth, leaves, rp1)
        if rng is not None:   # a second life: the masked tree is masked again (the root stays in 9 cases of 10)
            m2 = [int(rng.random() < 0.7) for _ in range(eg.n)]
            m2[r1] = int(rng.random() < 0.9)
            ctx.count("tree-mask:second-mask")
            check_tree_mask(ctx, b, eg, r1, h, tuple(m2), rng=None, deep=True,
                            life={"entries": rp["entries"], "root": r, "mask": rp["mask"], "call": rp["call"]})
    return h


def check_mst(ctx, b, g, obj, r, point, deep=True):
    site = "C14/minimum_spanning_tree"
    rp = g.rp(root=r, point=point, variant=how(obj), call="g.minimum_spanning_tree(%d)" % r)
    ctx.case(("mst", g.key(), r, point), nontrivial=bool(g.w), sample={"graph": g.wire(), "op": "minimum_spanning_tree", "root": r})
    iso = [v for v in range(g.n) if not g.out[v]]
    before = base_snap(obj)
    st, t = guarded(obj.minimum_spanning_tree, r)
    ctx.check(snap(obj) == before, "C14/receiver-unchanged", "after:minimum_spanning_tree",
              "minimum_spanning_tree changed the graph it was asked on", rp)
    if iso:
        ctx.count("mst:isolated-refused")
        ctx.check(st == "err", site, "isolated-accepted", "a graph with isolated vertices did not raise ValueError", rp)
        return
    connected = len(set(components(g))) == 1
    if not connected:
        ctx.count("mst:disconnected-skipped")
        return
    ctx.count("mst:connected")
    ws = list(g.w.values())
    ctx.count("mst:weights:" + ("negative" if all(x < 0 for x in ws) else "mixed-sign" if any(x < 0 for x in ws) else "positive"))
    if st != "ok":
        ctx.fail(site, "raises:" + str(t), "minimum_spanning_tree raised %s" % t, rp)
        return
    dense = np.asarray(t.adjacency_matrix.todense())
    es = [(i, j) for i in range(g.n) for j in range(g.n) if dense[i, j] != 0]
    if not np.all(np.isfinite(dense)):
        # (scipy's MST through a zero-weight / stored-zero edge yields inf entries: an oracle failure, not a harness crash)
        ctx.fail(site, "non-finite-weight", "the spanning tree carries a non-finite weight: %r" % [
            (i, j, float(dense[i, j])) for i, j in es if not np.isfinite(dense[i, j])][:4], rp)
        return
    tg = G("D", g.n, {(i, j): int(dense[i, j]) for i, j in es})
    ctx.check(all((i, j) in g.w and dense[i, j] == g.w[(i, j)] for i, j in es), site, "edge-not-in-graph",
              "the tree has an edge or weight the graph does not have: %r" % es, rp)
    spanning = ctx.check(ref_arborescence(tg, r) and int(t.root_vertex) == r, site, "not-spanning-tree",
                         "the result %r is not a spanning tree rooted at %d" % (es, r), rp)
    tot = int(sum(dense[i, j] for i, j in es))
    ref = prim_weight(g)
    ctx.check(tot == ref, site, "weight-not-minimal", "tree weight %r, minimum (Prim) %r" % (tot, ref), rp)
    if point:
        ctx.check(np.array_equal(t.points, obj.points), site, "points", "the spanning tree lost the points", rp)
    pl = [None if x is None else int(x) for x in t.predecessors_list]
    ctx.check(all((pl[v] is None) == (v == r) and (v == r or (pl[v], v) in tg.w) for v in range(g.n)), site, "predecessors",
              "predecessor list %r does not describe the tree" % pl, rp)
    b.add("mst", g.wire(), "ok %d %d 1" % (tot, g.n - 1), rp)
    und_w = [x for (i, j), x in g.w.items() if i < j]
    if spanning and len(set(und_w)) == len(und_w) and all(x > 0 for x in und_w):
        # pairwise different weights: the minimum spanning tree is unique, so the implementation's edge set must be
        # the one the model's Kruskal reference chooses (kruskal_minimum_spanning_forest), listed by weight
        ctx.count("mst:unique(model edge set compared)")
        chosen = sorted((int(dense[i, j]), min(i, j), max(i, j)) for i, j in es)
        b.add("mste", g.wire(), "ok " + (",".join("%d:%d-%d" % e for e in chosen) if chosen else "-"), rp)
    if deep and spanning:
        # the returned Tree / PointTree answers every tree relation consistently with its own edges
        ctx.count("mst:tree-relations")
        rp1 = dict(rp, call=rp["call"] + " -> t; every tree relation on t")
        rok, pred, depth, leaves = tree_relations(ctx, t, tg, r, rp1, site="C14/minimum_spanning_tree/relations")
        if rok and 2 <= g.n <= MODEL_TREE_NMAX:    # (a one-vertex 'tree' only exists with skip_checks: not in the model)
            tree_model_lines(ctx, b, t, tg.wire(), r, g.n, pred, depth, leaves, rp1)


# ----------------------------------------------------------------------------- objects with a previous life

def _norm(x):
    """canonical, comparable form of a query result"""
    if isinstance(x, np.ndarray):
        return _norm(x.tolist())
    if isinstance(x, (list, tuple)):
        return [_norm(y) for y in x]
    if isinstance(x, (bool, np.bool_)):
        return bool(x)
    if isinstance(x, (int, np.integer)):
        return int(x)
    if isinstance(x, (float, np.floating)):
        return float(x)
    if x is None or isinstance(x, str):
        return x
    if hasattr(x, "adjacency_matrix"):     # a graph / tree that a query returned
        d = [type(x).__name__, _norm(x.adjacency_matrix.toarray())]
        if hasattr(x, "points"):
            d.append(_norm(x.points))
        if hasattr(x, "root_vertex"):
            d += [int(x.root_vertex), _norm(list(x.predecessors_list))]
        return d
    return repr(x)


def history_queries(g, rng, point, root=None, pair=None):
    """[(kind, python call text, thunk)] - a mixed bag of queries of one graph (tree when root is given)"""
    n = g.n
    qs = [("edges", "sorted(map(tuple, g.edges.tolist()))", lambda o: sorted(tuple(ints(e)) for e in o.edges.tolist())),
          ("n_edges", "g.n_edges", lambda o: o.n_edges),
          ("get_adjacency_list", "[sorted(r) for r in g.get_adjacency_list()]", lambda o: [sorted(ints(r)) for r in o.get_adjacency_list()]),
          ("isolated_vertices", "sorted(g.isolated_vertices())", lambda o: sorted(ints(o.isolated_vertices()))),
          ("has_cycles", "g.has_cycles()", lambda o: o.has_cycles()),
          ("is_tree", "g.is_tree()", lambda o: o.is_tree())]
    vs = sorted({0, n - 1, rng.randrange(n)})
    for v in vs:
        if g.directed:
            qs.append(("children", "sorted(g.children(%d))" % v, lambda o, v=v: sorted(ints(o.children(v)))))
            qs.append(("parents", "sorted(g.parents(%d))" % v, lambda o, v=v: sorted(ints(o.parents(v)))))
        else:
            qs.append(("neighbours", "sorted(g.neighbours(%d))" % v, lambda o, v=v: sorted(ints(o.neighbours(v)))))
        u = rng.randrange(n)
        qs.append(("is_edge", "g.is_edge(%d, %d)" % (v, u), lambda o, v=v, u=u: o.is_edge(v, u)))
    prs = [pair] if pair else []
    prs += [(rng.randrange(n), rng.randrange(n)) for _ in range(2)]
    neg = any(x < 0 for x in g.w.values())
    sp_ok = not neg or (g.directed and not ref_cycle(g))
    algs = ["BF", "J"] if neg else [rng.choice(["auto", "D", "BF", "J", "FW"]), rng.choice(["D", "BF"])]
    for (a, c) in prs:
        for m in ("bfs", "dfs"):
            qs.append(("find_path", "g.find_path(%d, %d, method=%r)" % (a, c, m), lambda o, a=a, c=c, m=m: ints(o.find_path(a, c, method=m))))
        if n <= 7:
            qs.append(("find_all_paths", "sorted(g.find_all_paths(%d, %d))" % (a, c),
                       lambda o, a=a, c=c: sorted(tuple(ints(p_)) for p_ in o.find_all_paths(a, c))))
            qs.append(("n_paths", "g.n_paths(%d, %d)" % (a, c), lambda o, a=a, c=c: o.n_paths(a, c)))
        if sp_ok:
            for alg in algs[:1] if (a, c) != pair else algs:
                for unw in (False, True):
                    qs.append(("find_shortest_path", "g.find_shortest_path(%d, %d, algorithm=%r, unweighted=%r)" % (a, c, alg, unw),
                               lambda o, a=a, c=c, alg=alg, unw=unw: o.find_shortest_path(a, c, algorithm=alg, unweighted=unw)))
    if sp_ok:
        for unw in (False, True):
            qs.append(("find_all_shortest_paths", "g.find_all_shortest_paths(algorithm=%r, unweighted=%r)" % (algs[0], unw),
                       lambda o, unw=unw: o.find_all_shortest_paths(algorithm=algs[0], unweighted=unw)))
    if point:
        for _ in range(2):
            m = [int(rng.random() < 0.7) for _ in range(n)]
            if root is not None:
                m[root] = 1
            qs.append(("from_mask", "g.from_mask(np.array(%r, dtype=bool))" % [bool(x) for x in m],
                       lambda o, m=m: o.from_mask(np.array(m, dtype=bool))))
    if not g.directed:
        for r in sorted({rng.randrange(n), rng.randrange(n)}):
            qs.append(("minimum_spanning_tree", "g.minimum_spanning_tree(%d)" % r, lambda o, r=r: o.minimum_spanning_tree(r)))
    if root is not None:
        qs += [("predecessors_list", "g.predecessors_list", lambda o: list(o.predecessors_list)),
               ("leaves", "g.leaves", lambda o: ints(o.leaves)), ("n_leaves", "g.n_leaves", lambda o: o.n_leaves),
               ("maximum_depth", "g.maximum_depth", lambda o: o.maximum_depth)]
        for v in vs:
            qs.append(("depth_of_vertex", "g.depth_of_vertex(%d)" % v, lambda o, v=v: o.depth_of_vertex(v)))
            qs.append(("parent", "g.parent(%d)" % v, lambda o, v=v: o.parent(v)))
            qs.append(("is_leaf", "g.is_leaf(%d)" % v, lambda o, v=v: o.is_leaf(v)))
        k = rng.randrange(0, 4)
        qs.append(("vertices_at_depth", "g.vertices_at_depth(%d)" % k, lambda o, k=k: ints(o.vertices_at_depth(k))))
    return qs


def check_history(ctx, b, rng, g, variant, point, root=None, pair=None):
    """results must not depend on what the object was asked before: the same bag of queries is run on a fresh
    object in one order, on a second fresh object in the reverse order, again on the first object in a third order
    and on a copy() of the (by then well used) first object; every answer must be the one given first, and the
    receiver (adjacency values, points, tree bookkeeping) must be what it was after every single call."""
    from menpo import shape as ms
    site = "C14/history"

    def make():
        if root is None:
            return build(g, variant, point)
        a = matrix_for(g, variant)
        return ms.PointTree(points_for(g.n), a, root) if point else ms.Tree(a, root)
    cname = ("PointTree" if point else "Tree") if root is not None else graph_class(g, point).__name__
    rp0 = g.rp(variant=variant, point=point, check="history")
    if root is not None:
        rp0["root"] = root
        rp0["construct"] = rp0["construct"].rsplit("g = ", 1)[0] + "g = %s(%sA, %d)" % (cname, "P, " if point else "", root)
    if pair:
        rp0["pair"] = list(pair)
    ctx.case(("history", g.key(), variant, point, root), nontrivial=bool(g.w),
             sample={"graph": g.wire(), "op": "queries in different orders / after copy()", "class": cname})
    ctx.count("history:%s:%s" % (cname, "negative-weights" if any(x < 0 for x in g.w.values()) else "weighted"
                                 if any(x != 1 for x in g.w.values()) else "unit"))
    st, A = guarded(make)
    st2, B = guarded(make)
    if st != "ok" or st2 != "ok":
        ctx.fail("C14/construct", "raises:" + str(A if st != "ok" else B), "constructing the graph raised", rp0)
        return None
    qs = history_queries(g, rng, point, root, pair)
    base = snap(A)
    first, done = {}, []

    def ask(o, i, phase):
        kind, text, f = qs[i]
        st_, val = guarded(f, o)
        done.append(text)
        rp = dict(rp0, phase=phase, calls=list(done[-40:]), call=text)
        if st_ == "exc":
            ctx.fail(site, "raises:" + str(val), "%s raised %s (%s)" % (text, val, phase), rp)
        return (st_, _norm(val) if st_ == "ok" else val), rp
    order = list(range(len(qs)))
    rng.shuffle(order)
    for i in order:                                   # 1. a fresh object, one order
        first[i], rp = ask(A, i, "first object")
        ctx.check(snap(A) == base, "C14/receiver-unchanged", "after:" + qs[i][0], "%s changed the graph it was asked on" % qs[i][1], rp)
    del done[:]
    for i in reversed(order):                         # 2. a second fresh object, the reverse order
        got, rp = ask(B, i, "second object, reverse order")
        ctx.check(got == first[i], site, "order-dependent:" + qs[i][0],
                  "%s = %r on an object asked in one order, %r on an identical object asked in the reverse order"
                  % (qs[i][1], first[i][1], got[1]), rp)
    ctx.check(snap(B) == base, "C14/receiver-unchanged", "after:queries", "a run of queries changed the graph", rp0)
    del done[:]
    order3 = list(order)
    rng.shuffle(order3)
    for i in order3:                                  # 3. the first object again, a third order
        got, rp = ask(A, i, "first object again")
        ctx.check(got == first[i], site, "repeat-differs:" + qs[i][0],
                  "%s = %r the first time, %r when asked again after other queries" % (qs[i][1], first[i][1], got[1]), rp)
    ctx.check(snap(A) == base, "C14/receiver-unchanged", "after:queries", "a run of queries changed the graph", rp0)
    if hasattr(A, "copy"):                            # 4. a copy of the used object (Point variants are Copyable)
        stc, C = guarded(A.copy)
        if stc != "ok":
            ctx.fail(site, "raises:" + str(C), "copy() raised %s" % C, rp0)
        else:
            ctx.count("history:copy")
            # (copy independence / class identity are property C06's: here only that the copy answers like the original)
            ctx.check(snap(C) == base, site, "copy", "copy() is not an equal graph", rp0)
            if type(C) is not type(A) or C.adjacency_matrix is A.adjacency_matrix:
                ctx.count("note:copy-shares-matrix-or-changes-class")
            del done[:]
            done.append("g = g.copy()")
            for i in order3[::2] + order[1::2][:len(qs) // 2]:
                got, rp = ask(C, i, "copy of the used object")
                ctx.check(got == first[i], site, "copy-differs:" + qs[i][0],
                          "%s = %r on the object, %r on its copy()" % (qs[i][1], first[i][1], got[1]), rp)
            ctx.check(snap(A) == base and snap(C) == base, "C14/receiver-unchanged", "after:copy-queries",
                      "queries on a copy changed the copy or the original", rp0)
    return A


def check_predefined(ctx, rng):
    """graph_predefined.py: documented edge sets"""
    from menpo.shape import PointCloud, PointTree, PointUndirectedGraph, PointDirectedGraph, UndirectedGraph
    from menpo.shape import graph_predefined as gp
    site = "C14/graph_predefined"
    for n in (1, 2, 3, 5, 8):
        try:
            _predefined_n(ctx, rng, n, gp, PointCloud, PointTree, PointUndirectedGraph, PointDirectedGraph, UndirectedGraph, site)
        except Exception as e:
            ctx.fail(site, "raises:" + type(e).__name__, "a predefined-graph constructor or query raised %s" % type(e).__name__, {"n": n})


def _predefined_n(ctx, rng, n, gp, PointCloud, PointTree, PointUndirectedGraph, PointDirectedGraph, UndirectedGraph, site):
    if True:
        pc = PointCloud(points_for(n))
        ctx.case(("predefined", n), nontrivial=n > 1, sample={"op": "graph_predefined", "n": n})
        e = gp.empty_graph(pc)
        ctx.check(e.n_edges == 0 and e.n_vertices == n, site, "empty", "empty_graph has edges", {"n": n})
        c = gp.complete_graph(pc)
        ctx.check(set(tuple(sorted(e)) for e in c.edges.tolist()) == set(itertools.combinations(range(n), 2)) if n > 1 else c.n_edges == 0,
                  site, "complete", "complete_graph edges", {"n": n})
        ch = gp.chain_graph(pc, graph_cls=PointDirectedGraph, closed=False)
        ctx.check(set(map(tuple, ch.edges.tolist())) == set((i, i + 1) for i in range(n - 1)) if n > 1 else ch.n_edges == 0,
                  site, "chain", "chain_graph edges", {"n": n})
        if n >= 3:
            cc = gp.chain_graph(pc, graph_cls=PointUndirectedGraph, closed=True)
            ctx.check(set(tuple(sorted(e)) for e in cc.edges.tolist()) == set((min(i, (i + 1) % n), max(i, (i + 1) % n)) for i in range(n)),
                      site, "closed-chain", "closed chain_graph edges", {"n": n})
        if n >= 2:
            r = rng.randrange(n)
            st, s = guarded(gp.star_graph, pc, r, graph_cls=PointTree)
            if ctx.check(st == "ok", site, "star-raises", "star_graph(root=%d) on %d points raised %s" % (r, n, s if st != "ok" else ""), {"n": n, "root": r}):
                ctx.check(set(map(tuple, s.edges.tolist())) == set((r, v) for v in range(n) if v != r) and s.root_vertex == r,
                          site, "star", "star_graph edges", {"n": n, "root": r})
            su = gp.star_graph(pc, r, graph_cls=UndirectedGraph)
            ctx.check(set(tuple(sorted(e)) for e in su.edges.tolist()) == set((min(r, v), max(r, v)) for v in range(n) if v != r),
                      site, "star-undirected", "star_graph edges", {"n": n, "root": r})


# ----------------------------------------------------------------------------- generators

def pairs_u(n):
    return list(itertools.combinations(range(n), 2))


def pairs_d(n):
    return [(a, c) for a in range(n) for c in range(n) if a != c]


def small_domain():
    """every undirected graph on <= 5 and every loop-free digraph on <= 4 vertices (codes as in Lemmas/C14Small.lean)"""
    for n in range(1, 6):
        ps = pairs_u(n)
        for code in range(2 ** len(ps)):
            yield "U", n, code, G.undirected(n, [p for i, p in enumerate(ps) if code >> i & 1])
    for n in range(1, 5):
        ps = pairs_d(n)
        for code in range(2 ** len(ps)):
            yield "D", n, code, G.directed_(n, [p for i, p in enumerate(ps) if code >> i & 1])


def loop_domain():
    """every undirected / directed graph on <= 3 vertices in which self-loops may occur (at least one does)"""
    for n in range(1, 4):
        ps = [(i, j) for i in range(n) for j in range(i, n)]
        for code in range(2 ** len(ps)):
            es = [p for i, p in enumerate(ps) if code >> i & 1]
            if any(a == c for a, c in es):
                yield G.undirected(n, es)
        ps = [(i, j) for i in range(n) for j in range(n)]
        for code in range(2 ** len(ps)):
            es = [p for i, p in enumerate(ps) if code >> i & 1]
            if any(a == c for a, c in es):
                yield G.directed_(n, es)


def signed(rng, ws, signs):
    """signs: None/'+' positive | '-' all negative | '+-' mixed"""
    if not ws or signs in (None, "+"):
        return ws
    if signs == "-":
        return [-x for x in ws]
    return [x * rng.choice([-1, -1, 1]) for x in ws]


def random_graph(rng, nmax=40, weighted=False, kind=None, signs=None):
    kind = kind or rng.choice("UD")
    n = rng.randint(2, nmax) if rng.random() < 0.8 else rng.randint(1, 6)
    style = rng.choice(["sparse", "sparse", "forest", "dense", "cyclic"])
    ps = pairs_u(n) if kind == "U" else pairs_d(n)
    if style == "forest":
        perm = list(range(n))
        rng.shuffle(perm)
        es = [(perm[rng.randrange(i)], perm[i]) for i in range(1, n) if rng.random() < 0.85]
        if kind == "U":
            es = [(min(e), max(e)) for e in es]
        if rng.random() < 0.4 and n > 2:
            es.append(rng.choice(ps))
        es = sorted(set(es))
    else:
        p = {"sparse": 1.2 / max(n, 1), "dense": 0.5, "cyclic": 2.5 / max(n, 1)}[style]
        es = [e for e in ps if rng.random() < p]
    if rng.random() < 0.08:
        v = rng.randrange(n)
        es.append((v, v))  # a loop
    ws = signed(rng, [rng.randint(1, 9) for _ in es], signs) if weighted else None
    return G.undirected(n, es, ws) if kind == "U" else G.directed_(n, es, ws)


def random_dag(rng, nmax=16, signs="+-"):
    """a directed acyclic graph (edges go forward in a hidden order) with non-zero integer weights of any sign"""
    n = rng.randint(2, nmax)
    perm = list(range(n))
    rng.shuffle(perm)
    p = rng.choice([0.2, 0.35, 0.6])
    es = [(perm[i], perm[j]) for i in range(n) for j in range(i + 1, n) if rng.random() < p]
    if not es:
        es = [(perm[0], perm[1])]
    return G.directed_(n, es, signed(rng, [rng.randint(1, 9) for _ in es], signs))


def detour_graph(rng, kind=None, nmax=9):
    """a positively weighted graph in which, for the returned pair (s, t), the lightest route (two light edges
    through m) is not the route with the fewest edges (one heavy direct edge)"""
    kind = kind or rng.choice("UD")
    n = rng.randint(3, nmax)
    s_, m_, t_ = rng.sample(range(n), 3)
    w = {}
    for e in (pairs_u(n) if kind == "U" else pairs_d(n)):
        if rng.random() < 1.5 / n:
            w[e] = rng.randint(3, 9)
    for e in ((s_, t_), (t_, s_), (s_, m_), (m_, s_), (m_, t_), (t_, m_)):
        w.pop(e, None)
    w[(s_, t_)] = 9
    w[(s_, m_)] = 1
    w[(m_, t_)] = 1
    if kind == "U":
        return G.undirected(n, sorted(w), [w[k] for k in sorted(w)]), s_, t_
    return G("D", n, w), s_, t_


def random_tree(rng, nmax=40, weighted=False):
    n = rng.randint(2, nmax)
    perm = list(range(n))
    rng.shuffle(perm)
    es = [(perm[rng.randrange(i)], perm[i]) for i in range(1, n)]
    ws = [rng.randint(1, 9) for _ in es] if weighted else None
    if weighted and rng.random() < 0.5:
        # negative and mixed-sign edge weights are legal (e.g. a maximum spanning tree of negated similarities)
        ws = [w * rng.choice([-1, -1, 1]) for w in ws]
    return G.directed_(n, es, ws), perm[0]


def random_connected_weighted(rng, nmax=40, signs=None):
    n = rng.randint(2, nmax)
    perm = list(range(n))
    rng.shuffle(perm)
    es = set()
    for i in range(1, n):
        a, c = perm[rng.randrange(i)], perm[i]
        es.add((min(a, c), max(a, c)))
    for e in pairs_u(n):
        if rng.random() < 2.0 / n:
            es.add(e)
    es = sorted(es)
    if signs in (None, "+") and rng.random() < 0.5:
        ws = list(range(1, len(es) + 1))      # pairwise different weights: the minimum spanning tree is unique
        rng.shuffle(ws)
        return G.undirected(n, es, ws)
    return G.undirected(n, es, signed(rng, [rng.randint(1, 12) for _ in es], signs))


def some_masks(rng, n, k):
    full = list(itertools.product([0, 1], repeat=n)) if n <= 5 else None
    if full is not None and (k is None or k >= len(full)):
        return full
    out = [tuple([1] * n), tuple([0] * n)]
    while len(out) < (k or 4):
        p = rng.choice([0.3, 0.6, 0.85])
        out.append(tuple(int(rng.random() < p) for _ in range(n)))
    return out


# ----------------------------------------------------------------------------- run

ASYNC_CHUNK = 5000   # request lines per driver process started while the harness goes on generating cases


def flush_async(b, force=False, chunk=None):
    """start a driver process (in a thread) on the request lines collected since the last flush, so that the model
    evaluates them while the implementation side of the next cases runs; `settle` joins.  Same lines, same replies as
    one run at the end: only the wall time changes."""
    import threading
    import os
    sent = getattr(b, "sent", 0)
    if len(b.lines) - sent < (1 if force else (chunk or ASYNC_CHUNK)) or (os.environ.get("VERIF_C14_SYNC") and not force):
        return
    chunk = b.lines[sent:]
    b.sent = len(b.lines)
    box = {}

    def work():
        try:
            box["model"] = common.run_driver(PROP, chunk)
        except BaseException as e:    # re-raised by settle in the main thread (Infra stays Infra)
            box["error"] = e
    t = threading.Thread(target=work, daemon=True)
    t.start()
    if not hasattr(b, "pending"):
        b.pending = []
    b.pending.append((t, box))


def settle(ctx, b):
    """join the driver runs of the batch (the last chunk is started here); diff"""
    if not b.lines:
        return
    flush_async(b, force=True)
    model = {}
    for t, box in getattr(b, "pending", []):
        t.join()
        if "error" in box:
            raise box["error"]
        model.update(box["model"])
    b.pending = []
    for cid, (op, impl, rp) in b.expect.items():
        reply = model[cid]
        ctx.count("model-op:" + op)
        if callable(impl):
            why = impl(reply)
        else:
            why = None if reply == impl else "model %r vs implementation %r" % (reply[:400], impl[:400])
        if why:
            ctx.mismatch(op, why, dict(rp, driver_line=b.lines[int(cid[1:])][:2000]))


def exhaustive(ctx, b, rng, deadline=None):
    """both small domains on the real classes.  thorough: every mask, every start/end pair, every root, both
    class variants.  quick: every graph (all queries, cycle/tree tests), every root for every graph with n-1
    edges, every mask of every arborescence, and per graph a seeded sample of 2 masks and 1 start/end pair."""
    import time
    quick = ctx.quick()
    for kind, n, code, g in small_domain():
        if deadline is not None and (time.time() > deadline or ctx.failures):
            return
        if deadline is None:
            flush_async(b)     # (the directed search never settles its batches: oracle only)
        # construction route: edge list | dense | csr, the matrices in every dtype in turn (unit weights fit them all)
        dt = ":" + DTYPES[(code // 3 + n) % len(DTYPES)]
        variant = ("edges", "dense" + dt, "csr" + dt)[(code + n) % 3]
        obj = safely(ctx, check_basic, b, g, variant, bool((code + n) % 2 == 0), rng, full=not quick)
        if obj is None:
            continue
        if not quick and code % 4 == 0:   # the other class variant / construction route
            safely(ctx, check_basic, b, g, ("dense" + dt, "csr" + dt, "edges")[(code + n) % 3], bool((code + n) % 2 == 1), rng)
        pobj = obj if hasattr(obj, "points") else safely(ctx, build_checked, g, "csr" + dt, True)
        if pobj is None:
            continue
        masks = some_masks(rng, n, None)
        if quick and n > 2:
            masks = rng.sample(masks, 2)
        for k, m in enumerate(masks):
            # deep: the masked graph answers the whole battery and is masked again (quick: one mask of every 16th graph)
            safely(ctx, check_mask, b, g, pobj, m, rng, deep=(k == 0 and code % 16 == 1) if quick else (k + code) % 16 == 0)
        prs = [(s, t) for s in range(n) for t in range(n)]
        if quick:
            prs = [rng.choice(prs)] + ([(rng.randrange(n),) * 2] if code % 8 == 0 else [])
        for s, t in prs:
            safely(ctx, check_paths, b, g, obj, s, t)
            safely(ctx, check_shortest, b, g, obj, s, t)
        if kind == "D":
            roots = range(n) if (not quick or len(g.w) == n - 1) else ([rng.randrange(n)] if code % 4 == 0 else [])
            for r in roots:
                t = safely(ctx, check_tree_ctor, b, g, r, True, "edges" if (code + r) % 2 else "matrix" + dt,
                           rng if code % 2 else None)
                if t is not None and ref_arborescence(g, r):
                    for k, m in enumerate(some_masks(rng, n, None)):
                        safely(ctx, check_tree_mask, b, g, r, t, m, rng, deep=(k + code + r) % 4 == 0)
        elif g.w and (not quick or code % 2 == 0):
            safely(ctx, check_mst, b, g, obj, rng.randrange(n), hasattr(obj, "points"), deep=code % (8 if quick else 2) == 0)


def with_loops(ctx, b, rng):
    for k, g in enumerate(loop_domain()):
        if ctx.quick() and g.n == 3 and g.directed and k % 3:
            continue
        ctx.count("loops-domain")
        safely(ctx, check_basic, b, g, ("dense", "csr")[k % 2] + ":" + DTYPES[(k // 2) % len(DTYPES)], bool(k % 2), rng,
               full=not ctx.quick())
    # 4 vertices WITH self-loops (the property's "every directed graph on up to 4 vertices"): 2^16 digraphs / 2^10 graphs
    # are too many to run each time: a seeded sample (quick 120 + 40, thorough 2500 + all 960 undirected)
    dps = [(i, j) for i in range(4) for j in range(4)]
    ups = [(i, j) for i in range(4) for j in range(i, 4)]
    for k in range(ctx.n(120, 2500)):
        code = rng.randrange(2 ** 16)
        es = [p for i, p in enumerate(dps) if code >> i & 1]
        if not any(a == c for a, c in es):
            es.append((rng.randrange(4),) * 2)
        ctx.count("loops-domain:4-vertices-sampled")
        safely(ctx, check_basic, b, G.directed_(4, es), ("dense", "csr")[k % 2] + ":" + DTYPES[(k // 2) % len(DTYPES)], bool(k % 2), rng,
               full=not ctx.quick())
    codes = rng.sample(range(2 ** 10), 40) if ctx.quick() else range(2 ** 10)
    for k, code in enumerate(codes):
        es = [p for i, p in enumerate(ups) if code >> i & 1]
        if any(a == c for a, c in es):
            ctx.count("loops-domain:4-vertices-sampled")
            safely(ctx, check_basic, b, G.undirected(4, es), ("dense", "csr")[k % 2] + ":" + DTYPES[(k // 2) % len(DTYPES)], bool(k % 2), rng,
                   full=not ctx.quick())


def edge_lists_with_isolated_ends(ctx, b, rng):
    """in every run: edge lists that never mention vertex 0 nor vertex n-1 (both must come out isolated, the number
    of vertices comes from the argument / the points), with repeated edges, both orientations and a self-loop;
    abstract and Point variants; Tree / PointTree.init_from_edges must refuse such a list (a tree has no isolated
    vertices) and accept the same tree once the end vertices are attached"""
    for kind in "UD":
        for point in (False, True):
            n = rng.randint(4, 10)
            inner = list(range(1, n - 1))
            es = [(rng.choice(inner), rng.choice(inner)) for _ in range(rng.randint(2, 2 * n))]
            es += [(c, a) for a, c in es[:2]] + [es[0], es[-1]] + [(inner[0], inner[0])]
            rng.shuffle(es)
            safely(ctx, check_from_edges, b, rng, kind, n, es, point)
    for point in (False, True):
        n = rng.randint(4, 9)
        inner = list(range(1, n - 1))
        rng.shuffle(inner)
        es = [(inner[rng.randrange(i)], inner[i]) for i in range(1, len(inner))]
        ctx.count("tree-ctor:isolated-0-and-last:" + ("PointTree" if point else "Tree"))
        safely(ctx, check_tree_ctor, b, G.directed_(n, es), inner[0], point, "edges", rng)      # must be refused
        es2 = es + [(rng.choice(inner), 0), (rng.choice(inner), n - 1)]
        safely(ctx, check_tree_ctor, b, G.directed_(n, es2), inner[0], point, "edges", rng)     # must be accepted


def refused_representations(ctx, b, rng):
    """csc / coo / lil / csr_array adjacency arguments: the constructor documents ndarray or csr_matrix only and
    refuses anything else with ValueError (counted); any other outcome is judged like an ordinary construction"""
    for k, rep in enumerate(REFUSED_REPS):
        g = random_graph(rng, nmax=8, weighted=bool(k % 2))
        safely(ctx, check_basic, b, g, rep + ":" + rng.choice([d for d in DTYPES if dtype_ok(g, d)]), bool(rng.random() < 0.5), rng)


def stored_zero_constructions(ctx, b, rng):
    """in EVERY run, whatever the seed: each graph class built from a csr matrix with explicitly stored zeros, the zeros
    produced in each of the three ways (constructor data / in-place thresholding / A[i, j] = 0) and the matrix both copied
    by the constructor and kept (copy=False).  A stored zero is a non-edge for every query: the two components of the
    fixed graph stay apart for find_path / find_shortest_path / is_tree / minimum_spanning_tree as for edges / is_edge."""
    gu = G.undirected(4, [(0, 1), (2, 3)], [2, 3])
    gd = G.directed_(4, [(0, 1), (2, 3)], [2, 3])
    gt = G.directed_(4, [(0, 1), (0, 2), (1, 3)], [2, 3, 4])
    for zr in ("csrz", "csrzt", "csrza"):
        for nc in ("", "-nocopy"):
            variant = zr + nc + ":int64"
            for g in (gu, gd):
                for point in (False, True):
                    ctx.count("explicit-zeros:fixed:" + zr + nc)
                    obj = safely(ctx, check_basic, b, g, variant, point, rng)
                    if obj is not None:
                        for (s_, t_) in ((0, 3), (0, 1), (1, 2)):
                            safely(ctx, check_paths, b, g, obj, s_, t_)
                            safely(ctx, check_shortest, b, g, obj, s_, t_)
            for point in (False, True):
                ctx.count("explicit-zeros:fixed:" + zr + nc)
                t = safely(ctx, check_tree_ctor, b, gt, 0, point, variant, rng)
                if t is not None:
                    safely(ctx, check_paths, b, gt, t, 3, 2)
                    safely(ctx, check_paths, b, gt, t, 0, 3)


def malformed_constructions(ctx, rng):
    """inputs the constructors have to refuse (or repair): an ASYMMETRIC matrix for an undirected graph (the state the
    property names: 'adjacency symmetric for undirected'), a number of points different from the number of vertices.
    Judged: never an accepted object whose adjacency is asymmetric / whose points do not match its vertices."""
    from menpo import shape as ms
    import scipy.sparse as sp
    for k in range(ctx.n(6, 40)):
        g = random_graph(rng, nmax=7, weighted=bool(k % 2), kind="U")
        if not g.w:
            continue
        a = g.dense()
        (i, j) = rng.choice(sorted(g.w))
        if i == j:
            continue
        if k % 3 == 0:
            a[j, i] = 0                     # one orientation missing
        else:
            a[j, i] = a[i, j] + 1           # both orientations, different weights
        arg = sp.csr_matrix(a) if k % 2 else a
        point = bool(k % 4 < 2)
        rp = {"construct": "A = np.array(%r); g = %s(%sA)" % (a.tolist(), "PointUndirectedGraph" if point else "UndirectedGraph",
                                                              "P, " if point else ""), "variant": "csr" if k % 2 else "dense"}
        ctx.case(("asym", g.key(), i, j, k % 3, point), sample={"op": "UndirectedGraph(asymmetric matrix)", "matrix": a.tolist()})
        st, obj = guarded((lambda: ms.PointUndirectedGraph(points_for(g.n), arg)) if point else (lambda: ms.UndirectedGraph(arg)))
        ctx.count("malformed:asymmetric:" + (st if st != "exc" else "exc:" + str(obj)))
        if st == "ok":
            A = obj.adjacency_matrix
            ctx.check((A != A.T).nnz == 0, "C14/construct", "asymmetric-undirected-accepted",
                      "an undirected graph was built from an asymmetric matrix and its adjacency is asymmetric", rp)
    for k in range(ctx.n(6, 30)):
        tree = k % 3 == 2
        g, root = random_tree(rng, nmax=7) if tree else (random_graph(rng, nmax=7, kind="UD"[k % 2]), 0)
        if not g.w:
            continue
        extra = rng.choice([-1, 1, 2])
        if g.n + extra < 1:
            extra = 1
        pts = points_for(g.n + extra)
        cls = ms.PointTree if tree else graph_class(g, True)
        rp = {"construct": "%s(points with %d rows, adjacency on %d vertices)" % (cls.__name__, g.n + extra, g.n),
              "kind": g.kind, "n": g.n, "entries": [[i, j, x] for (i, j), x in sorted(g.w.items())]}
        ctx.case(("npoints", g.key(), extra, tree), sample={"op": cls.__name__ + " with a wrong number of points", "n": g.n, "points": g.n + extra})
        st, obj = guarded((lambda: cls(pts, g.dense(), root)) if tree else (lambda: cls(pts, g.dense())))
        ctx.count("malformed:n_points:" + (st if st != "exc" else "exc:" + str(obj)))
        if st == "ok":
            ctx.check(obj.n_points == obj.n_vertices, "C14/construct", "points-vertices-mismatch-accepted",
                      "%s accepted %d points for %d vertices" % (cls.__name__, obj.n_points, obj.n_vertices), rp)


def randoms(ctx, b, rng, count, flush=False):
    for k in range(count):
        random_case(ctx, b, rng, k)
        if flush:
            flush_async(b, chunk=1200)    # the random cases come last and carry the heaviest model lines: small chunks


def random_case(ctx, b, rng, k):
    """the k-th random case: eight kinds in turn"""
    if True:
        what = k % 8
        if what == 0:      # queries + masks on a random graph, any matrix representation / dtype, weights of any sign
            g = random_graph(rng, weighted=rng.random() < 0.6, signs=rng.choice(["+", "+-", "-"]))
            point = rng.random() < 0.6
            obj = safely(ctx, check_basic, b, g, random_variant(rng, g), point, rng)
            if obj is None:
                return
            pobj = obj if point else safely(ctx, build_checked, g, random_variant(rng, g, edges_ok=False), True)
            if pobj is None:
                return
            for j, m in enumerate(some_masks(rng, g.n, 4)):
                safely(ctx, check_mask, b, g, pobj, m, rng, deep=j >= 2)
            s, t = rng.randrange(g.n), rng.randrange(g.n)    # paths follow the edges whatever the sign of the weights
            safely(ctx, check_paths, b, g, obj, s, t, all_paths=g.n <= 7)
        elif what == 1:    # edge lists with duplicates / both orientations / loops, abstract and Point variants
            kind = rng.choice("UD")
            n = rng.randint(1, 12)
            es = [(rng.randrange(n), rng.randrange(n)) for _ in range(rng.randint(0, 2 * n))]
            es += [rng.choice(es) for _ in range(rng.randint(0, 3))] if es else []
            es += [(c, a) for a, c in es[:rng.randint(0, 2)]]
            safely(ctx, check_from_edges, b, rng, kind, n, es, point=k % 16 == 1)
        elif what == 2:    # paths and shortest paths on weighted graphs; the same object answers all of them
            g = random_graph(rng, nmax=rng.choice([7, 7, 16, 28, 40]), weighted=True)
            obj = safely(ctx, build_checked, g, random_variant(rng, g, edges_ok=False), rng.random() < 0.5)
            if obj is None:
                return
            for _ in range(3):
                s, t = rng.randrange(g.n), rng.randrange(g.n)
                safely(ctx, check_paths, b, g, obj, s, t, all_paths=g.n <= 7)
                safely(ctx, check_shortest, b, g, obj, s, t, rng.choice(["auto", "D", "BF", "J", "FW"]),
                               rng.random() < 0.25)
            v = rng.randrange(g.n)
            safely(ctx, check_shortest, b, g, obj, v, v)
        elif what == 3:    # trees: constructor, relations, masks; and non-trees
            g, r = random_tree(rng, weighted=rng.random() < 0.5)
            if rng.random() < 0.25:   # spoil it
                how = rng.choice(["extra", "flip", "root", "drop"])
                w = dict(g.w)
                if how == "extra":
                    w[rng.choice(pairs_d(g.n))] = 1
                elif how == "flip":
                    (a, c) = rng.choice(sorted(w))
                    w[(c, a)] = w.pop((a, c))
                elif how == "drop" and len(w) > 1:
                    w.pop(rng.choice(sorted(w)))
                else:
                    r = rng.randrange(g.n)
                g = G("D", g.n, w)
            via = "matrix:" + rng.choice([d for d in DTYPES if dtype_ok(g, d)])
            if all(x == 1 for x in g.w.values()) and rng.random() < 0.5:
                via = "edges"
                if rng.random() < 0.4:    # one edge is listed twice
                    w = dict(g.w)
                    w[rng.choice(sorted(w))] = 2
                    g = G("D", g.n, w)
            t = safely(ctx, check_tree_ctor, b, g, r, True, via, rng)
            if t is not None and ref_arborescence(g, r):
                for j, m in enumerate(some_masks(rng, g.n, 4)):
                    safely(ctx, check_tree_mask, b, g, r, t, m, rng, deep=j != 1)
            safely(ctx, check_tree_ctor, b, g, r, False, via, rng)
        elif what == 4:    # minimum spanning trees: weights of any sign, several roots of the same graph object
            signs = rng.choice(["+", "+", "-", "+-", "+-"])
            g = random_connected_weighted(rng, signs=signs) if rng.random() < 0.85 else \
                random_graph(rng, nmax=12, weighted=True, kind="U", signs=signs)
            point = rng.random() < 0.5
            obj = safely(ctx, build_checked, g, random_variant(rng, g, edges_ok=False), point)
            if obj is None:
                return
            for r in sorted(set([0, g.n - 1, rng.randrange(g.n)]))[:rng.choice([2, 3])]:
                safely(ctx, check_mst, b, g, obj, r, point)
        elif what == 5:    # negative and mixed-sign weights on a directed acyclic graph: every query, Bellman-Ford / Johnson
            g = random_dag(rng, nmax=rng.choice([6, 7, 12, 16]), signs=rng.choice(["+-", "+-", "-"]))
            point = rng.random() < 0.5
            obj = safely(ctx, check_basic, b, g, random_variant(rng, g, edges_ok=False), point, rng)
            if obj is None:
                return
            for _ in range(3):
                s, t = rng.randrange(g.n), rng.randrange(g.n)
                safely(ctx, check_paths, b, g, obj, s, t, all_paths=g.n <= 7)
                safely(ctx, check_shortest, b, g, obj, s, t, rng.choice(["BF", "J"]), rng.random() < 0.25)
            reach = [(s, t) for s in range(g.n) for t in g.out[s]]
            s, t = rng.choice(reach)
            for alg in ("BF", "J"):
                safely(ctx, check_shortest, b, g, obj, s, t, alg, False)
        elif what == 6:    # objects with a previous life: query orders, repetition, copy()
            sub = (k // 8) % 4
            point = (k // 32) % 2 == 0 or sub == 3
            pair, root = None, None
            if sub == 0:
                g, s, t = detour_graph(rng)
                pair = (s, t)
            elif sub == 1:
                g = random_dag(rng, nmax=9, signs="+-")
            elif sub == 2:
                g, root = random_tree(rng, nmax=12, weighted=True)
            else:
                g = random_graph(rng, nmax=10, weighted=rng.random() < 0.7)
            variant = random_variant(rng, g, edges_ok=False)
            obj = safely(ctx, check_history, b, rng, g, variant, point, root, pair)
            if obj is not None and pair is not None:
                # after all that, on the very same object: the lightest and the fewest-edges route of the planted pair
                alg = rng.choice(["auto", "D", "BF", "J", "FW"])
                for unw in rng.choice([(False, True), (True, False)]) + (rng.random() < 0.5,):
                    safely(ctx, check_shortest, b, g, obj, pair[0], pair[1], alg, unw)
        else:              # explicitly stored zeros in a csr matrix are non-edges for every edge query
            g = random_graph(rng, nmax=rng.choice([6, 12, 20]), weighted=rng.random() < 0.5, signs=rng.choice(["+", "+-"]))
            point = rng.random() < 0.5
            dts = [d for d in DTYPES if dtype_ok(g, d)]
            # every graph class, the zeros produced in three ways, the matrix copied by the constructor or kept (copy=False)
            zrep = rng.choice(["csrz", "csrzt", "csrza"]) + rng.choice(["", "-nocopy"])
            ctx.count("explicit-zeros:route:" + zrep)
            if k % 3 == 0:     # a Tree / PointTree built from such a matrix
                tg, troot = random_tree(rng, nmax=rng.choice([5, 9]), weighted=rng.random() < 0.5)
                t = safely(ctx, check_tree_ctor, b, tg, troot, point, zrep + ":" + rng.choice([d for d in DTYPES if dtype_ok(tg, d)]), rng)
                if t is not None:
                    ctx.count("explicit-zeros:tree:" + type(t).__name__)
                    for _ in range(2):
                        s_, t_ = rng.randrange(tg.n), rng.randrange(tg.n)
                        safely(ctx, check_paths, b, tg, t, s_, t_, all_paths=tg.n <= 7)
                        safely(ctx, check_shortest, b, tg, t, s_, t_, "auto", rng.random() < 0.3)
            obj = safely(ctx, check_basic, b, g, zrep + ":" + rng.choice(dts), point, rng)
            if obj is not None:
                strict = STORED_ZEROS_STRICT or zeros_dropped(obj)
                ctx.count("explicit-zeros:" + ("none-possible" if not zero_positions(g) else
                                               "dropped-by-constructor" if zeros_dropped(obj) else "kept-by-constructor"))
                if point:
                    # (stored zeros survive the row / column selection of from_mask)
                    safely(ctx, check_mask, b, g, obj, some_masks(rng, g.n, 4)[-1], rng, deep=True, trees=strict)
                if strict:
                    ctx.count("explicit-zeros:csgraph-queries-checked")
                    for _ in range(2):
                        s, t = rng.randrange(g.n), rng.randrange(g.n)
                        safely(ctx, check_paths, b, g, obj, s, t, all_paths=g.n <= 7)
                        safely(ctx, check_shortest, b, g, obj, s, t, rng.choice(["auto", "D", "BF", "J", "FW"]), rng.random() < 0.3)
                    if not g.directed and g.w:
                        safely(ctx, check_mst, b, g, obj, rng.randrange(g.n), point)
                else:
                    ctx.count("explicit-zeros:csgraph-queries-left-out")


def search(ctx):
    """directed search after a broken tie (oracle only): first every mask / pair / root on the graphs of the
    mismatching cases and on their one-edge neighbours, then both small domains again (fresh samples in the quick
    tier, everything in the thorough tier), then random cases until the time budget (quick 45 s, thorough 240 s)."""
    import time
    rng = ctx.rng
    t0 = time.time()
    budget = 45 if ctx.quick() else 240
    seen = set()
    ctx.entry_all = True    # after a broken tie: the vertex guards of every entry point on every graph that is run
    for op, why, rp in ctx.mismatches[:12]:
        if "entries" not in rp:
            continue
        g0 = G.from_rp(rp)
        if g0.key() in seen or g0.n > 8:
            continue
        seen.add(g0.key())
        cand = [g0]
        for e in (pairs_d(g0.n) if g0.directed else pairs_u(g0.n))[:20]:   # neighbours: toggle one edge
            w = dict(g0.w)
            ks = [e] if g0.directed else [e, e[::-1]]
            for k in ks:
                if k in w:
                    del w[k]
                else:
                    w[k] = 1
            cand.append(G(g0.kind, g0.n, w))
        b = Batch()
        for g in cand:
            obj = safely(ctx, check_basic, b, g, "csr", True, None)
            if obj is None:
                continue
            for m in some_masks(rng, g.n, None if g.n <= 5 else 8):
                safely(ctx, check_mask, b, g, obj, m)
            for s_ in range(g.n):
                for t_ in range(g.n):
                    safely(ctx, check_paths, b, g, obj, s_, t_)
                    safely(ctx, check_shortest, b, g, obj, s_, t_)
            for r in range(g.n):
                if g.directed:
                    t = safely(ctx, check_tree_ctor, b, g, r, True, "matrix")
                    if t is not None and ref_arborescence(g, r):
                        for m in some_masks(rng, g.n, None if g.n <= 5 else 8):
                            safely(ctx, check_tree_mask, b, g, r, t, m)
                elif g.w:
                    safely(ctx, check_mst, b, g, obj, r, True)
        ctx.searched += len(b.lines)
        if ctx.failures:
            return True
    b = Batch()
    exhaustive(ctx, b, rng, deadline=t0 + budget)
    with_loops(ctx, b, rng)
    ctx.searched += len(b.lines)
    while not ctx.failures and time.time() - t0 < budget:
        b = Batch()
        randoms(ctx, b, rng, 50)
        ctx.searched += len(b.lines)
    return bool(ctx.failures)


def generated(ctx):
    """the Python-level logic of menpo/shape/graph.py, TRANSLATED from the source text of the working tree into
    Generated/C14Src.lean (harness/trans_c14.py), and the equality obligations of GenProps/C14Src.lean re-checked by
    lake.  A source that no longer fits the vocabulary, a type error in the translation or a failed equality proof is
    a BROKEN OBLIGATION (then: directed search), never an infrastructure error."""
    import os
    import re
    from . import trans_c14
    files, reasons = trans_c14.generated_files()
    ctx.notes["source_translation"] = ("%d definitions translated from menpo/shape/graph.py" % trans_c14.N_DEFS if not reasons
                                       else "untranslatable: " + "; ".join(reasons))
    ok = common.build_generated(ctx, files, trans_c14.GEN_TARGETS, trans_c14.N_OBLIGATIONS)
    if ok:
        # the obligations (and the property theorems restated about the translated detector) are axiom-audited as well
        ax = common.axiom_audit(PROP + "gen", ["MenpoModel.GenProps.C14Src", "MenpoModel.GenProps.C14SrcProps"], GEN_THEOREMS)
        audited = {}
        for t in GEN_THEOREMS:
            hit = [k for k in ax if k == t or k.endswith("." + t) or t.endswith("." + k)]
            audited[t] = ax[hit[0]] if hit else []
            if t.split(".")[-1].startswith("translated_"):
                ctx.theorems[t] = audited[t]      # property theorems about the translated source
        # the `gen..._eq` equalities stay counted as generated obligations (ctx.gen_obligations); their axioms:
        ctx.notes["generated_obligations_axioms"] = sorted(set(a for t, v in audited.items() for a in v))
        ctx.notes["generated_obligations_audited"] = len([t for t in audited if not t.split(".")[-1].startswith("translated_")])
        return
    # name the obligations that no longer check (for the replay and for the directed search)
    rec = ctx.broken_obligations[-1]
    names = []
    try:
        src = open(os.path.join(common.LEAN, "MenpoModel", "GenProps", "C14Src.lean")).read().splitlines()
        for ln in re.findall(r"error: MenpoModel/GenProps/C14Src\.lean:(\d+):\d+", "\n".join(rec.get("errors", [])) + "\n" + rec.get("output_tail", "")):
            i = int(ln) - 1
            while i >= 0 and not src[i].startswith("theorem "):
                i -= 1
            if i >= 0:
                nm = src[i].split()[1]
                if nm not in names:
                    names.append(nm)
    except OSError:
        pass
    rec["obligations"] = names
    rec["untranslatable"] = reasons
    ctx.notes["broken_source_obligations"] = names or reasons or ["(see output_tail)"]


def run(ctx):
    import time
    t_start = time.time()
    common.prepare_lean(ctx, PROP, IMPORTS, THEOREMS,
                        targets=["MenpoModel.Props.C14", "MenpoModel.Drive.C14"], generated=generated)
    t_prepared = time.time()
    ctx.trusted += ["scipy.sparse.csgraph results (shortest_path, breadth/depth_first_order, breadth_first_tree, "
                    "connected_components, minimum_spanning_tree) enter the model as parameters; their contract is "
                    "re-checked against the model's Bellman-Ford / Kruskal on every case",
                    "decide +kernel tables: 1099 undirected graphs on <=5 vertices, 4165 loop-free digraphs on <=4 vertices "
                    "(now corollaries of the unbounded theorems; kept as an independent cross-check of the definitions)",
                    "the tie between the Core recursion `dfs` and the code of _has_cycles.dfs is the TRANSLATION of the "
                    "source text (genDfs_eq, genHasCycles_eq, re-proved on every run) plus the correspondence (has_cycles "
                    "of every case is diffed); that the fuel 2n+2 never runs out is a theorem (Dfs.dfs_exec)",
                    "harness/py2lean2.py + harness/py2lean2w.py (translator) and harness/trans_c14.py + "
                    "lean/MenpoModel/Core/C14Src.lean (the C14 vocabulary: the meaning of the numpy / scipy.sparse "
                    "expressions of graph.py on the model graph)"]
    rng = ctx.rng
    b = Batch()
    import glob
    import os
    for path in sorted(glob.glob(os.path.join(common.ROOT, "replays", "corpus", "C14-*.json"))):
        replay_case(ctx, b, json.load(open(path)).get("replay", {}))   # minimised past failures first
        ctx.count("corpus-replay")
    check_predefined(ctx, rng)
    edge_lists_with_isolated_ends(ctx, b, rng)
    refused_representations(ctx, b, rng)
    malformed_constructions(ctx, rng)
    stored_zero_constructions(ctx, b, rng)
    exhaustive(ctx, b, rng)
    with_loops(ctx, b, rng)
    randoms(ctx, b, rng, ctx.n(320, 3200), flush=True)
    if getattr(b, "skipped_negative", 0):
        ctx.count("oracle-only(negative weights in an operation that adds or orders weights)", b.skipped_negative)
    if getattr(b, "signed", 0):
        ctx.count("model-compared-with-signed-weights(negative weights, structural operation)", b.signed)
    t_cases = time.time()
    settle(ctx, b)
    ctx.notes["phase_seconds"] = {"lean build + audit (incl. waiting for the shared lake lock)": round(t_prepared - t_start, 1),
                                  "cases on the real classes (driver chunks running alongside)": round(t_cases - t_prepared, 1),
                                  "waiting for the last driver chunks + diff": round(time.time() - t_cases, 1)}
    ctx.notes["exhaustive_small_domains"] = "all 1099 undirected graphs on <=5 vertices and all 4165 loop-free digraphs " \
        "on <=4 vertices run on the real classes (%s masks / start-end pairs per graph, every root)" % (
            "every" if not ctx.quick() else "a seeded sample of")
    return ctx.finish(search)


def replay_case(ctx, b, rp):
    rng = ctx.rng
    if "entries" not in rp:
        safely(ctx, check_from_edges, b, rng, rp["kind"], rp["n"], [tuple(e) for e in rp["edges"]], bool(rp.get("point", False)))
        return
    g = G.from_rp(rp)
    point = bool(rp.get("point", False))
    variant = rp.get("variant") or "dense"
    if variant == "edges":
        variant = "dense"
    if rp.get("check") == "history":
        for _ in range(4):    # the orders are drawn again: a few of them
            safely(ctx, check_history, b, rng, g, variant, point, rp.get("root"), tuple(rp["pair"]) if rp.get("pair") else None)
        return
    if "previous_life" in rp:   # a masked tree that was masked again: replay the whole chain
        pl = rp["previous_life"]
        g0 = G.from_rp(pl)
        t = safely(ctx, check_tree_ctor, b, g0, pl["root"], True, "matrix")
        if t is not None:
            safely(ctx, check_tree_mask, b, g0, pl["root"], t, tuple(pl["mask"]), rng, deep=True)
    if g.directed and "root" in rp and "mask" not in rp and "start" not in rp:
        safely(ctx, check_tree_ctor, b, g, rp["root"], point, "matrix" + (":" + variant.partition(":")[2] if ":" in variant else ""))
        return
    obj = safely(ctx, check_basic, b, g, variant, point)
    if obj is None:
        return
    if "mask" in rp and "root" in rp:
        t = safely(ctx, check_tree_ctor, b, g, rp["root"], True, "matrix")
        if t is not None:
            safely(ctx, check_tree_mask, b, g, rp["root"], t, tuple(rp["mask"]), rng, deep=True)
    elif "mask" in rp:
        pobj = obj if point else safely(ctx, build_checked, g, variant, True)
        if pobj is not None:
            for _ in range(3 if "mask2" in rp else 1):
                safely(ctx, check_mask, b, g, pobj, tuple(rp["mask"]), rng, deep=True, trees=not variant.startswith("csrz") or STORED_ZEROS_STRICT)
    elif "start" in rp:
        safely(ctx, check_paths, b, g, obj, rp["start"], rp["end"], all_paths=g.n <= 8)
        if "algorithm" in rp:   # the other metric first: an answer must not depend on what was asked before
            safely(ctx, check_shortest, b, g, obj, rp["start"], rp["end"], rp["algorithm"], not rp.get("unweighted", False))
        safely(ctx, check_shortest, b, g, obj, rp["start"], rp["end"], rp.get("algorithm", "auto"), rp.get("unweighted", False))
    elif "root" in rp:
        safely(ctx, check_mst, b, g, obj, rp["root"], point)


def replay(ctx, path):
    data = json.load(open(path))
    rp = data.get("replay") or (data.get("broken_correspondence") or [{}])[0].get("case", {})
    if "entries" not in rp and "edges" not in rp:
        if data.get("broken_obligations"):
            # a broken source-translation obligation without a failing input: re-translate the working tree and re-check
            print("replay file carries no graph (broken obligation only): re-running the translated-source obligations")
            for bo in data["broken_obligations"]:
                print("  recorded:", bo.get("obligations") or bo.get("untranslatable") or bo.get("errors", [])[:2])
            generated(ctx)
            return ctx.finish(None)
        print("replay file carries no graph")
        return 2
    b = Batch()
    print("construct:", rp.get("construct"), "; call:", rp.get("call"))
    replay_case(ctx, b, rp)
    settle(ctx, b)
    for f in ctx.failures:
        print("oracle:", f[0], f[1], "-", f[2])
    for k in ctx.known_seen:
        print("known finding re-observed:", k)
    for m in ctx.mismatches:
        print("model/implementation:", m[0], m[1])
    return ctx.finish(None)
