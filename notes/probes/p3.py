import numpy as np, itertools
from menpo.shape import *
from menpo.transform import *
from menpo.transform.homogeneous import *
rng=np.random.default_rng(2)
S=PointCloud(rng.integers(-5,6,size=(6,2)).astype(float)); T=PointCloud(rng.integers(-5,6,size=(6,2)).astype(float))
def mk():
    c,s=3/5,4/5
    return {
    'Homogeneous':Homogeneous(np.array([[1,2,3],[0,1,4],[0.,0,1]])),
    'Affine':Affine(np.array([[1,2,3],[0.5,1,4],[0.,0,1]])),
    'Similarity':Similarity(np.array([[2*c,-2*s,1],[2*s,2*c,2],[0,0,1.]])),
    'Rotation':Rotation(np.array([[c,-s],[s,c]])),
    'Translation':Translation([1.,2]),
    'UniformScale':UniformScale(2.,2),
    'NonUniformScale':NonUniformScale([2.,3]),
    'AlignmentAffine':AlignmentAffine(S,T),
    'AlignmentSimilarity':AlignmentSimilarity(S,T),
    'AlignmentRotation':AlignmentRotation(S,T),
    'AlignmentTranslation':AlignmentTranslation(S,T),
    'AlignmentUniformScale':AlignmentUniformScale(S,T),
    }
names=list(mk().keys())
x=rng.random((4,2))
bad=[]
table={}
for a,b in itertools.product(names,names):
    o=mk(); A,B=o[a],mk()[b]
    ha,hb=A.h_matrix.copy(),B.h_matrix.copy()
    for d in ('before','after'):
        try:
            C=getattr(A,'compose_'+d)(B)
            exp=B.apply(A.apply(x)) if d=='before' else A.apply(B.apply(x))
            ok=np.allclose(C.apply(x),exp)
            table[(a,b,d)]=type(C).__name__
            if not ok or not np.array_equal(ha,A.h_matrix) or not np.array_equal(hb,B.h_matrix): bad.append((a,b,d,'law/operand'))
        except Exception as e:
            bad.append((a,b,d,repr(e)[:80]))
print('bad',bad)
import collections
print(collections.Counter(table.values()))
for a in names: print(a.ljust(22), ' '.join(table[(a,b,'before')][:5] for b in names))
# inplace acceptance
acc={}
for a,b in itertools.product(names,names):
    A,B=mk()[a],mk()[b]
    try: A.compose_before_inplace(B); acc[(a,b)]=1
    except ValueError: acc[(a,b)]=0
for a in names: print(a.ljust(22), ''.join(str(acc[(a,b)]) for b in names))
# GPA
srcs=[PointCloud(rng.random((5,2))*3+rng.random(2)) for _ in range(4)]
g=GeneralizedProcrustesAnalysis(srcs)
print('gpa', g.converged, g.n_iterations, max(np.abs(AlignmentSimilarity(s,g.target).h_matrix-t.h_matrix).max() for s,t in zip(srcs,g.transforms)), all(t.target is g.target for t in g.transforms))
