import numpy as np, warnings
from menpo.shape import *
from menpo.image import Image, MaskedImage
from menpo.feature import normalize, normalize_std, normalize_norm, normalize_var
rng=np.random.default_rng(10)
def t(name, f):
    try: print(name, '->', f())
    except Exception as e: print(name, 'EXC', type(e).__name__, str(e)[:150])
im=Image(rng.integers(0,9,size=(3,5,6)).astype(float))
for mode in ('all','per_channel'):
    for f in (normalize_std, normalize_norm, normalize_var):
        o=f(im,mode=mode); p=o.pixels
        if mode=='all': stats=(p.mean(), p.std(), np.linalg.norm(p))
        else: stats=(np.abs(p.reshape(3,-1).mean(1)).max(), p.reshape(3,-1).std(1), np.linalg.norm(p.reshape(3,-1),axis=1))
        oo=f(o,mode=mode); print(f.__name__,mode,stats,'idem',np.abs(oo.pixels-p).max(), 'input same', im.pixels.max()<=8)
# zero scale
c=Image(np.concatenate([np.ones((1,4,4)),rng.random((1,4,4))]))
t('zero pc error', lambda: normalize_std(c,mode='per_channel'))
with warnings.catch_warnings():
    warnings.simplefilter('ignore')
    t('zero pc skip', lambda: np.isfinite(normalize_std(c,mode='per_channel',error_on_divide_by_zero=False).pixels).all())
    c1=Image(np.ones((1,4,4)))
    t('zero all 1ch skip', lambda: normalize_std(c1,mode='all',error_on_divide_by_zero=False).pixels.ravel()[:3])
    t('zero all error', lambda: normalize_std(c1,mode='all'))
mi=MaskedImage(rng.random((2,5,6)),mask=rng.random((5,6))>0.3)
o=normalize_std(mi,mode='all'); print('masked normalize_std (ndfeature, all pixels)', o.pixels.mean(), o.pixels.std(), type(o).__name__)
o=normalize(mi,scale_func=lambda x,axis=None: np.std(x,axis=axis),mode='all'); print('masked normalize (imgfeature, masked only)', o.as_vector().mean(), o.as_vector().std(), o.pixels[:,~mi.mask.mask].max())
