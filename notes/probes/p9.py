import numpy as np
from menpo.shape import *
from menpo.transform import *
from menpo.image import Image, MaskedImage, BooleanImage
from menpo.landmark import LandmarkManager
rng=np.random.default_rng(9)
def t(name, f):
    try: print(name, '->', f())
    except Exception as e: print(name, 'EXC', type(e).__name__, str(e)[:150])
# C01 masked / boolean
g=np.indices((12,17)).astype(float)
mask=np.zeros((12,17),bool); mask[2:9,3:14]=True
mi=MaskedImage(g,mask=mask); lm=np.array([[3.25,4.5],[7.0,9.75],[5.5,12.0]]); mi.landmarks['a']=PointCloud(lm)
def reg(name,f):
    try:
        out,tr=f(mi); l2=out.landmarks['a'].points
        s=out.sample(l2,order=1).T
        # mask consistency: mask'(p) == mask(round(T p)) 
        idx=np.indices(out.shape).reshape(2,-1).T; src=tr.apply(idx)
        inb=np.all((src>=-0.5+1e-6)&(src<=np.array(mi.shape)-0.5-1e-6),axis=1)
        r=np.rint(src[inb]).astype(int); 
        mexp=mask[r[:,0].clip(0,11),r[:,1].clip(0,16)]
        mgot=out.mask.mask.reshape(-1)[inb]
        print(name, type(out).__name__, out.shape,'reg',np.abs(s-lm).max(),'tr',np.abs(tr.apply(l2)-lm).max(),'mask mismatch',int((mexp!=mgot).sum()),'of',inb.sum())
    except Exception as e: print(name,'EXC',type(e).__name__,e)
reg('rescale',lambda im: im.rescale(1.5,return_transform=True))
reg('rot',lambda im: im.rotate_ccw_about_centre(30,return_transform=True))
reg('crop',lambda im: im.crop(np.array([1,2]),np.array([10,15]),return_transform=True))
reg('crop_true',lambda im: im.crop_to_true_mask(return_transform=True))
reg('zoom',lambda im: im.zoom(1.25,return_transform=True))
reg('mirror',lambda im: im.mirror(return_transform=True))
reg('warp_to_shape default lm', lambda im: im.warp_to_shape((10,10),Translation([1,2.]),warp_landmarks=True,return_transform=True))
# boolean
bi=BooleanImage(mask); bi.landmarks['a']=PointCloud(lm)
for nm,f in [('b rescale',lambda b:b.rescale(2.0,return_transform=True)),('b rot',lambda b:b.rotate_ccw_about_centre(90,return_transform=True)),('b crop',lambda b:b.crop(np.array([1,2]),np.array([10,15]),return_transform=True)),('b mirror',lambda b:b.mirror(return_transform=True))]:
    try:
        out,tr=f(bi); print(nm,type(out).__name__,out.shape,out.pixels.dtype,'lm tr',np.abs(tr.apply(out.landmarks['a'].points)-lm).max())
    except Exception as e: print(nm,'EXC',type(e).__name__,e)
# warp_to_mask
tmpl=BooleanImage(np.ones((8,9),bool)); tmpl.pixels[0,0,0]=False
im=Image(g); im.landmarks['a']=PointCloud(lm)
out=im.warp_to_mask(tmpl,Translation([1,2.])); print('warp_to_mask',type(out).__name__,out.shape,np.abs(out.pixels[:,3,4]-np.array([4,6])).max(),out.landmarks['a'].points[0],lm[0]-[1,2])
# 3D
g3=np.indices((6,7,8)).astype(float); im3=Image(g3); l3=np.array([[2.5,3.25,4.0]]); im3.landmarks['a']=PointCloud(l3)
for nm,f in [('3d rescale',lambda i:i.rescale([1.5,2,0.5],return_transform=True)),('3d mirror',lambda i:i.mirror(axis=2,return_transform=True)),('3d crop',lambda i:i.crop(np.array([1,1,1]),np.array([5,6,7]),return_transform=True))]:
    try:
        out,tr=f(im3); l2=out.landmarks['a'].points; print(nm,out.shape,np.abs(out.sample(l2).T-l3).max())
    except Exception as e: print(nm,'EXC',type(e).__name__,e)
# uint8 image
iu=Image((np.indices((12,17))*10).astype(np.uint8)); iu.landmarks['a']=PointCloud(lm)
out=iu.rescale(1.5); print('uint8 rescale',out.pixels.dtype,np.abs(out.sample(out.landmarks['a'].points).T.astype(float)-lm*10).max())
# C06 landmark manager
m=LandmarkManager(); p=PointCloud(rng.random((3,2)))
m['b']=p; m['a']=p; p.points[0,0]=99; print('owned', m['b'].points[0,0]!=99, list(m))
m['b']=PointCloud(rng.random((2,2))); print('order after reset', list(m))
t('None key get (2 groups)', lambda: m[None]); del m['a']; t('None key get (1)', lambda: m[None].n_points)
t('set None', lambda: m.__setitem__(None,p)); t('dim mismatch', lambda: m.__setitem__('c',PointCloud(rng.random((3,3)))))
t('non pc', lambda: m.__setitem__('c',rng.random((3,2))))
del m['b']; t('after empty 3d ok', lambda: (m.__setitem__('c',PointCloud(rng.random((3,3)))), m.n_dims))
im=Image(np.zeros((1,4,4))); t('assign 3d lm to 2d image', lambda: setattr(im,'landmarks',m))
m2=LandmarkManager(); m2['x']=p; im.landmarks=m2; m2['x'].points[0,0]=-5; m2['y']=p; print('assign copies', im.landmarks['x'].points[0,0], list(im.landmarks))
g=im.landmarks['x']; g.points[0,0]=123; print('getitem returns owned ref', im.landmarks['x'].points[0,0])
