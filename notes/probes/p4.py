import numpy as np, itertools, tempfile, os, shutil
from collections import OrderedDict
from menpo.shape import *
from menpo.transform import *
from menpo.image import Image, MaskedImage, BooleanImage
from menpo.base import LazyList
import menpo.io as mio
rng=np.random.default_rng(3)
def t(name, f):
    try: print(name, '->', f())
    except Exception as e: print(name, 'EXC', type(e).__name__, str(e)[:150])
pts=rng.integers(-5,6,size=(5,2)).astype(float); tl=np.array([[0,1,2],[1,2,3],[2,3,4]])
lp=LabelledPointUndirectedGraph.init_from_indices_mapping(pts,np.array([[0,1],[3,4],[1,2]]),OrderedDict([('zeta',[0,1,2]),('alpha',[2,3,4]),('mid',[1])]))
# C16 ljson
d=tempfile.mkdtemp()
lm=Image(np.zeros((1,5,5))).landmarks
lm['b_group']=lp; lm['a_group']=PointCloud(np.array([[1.5,np.nan],[2,3.]])); lm['tm']=TriMesh(pts,tl); lm['dg']=PointDirectedGraph.init_from_edges(pts,np.array([[0,1],[1,0],[2,3]]))
p=os.path.join(d,'x.ljson'); mio.export_landmark_file(lm,p)
back=mio.import_landmark_file(p)
for k,v in back.items(): print(k,type(v).__name__, getattr(v,'labels',None), v.points.tolist()[:2], getattr(v,'edges',np.zeros(0)).tolist())
t('overwrite refused', lambda: mio.export_landmark_file(lm,p))
t('pts', lambda: (mio.export_landmark_file(PointCloud(pts+0.12345),os.path.join(d,'a.b.pts')), np.abs(mio.import_landmark_file(os.path.join(d,'a.b.pts'))['PTS'].points-pts-0.12345).max()))
im=Image(np.arange(256,dtype=np.uint8).reshape(1,16,16))
t('u8 png', lambda: (mio.export_image(im,os.path.join(d,'i.png')), np.array_equal(mio.import_image(os.path.join(d,'i.png'),normalize=False).pixels, im.pixels)))
t('u8 import normalized', lambda: mio.import_image(os.path.join(d,'i.png')).pixels.dtype)
t('pickle', lambda: (mio.export_pickle(lp,os.path.join(d,'o.pkl.gz')), mio.import_pickle(os.path.join(d,'o.pkl.gz')).labels))
shutil.rmtree(d)
# C19
log=[]
def mkf(i):
    def f(): log.append(('base',i)); return i
    return f
ll=LazyList([mkf(i) for i in range(6)])
m=ll.map(lambda x:x*10)
r=m[1:5:2].repeat(2)+[7,8]
print('len',len(r),'log',log, [r[i] for i in range(len(r))], log)
t('neg idx', lambda: ll[-1]); t('arr idx', lambda: list(ll[np.array([0,-1,2])])); t('bool arr', lambda: list(ll[np.array([True,False])]))
t('repeat0', lambda: len(ll.repeat(0)))
t('slice None', lambda: list(ll[::-2]))
# C18 wrappers
from menpo.feature import gradient, igo, es, daisy, gaussian_filter, no_op, normalize_std, normalize_norm, double_igo
mi=MaskedImage(rng.random((2,20,22)), mask=rng.random((20,22))>0.2); mi.landmarks['a']=PointCloud(rng.random((3,2))*15)
for f in (gradient, igo, es, no_op, normalize_std, normalize_norm, double_igo, lambda x: gaussian_filter(x,1.0), lambda x: daisy(x,step=2,radius=4,rings=1)):
    try:
        o=f(mi); a=f(mi.pixels)
        print(getattr(f,'__name__','lambda'), type(o).__name__, o.shape, np.abs(o.pixels-a).max(), o.landmarks['a'].points[0]/mi.landmarks['a'].points[0], o.mask.shape)
    except Exception as e: print('feat EXC', type(e).__name__, e)
# C02
tps=ThinPlateSplines(PointCloud(pts[:4]),PointCloud(pts[:4]+rng.random((4,2))))
for shp in (lp, TriMesh(pts,tl), PointTree.init_from_edges(pts,np.array([[0,1],[0,2],[1,3],[1,4]]),0)):
    shp.landmarks['q']=lp
    for tr in (Translation([1,2.]), tps, TransformChain([Translation([1,2.]),UniformScale(2,2)]), WithDims([0])):
        o=tr.apply(shp)
        print(type(shp).__name__, type(tr).__name__, type(o).__name__, np.allclose(o.points,tr.apply(shp.points)), np.allclose(o.landmarks['q'].points, tr.apply(lp.points)), type(o.landmarks['q']).__name__)
