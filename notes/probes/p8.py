import numpy as np, os, tempfile, shutil
from pathlib import Path
from menpo.shape import *
from menpo.transform import *
from menpo.image import Image, MaskedImage, BooleanImage
import menpo.io as mio
rng=np.random.default_rng(8)
def t(name, f):
    try: print(name, '->', f())
    except Exception as e: print(name, 'EXC', type(e).__name__, str(e)[:150])
S=PointCloud(rng.integers(-6,7,size=(6,2)).astype(float)); T=PointCloud(rng.integers(-6,7,size=(6,2)).astype(float))
S3=PointCloud(rng.integers(-6,7,size=(6,3)).astype(float)); T3=PointCloud(rng.integers(-6,7,size=(6,3)).astype(float))
# C05 transforms round trip
objs=[Homogeneous(rng.random((3,3))),Affine.init_identity(2),Affine.init_identity(3),Similarity.init_identity(2),Translation([1,2.]),Translation([1,2.,3]),UniformScale(2.,2),UniformScale(2.,3),NonUniformScale([1,2.]),NonUniformScale([1,2.,3]),Rotation.init_identity(3),
 AlignmentAffine(S,T),AlignmentAffine(S3,T3),AlignmentSimilarity(S,T),AlignmentTranslation(S,T),AlignmentTranslation(S3,T3),AlignmentUniformScale(S,T),AlignmentRotation(S3,T3)]
for o in objs:
    try:
        v=o.as_vector(); n=o.n_parameters
        w=v.copy()+0.25 if not isinstance(o,Rotation) else np.array([0.5,0.5,0.5,0.5])
        if isinstance(o,Homogeneous) and type(o) is Homogeneous: w=v.copy()+0.25
        p=o.from_vector(w)
        rt=np.abs(np.atleast_1d(p.as_vector())-w).max()
        same=np.abs(np.atleast_1d(o.from_vector(v).as_vector())-v).max()
        extra=''
        if hasattr(p,'target'): extra='target synced %s'%np.allclose(p.target.points,p.apply(p.source.points))
        print(type(o).__name__.ljust(22), o.n_dims, 'shape',v.shape,'n',n,'writeable',v.flags.writeable,o.h_matrix.flags.writeable,'as∘from',rt,'from∘as',same,extra, 'self unchanged',np.array_equal(np.atleast_1d(o.as_vector()),np.atleast_1d(v)))
    except Exception as e: print(type(o).__name__, 'EXC', type(e).__name__, str(e)[:100])
# wrong lengths
for o in [Affine.init_identity(2),Similarity.init_identity(2),Translation([1,2.]),UniformScale(2.,2),NonUniformScale([1,2.]),Rotation.init_identity(3),Homogeneous(np.eye(3)),PointCloud(rng.random((4,2))),TriMesh(rng.random((4,2)),np.array([[0,1,2],[1,2,3]])),Image(rng.random((2,3,3))),MaskedImage(rng.random((2,3,3)),mask=rng.random((3,3))>0.4),BooleanImage(rng.random((3,3))>0.5)]:
    n=o.as_vector().size
    for L in (n-1,n+1,2*n):
        try:
            p=o.from_vector(np.ones(L) if not isinstance(o,BooleanImage) else np.ones(L,bool))
            ok='returned'
            try:
                if hasattr(p,'h_matrix'): p.apply(np.zeros((1,p.n_dims)))
                if isinstance(p,TriMesh): p.tri_normals() if p.n_dims==3 else p.edge_lengths()
                p.as_vector()
            except Exception as e: ok='ILL-FORMED(%s)'%type(e).__name__
            print(type(o).__name__.ljust(14), L, ok, getattr(p,'n_points',''))
        except Exception as e: print(type(o).__name__.ljust(14), L, 'raises', type(e).__name__)
# C20 about centre & tcoords
pc=PointCloud(rng.random((5,2))*10)
tr=scale_about_centre(pc,2.5); print('about centre', np.abs(tr.apply(pc.centre()[None])-pc.centre()).max(), type(tr).__name__)
tr=rotate_ccw_about_centre(pc,33); print(np.abs(tr.apply(pc.centre()[None])-pc.centre()).max(), type(tr).__name__)
a=tcoords_to_image_coords((10,20)); b=image_coords_to_tcoords((10,20))
print('tcoords', a.apply(np.array([[0,0],[1,1],[0,1],[1,0.]])).tolist(), np.abs(b.apply(a.apply(pc.points/10))-pc.points/10).max())
t('scale factory', lambda: (type(Scale([2,2.])).__name__, type(Scale([2,3.])).__name__, type(Scale(2,n_dims=3)).__name__))
t('scale zero', lambda: Scale([2,0.]))
# C16 overwrite spellings
d=tempfile.mkdtemp(); os.chdir(d)
mio.export_landmark_file(pc,'a.pts'); h=open('a.pts','rb').read()
for sp in ['a.pts', Path('a.pts'), os.path.join(d,'a.pts'), Path(d)/'a.pts', './a.pts', 'sub/../a.pts']:
    try: mio.export_landmark_file(PointCloud(pc.points+1),sp); print('NOT refused',sp)
    except mio.exceptions.OverwriteError if hasattr(mio,'exceptions') else Exception as e: print('refused',repr(sp)[:30],type(e).__name__, open('a.pts','rb').read()==h)
for fn,exp in [('o.pkl',mio.export_pickle),]:
    exp(pc,fn); h=open(fn,'rb').read()
    try: exp(S,fn); print('pickle NOT refused')
    except Exception as e: print('pickle refused',type(e).__name__, open(fn,'rb').read()==h)
im=Image(np.zeros((1,4,4),dtype=np.uint8)); mio.export_image(im,'i.png'); h=open('i.png','rb').read()
try: mio.export_image(Image(np.ones((1,4,4),dtype=np.uint8)),Path('i.png')); print('img NOT refused')
except Exception as e: print('img refused',type(e).__name__, open('i.png','rb').read()==h)
with open('i.png','rb') as f: pass
os.chdir('/'); shutil.rmtree(d)
