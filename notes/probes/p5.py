import numpy as np, itertools
from menpo.shape import *
rng=np.random.default_rng(5)
def comps(n,es):
    lab=list(range(n))
    for a,b in es:
        la,lb=lab[a],lab[b]
        if la!=lb: lab=[la if l==lb else l for l in lab]
    return len(set(lab))
bad=[]
# undirected up to 5
for n in range(1,6):
    pairs=list(itertools.combinations(range(n),2))
    for code in range(2**len(pairs)):
        es=[p for i,p in enumerate(pairs) if code>>i&1]
        g=UndirectedGraph.init_from_edges(np.array(es) if es else None,n)
        ref=len(es)+comps(n,es)>n
        if g.has_cycles()!=ref: bad.append(('ucyc',n,es))
        if g.is_tree()!=((not ref) and len(es)==n-1): bad.append(('utree',n,es))
        if sorted(map(tuple,g.edges.tolist()))!=sorted(es): bad.append(('uedges',n,es))
        for v in range(n):
            nb=sorted(int(x) for x in g.neighbours(v)); exp=sorted([b for a,b in es if a==v]+[a for a,b in es if b==v])
            if nb!=exp: bad.append(('nb',n,es,v))
        iso=sorted(int(x) for x in g.isolated_vertices()); 
        if iso!=[v for v in range(n) if all(v not in e for e in es)]: bad.append(('iso',n,es))
print('undirected bad',len(bad),bad[:5])
# directed up to 4 (no self loops)
bad=[]
def dcyc(n,es):
    import itertools
    reach=[[False]*n for _ in range(n)]
    for a,b in es: reach[a][b]=True
    for k in range(n):
        for i in range(n):
            for j in range(n):
                if reach[i][k] and reach[k][j]: reach[i][j]=True
    return any(reach[i][i] for i in range(n))
for n in range(1,5):
    pairs=[(a,b) for a in range(n) for b in range(n) if a!=b]
    for code in range(2**len(pairs)):
        es=[p for i,p in enumerate(pairs) if code>>i&1]
        g=DirectedGraph.init_from_edges(np.array(es) if es else None,n)
        if g.has_cycles()!=dcyc(n,es): bad.append(('dcyc',n,es))
        for v in range(n):
            if sorted(int(x) for x in g.children(v))!=sorted(b for a,b in es if a==v): bad.append(('ch',n,es,v))
            if sorted(int(x) for x in g.parents(v))!=sorted(a for a,b in es if b==v): bad.append(('pa',n,es,v))
print('directed bad',len(bad),bad[:5])
# masking
bad=[]
n=5; pairs=list(itertools.combinations(range(n),2))
for code in range(0,2**len(pairs),7):
    es=[p for i,p in enumerate(pairs) if code>>i&1]
    pts=rng.random((n,2))
    g=PointUndirectedGraph.init_from_edges(pts,np.array(es) if es else None)
    for m in range(1,2**n):
        mask=np.array([m>>i&1 for i in range(n)],bool)
        try:
            h=g.from_mask(mask)
        except Exception as e:
            bad.append(('maskexc',es,m,repr(e)[:60])); continue
        keep=[i for i in range(n) if mask[i]]; rank={v:i for i,v in enumerate(keep)}
        exp=sorted((rank[a],rank[b]) for a,b in es if mask[a] and mask[b])
        if sorted(map(tuple,h.edges.tolist()))!=exp or not np.array_equal(h.points,pts[mask]): bad.append(('mask',es,m))
print('mask bad',len(bad),bad[:5])
# tree
t=PointTree.init_from_edges(rng.random((7,2)),np.array([[0,1],[0,2],[1,3],[1,4],[2,5],[5,6]]),0)
for v in range(7):
    assert all(t.parent(c)==v for c in t.children(v))
    assert t.depth_of_vertex(v)==(0 if v==0 else t.depth_of_vertex(t.parent(v))+1)
m=np.ones(7,bool); m[2]=False
h=t.from_mask(m); print('tree mask', h.n_vertices, h.edges.tolist(), h.root_vertex)
m=np.ones(7,bool); m[0]=False
try: t.from_mask(m)
except ValueError as e: print('root removal', e)
# mst / shortest path
W=np.zeros((6,6)); 
for a,b,w in [(0,1,4),(0,2,1),(2,1,2),(1,3,5),(2,3,8),(3,4,3),(4,5,1),(3,5,7)]: W[a,b]=W[b,a]=w
g=UndirectedGraph(W)
print('sp', g.find_shortest_path(0,5), 'mst', g.minimum_spanning_tree(0).adjacency_matrix.sum())
print('path', g.find_path(0,5), g.find_path(0,5,method='dfs'))
