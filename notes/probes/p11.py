import numpy as np, inspect
import menpo.landmark.labels as L
from menpo.shape import PointCloud, LabelledPointUndirectedGraph
from menpo.landmark import LabellingError
from menpo.transform import Affine, Rotation
rng=np.random.default_rng(11)
funcs=[(n,f) for n,f in vars(L).items() if callable(f) and hasattr(f,'__wrapped__') or (callable(f) and '_to_' in n)]
funcs=sorted(set((n,f) for n,f in funcs if '_to_' in n))
print(len(funcs))
A=Affine(np.array([[1.5,0.5,3],[-0.25,2,1],[0,0,1.]]))
for name,f in funcs:
    n=None
    for k in range(1,120):
        for d in (2,3):
            try:
                f(PointCloud(np.zeros((k,d)))); n=(k,d); break
            except LabellingError: pass
            except Exception as e:
                pass
        if n: break
    if not n: print(name,'no size found'); continue
    k,d=n
    pts=np.stack([np.arange(k,dtype=float)]*d,axis=1)
    out=f(PointCloud(pts))
    ind=out.points[:,0].astype(int)
    issues=[]
    if 'bounding_box' in name: 
        print(name.ljust(52),n,'bbox'); continue
    if len(set(ind))!=len(ind): issues.append('dup')
    if not np.array_equal(out.points, pts[ind]): issues.append('not gather')
    if hasattr(out,'_labels_to_masks'):
        cover=np.sum(list(out._labels_to_masks.values()),axis=0)
        if (cover==0).any(): issues.append('unlabelled')
    r=rng.random((k,d))
    if d==2:
        o1=f(PointCloud(A.apply(r))).points; o2=A.apply(f(PointCloud(r)).points)
        if not np.allclose(o1,o2): issues.append('no commute')
    inp=PointCloud(r.copy()); f(inp); 
    if not np.array_equal(inp.points,r): issues.append('mutated')
    bad=[]
    for kk in (k-1,k+1):
        try: f(PointCloud(np.zeros((kk,d)))); bad.append(kk)
        except LabellingError: pass
        except Exception as e: bad.append((kk,type(e).__name__))
    if bad: issues.append(('wrongsize',bad))
    # ndarray & lgroup input
    try:
        o=f(r); 
    except Exception as e: issues.append(('ndarray',type(e).__name__))
    print(name.ljust(52),n,type(out).__name__, len(ind), out.n_edges if hasattr(out,'n_edges') else '', issues)
# C20 3d
for ax,ctor in (('x',Rotation.init_from_3d_ccw_angle_around_x),('y',Rotation.init_from_3d_ccw_angle_around_y),('z',Rotation.init_from_3d_ccw_angle_around_z)):
    for th in (-200,-30,30,100,400):
        r=ctor(th); a,ang=r.axis_and_angle_of_rotation()
        print(ax,th,np.round(a,3),round(np.rad2deg(ang),3))
q=np.array([0.5,-0.5,0.5,0.5]); r=Rotation.init_3d_from_quaternion(q); print('quat',r.as_vector(), np.linalg.det(r.rotation_matrix))
q=np.array([2,3,6,0.])/7; r=Rotation.init_3d_from_quaternion(q); print('quat',r.as_vector()*7)
