import numpy as np
from menpo.shape import *
from menpo.transform import *
rng=np.random.default_rng(6)
S=PointCloud(rng.integers(-6,7,size=(7,2)).astype(float)); T=PointCloud(rng.integers(-6,7,size=(7,2)).astype(float))
for cls,kw in [(AlignmentAffine,{}),(AlignmentRotation,{}),(AlignmentSimilarity,{}),(AlignmentTranslation,{}),(AlignmentUniformScale,{}),(ThinPlateSplines,{}),(PiecewiseAffine,{})]:
    a=cls(S,T,**kw)
    same=np.array_equal(a.target.points,T.points)
    err=a.alignment_error()
    true_err=np.linalg.norm(a.apply(S.points)-T.points)
    T2=PointCloud(T.points+1.0)
    a.set_target(T2); b=cls(S,T2,**kw)
    print(cls.__name__.ljust(24),'target is given:',same,'err',round(err,6),'true',round(true_err,6),'| after set_target target==T2:',np.array_equal(a.target.points,T2.points),'fresh target==T2:',np.array_equal(b.target.points,T2.points), 'err',round(a.alignment_error(),6), round(b.alignment_error(),6))
