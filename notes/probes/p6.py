import numpy as np, itertools
np.in1d=np.isin
from menpo.shape import *
from menpo.image import Image
from menpo.transform import *
rng=np.random.default_rng(6)
# C17 masking logic (with in1d patched)
bad=[]
pts=rng.random((7,3)); tl=np.array([[0,1,2],[1,2,3],[2,3,4],[4,5,6],[0,2,6]])
cm=ColouredTriMesh(pts,tl,rng.random((7,3)))
for m in range(1,2**7):
    mask=np.array([m>>i&1 for i in range(7)],bool)
    kept=[t for t in tl if mask[t].all()]
    if not kept: continue
    h=cm.from_mask(mask)
    exp=np.array([pts[t] for t in kept]); got=h.points[h.trilist]
    expc=np.array([cm.colours[t] for t in kept]); gotc=h.colours[h.trilist]
    used=sorted(set(np.array(kept).ravel()))
    if got.shape!=exp.shape or not np.array_equal(got,exp) or not np.array_equal(gotc,expc) or h.n_points!=len(used): bad.append(m)
print('mask bad',len(bad))
h=cm.from_tri_mask(np.array([1,0,0,1,0],bool)); print('trimask', h.trilist.tolist(), h.n_points)
# geometry
R=Rotation.init_from_3d_ccw_angle_around_z(30).compose_before(Rotation.init_from_3d_ccw_angle_around_x(50))
tm=TriMesh(pts,tl); tm2=R.compose_before(Translation([1,2,3.])).apply(tm); tm3=UniformScale(2.5,3).apply(tm)
print('areas', np.abs(tm.tri_areas()-tm2.tri_areas()).max(), np.abs(tm3.tri_areas()-6.25*tm.tri_areas()).max(), np.abs(tm3.edge_lengths()-2.5*tm.edge_lengths()).max())
n=tm.tri_normals(); print('normals', np.abs(np.linalg.norm(n,axis=1)-1).max(), np.abs((n*(pts[tl[:,1]]-pts[tl[:,0]])).sum(1)).max(), np.abs(tm2.tri_normals()-R.apply(n)).max(), np.abs(np.linalg.norm(tm.vertex_normals(),axis=1)-1).max())
print('unique edges', tm.unique_edge_indices().tolist())
print('boundary', tm.boundary_tri_index())
# C13 path equivalence
im=Image(rng.integers(0,255,size=(3,12,14)).astype(float))
bad=0
for ps in [(3,3),(4,4),(3,4),(5,2)]:
    for c in [[5,6],[0,0],[11,13],[1,12],[-2,3],[13,15],[6,0]]:
        pc=PointCloud(np.array([c],float))
        a=im.extract_patches(pc,patch_shape=ps,order=0,mode='constant',cval=7.0)
        from menpo.image.patches import extract_patches_by_sampling
        b=extract_patches_by_sampling(im.pixels,pc.points,ps,order=0,mode='constant',cval=7.0)
        if not np.array_equal(a,b): bad+=1; print('patch mismatch',ps,c)
print('patch bad',bad)
p=im.extract_patches(PointCloud(np.array([[5.,6],[8,3]])),patch_shape=(4,3))
z=Image(np.zeros_like(im.pixels)).set_patches(p,PointCloud(np.array([[5.,6],[8,3]])))
print('set/extract', np.array_equal(z.extract_patches(PointCloud(np.array([[5.,6],[8,3]])),patch_shape=(4,3)),p))
# crop 3D
im3=Image(rng.random((2,5,6,7)))
c=im3.crop(np.array([1,1.5,2]),np.array([4,4.2,6])); print('crop3d', c.shape, np.array_equal(c.pixels, im3.pixels[:,1:4,1:5,2:6]))
# C07
S=PointCloud(rng.integers(-6,7,size=(7,2)).astype(float)); T=PointCloud(rng.integers(-6,7,size=(7,2)).astype(float))
a=AlignmentSimilarity(S,T); al=a.aligned_source()
print('sim centroid/size', np.abs(al.centre()-T.centre()).max(), al.norm()-T.norm(), a.alignment_error()-np.linalg.norm(T.points-al.points))
ar=AlignmentRotation(S,T); print('rot det', np.linalg.det(ar.rotation_matrix), AlignmentRotation(S,T,allow_mirror=True).alignment_error()<=ar.alignment_error()+1e-12)
best=min(np.linalg.norm(Rotation.init_from_2d_ccw_angle(t,degrees=False).apply(S.points)-T.points) for t in np.linspace(0,2*np.pi,20000))
print('rot opt', ar.alignment_error(), best)
aa=AlignmentAffine(S,T); M=np.linalg.lstsq(np.hstack([S.points,np.ones((7,1))]),T.points,rcond=None)[0]
print('affine opt', aa.alignment_error(), np.linalg.norm(np.hstack([S.points,np.ones((7,1))])@M-T.points))
