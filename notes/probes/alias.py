import numpy as np, scipy.sparse as sp
from collections import OrderedDict
from menpo.shape import *
from menpo.transform import *
from menpo.image import Image, MaskedImage, BooleanImage
from menpo.model import PCAVectorModel, PCAModel
from menpo.base import LazyList
from menpo.landmark import LandmarkManager
rng=np.random.default_rng(0)
def buffers(o, path='', seen=None, out=None, depth=0):
    if seen is None: seen=set(); out=[]
    if id(o) in seen or depth>6: return out
    seen.add(id(o))
    if isinstance(o,np.ndarray): out.append((path,o))
    elif sp.issparse(o):
        for a in ('data','indices','indptr'): out.append((path+'.'+a,getattr(o,a)))
    elif isinstance(o,dict):
        out.append((path+'{}',o))
        for k,v in o.items(): buffers(v,path+'[%r]'%k,seen,out,depth+1)
    elif isinstance(o,(list,tuple)):
        if isinstance(o,list): out.append((path+'[]',o))
        for i,v in enumerate(o): buffers(v,path+'[%d]'%i,seen,out,depth+1)
    elif hasattr(o,'__dict__') and type(o).__module__.startswith('menpo'):
        for k,v in o.__dict__.items(): buffers(v,path+'.'+k,seen,out,depth+1)
    return out
def shared(a,b):
    ba=buffers(a); bb=buffers(b); res=[]
    for pa,xa in ba:
        for pb,xb in bb:
            if isinstance(xa,np.ndarray) and isinstance(xb,np.ndarray):
                if xa.size and xb.size and np.shares_memory(xa,xb): res.append((pa,pb))
            elif xa is xb: res.append((pa,pb))
    return res
pts=rng.random((5,2)); tl=np.array([[0,1,2],[1,2,3],[2,3,4]])
pc=PointCloud(pts); pc.landmarks['a']=PointCloud(pts[:2]); 
objs={
 'PointCloud':pc,
 'TriMesh':TriMesh(pts,tl),
 'Coloured':ColouredTriMesh(pts,tl,rng.random((5,3))),
 'Textured':TexturedTriMesh(pts,rng.random((5,2)),Image(rng.random((1,4,4))),tl),
 'PUG':PointUndirectedGraph.init_from_edges(pts,np.array([[0,1],[1,2]])),
 'PDG':PointDirectedGraph.init_from_edges(pts,np.array([[0,1],[1,2]])),
 'PTree':PointTree.init_from_edges(pts,np.array([[0,1],[0,2],[1,3],[1,4]]),0),
 'LPUG':LabelledPointUndirectedGraph.init_from_indices_mapping(pts,np.array([[0,1]]),OrderedDict([('a',[0,1]),('b',[2,3,4])])),
 'Image':Image(rng.random((2,4,4))),
 'Masked':MaskedImage(rng.random((2,4,4)),mask=rng.random((4,4))>0.3),
 'Boolean':BooleanImage(rng.random((4,4))>0.3),
 'Affine':Affine.init_identity(2),'Rotation':Rotation.init_identity(3),'Translation':Translation([1,2.]),
 'AlignSim':AlignmentSimilarity(PointCloud(pts),PointCloud(pts*2)),
 'AlignAff':AlignmentAffine(PointCloud(pts),PointCloud(pts*2)),
 'TPS':ThinPlateSplines(PointCloud(pts),PointCloud(pts*2)),
 'PWA':PiecewiseAffine(TriMesh(pts,tl),PointCloud(pts*2)),
 'Chain':TransformChain([Translation([1,2.]),ThinPlateSplines(PointCloud(pts),PointCloud(pts*2))]),
 'PCAV':PCAVectorModel(rng.random((6,4)),inplace=False),
 'PCAM':PCAModel([PointCloud(rng.random((3,2))) for _ in range(5)]),
 'Lazy':LazyList.init_from_iterable([1,2,3]),
}
objs['Image'].landmarks['x']=PointCloud(pts); objs['Masked'].landmarks['x']=PointCloud(pts)
objs['TriMesh'].landmarks['x']=objs['LPUG']
for k,o in objs.items():
    try:
        c=o.copy(); print(k, shared(o,c))
    except Exception as e: print(k,'EXC',e)
