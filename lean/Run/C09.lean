import MenpoModel.Drive.C09
def main : IO Unit := MenpoModel.Codec.runDriver MenpoModel.Drive.C09.step
