import MenpoModel.Drive.C04
def main : IO Unit := MenpoModel.Codec.runDriver MenpoModel.Drive.C04.step
