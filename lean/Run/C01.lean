import MenpoModel.Drive.C01
def main : IO Unit := MenpoModel.Codec.runDriver MenpoModel.Drive.C01.step
