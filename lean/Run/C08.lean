import MenpoModel.Drive.C08
def main : IO Unit := MenpoModel.Codec.runDriver MenpoModel.Drive.C08.step
