import MenpoModel.Drive.C12
def main : IO Unit := MenpoModel.Codec.runDriver MenpoModel.Drive.C12.step
