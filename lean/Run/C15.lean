import MenpoModel.Drive.C15
def main : IO Unit := MenpoModel.Codec.runDriver MenpoModel.Drive.C15.step
