import MenpoModel.Drive.C16
def main : IO Unit := MenpoModel.Codec.runDriver MenpoModel.Drive.C16.step
