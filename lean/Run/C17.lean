import MenpoModel.Drive.C17
def main : IO Unit := MenpoModel.Codec.runDriver MenpoModel.Drive.C17.step
