import MenpoModel.Drive.C06
def main : IO Unit := MenpoModel.Codec.runDriver MenpoModel.Drive.C06.step
