import MenpoModel.Drive.C11
def main : IO Unit := MenpoModel.Codec.runDriver MenpoModel.Drive.C11.step
