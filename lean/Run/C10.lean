import MenpoModel.Drive.C10
def main : IO Unit := MenpoModel.Codec.runDriver MenpoModel.Drive.C10.step
