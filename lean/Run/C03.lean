import MenpoModel.Drive.C03
def main : IO Unit := MenpoModel.Codec.runDriver MenpoModel.Drive.C03.step
