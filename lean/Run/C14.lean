import MenpoModel.Drive.C14
def main : IO Unit := MenpoModel.Codec.runDriver MenpoModel.Drive.C14.step
