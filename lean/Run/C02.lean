import MenpoModel.Drive.C02
def main : IO Unit := MenpoModel.Codec.runDriver MenpoModel.Drive.C02.step
