import MenpoModel.Drive.C13
def main : IO Unit := MenpoModel.Codec.runDriver MenpoModel.Drive.C13.step
