import MenpoModel.Drive.C07
def main : IO Unit := MenpoModel.Codec.runDriver MenpoModel.Drive.C07.step
