import MenpoModel.Drive.C19
def main : IO Unit := MenpoModel.Codec.runDriver MenpoModel.Drive.C19.step
