import MenpoModel.Drive.C20
def main : IO Unit := MenpoModel.Codec.runDriver MenpoModel.Drive.C20.step
