import MenpoModel.Drive.C05
def main : IO Unit := MenpoModel.Codec.runDriver MenpoModel.Drive.C05.step
