import MenpoModel.Drive.C18
def main : IO Unit := MenpoModel.Codec.runDriver MenpoModel.Drive.C18.step
