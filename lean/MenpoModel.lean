-- Root of the `MenpoModel` library: every model, theorem and driver module.
import MenpoModel.Core.Codec
import MenpoModel.Core.PyData
import MenpoModel.Core.LazyList
import MenpoModel.Props.C19
import MenpoModel.Drive.C19
