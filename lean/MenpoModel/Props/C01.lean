/-
C01 — image geometry operations keep landmarks and mask registered to pixel content.  Property theorems, part 2
(part 1: `Props/C01Base.lean` — the funnel for orders 0/1, affine registration, the plans of the basic
operations).  This file extends the statements to

  * every interpolation order (`exec_*`: what is independent of the order, and registration on grid points for
    any interpolating sampler);
  * arbitrary smooth transforms (`warpF_registration_exact2 / _bound2 / _lipschitz2`: the exact value of the
    warped image at a returned landmark and the bound by the non-linearity of the transform on one cell, which
    covers piecewise affine warps across triangle borders and thin plate splines);
  * the remaining public entry points (`rescale_to_diagonal`, `rescale_to_pointcloud`,
    `rescale_landmarks_to_diagonal_range`, the whole crop family incl. `crop_to_true_mask`,
    `constrain_landmarks_to_bounds`);
  * `gaussian_pyramid` (`gauss_step_registration`: a symmetric normalised blur keeps an affine ramp away from the
    border, hence registration of every level there);
  * `pseudoinverse()` of every class of the homogeneous family (`pinv_sound`: each closed form is the inverse);
  * sequences of operations (`chain_registered`, `pyramid_levels_registered`, `gauss_pyramid_levels_registered`:
    invariants by induction);
  * the funnel table (`expectedFunnel_eq`, `plan_funnel_args`);
  * mirror is exact for arbitrary content at sub-pixel landmarks (`mirror_exact_registration_linear`); `rescale`
    with the default rounding keeps every landmark inside the result and registers every landmark whose cell stays
    below the fractional last index (`rescale_landmarks_stay_inside`, `rescale_registration`).
-/
import MenpoModel.Props.C01Base
import MenpoModel.Lemmas.C01Bound
import MenpoModel.Lemmas.C01Blur
import Mathlib.Algebra.Order.Ring.Abs

namespace MenpoModel.C01

/-! ### PROPERTY (every interpolation order): what does not depend on the order, and registration on the grid -/

/-- pixel `p` of the result is the source sampled at `T p`, whatever the sampler -/
theorem funnelS_pixel (S : Sampler2) (im : Img2) (h w : Nat) (T : V2 → V2) (i j : Int) :
    (warpS2 S im h w T).px i j = S im (T (gridPt2 i j)) := rfl

/-- orders 0 and 1 are interpolating (both modes); so is every order once the spline orders are -/
theorem samplerOf_interpolating (spl : Nat → Mode → Sampler2) (m : Mode)
    (hspl : ∀ k, 2 ≤ k → Interpolating (spl k m)) (order : Nat) : Interpolating (samplerOf spl order m) := by
  intro im i j hi0 hi1 hj0 hj1
  match order with
  | 0 => exact sample2_grid .nearest m im hi0 hi1 hj0 hj1
  | 1 => exact sample2_grid .linear m im hi0 hi1 hj0 hj1
  | k + 2 => exact hspl (k + 2) (by omega) im i j hi0 hi1 hj0 hj1

/-- **registration on the grid for any order, any transform**: the result read back (with any interpolating
sampler) at a returned landmark that is the grid point `(i, j)` is the source sampled — with the sampler of the
warp — at the point the transform sends `(i, j)` to -/
theorem warpS_registration_grid2 (S S₂ : Sampler2) (hS₂ : Interpolating S₂) (im : Img2) (h w : Nat) (T : V2 → V2)
    (l : V2) (i j : Int) (hi0 : 0 ≤ i) (hi1 : i ≤ (h : Int) - 1) (hj0 : 0 ≤ j) (hj1 : j ≤ (w : Int) - 1)
    (hT : T (gridPt2 i j) = l) :
    S₂ (warpS2 S im h w T) (gridPt2 i j) = S im l := by
  rw [hS₂ (warpS2 S im h w T) i j hi0 hi1 hj0 hj1, funnelS_pixel, hT]

/-- **order independence.**  Two calls of the same operation that differ only in the requested order (and in the
spline routine behind orders 2..5) return the same landmarks, the same transform and the same mask; a
`BooleanImage` and every operation that forces its order (the crop family, `rescale_to_diagonal`) also return
the same pixels -/
theorem exec_order_independent (p : Plan2) (spl spl' : Nat → Mode → Sampler2) (cls : ImgClass) (k k' : Nat)
    (im mk : Img2) (lms : List V2) :
    (p.exec spl cls k im mk lms).lms = (p.exec spl' cls k' im mk lms).lms ∧
    (p.exec spl cls k im mk lms).T = (p.exec spl' cls k' im mk lms).T ∧
    (p.exec spl cls k im mk lms).mask = (p.exec spl' cls k' im mk lms).mask ∧
    (cls = .boolean → (p.exec spl cls k im mk lms).px = (p.exec spl' cls k' im mk lms).px) ∧
    (∀ o, p.order = some o → (p.exec spl cls k im mk lms).px = (p.exec spl' cls k' im mk lms).px) := by
  refine ⟨?_, ?_, ?_, ?_, ?_⟩
  · cases cls <;> rfl
  · cases cls <;> rfl
  · cases cls <;> rfl
  · intro h; subst h; rfl
  · intro o ho
    cases o <;> cases cls <;> simp only [Plan2.exec, Plan2.effOrder, ho, samplerOf]

/-- the landmarks, the transform and the mask of a result, explicitly: landmarks moved by the pseudoinverse,
`T` returned as is, mask warped with order 0 through the same `T` — for every order -/
theorem exec_parts (p : Plan2) (spl : Nat → Mode → Sampler2) (cls : ImgClass) (k : Nat) (im mk : Img2) (lms : List V2) :
    (p.exec spl cls k im mk lms).lms = lms.map p.landmark ∧ (p.exec spl cls k im mk lms).T = p.T ∧
    (cls = .masked → (p.exec spl cls k im mk lms).mask = some (p.runMask mk)) ∧
    (cls = .boolean → (p.exec spl cls k im mk lms).px = p.runMask im) := by
  refine ⟨?_, ?_, ?_, ?_⟩
  · cases cls <;> rfl
  · cases cls <;> rfl
  · intro h; subst h; rfl
  · intro h; subst h; rfl

/-- the pixels of a result for every order: the source sampled with the effective order at `T p` -/
theorem exec_pixel_any_order (p : Plan2) (spl : Nat → Mode → Sampler2) (cls : ImgClass) (hcls : cls ≠ .boolean)
    (k : Nat) (im mk : Img2) (lms : List V2) (i j : Int) :
    (p.exec spl cls k im mk lms).px.px i j = samplerOf spl (p.effOrder k) p.mode im (p.T.apply (gridPt2 i j)) := by
  cases cls with
  | image => rfl
  | masked => rfl
  | boolean => exact absurd rfl hcls

/-- for the two modelled orders the object-level result is the `Plan2.run` the part-1 theorems are about -/
theorem exec_agrees_with_run (p : Plan2) (spl : Nat → Mode → Sampler2) (cls : ImgClass) (hcls : cls ≠ .boolean)
    (im mk : Img2) (lms : List V2) :
    (p.exec spl cls 0 im mk lms).px = p.run .nearest im ∧ (p.exec spl cls 1 im mk lms).px = p.run .linear im := by
  cases cls with
  | boolean => exact absurd rfl hcls
  | image =>
    rcases ho : p.order with _ | o
    · simp only [Plan2.exec, Plan2.effOrder, ho, samplerOf, Plan2.run, Option.getD, warp2, warpF2, warpS2, and_self]
    · cases o <;> simp only [Plan2.exec, Plan2.effOrder, ho, samplerOf, Plan2.run, Option.getD, warp2, warpF2, warpS2, and_self]
  | masked =>
    rcases ho : p.order with _ | o
    · simp only [Plan2.exec, Plan2.effOrder, ho, samplerOf, Plan2.run, Option.getD, warp2, warpF2, warpS2, and_self]
    · cases o <;> simp only [Plan2.exec, Plan2.effOrder, ho, samplerOf, Plan2.run, Option.getD, warp2, warpF2, warpS2, and_self]

/-- **registration for every order**: when the returned landmark is a grid point of the result, reading the
result there (any interpolating sampler) gives the source sampled — with the order of the warp — at the original
landmark; and the returned transform maps the returned landmark onto the original one -/
theorem exec_registration_grid_any_order (p : Plan2) (hdet : p.T.det ≠ 0) (spl : Nat → Mode → Sampler2)
    (cls : ImgClass) (hcls : cls ≠ .boolean) (k : Nat) (im mk : Img2) (lms : List V2)
    (S₂ : Sampler2) (hS₂ : Interpolating S₂) (l : V2) (i j : Int)
    (hi0 : 0 ≤ i) (hi1 : i ≤ (p.h : Int) - 1) (hj0 : 0 ≤ j) (hj1 : j ≤ (p.w : Int) - 1)
    (hgrid : p.landmark l = gridPt2 i j) :
    S₂ (p.exec spl cls k im mk lms).px (p.landmark l) = samplerOf spl (p.effOrder k) p.mode im l ∧
    (p.exec spl cls k im mk lms).T.apply (p.landmark l) = l := by
  have hT : p.T.apply (gridPt2 i j) = l := by rw [← hgrid]; exact Aff2.apply_inv_apply hdet l
  constructor
  · rw [hgrid]
    cases cls with
    | boolean => exact absurd rfl hcls
    | image => exact warpS_registration_grid2 _ S₂ hS₂ im p.h p.w p.T.apply l i j hi0 hi1 hj0 hj1 hT
    | masked => exact warpS_registration_grid2 _ S₂ hS₂ im p.h p.w p.T.apply l i j hi0 hi1 hj0 hj1 hT
  · rw [(exec_parts p spl cls k im mk lms).2.1]; exact Aff2.apply_inv_apply hdet l

/-! ### PROPERTY (smooth non-affine warps): the exact value at a returned landmark and the bound by the
non-linearity of the transform on one cell -/

/-- **exact value, any transform.**  For affine content `a + b·i + c·j` and *any* transform `T` (piecewise
affine across triangle borders, thin plate spline, …): the bilinear result read back bilinearly at `l'` is the
content evaluated at `interpT T l'`, the transform interpolated bilinearly over the cell of `l'` — provided the
grid points of that cell are sampled inside the source -/
theorem warpF_registration_exact2 (m₁ m₂ : Mode) (im : Img2) (h w : Nat) (T : V2 → V2) (a b c : Rat) (l' : V2)
    (hcontent : ∀ i j : Int, 0 ≤ i → i ≤ (im.h : Int) - 1 → 0 ≤ j → j ≤ (im.w : Int) - 1 →
      im.px i j = a + b * (i : Rat) + c * (j : Rat))
    (hl' : inR h l'.x ∧ inR w l'.y)
    (hcell : ∀ i j : Int, 0 ≤ i → i ≤ (h : Int) - 1 → 0 ≤ j → j ≤ (w : Int) - 1 →
      l'.x - 1 < (i : Rat) → (i : Rat) < l'.x + 1 → l'.y - 1 < (j : Rat) → (j : Rat) < l'.y + 1 →
      im.inside (T (gridPt2 i j))) :
    (warpF2 .linear m₁ im h w T).sample .linear m₂ l'
      = a + b * (interpT h w T l').x + c * (interpT h w T l').y := by
  have hin : (warpF2 .linear m₁ im h w T).inside l' := hl'
  rw [sample2_of_inside _ _ _ hin]
  show (Img2.mk h w (fun i j => im.sample .linear m₁ (T (gridPt2 i j)))).core .linear l' = _
  simp only [interpT, txImg, tyImg]
  apply core2_linear_comb_local hl'
  intro i j hi0 hi1 hj0 hj1 hx0 hx1 hy0 hy1
  have hsrc := hcell i j hi0 hi1 hj0 hj1 hx0 hx1 hy0 hy1
  rw [sample2_of_inside _ _ _ hsrc, bilin_reproduces_affine hcontent hsrc]

/-- **bound**: the value read at the returned landmark differs from the original content at *any* point `l` (the
original landmark) by at most `|b|·|X − l.x| + |c|·|Y − l.y|` with `(X, Y) = interpT T l'` -/
theorem warpF_registration_bound2 (m₁ m₂ : Mode) (im : Img2) (h w : Nat) (T : V2 → V2) (a b c : Rat) (l l' : V2)
    (hcontent : ∀ i j : Int, 0 ≤ i → i ≤ (im.h : Int) - 1 → 0 ≤ j → j ≤ (im.w : Int) - 1 →
      im.px i j = a + b * (i : Rat) + c * (j : Rat))
    (hl' : inR h l'.x ∧ inR w l'.y)
    (hcell : ∀ i j : Int, 0 ≤ i → i ≤ (h : Int) - 1 → 0 ≤ j → j ≤ (w : Int) - 1 →
      l'.x - 1 < (i : Rat) → (i : Rat) < l'.x + 1 → l'.y - 1 < (j : Rat) → (j : Rat) < l'.y + 1 →
      im.inside (T (gridPt2 i j))) :
    |(warpF2 .linear m₁ im h w T).sample .linear m₂ l' - (a + b * l.x + c * l.y)|
      ≤ |b| * |(interpT h w T l').x - l.x| + |c| * |(interpT h w T l').y - l.y| := by
  rw [warpF_registration_exact2 m₁ m₂ im h w T a b c l' hcontent hl' hcell]
  have : a + b * (interpT h w T l').x + c * (interpT h w T l').y - (a + b * l.x + c * l.y)
      = b * ((interpT h w T l').x - l.x) + c * ((interpT h w T l').y - l.y) := by ring
  rw [this]
  calc |b * ((interpT h w T l').x - l.x) + c * ((interpT h w T l').y - l.y)|
      ≤ |b * ((interpT h w T l').x - l.x)| + |c * ((interpT h w T l').y - l.y)| := abs_add_le _ _
    _ = |b| * |(interpT h w T l').x - l.x| + |c| * |(interpT h w T l').y - l.y| := by rw [abs_mul, abs_mul]

/-- a transform that stays within `ε` (per coordinate) of an affine map `A` on the grid points of the cell of `l'`
has its interpolation within `ε` of `A l'` -/
theorem interpT_close_to_affine (h w : Nat) (T : V2 → V2) (A : Aff2) (ε : Rat) (l' : V2)
    (hl' : inR h l'.x ∧ inR w l'.y)
    (hclose : ∀ i j : Int, 0 ≤ i → i ≤ (h : Int) - 1 → 0 ≤ j → j ≤ (w : Int) - 1 →
      l'.x - 1 < (i : Rat) → (i : Rat) < l'.x + 1 → l'.y - 1 < (j : Rat) → (j : Rat) < l'.y + 1 →
      |(T (gridPt2 i j)).x - (A.apply (gridPt2 i j)).x| ≤ ε ∧ |(T (gridPt2 i j)).y - (A.apply (gridPt2 i j)).y| ≤ ε) :
    |(interpT h w T l').x - (A.apply l').x| ≤ ε ∧ |(interpT h w T l').y - (A.apply l').y| ≤ ε := by
  have hA := interpT_affine h w A hl'
  constructor
  · have : (A.apply l').x = (interpT h w A.apply l').x := by rw [hA]
    rw [this]
    exact core2_linear_close_local hl' (fun i j a1 a2 a3 a4 a5 a6 a7 a8 => (hclose i j a1 a2 a3 a4 a5 a6 a7 a8).1)
  · have : (A.apply l').y = (interpT h w A.apply l').y := by rw [hA]
    rw [this]
    exact core2_linear_close_local hl' (fun i j a1 a2 a3 a4 a5 a6 a7 a8 => (hclose i j a1 a2 a3 a4 a5 a6 a7 a8).2)

/-- **registration under a continuity hypothesis** (piecewise affine across triangle borders, thin plate
splines): if on the cell of the returned landmark `l'` the transform stays within `ε` of an affine map that sends
`l'` to the original landmark `l` (for a piecewise affine warp: the affine piece of `l'`, the neighbouring pieces
deviating from it by at most `ε` on the cell because they agree on the common edge), then sampling the result at
`l'` gives the original content at `l` up to `(|b| + |c|)·ε` -/
theorem warpF_registration_lipschitz2 (m₁ m₂ : Mode) (im : Img2) (h w : Nat) (T : V2 → V2) (A : Aff2)
    (a b c ε : Rat) (l l' : V2)
    (hcontent : ∀ i j : Int, 0 ≤ i → i ≤ (im.h : Int) - 1 → 0 ≤ j → j ≤ (im.w : Int) - 1 →
      im.px i j = a + b * (i : Rat) + c * (j : Rat))
    (hl' : inR h l'.x ∧ inR w l'.y) (hAl : A.apply l' = l)
    (hcell : ∀ i j : Int, 0 ≤ i → i ≤ (h : Int) - 1 → 0 ≤ j → j ≤ (w : Int) - 1 →
      l'.x - 1 < (i : Rat) → (i : Rat) < l'.x + 1 → l'.y - 1 < (j : Rat) → (j : Rat) < l'.y + 1 →
      im.inside (T (gridPt2 i j)) ∧
      |(T (gridPt2 i j)).x - (A.apply (gridPt2 i j)).x| ≤ ε ∧ |(T (gridPt2 i j)).y - (A.apply (gridPt2 i j)).y| ≤ ε) :
    |(warpF2 .linear m₁ im h w T).sample .linear m₂ l' - (a + b * l.x + c * l.y)| ≤ (|b| + |c|) * ε := by
  have hb := warpF_registration_bound2 m₁ m₂ im h w T a b c l l' hcontent hl'
    (fun i j a1 a2 a3 a4 a5 a6 a7 a8 => (hcell i j a1 a2 a3 a4 a5 a6 a7 a8).1)
  obtain ⟨hx, hy⟩ := interpT_close_to_affine h w T A ε l' hl'
    (fun i j a1 a2 a3 a4 a5 a6 a7 a8 => (hcell i j a1 a2 a3 a4 a5 a6 a7 a8).2)
  rw [hAl] at hx hy
  have h1 : |b| * |(interpT h w T l').x - l.x| ≤ |b| * ε := mul_le_mul_of_nonneg_left hx (abs_nonneg b)
  have h2 : |c| * |(interpT h w T l').y - l.y| ≤ |c| * ε := mul_le_mul_of_nonneg_left hy (abs_nonneg c)
  calc _ ≤ |b| * |(interpT h w T l').x - l.x| + |c| * |(interpT h w T l').y - l.y| := hb
    _ ≤ |b| * ε + |c| * ε := add_le_add h1 h2
    _ = (|b| + |c|) * ε := by ring

/-- the affine case is the case `ε = 0`: part 1's `warpF_registration_affine2` follows -/
theorem warpF_registration_affine2_from_bound (m₁ m₂ : Mode) (im : Img2) (h w : Nat) (T : V2 → V2) (A : Aff2)
    (a b c : Rat) (l l' : V2)
    (hcontent : ∀ i j : Int, 0 ≤ i → i ≤ (im.h : Int) - 1 → 0 ≤ j → j ≤ (im.w : Int) - 1 →
      im.px i j = a + b * (i : Rat) + c * (j : Rat))
    (hl' : inR h l'.x ∧ inR w l'.y) (hAl : A.apply l' = l)
    (hcell : ∀ i j : Int, 0 ≤ i → i ≤ (h : Int) - 1 → 0 ≤ j → j ≤ (w : Int) - 1 →
      l'.x - 1 < (i : Rat) → (i : Rat) < l'.x + 1 → l'.y - 1 < (j : Rat) → (j : Rat) < l'.y + 1 →
      T (gridPt2 i j) = A.apply (gridPt2 i j) ∧ im.inside (T (gridPt2 i j))) :
    (warpF2 .linear m₁ im h w T).sample .linear m₂ l' = a + b * l.x + c * l.y := by
  have := warpF_registration_lipschitz2 m₁ m₂ im h w T A a b c 0 l l' hcontent hl' hAl
    (fun i j a1 a2 a3 a4 a5 a6 a7 a8 => by
      obtain ⟨hT, hin⟩ := hcell i j a1 a2 a3 a4 a5 a6 a7 a8
      refine ⟨hin, ?_, ?_⟩ <;> rw [hT] <;> simp)
  have h0 : |(warpF2 .linear m₁ im h w T).sample .linear m₂ l' - (a + b * l.x + c * l.y)| ≤ 0 := by simpa using this
  have := abs_nonpos_iff.mp h0
  linarith

/-! ### PROPERTY: the remaining public entry points hand an invertible map to the funnel and follow their
documented conventions -/

/-- what `rescale` leaves in the plan: the extents before rounding, mode `nearest`, the caller's order -/
theorem rescale_plan_fields {h w : Nat} {sx sy : Rat} {r : Rounding} {p : Plan2}
    (hp : rescalePlan2 h w sx sy r = .ok p) :
    p.pre = ⟨sx * h, sy * w⟩ ∧ p.mode = .nearest ∧ p.order = none := by
  unfold rescalePlan2 at hp
  simp only at hp
  split at hp
  · cases hp
  · split at hp
    · cases hp
    · have := Except.ok_inj' hp
      subst this
      exact ⟨rfl, rfl, rfl⟩

/-- `rescale_to_diagonal`: invertible transform, order forced to 1 (the caller cannot choose it), mode `nearest`,
and — given the contract of the square root — the extents before rounding have exactly the requested diagonal -/
theorem rescale_to_diagonal_plan {h w : Nat} {diagonal dg : Rat} {r : Rounding} {p : Plan2}
    (hp : rescaleToDiagonalPlan2 h w diagonal dg r = .ok p) :
    p.T.det ≠ 0 ∧ p.order = some .linear ∧ p.mode = .nearest ∧
    (dg * dg = (h : Rat) * h + (w : Rat) * w → p.pre.x * p.pre.x + p.pre.y * p.pre.y = diagonal * diagonal) := by
  unfold rescaleToDiagonalPlan2 at hp
  split at hp
  · cases hp
  · rename_i hdg
    have hdg' : dg ≠ 0 := fun e => hdg (by rw [e])
    cases hq : rescalePlan2 h w (diagonal / dg) (diagonal / dg) r with
    | error e => rw [hq] at hp; cases hp
    | ok q =>
      rw [hq] at hp
      have := Except.ok_inj' hp
      subst this
      obtain ⟨hpre, hmode, _⟩ := rescale_plan_fields hq
      refine ⟨(rescale_plan_invertible hq : q.T.det ≠ 0), rfl, hmode, ?_⟩
      intro hc
      show q.pre.x * q.pre.x + q.pre.y * q.pre.y = _
      rw [hpre]
      show diagonal / dg * ↑h * (diagonal / dg * ↑h) + diagonal / dg * ↑w * (diagonal / dg * ↑w) = _
      have : diagonal / dg * ↑h * (diagonal / dg * ↑h) + diagonal / dg * ↑w * (diagonal / dg * ↑w)
          = diagonal * diagonal * (((h : Rat) * h + (w : Rat) * w) / (dg * dg)) := by
        field_simp
      rw [this, ← hc]
      field_simp

/-- the documented domain of `rescale_to_diagonal`: any positive diagonal (extents of at least two pixels that
are not collapsed onto one pixel) -/
theorem rescale_to_diagonal_defined {h w : Nat} {diagonal dg : Rat} (r : Rounding) (hh : 2 ≤ h) (hw : 2 ≤ w)
    (hd : 0 < diagonal) (hdg : 0 < dg) (hcx : diagonal / dg * h ≠ 1) (hcy : diagonal / dg * w ≠ 1) :
    ∃ p, rescaleToDiagonalPlan2 h w diagonal dg r = .ok p := by
  obtain ⟨q, hq⟩ := rescale_plan_defined r hh hw (div_pos hd hdg) (div_pos hd hdg) hcx hcy
  refine ⟨q.withOrder .linear, ?_⟩
  unfold rescaleToDiagonalPlan2
  rw [if_neg (not_le.mpr hdg), hq]

theorem sum_map_scaled_x (k : Rat) (t : V2) (pts : List V2) :
    ((pts.map fun p => (⟨k * p.x + t.x, k * p.y + t.y⟩ : V2)).map (·.x)).sum
      = k * (pts.map (·.x)).sum + (pts.length : Rat) * t.x := by
  induction pts with
  | nil => simp
  | cons p ps ih => simp only [List.map_cons, List.sum_cons, ih, List.length_cons]; push_cast; ring

theorem sum_map_scaled_y (k : Rat) (t : V2) (pts : List V2) :
    ((pts.map fun p => (⟨k * p.x + t.x, k * p.y + t.y⟩ : V2)).map (·.y)).sum
      = k * (pts.map (·.y)).sum + (pts.length : Rat) * t.y := by
  induction pts with
  | nil => simp
  | cons p ps ih => simp only [List.map_cons, List.sum_cons, ih, List.length_cons]; push_cast; ring

theorem sum_sq_scaled (k : Rat) (t : V2) (mx my : Rat) (pts : List V2) :
    ((pts.map fun p => (⟨k * p.x + t.x, k * p.y + t.y⟩ : V2)).map fun p =>
        (p.x - (k * mx + t.x)) * (p.x - (k * mx + t.x)) + (p.y - (k * my + t.y)) * (p.y - (k * my + t.y))).sum
      = k * k * (pts.map fun p => (p.x - mx) * (p.x - mx) + (p.y - my) * (p.y - my)).sum := by
  induction pts with
  | nil => simp
  | cons p ps ih => simp only [List.map_cons, List.sum_cons, ih]; ring

/-- `PointCloud.norm()²` of a scaled and translated copy is `k²` times that of the original -/
theorem centredSS_scaled (k : Rat) (t : V2) (pts : List V2) (hne : pts ≠ []) :
    centredSS (pts.map fun p => (⟨k * p.x + t.x, k * p.y + t.y⟩ : V2)) = k * k * centredSS pts := by
  have hn : (pts.length : Rat) ≠ 0 := by
    have : pts.length ≠ 0 := fun e => hne (List.length_eq_zero_iff.mp e)
    exact_mod_cast this
  unfold centredSS
  simp only [List.length_map]
  rw [sum_map_scaled_x, sum_map_scaled_y]
  have ex : (k * (pts.map (·.x)).sum + (pts.length : Rat) * t.x) / (pts.length : Rat)
      = k * ((pts.map (·.x)).sum / (pts.length : Rat)) + t.x := by field_simp
  have ey : (k * (pts.map (·.y)).sum + (pts.length : Rat) * t.y) / (pts.length : Rat)
      = k * ((pts.map (·.y)).sum / (pts.length : Rat)) + t.y := by field_simp
  rw [ex, ey]
  exact sum_sq_scaled k t _ _ pts

/-- **`rescale_to_pointcloud` recovers the scale**: when the target is the landmark group scaled by `k > 0` and
translated, the scale handed to `rescale` is exactly `k` (given the contract of the two norms), so the plan is
`rescale(k)` -/
theorem rescale_to_pointcloud_scale (h w : Nat) (k : Rat) (t : V2) (pts : List V2) (ns nt : Rat) (r : Rounding)
    (hne : pts ≠ []) (hk : 0 < k) (hns : 0 < ns) (hnt : 0 < nt) (hcs : ns * ns = centredSS pts)
    (hct : nt * nt = centredSS (pts.map fun p => (⟨k * p.x + t.x, k * p.y + t.y⟩ : V2))) :
    nt / ns = k ∧ rescaleToPointcloudPlan2 h w ns nt r = rescalePlan2 h w k k r := by
  rw [centredSS_scaled k t pts hne, ← hcs] at hct
  have hprod : (nt - k * ns) * (nt + k * ns) = 0 := by
    have : (nt - k * ns) * (nt + k * ns) = nt * nt - k * k * (ns * ns) := by ring
    rw [this, hct]; ring
  have hpos : nt + k * ns ≠ 0 := by
    have : 0 < nt + k * ns := add_pos hnt (mul_pos hk hns)
    exact ne_of_gt this
  have hnt' : nt = k * ns := by
    rcases mul_eq_zero.mp hprod with e | e
    · linarith
    · exact absurd e hpos
  have hs : nt / ns = k := by rw [hnt']; field_simp
  refine ⟨hs, ?_⟩
  unfold rescaleToPointcloudPlan2
  rw [if_neg (not_le.mpr hns), hs]

theorem rescale_to_pointcloud_plan_invertible {h w : Nat} {ns nt : Rat} {r : Rounding} {p : Plan2}
    (hp : rescaleToPointcloudPlan2 h w ns nt r = .ok p) : p.T.det ≠ 0 := by
  unfold rescaleToPointcloudPlan2 at hp
  split at hp
  · cases hp
  · exact rescale_plan_invertible hp

/-- `rescale_landmarks_to_diagonal_range`: invertible transform, and — given the contract of the square root — the
bounding box of the landmark group scaled by the factor handed to `rescale` has exactly the requested diagonal -/
theorem rescale_landmarks_to_diagonal_range_plan {h w : Nat} {dr rg : Rat} {r : Rounding} {p : Plan2}
    (hp : rescaleLandmarksToDiagonalRangePlan2 h w dr rg r = .ok p) (pts : List V2) :
    p.T.det ≠ 0 ∧
    (rg * rg = (rangeOf pts).x * (rangeOf pts).x + (rangeOf pts).y * (rangeOf pts).y →
      (dr / rg * (rangeOf pts).x) * (dr / rg * (rangeOf pts).x) + (dr / rg * (rangeOf pts).y) * (dr / rg * (rangeOf pts).y)
        = dr * dr) := by
  unfold rescaleLandmarksToDiagonalRangePlan2 at hp
  split at hp
  · cases hp
  · rename_i hrg
    have hrg' : rg ≠ 0 := fun e => hrg (by rw [e])
    refine ⟨rescale_plan_invertible hp, ?_⟩
    intro hc
    generalize (rangeOf pts).x = rx at hc ⊢
    generalize (rangeOf pts).y = ry at hc ⊢
    have : dr / rg * rx * (dr / rg * rx) + dr / rg * ry * (dr / rg * ry) = dr * dr * ((rx * rx + ry * ry) / (rg * rg)) := by
      field_simp
    rw [this, ← hc]
    field_simp

/-- every member of the crop family is a `crop` with computed bounds -/
theorem crop_family_is_crop (h w : Nat) (p : Plan2)
    (hp : (∃ mn mx cb, cropPlan2 h w mn mx cb = .ok p) ∨ (∃ pts b cb, cropToPointsPlan2 h w pts b cb = .ok p) ∨
          (∃ pts pr mi cb, cropToPointsProportionPlan2 h w pts pr mi cb = .ok p) ∨
          (∃ mk b cb, mk.h = h ∧ mk.w = w ∧ cropToTrueMaskPlan2 mk b cb = .ok p)) :
    ∃ mn mx cb, cropPlan2 h w mn mx cb = .ok p := by
  rcases hp with h1 | ⟨pts, b, cb, h1⟩ | ⟨pts, pr, mi, cb, h1⟩ | ⟨mk, b, cb, hh, hw, h1⟩
  · exact h1
  · exact ⟨_, _, cb, h1⟩
  · exact ⟨_, _, cb, h1⟩
  · unfold cropToTrueMaskPlan2 at h1
    split at h1
    · cases h1
    · subst hh; subst hw; exact ⟨_, _, cb, h1⟩

/-- **the whole crop family (`crop`, `crop_to_pointcloud`, `crop_to_landmarks`, their `_proportion` variants,
`MaskedImage.crop_to_true_mask`): exact registration for arbitrary content, sub-pixel landmarks, both orders** -/
theorem crop_family_exact_registration (im : Img2) (p : Plan2)
    (hp : (∃ mn mx cb, cropPlan2 im.h im.w mn mx cb = .ok p) ∨ (∃ pts b cb, cropToPointsPlan2 im.h im.w pts b cb = .ok p) ∨
          (∃ pts pr mi cb, cropToPointsProportionPlan2 im.h im.w pts pr mi cb = .ok p) ∨
          (∃ mk b cb, mk.h = im.h ∧ mk.w = im.w ∧ cropToTrueMaskPlan2 mk b cb = .ok p))
    (o o' : Interp) (m₂ : Mode) (l : V2) (hl' : inR p.h (p.landmark l).x ∧ inR p.w (p.landmark l).y) :
    (p.run o' im).sample o m₂ (p.landmark l) = im.core o l := by
  obtain ⟨mn, mx, cb, h1⟩ := crop_family_is_crop im.h im.w p hp
  exact crop_exact_registration im h1 o o' m₂ l hl'

theorem clampR_inR {n : Nat} (hn : 1 ≤ n) (x : Rat) : inR n (clampR n x) := by
  have ht : (0 : Rat) ≤ top n := by
    rw [top_eq]
    have : (1 : Rat) ≤ (n : Rat) := by exact_mod_cast hn
    linarith
  unfold clampR
  split
  · exact ⟨le_refl _, ht⟩
  · rename_i h0
    split
    · exact ⟨ht, le_refl _⟩
    · rename_i h1
      exact ⟨not_lt.mp h0, not_lt.mp h1⟩

/-- `constrain_landmarks_to_bounds`: every landmark ends up inside the image, landmarks that were inside do not
move (their registration is untouched — pixels and mask are not changed by this call), and the call is
idempotent -/
theorem constrain_landmark_spec (h w : Nat) (hh : 1 ≤ h) (hw : 1 ≤ w) (l : V2) :
    (inR h (constrainLandmark h w l).x ∧ inR w (constrainLandmark h w l).y) ∧
    ((inR h l.x ∧ inR w l.y) → constrainLandmark h w l = l) ∧
    constrainLandmark h w (constrainLandmark h w l) = constrainLandmark h w l := by
  refine ⟨⟨clampR_inR hh _, clampR_inR hw _⟩, ?_, ?_⟩
  · intro ⟨hx, hy⟩
    unfold constrainLandmark
    rw [clampR_of_inR hx, clampR_of_inR hy]
  · unfold constrainLandmark
    simp only [clampR_of_inR (clampR_inR hh _), clampR_of_inR (clampR_inR hw _)]

/-- all the additional 2-D entry points at once: their transform is invertible, hence
`returned_transform_consistent2` and the registration theorems apply to them as well -/
theorem plan2_T_invertible_ext (h w : Nat) (p : Plan2)
    (hp : (∃ dgl dg r, rescaleToDiagonalPlan2 h w dgl dg r = .ok p) ∨ (∃ ns nt r, rescaleToPointcloudPlan2 h w ns nt r = .ok p) ∨
          (∃ dr rg r, rescaleLandmarksToDiagonalRangePlan2 h w dr rg r = .ok p) ∨
          (∃ mk b cb, mk.h = h ∧ mk.w = w ∧ cropToTrueMaskPlan2 mk b cb = .ok p)) :
    p.T.det ≠ 0 := by
  rcases hp with ⟨_, _, _, h1⟩ | ⟨_, _, _, h1⟩ | ⟨_, _, _, h1⟩ | h1
  · exact (rescale_to_diagonal_plan h1).1
  · exact rescale_to_pointcloud_plan_invertible h1
  · exact (rescale_landmarks_to_diagonal_range_plan h1 []).1
  · obtain ⟨mn, mx, cb, h2⟩ := crop_family_is_crop h w p (Or.inr (Or.inr (Or.inr h1)))
    exact crop_plan_invertible h2

/-! ### PROPERTY (`gaussian_pyramid`): a symmetric normalised blur keeps an affine ramp away from the border,
so every level is registered there -/

/-- registration for content that is affine only *where it is read*: around every source point the cell of the
returned landmark is sampled at -/
theorem warpF_registration_affine2_local (m₁ m₂ : Mode) (im : Img2) (h w : Nat) (T : V2 → V2) (A : Aff2)
    (a b c : Rat) (l l' : V2) (hl' : inR h l'.x ∧ inR w l'.y) (hAl : A.apply l' = l)
    (hcell : ∀ i j : Int, 0 ≤ i → i ≤ (h : Int) - 1 → 0 ≤ j → j ≤ (w : Int) - 1 →
      l'.x - 1 < (i : Rat) → (i : Rat) < l'.x + 1 → l'.y - 1 < (j : Rat) → (j : Rat) < l'.y + 1 →
      T (gridPt2 i j) = A.apply (gridPt2 i j) ∧ im.inside (T (gridPt2 i j)) ∧
      ∀ i' j' : Int, 0 ≤ i' → i' ≤ (im.h : Int) - 1 → 0 ≤ j' → j' ≤ (im.w : Int) - 1 →
        (T (gridPt2 i j)).x - 1 < (i' : Rat) → (i' : Rat) < (T (gridPt2 i j)).x + 1 →
        (T (gridPt2 i j)).y - 1 < (j' : Rat) → (j' : Rat) < (T (gridPt2 i j)).y + 1 →
        im.px i' j' = a + b * (i' : Rat) + c * (j' : Rat)) :
    (warpF2 .linear m₁ im h w T).sample .linear m₂ l' = a + b * l.x + c * l.y := by
  have hin : (warpF2 .linear m₁ im h w T).inside l' := hl'
  rw [sample2_of_inside _ _ _ hin]
  have key : (warpF2 .linear m₁ im h w T).core .linear l'
      = (a + b * A.tx + c * A.ty) + (b * A.a + c * A.c) * l'.x + (b * A.b + c * A.d) * l'.y := by
    apply core2_linear_local hin
    intro i j hi0 hi1 hj0 hj1 hx0 hx1 hy0 hy1
    obtain ⟨hT, hsrc, hloc⟩ := hcell i j hi0 hi1 hj0 hj1 hx0 hx1 hy0 hy1
    show im.sample .linear m₁ (T (gridPt2 i j)) = _
    rw [sample2_of_inside _ _ _ hsrc, core2_linear_local hsrc hloc, hT]
    simp only [Aff2.apply, gridPt2]; ring
  rw [key, ← hAl]; simp only [Aff2.apply]; ring

/-- **one level of `gaussian_pyramid`** (`gaussian_filter(image, sigma).rescale(1/downscale)`), for any symmetric
kernel of total weight 1 and radius `r`: for affine content, sampling the level at a returned landmark gives the
original content at the original landmark, as long as the cell of the returned landmark is sampled at least `r`
pixels away from the border of the source (there the blur has not mixed in reflected pixels) -/
theorem gauss_step_registration (wts : List Rat) (hsum : kernelSum wts = 1) (im : Img2) (ds : Rat) (p : Plan2)
    (hp : pyramidStep2 im.h im.w ds = .ok p) (o : Interp) (m₂ : Mode) (a b c : Rat) (l : V2)
    (hcontent : ∀ i j : Int, 0 ≤ i → i ≤ (im.h : Int) - 1 → 0 ≤ j → j ≤ (im.w : Int) - 1 →
      im.px i j = a + b * (i : Rat) + c * (j : Rat))
    (hl' : inR p.h (p.landmark l).x ∧ inR p.w (p.landmark l).y)
    (hcell : ∀ i j : Int, 0 ≤ i → i ≤ (p.h : Int) - 1 → 0 ≤ j → j ≤ (p.w : Int) - 1 →
      (p.landmark l).x - 1 < (i : Rat) → (i : Rat) < (p.landmark l).x + 1 →
      (p.landmark l).y - 1 < (j : Rat) → (j : Rat) < (p.landmark l).y + 1 →
      (((wts.length - 1 : Nat) : Int) : Rat) ≤ (p.T.apply (gridPt2 i j)).x ∧
      (p.T.apply (gridPt2 i j)).x ≤ (im.h : Rat) - 1 - (((wts.length - 1 : Nat) : Int) : Rat) ∧
      (((wts.length - 1 : Nat) : Int) : Rat) ≤ (p.T.apply (gridPt2 i j)).y ∧
      (p.T.apply (gridPt2 i j)).y ≤ (im.w : Rat) - 1 - (((wts.length - 1 : Nat) : Int) : Rat)) :
    (p.run o (blur2 wts im)).sample .linear m₂ (p.landmark l) = a + b * l.x + c * l.y := by
  obtain ⟨q, hq, rfl⟩ := pyramid_step_is_rescale hp
  have hdet : q.T.det ≠ 0 := rescale_plan_invertible hq
  show (warpF2 .linear q.mode (blur2 wts im) q.h q.w q.T.apply).sample .linear m₂ (q.T.inv.apply l) = _
  apply warpF_registration_affine2_local q.mode m₂ (blur2 wts im) q.h q.w q.T.apply q.T a b c l (q.T.inv.apply l) hl'
    (Aff2.apply_inv_apply hdet l)
  intro i j hi0 hi1 hj0 hj1 hx0 hx1 hy0 hy1
  obtain ⟨cx0, cx1, cy0, cy1⟩ :
      (((wts.length - 1 : Nat) : Int) : Rat) ≤ (q.T.apply (gridPt2 i j)).x ∧
      (q.T.apply (gridPt2 i j)).x ≤ (im.h : Rat) - 1 - (((wts.length - 1 : Nat) : Int) : Rat) ∧
      (((wts.length - 1 : Nat) : Int) : Rat) ≤ (q.T.apply (gridPt2 i j)).y ∧
      (q.T.apply (gridPt2 i j)).y ≤ (im.w : Rat) - 1 - (((wts.length - 1 : Nat) : Int) : Rat) :=
    hcell i j hi0 hi1 hj0 hj1 hx0 hx1 hy0 hy1
  generalize hR : ((wts.length - 1 : Nat) : Int) = R at cx0 cx1 cy0 cy1
  have hR0 : (0 : Rat) ≤ (R : Rat) := by rw [← hR]; exact_mod_cast Int.natCast_nonneg _
  generalize hqp : q.T.apply (gridPt2 i j) = sp at cx0 cx1 cy0 cy1
  refine ⟨rfl, ?_, ?_⟩
  · refine ⟨⟨by linarith, ?_⟩, ⟨by linarith, ?_⟩⟩
    · show sp.x ≤ top im.h
      rw [top_eq]; linarith
    · show sp.y ≤ top im.w
      rw [top_eq]; linarith
  · intro i' j' hi'0 hi'1 hj'0 hj'1 hx'0 hx'1 hy'0 hy'1
    have e1 : R ≤ i' := by
      have : ((R - 1 : Int) : Rat) < (i' : Rat) := by push_cast; linarith
      have : R - 1 < i' := by exact_mod_cast this
      omega
    have e2 : i' + R ≤ (im.h : Int) - 1 := by
      have : (i' : Rat) < (((im.h : Int) - R : Int) : Rat) := by push_cast; linarith
      have : i' < (im.h : Int) - R := by exact_mod_cast this
      omega
    have e3 : R ≤ j' := by
      have : ((R - 1 : Int) : Rat) < (j' : Rat) := by push_cast; linarith
      have : R - 1 < j' := by exact_mod_cast this
      omega
    have e4 : j' + R ≤ (im.w : Int) - 1 := by
      have : (j' : Rat) < (((im.w : Int) - R : Int) : Rat) := by push_cast; linarith
      have : j' < (im.w : Int) - R := by exact_mod_cast this
      omega
    exact blur2_affine_interior hsum hcontent (by rw [hR]; exact e1) (by rw [hR]; exact e2) (by rw [hR]; exact e3)
      (by rw [hR]; exact e4)

/-! ### PROPERTY: sequences of operations — the composed returned transforms map the final landmarks onto the
original ones (invariant by induction over the operation list) -/

theorem Aff2.one_inv : Aff2.one.inv = Aff2.one := by decide +kernel
theorem Aff2.one_apply (q : V2) : Aff2.one.apply q = q := by
  ext <;> simp [Aff2.one, Aff2.apply]
theorem Aff2.one_det : Aff2.one.det = 1 := by decide +kernel

/-- the inverse of a composition undoes the second map first -/
theorem Aff2.inv_comp_apply {g f : Aff2} (hg : g.det ≠ 0) (hf : f.det ≠ 0) (x : V2) :
    (g.comp f).inv.apply x = f.inv.apply (g.inv.apply x) := by
  have hgf : (g.comp f).det ≠ 0 := by rw [Aff2.det_comp]; exact mul_ne_zero hg hf
  have h1 : (g.comp f).apply (f.inv.apply (g.inv.apply x)) = x := by
    rw [Aff2.comp_apply, Aff2.apply_inv_apply hf, Aff2.apply_inv_apply hg]
  calc (g.comp f).inv.apply x = (g.comp f).inv.apply ((g.comp f).apply (f.inv.apply (g.inv.apply x))) := by rw [h1]
    _ = f.inv.apply (g.inv.apply x) := Aff2.inv_apply_apply hgf _

/-- **invariant of a sequence of operations**: if the landmarks of the current image are the original ones `L`
moved by the inverse of the accumulated transform `back` (final → original coordinates), the same holds after any
further list of operations whose plans are invertible (every public operation: `plan2_T_invertible`,
`plan2_T_invertible_ext`) -/
theorem chain_registered (o : Interp) (L : List V2) : ∀ (fs : List OpF) (s s' : ChainState),
    chainRun o fs s = .ok s' → (∀ p ∈ chainPlans o fs s, p.T.det ≠ 0) →
    s.back.det ≠ 0 → s.lms = L.map s.back.inv.apply →
    s'.back.det ≠ 0 ∧ s'.lms = L.map s'.back.inv.apply ∧ ∀ l' ∈ s'.lms, ∃ l ∈ L, s'.back.apply l' = l := by
  intro fs
  induction fs with
  | nil =>
    intro s s' hrun _ hdet hl
    have : s = s' := by simpa [chainRun] using hrun
    subst this
    refine ⟨hdet, hl, ?_⟩
    intro l' hl'
    rw [hl] at hl'
    obtain ⟨l, hlL, rfl⟩ := List.mem_map.mp hl'
    exact ⟨l, hlL, Aff2.apply_inv_apply hdet l⟩
  | cons f fs ih =>
    intro s s' hrun hall hdet hl
    simp only [chainRun] at hrun
    cases hp : f s.im.h s.im.w with
    | error e => rw [hp] at hrun; cases hrun
    | ok p =>
      rw [hp] at hrun
      simp only [chainPlans, hp] at hall
      have hpdet : p.T.det ≠ 0 := hall p (List.mem_cons_self)
      apply ih _ s' hrun (fun q hq => hall q (List.mem_cons_of_mem _ hq))
      · show (s.back.comp p.T).det ≠ 0
        rw [Aff2.det_comp]; exact mul_ne_zero hdet hpdet
      · show s.lms.map p.landmark = L.map (s.back.comp p.T).inv.apply
        rw [hl, List.map_map]
        apply List.map_congr_left
        intro x _
        show p.T.inv.apply (s.back.inv.apply x) = _
        rw [Aff2.inv_comp_apply hdet hpdet]

/-- a sequence started on a fresh image: the final landmarks, mapped through the composition of the returned
transforms, are the original landmarks -/
theorem chain_registered_from_start (o : Interp) (fs : List OpF) (im mk : Img2) (L : List V2) (s' : ChainState)
    (hrun : chainRun o fs ⟨im, mk, L, Aff2.one⟩ = .ok s')
    (hall : ∀ p ∈ chainPlans o fs ⟨im, mk, L, Aff2.one⟩, p.T.det ≠ 0) :
    s'.back.det ≠ 0 ∧ s'.lms = L.map s'.back.inv.apply ∧ ∀ l' ∈ s'.lms, ∃ l ∈ L, s'.back.apply l' = l := by
  apply chain_registered o L fs ⟨im, mk, L, Aff2.one⟩ s' hrun hall
  · show Aff2.one.det ≠ 0
    rw [Aff2.one_det]; exact one_ne_zero
  · show L = L.map Aff2.one.inv.apply
    rw [Aff2.one_inv]
    conv_lhs => rw [← List.map_id L]
    apply List.map_congr_left
    intro x _
    exact (Aff2.one_apply x).symm

/-- **every level of `pyramid`**: the landmarks of level `k` are the original ones moved by the inverse of one
invertible affine map (the composition of the step transforms) -/
theorem pyramid_levels_registered (ds : Rat) (o : Interp) (s : Img2 × Img2 × List V2) :
    ∀ (k : Nat) (im mk : Img2) (lms : List V2), pyramid2 ds o k s = .ok (im, mk, lms) →
    ∃ back : Aff2, back.det ≠ 0 ∧ lms = s.2.2.map back.inv.apply ∧ ∀ l ∈ s.2.2, back.apply (back.inv.apply l) = l := by
  intro k
  induction k with
  | zero =>
    intro im mk lms h
    have : s = (im, mk, lms) := by simpa [pyramid2] using h
    subst this
    refine ⟨Aff2.one, by rw [Aff2.one_det]; exact one_ne_zero, ?_, fun l _ => Aff2.apply_inv_apply (by rw [Aff2.one_det]; exact one_ne_zero) l⟩
    show lms = lms.map Aff2.one.inv.apply
    rw [Aff2.one_inv]
    conv_lhs => rw [← List.map_id lms]
    exact List.map_congr_left (fun x _ => (Aff2.one_apply x).symm)
  | succ k ih =>
    intro im mk lms h
    simp only [pyramid2] at h
    cases hk : pyramid2 ds o k s with
    | error e => rw [hk] at h; cases h
    | ok st =>
      obtain ⟨im0, mk0, lms0⟩ := st
      rw [hk] at h
      simp only at h
      cases hp : pyramidStep2 im0.h im0.w ds with
      | error e => rw [hp] at h; cases h
      | ok p =>
        rw [hp] at h
        have hres := Except.ok_inj' h
        obtain ⟨back, hb, hl, _⟩ := ih im0 mk0 lms0 hk
        have hpdet : p.T.det ≠ 0 := (pyramid_step_registered ds o k s im0 mk0 lms0 p hk hp).2.1
        have hdet : (back.comp p.T).det ≠ 0 := by rw [Aff2.det_comp]; exact mul_ne_zero hb hpdet
        refine ⟨back.comp p.T, hdet, ?_, fun l _ => Aff2.apply_inv_apply hdet l⟩
        have : lms = lms0.map p.landmark := by
          have := congrArg (fun t => t.2.2) hres
          exact this.symm
        rw [this, hl, List.map_map]
        apply List.map_congr_left
        intro x _
        show p.T.inv.apply (back.inv.apply x) = _
        rw [Aff2.inv_comp_apply hb hpdet]

/-- **every level of `gaussian_pyramid`**: the same statement — the blur does not touch the landmarks -/
theorem gauss_pyramid_levels_registered (wts : List Rat) (ds : Rat) (o : Interp) (s : Img2 × Img2 × List V2) :
    ∀ (k : Nat) (im mk : Img2) (lms : List V2), gaussPyramid2 wts ds o k s = .ok (im, mk, lms) →
    ∃ back : Aff2, back.det ≠ 0 ∧ lms = s.2.2.map back.inv.apply ∧ ∀ l ∈ s.2.2, back.apply (back.inv.apply l) = l := by
  intro k
  induction k with
  | zero =>
    intro im mk lms h
    have : s = (im, mk, lms) := by simpa [gaussPyramid2] using h
    subst this
    refine ⟨Aff2.one, by rw [Aff2.one_det]; exact one_ne_zero, ?_, fun l _ => Aff2.apply_inv_apply (by rw [Aff2.one_det]; exact one_ne_zero) l⟩
    show lms = lms.map Aff2.one.inv.apply
    rw [Aff2.one_inv]
    conv_lhs => rw [← List.map_id lms]
    exact List.map_congr_left (fun x _ => (Aff2.one_apply x).symm)
  | succ k ih =>
    intro im mk lms h
    simp only [gaussPyramid2] at h
    cases hk : gaussPyramid2 wts ds o k s with
    | error e => rw [hk] at h; cases h
    | ok st =>
      obtain ⟨im0, mk0, lms0⟩ := st
      rw [hk] at h
      simp only at h
      cases hp : pyramidStep2 im0.h im0.w ds with
      | error e => rw [hp] at h; cases h
      | ok p =>
        rw [hp] at h
        have hres := Except.ok_inj' h
        obtain ⟨back, hb, hl, _⟩ := ih im0 mk0 lms0 hk
        have hpdet : p.T.det ≠ 0 := by
          obtain ⟨q, hq, rfl⟩ := pyramid_step_is_rescale hp
          exact (rescale_plan_invertible hq : q.T.det ≠ 0)
        have hdet : (back.comp p.T).det ≠ 0 := by rw [Aff2.det_comp]; exact mul_ne_zero hb hpdet
        refine ⟨back.comp p.T, hdet, ?_, fun l _ => Aff2.apply_inv_apply hdet l⟩
        have : lms = lms0.map p.landmark := by
          have := congrArg (fun t => t.2.2) hres
          exact this.symm
        rw [this, hl, List.map_map]
        apply List.map_congr_left
        intro x _
        show p.T.inv.apply (back.inv.apply x) = _
        rw [Aff2.inv_comp_apply hb hpdet]

/-! ### PROPERTY: `pseudoinverse()` of every class of the homogeneous family is the inverse map -/

/-- each closed form (`Rotation(inv(R))`, `NonUniformScale(1/scale)`, `UniformScale(1/scale)`,
`Translation(-t)`) is the matrix inverse on the matrices its class can hold -/
theorem pinv_sound (k : MatKind) (pv : PinvProvider) (hok : providerOK k pv = true) (m : Aff2) (hm : k.holds m) :
    pinvBy pv m = m.inv := by
  cases k <;> cases pv <;> simp only [providerOK, Bool.false_eq_true] at hok <;> try rfl
  · -- rotation / rotation
    obtain ⟨h1, h2, _⟩ := hm
    ext <;> simp [pinvBy, Aff2.inv, Aff2.det, h1, h2]
  · -- nonUniformScale / nonUniformScale
    obtain ⟨hb, hc, h1, h2, ha, hd⟩ := hm
    ext <;> simp [pinvBy, Aff2.inv, Aff2.det, hb, hc, h1, h2] <;> field_simp
  · -- uniformScale / nonUniformScale
    obtain ⟨hb, hc, h1, h2, ha, hd⟩ := hm
    ext <;> simp [pinvBy, Aff2.inv, Aff2.det, hb, hc, h1, h2, hd]
  · -- uniformScale / uniformScale
    obtain ⟨hb, hc, h1, h2, ha, hd⟩ := hm
    ext <;> simp [pinvBy, Aff2.inv, Aff2.det, hb, hc, h1, h2, hd]
  · -- translation / translation
    obtain ⟨ha, hb, hc, hd⟩ := hm
    ext <;> simp [pinvBy, Aff2.inv, Aff2.det, ha, hb, hc, hd]

/-- hence, for every family class of the table, moving the landmarks by `transform.pseudoinverse()` is moving
them by the inverse of the map used for the pixels -/
theorem family_pinv_registers (r : FamilyRow) (hr : r ∈ expectedFamily) (m : Aff2) (hm : r.kind.holds m) (l : V2) :
    m.apply ((pinvBy r.provider m).apply l) = l := by
  have hok : providerOK r.kind r.provider = true := by
    have : ∀ r ∈ expectedFamily, providerOK r.kind r.provider = true := by decide
    exact this r hr
  rw [pinv_sound r.kind r.provider hok m hm]
  have hdet : m.det ≠ 0 := by
    cases hk : r.kind <;> rw [hk] at hm
    · exact hm
    · exact hm.2.2
    · obtain ⟨hb, hc, _, _, ha, hd⟩ := hm
      simp only [Aff2.det, hb, hc]; simp [ha, hd]
    · obtain ⟨hb, hc, _, _, ha, hd⟩ := hm
      simp only [Aff2.det, hb, hc, hd]; simp [ha]
    · obtain ⟨ha, hb, hc, hd⟩ := hm
      simp [Aff2.det, ha, hb, hc, hd]
    · exact absurd hm id
  exact Aff2.apply_inv_apply hdet l

/-! ### PROPERTY: the single funnel — what each operation hands to `warp_to_shape` -/

/-- for all parameters: the order and the boundary mode an operation's plan carries -/
theorem plan_funnel_args (h w : Nat) (p : Plan2) :
    ((∃ mn mx cb, cropPlan2 h w mn mx cb = .ok p) → p.order = some .nearest ∧ p.mode = .constant 0) ∧
    ((∃ sx sy r, rescalePlan2 h w sx sy r = .ok p) → p.order = none ∧ p.mode = .nearest) ∧
    ((∃ d dg r, rescaleToDiagonalPlan2 h w d dg r = .ok p) → p.order = some .linear ∧ p.mode = .nearest) ∧
    ((∃ s, zoomPlan2 h w s = .ok p) → p.order = none ∧ p.mode = .nearest) ∧
    ((∃ ax, mirrorPlan2 h w ax = .ok p) → p.order = none ∧ p.mode = .nearest) ∧
    ((∃ A rt m r, aboutPlan2 h w A rt m r = .ok p ∧ p.mode ≠ m) → False) ∧
    ((∃ ds, pyramidStep2 h w ds = .ok p) → p.order = some .linear ∧ p.mode = .nearest) := by
  refine ⟨?_, ?_, ?_, ?_, ?_, ?_, ?_⟩
  · rintro ⟨mn, mx, cb, hp⟩
    unfold cropPlan2 at hp
    simp only at hp
    split at hp
    · cases hp
    · split at hp
      · cases hp
      · have := Except.ok_inj' hp
        subst this
        exact ⟨rfl, rfl⟩
  · rintro ⟨sx, sy, r, hp⟩
    obtain ⟨_, hm, ho⟩ := rescale_plan_fields hp
    exact ⟨ho, hm⟩
  · rintro ⟨d, dg, r, hp⟩
    obtain ⟨_, ho, hm, _⟩ := rescale_to_diagonal_plan hp
    exact ⟨ho, hm⟩
  · rintro ⟨s, hp⟩
    unfold zoomPlan2 at hp
    split at hp
    · cases hp
    · have := Except.ok_inj' hp
      subst this
      exact ⟨rfl, rfl⟩
  · rintro ⟨ax, hp⟩
    unfold mirrorPlan2 at hp
    split at hp
    · cases hp
    · have := Except.ok_inj' hp
      subst this
      exact ⟨rfl, rfl⟩
  · rintro ⟨A, rt, m, r, hp, hne⟩
    unfold aboutPlan2 at hp
    split at hp
    · cases hp
    · split at hp
      · have := Except.ok_inj' hp
        subst this
        exact hne rfl
      · have := Except.ok_inj' hp
        subst this
        exact hne rfl
  · rintro ⟨ds, hp⟩
    obtain ⟨q, hq, rfl⟩ := pyramid_step_is_rescale hp
    obtain ⟨_, hm, _⟩ := rescale_plan_fields hq
    exact ⟨rfl, hm⟩

/-- the table the model predicts for the probe calls (compared with the table recorded from the live code by
`GenProps/C01.lean`) -/
theorem expectedFunnel_eq : expectedFunnel = [
    ⟨"crop", 1, .forced0, .constant0, true⟩, ⟨"crop_to_pointcloud", 1, .forced0, .constant0, true⟩,
    ⟨"crop_to_landmarks", 1, .forced0, .constant0, true⟩, ⟨"crop_to_pointcloud_proportion", 1, .forced0, .constant0, true⟩,
    ⟨"crop_to_landmarks_proportion", 1, .forced0, .constant0, true⟩, ⟨"crop_to_true_mask", 1, .forced0, .constant0, true⟩,
    ⟨"rescale", 1, .forwarded, .nearest, true⟩, ⟨"rescale_to_diagonal", 1, .forced1, .nearest, true⟩,
    ⟨"rescale_to_pointcloud", 1, .forwarded, .nearest, true⟩,
    ⟨"rescale_landmarks_to_diagonal_range", 1, .forwarded, .nearest, true⟩, ⟨"resize", 1, .forwarded, .nearest, true⟩,
    ⟨"zoom", 1, .forwarded, .nearest, true⟩, ⟨"rotate_ccw_about_centre", 1, .forwarded, .forwarded, true⟩,
    ⟨"transform_about_centre", 1, .forwarded, .forwarded, true⟩, ⟨"mirror", 1, .forwarded, .nearest, true⟩,
    ⟨"pyramid", 1, .forced1, .nearest, true⟩] := by decide +kernel

/-! ### PROPERTY: mirror is exact for arbitrary content; rescale keeps landmarks in the frame -/

/-- reading a flipped axis at the flipped coordinate is reading the axis at the coordinate (order 1) -/
theorem axis1_linear_flip {n : Nat} (f : Int → Rat) {x : Rat} (hx : inR n x) :
    axis1 .linear n (fun i => f ((n : Int) - 1 - i)) (top n - x) = axis1 .linear n f x := by
  obtain ⟨h0, h1⟩ := hx
  have hx' : inR n (top n - x) := ⟨by linarith, by linarith⟩
  have hi0 : 0 ≤ x.floor := floor_nonneg_of h0
  have hi1 : x.floor ≤ (n : Int) - 1 := floor_le_top h1
  have hfl : (x.floor : Rat) ≤ x := Rat.floor_le x
  have hfl2 : x - 1 < (x.floor : Rat) := Rat.lt_floor
  by_cases ht : x = (x.floor : Rat)
  · -- grid point
    have e : top n - x = (((n : Int) - 1 - x.floor : Int) : Rat) := by rw [top_eq]; push_cast; rw [← ht]
    rw [e, axis1_grid .linear _ (by omega) (by omega)]
    have e2 : x = ((x.floor : Int) : Rat) := ht
    rw [e2, axis1_grid .linear f hi0 hi1]
    congr 1; rw [Rat.floor_intCast]; omega
  · have hlt : (x.floor : Rat) < x := lt_of_le_of_ne hfl (fun h => ht h.symm)
    have hi2 : x.floor + 1 ≤ (n : Int) - 1 := by
      have : (x.floor : Rat) < top n := lt_of_lt_of_le hlt h1
      unfold top at this
      have : x.floor < (n : Int) - 1 := by exact_mod_cast this
      omega
    have hi2' : 0 ≤ x.floor + 1 := by omega
    have hfloor : (top n - x).floor = (n : Int) - 2 - x.floor := by
      have l1 : (n : Int) - 2 - x.floor ≤ (top n - x).floor := by
        rw [Rat.le_floor_iff, top_eq]; push_cast; linarith
      have l2 : (top n - x).floor < (n : Int) - 1 - x.floor := by
        rw [Rat.floor_lt_iff, top_eq]; push_cast; linarith
      omega
    have a0 : 0 ≤ (n : Int) - 2 - x.floor := by omega
    have a1 : (n : Int) - 2 - x.floor ≤ (n : Int) - 1 := by omega
    have b0 : 0 ≤ (n : Int) - 2 - x.floor + 1 := by omega
    have b1 : (n : Int) - 2 - x.floor + 1 ≤ (n : Int) - 1 := by omega
    have c1 : (n : Int) - 1 - ((n : Int) - 2 - x.floor) = x.floor + 1 := by omega
    have c2 : (n : Int) - 1 - ((n : Int) - 2 - x.floor + 1) = x.floor := by omega
    unfold axis1
    rw [clampR_of_inR hx', clampR_of_inR ⟨h0, h1⟩]
    simp only [hfloor, clampI_of_range a0 a1, clampI_of_range b0 b1, clampI_of_range hi0 hi1, clampI_of_range hi2' hi2,
      c1, c2]
    rw [top_eq]; push_cast; ring

theorem axis1_linear_congr {n : Nat} {f g : Int → Rat} {x : Rat} (hx : inR n x)
    (h : ∀ i : Int, 0 ≤ i → i ≤ (n : Int) - 1 → f i = g i) : axis1 .linear n f x = axis1 .linear n g x := by
  obtain ⟨i₀, i₁, t, _, _, a0, a1, b0, b1, _, _, _, _, _, hf⟩ := axis1_linear_two_point hx
  rw [hf f, hf g, h i₀ a0 a1, h i₁ b0 b1]

/-- **mirror: exact registration for arbitrary content at sub-pixel landmarks (bilinear read-back)**: sampling the
mirrored image at the returned landmark is sampling the original at the original landmark -/
theorem mirror_exact_registration_linear (im : Img2) (axis : Nat) {p : Plan2}
    (hp : mirrorPlan2 im.h im.w axis = .ok p) (o' : Interp) (m₂ : Mode) (l : V2) (hl : im.inside l) :
    (p.run o' im).sample .linear m₂ (p.landmark l) = im.core .linear l := by
  have hpx := fun i j a b c d => mirror_pixels o' im axis hp i j a b c d
  have hfields : p.T = (mirrorMap2 im.h im.w axis).inv ∧ p.h = im.h ∧ p.w = im.w := by
    unfold mirrorPlan2 at hp
    split at hp
    · cases hp
    · have := Except.ok_inj' hp
      subst this
      exact ⟨rfl, rfl, rfl⟩
  obtain ⟨hT, hh, hw⟩ := hfields
  obtain ⟨hx, hy⟩ := hl
  have hland : p.landmark l = (mirrorMap2 im.h im.w axis).apply l := by
    unfold Plan2.landmark; rw [hT, mirrorMap2_inv, mirrorMap2_inv]
  rw [hland]
  by_cases hax : axis = 0
  · have hl' : (mirrorMap2 im.h im.w axis).apply l = ⟨top im.h - l.x, l.y⟩ := by
      ext <;> simp [mirrorMap2, Aff2.apply, hax]; ring
    rw [hl']
    have hx' : inR im.h (top im.h - l.x) := ⟨by linarith [hx.2], by linarith [hx.1]⟩
    have hin : (p.run o' im).inside ⟨top im.h - l.x, l.y⟩ := by
      show inR p.h _ ∧ inR p.w _
      rw [hh, hw]; exact ⟨hx', hy⟩
    rw [sample2_of_inside _ _ _ hin]
    show axis1 .linear p.h (fun i => axis1 .linear p.w (fun j => (p.run o' im).px i j) l.y) (top im.h - l.x) = _
    rw [hh, hw]
    rw [axis1_linear_congr hx' (g := fun i => (fun i' => axis1 .linear im.w (fun j => im.px i' j) l.y) ((im.h : Int) - 1 - i))]
    · exact axis1_linear_flip (fun i' => axis1 .linear im.w (fun j => im.px i' j) l.y) hx
    · intro i hi0 hi1
      apply axis1_linear_congr hy
      intro j hj0 hj1
      rw [hpx i j hi0 hi1 hj0 hj1, if_pos hax]
  · have hl' : (mirrorMap2 im.h im.w axis).apply l = ⟨l.x, top im.w - l.y⟩ := by
      ext <;> simp [mirrorMap2, Aff2.apply, hax]; ring
    rw [hl']
    have hy' : inR im.w (top im.w - l.y) := ⟨by linarith [hy.2], by linarith [hy.1]⟩
    have hin : (p.run o' im).inside ⟨l.x, top im.w - l.y⟩ := by
      show inR p.h _ ∧ inR p.w _
      rw [hh, hw]; exact ⟨hx, hy'⟩
    rw [sample2_of_inside _ _ _ hin]
    show axis1 .linear p.h (fun i => axis1 .linear p.w (fun j => (p.run o' im).px i j) (top im.w - l.y)) l.x = _
    rw [hh, hw]
    apply axis1_linear_congr hx
    intro i hi0 hi1
    rw [axis1_linear_congr hy' (g := fun j => (fun j' => im.px i j') ((im.w : Int) - 1 - j))]
    · exact axis1_linear_flip (fun j' => im.px i j') hy
    · intro j hj0 hj1
      rw [hpx i j hi0 hi1 hj0 hj1, if_neg hax]


/-! ### rescale: landmarks stay in the frame, registration with the hypotheses discharged -/

theorem rescale_plan_shape {h w : Nat} {sx sy : Rat} {r : Rounding} {p : Plan2}
    (hp : rescalePlan2 h w sx sy r = .ok p) :
    p.T = scale2 (1 / scaleFactor h sx) (1 / scaleFactor w sy) ∧ scaleFactor h sx ≠ 0 ∧ scaleFactor w sy ≠ 0 ∧
    2 ≤ h ∧ 2 ≤ w ∧ p.h = (r.apply (sx * h)).toNat ∧ p.w = (r.apply (sy * w)).toNat := by
  unfold rescalePlan2 at hp
  simp only at hp
  split at hp
  · cases hp
  · split at hp
    · cases hp
    · rename_i hdeg
      have := Except.ok_inj' hp
      subst this
      refine ⟨rfl, fun e => hdeg (Or.inr (Or.inr (Or.inl e))), fun e => hdeg (Or.inr (Or.inr (Or.inr e))), ?_, ?_, rfl, rfl⟩
      · by_contra hc; exact hdeg (Or.inl (by omega))
      · by_contra hc; exact hdeg (Or.inr (Or.inl (by omega)))

/-- the landmarks of a rescaled image: each coordinate times the index-space factor -/
theorem rescale_landmark {h w : Nat} {sx sy : Rat} {r : Rounding} {p : Plan2}
    (hp : rescalePlan2 h w sx sy r = .ok p) (l : V2) :
    p.landmark l = ⟨scaleFactor h sx * l.x, scaleFactor w sy * l.y⟩ := by
  obtain ⟨hT, hfx, hfy, _⟩ := rescale_plan_shape hp
  unfold Plan2.landmark
  rw [hT]
  ext <;> simp [scale2, Aff2.inv, Aff2.det, Aff2.apply] <;> field_simp <;> simp

theorem scaleFactor_pos {n : Nat} {s : Rat} (hn : 2 ≤ n) (hs : 1 < s * n) : 0 < scaleFactor n s := by
  unfold scaleFactor
  have : (2 : Rat) ≤ (n : Rat) := by exact_mod_cast hn
  exact div_pos (by linarith) (by linarith)

theorem scaleFactor_mul_top {n : Nat} {s : Rat} (hn : 2 ≤ n) : scaleFactor n s * ((n : Rat) - 1) = s * n - 1 := by
  unfold scaleFactor
  have : (2 : Rat) ≤ (n : Rat) := by exact_mod_cast hn
  have : (n : Rat) - 1 ≠ 0 := by intro e; linarith
  field_simp

theorem top_ceil_toNat {x : Rat} (hx : 0 < x) : x - 1 ≤ top (x.ceil).toNat := by
  have h1 : x ≤ (x.ceil : Rat) := Rat.le_ceil
  have h2 : (0 : Int) < x.ceil := by
    have : ((0 : Int) : Rat) < (x.ceil : Rat) := by push_cast; linarith
    exact_mod_cast this
  unfold top
  have : ((x.ceil.toNat : Int)) = x.ceil := Int.toNat_of_nonneg (le_of_lt h2)
  rw [this]; push_cast; linarith

/-- **`rescale` with the default rounding (`ceil`) keeps every landmark of the image inside the result** (for scales
that leave more than one pixel per axis) -/
theorem rescale_landmarks_stay_inside {h w : Nat} {sx sy : Rat} {p : Plan2}
    (hp : rescalePlan2 h w sx sy .ceil = .ok p) (hx : 1 < sx * h) (hy : 1 < sy * w) (l : V2)
    (hl : inR h l.x ∧ inR w l.y) : inR p.h (p.landmark l).x ∧ inR p.w (p.landmark l).y := by
  obtain ⟨_, _, _, hh, hw, hph, hpw⟩ := rescale_plan_shape hp
  rw [rescale_landmark hp l, hph, hpw]
  obtain ⟨⟨x0, x1⟩, ⟨y0, y1⟩⟩ := hl
  rw [top_eq] at x1 y1
  have fx := scaleFactor_pos hh hx
  have fy := scaleFactor_pos hw hy
  refine ⟨⟨mul_nonneg (le_of_lt fx) x0, ?_⟩, ⟨mul_nonneg (le_of_lt fy) y0, ?_⟩⟩
  · have : scaleFactor h sx * l.x ≤ scaleFactor h sx * ((h : Rat) - 1) := mul_le_mul_of_nonneg_left x1 (le_of_lt fx)
    rw [scaleFactor_mul_top hh] at this
    exact le_trans this (top_ceil_toNat (by linarith))
  · have : scaleFactor w sy * l.y ≤ scaleFactor w sy * ((w : Rat) - 1) := mul_le_mul_of_nonneg_left y1 (le_of_lt fy)
    rw [scaleFactor_mul_top hw] at this
    exact le_trans this (top_ceil_toNat (by linarith))

/-- **registration of `rescale`, hypotheses discharged**: for affine content, any rounding mode and any landmark
whose cell in the result does not reach beyond the (fractional) last index `scale·len − 1` — beyond it the source
is read clamped — sampling the rescaled image at the returned landmark gives the original content at the original
landmark -/
theorem rescale_registration (im : Img2) {sx sy : Rat} {r : Rounding} {p : Plan2}
    (hp : rescalePlan2 im.h im.w sx sy r = .ok p) (hx : 1 < sx * im.h) (hy : 1 < sy * im.w)
    (m₂ : Mode) (a b c : Rat) (l : V2)
    (hcontent : ∀ i j : Int, 0 ≤ i → i ≤ (im.h : Int) - 1 → 0 ≤ j → j ≤ (im.w : Int) - 1 →
      im.px i j = a + b * (i : Rat) + c * (j : Rat))
    (hl' : inR p.h (p.landmark l).x ∧ inR p.w (p.landmark l).y)
    (hroom : ∀ i j : Int, 0 ≤ i → i ≤ (p.h : Int) - 1 → 0 ≤ j → j ≤ (p.w : Int) - 1 →
      (p.landmark l).x - 1 < (i : Rat) → (i : Rat) < (p.landmark l).x + 1 →
      (p.landmark l).y - 1 < (j : Rat) → (j : Rat) < (p.landmark l).y + 1 →
      (i : Rat) ≤ sx * im.h - 1 ∧ (j : Rat) ≤ sy * im.w - 1) :
    (p.run .linear im).sample .linear m₂ (p.landmark l) = a + b * l.x + c * l.y := by
  obtain ⟨hT, hfx, hfy, hh, hw, _, _⟩ := rescale_plan_shape hp
  obtain ⟨_, _, hord⟩ := rescale_plan_fields hp
  have fx := scaleFactor_pos hh hx
  have fy := scaleFactor_pos hw hy
  apply plan_registration_affine2 p .linear (by rw [hord]; rfl) m₂ im a b c l (rescale_plan_invertible hp) hcontent hl'
  intro i j hi0 hi1 hj0 hj1 a1 a2 a3 a4
  obtain ⟨ri, rj⟩ := hroom i j hi0 hi1 hj0 hj1 a1 a2 a3 a4
  have i0 : (0 : Rat) ≤ (i : Rat) := by exact_mod_cast hi0
  have j0 : (0 : Rat) ≤ (j : Rat) := by exact_mod_cast hj0
  rw [hT]
  simp only [Img2.inside, inR, scale2, Aff2.apply, gridPt2, top_eq]
  refine ⟨⟨?_, ?_⟩, ⟨?_, ?_⟩⟩
  · have : 0 ≤ 1 / scaleFactor im.h sx * (i : Rat) := mul_nonneg (le_of_lt (one_div_pos.mpr fx)) i0
    linarith
  · have e := scaleFactor_mul_top (s := sx) hh
    have : (i : Rat) ≤ scaleFactor im.h sx * ((im.h : Rat) - 1) := by rw [e]; exact ri
    have : 1 / scaleFactor im.h sx * (i : Rat) ≤ (im.h : Rat) - 1 := by
      rw [one_div, inv_mul_le_iff₀ fx]; exact this
    linarith
  · have : 0 ≤ 1 / scaleFactor im.w sy * (j : Rat) := mul_nonneg (le_of_lt (one_div_pos.mpr fy)) j0
    linarith
  · have e := scaleFactor_mul_top (s := sy) hw
    have : (j : Rat) ≤ scaleFactor im.w sy * ((im.w : Rat) - 1) := by rw [e]; exact rj
    have : 1 / scaleFactor im.w sy * (j : Rat) ≤ (im.w : Rat) - 1 := by
      rw [one_div, inv_mul_le_iff₀ fy]; exact this
    linarith


/-! ### PROPERTY (integer dtypes): registration up to the rounding of the stored value -/

/-- how an integer dtype stores a sampled value (contract on scipy's cast of the output array): the nearest
integer — at most half a level away — and an integer is stored as it is -/
structure IntStore (rnd : Rat → Int) : Prop where
  near : ∀ x : Rat, |((rnd x : Int) : Rat) - x| ≤ 1 / 2
  fix : ∀ z : Int, rnd (z : Rat) = z

/-- `np.round` (half to even) is such a rule -/
theorem roundHalfEven_store : IntStore roundHalfEven := by
  constructor
  · intro x
    have h1 : (x.floor : Rat) ≤ x := Rat.floor_le x
    have h2 : x - 1 < (x.floor : Rat) := Rat.lt_floor
    unfold roundHalfEven
    simp only
    split_ifs with ha hb hc
    · rw [abs_le]; constructor <;> linarith
    · push_cast; rw [abs_le]; constructor <;> linarith
    · rw [abs_le]; constructor <;> linarith
    · push_cast; rw [abs_le]; constructor <;> linarith
  · intro z
    unfold roundHalfEven
    simp only [Rat.floor_intCast, sub_self]
    norm_num

/-- the image as an integer dtype stores it -/
def storeImg (rnd : Rat → Int) (im : Img2) : Img2 := ⟨im.h, im.w, fun i j => ((rnd (im.px i j) : Int) : Rat)⟩

/-- **integer dtypes, every interpolation order**: the result of an operation on an integer image is the exact result
rounded pixel by pixel; read at a returned landmark on the grid it is within half a level of the source sampled — with
the order of the warp — at the original landmark -/
theorem int_registration_grid (rnd : Rat → Int) (hr : IntStore rnd) (p : Plan2) (hdet : p.T.det ≠ 0)
    (spl : Nat → Mode → Sampler2) (cls : ImgClass) (hcls : cls ≠ .boolean) (k : Nat) (im mk : Img2) (lms : List V2)
    (S₂ : Sampler2) (hS₂ : Interpolating S₂) (l : V2) (i j : Int)
    (hi0 : 0 ≤ i) (hi1 : i ≤ (p.h : Int) - 1) (hj0 : 0 ≤ j) (hj1 : j ≤ (p.w : Int) - 1)
    (hgrid : p.landmark l = gridPt2 i j) :
    |S₂ (storeImg rnd (p.exec spl cls k im mk lms).px) (p.landmark l) - samplerOf spl (p.effOrder k) p.mode im l| ≤ 1 / 2 := by
  have hT : p.T.apply (gridPt2 i j) = l := by rw [← hgrid]; exact Aff2.apply_inv_apply hdet l
  have hdim : (storeImg rnd (p.exec spl cls k im mk lms).px).h = p.h ∧ (storeImg rnd (p.exec spl cls k im mk lms).px).w = p.w := by
    cases cls <;> exact ⟨rfl, rfl⟩
  rw [hgrid, hS₂ _ i j hi0 (by rw [hdim.1]; exact hi1) hj0 (by rw [hdim.2]; exact hj1)]
  show |((rnd ((p.exec spl cls k im mk lms).px.px i j) : Int) : Rat) - _| ≤ 1 / 2
  rw [exec_pixel_any_order p spl cls hcls k im mk lms i j, hT]
  exact hr.near _

/-- order 0 on an integer image with an integer fill value copies integers: nothing is lost by the integer store,
registration at grid landmarks is exact -/
theorem int_registration_grid_order0 (rnd : Rat → Int) (hr : IntStore rnd) (p : Plan2) (hdet : p.T.det ≠ 0)
    (spl : Nat → Mode → Sampler2) (cls : ImgClass) (hcls : cls ≠ .boolean) (k : Nat) (hk : p.effOrder k = 0)
    (im mk : Img2) (lms : List V2) (hint : ∀ i j, ∃ z : Int, im.px i j = z)
    (hcv : ∀ cv, p.mode = .constant cv → ∃ z : Int, cv = z)
    (S₂ : Sampler2) (hS₂ : Interpolating S₂) (l : V2) (i j : Int)
    (hi0 : 0 ≤ i) (hi1 : i ≤ (p.h : Int) - 1) (hj0 : 0 ≤ j) (hj1 : j ≤ (p.w : Int) - 1)
    (hgrid : p.landmark l = gridPt2 i j) :
    S₂ (storeImg rnd (p.exec spl cls k im mk lms).px) (p.landmark l) = samplerOf spl 0 p.mode im l := by
  have hT : p.T.apply (gridPt2 i j) = l := by rw [← hgrid]; exact Aff2.apply_inv_apply hdet l
  have hdim : (storeImg rnd (p.exec spl cls k im mk lms).px).h = p.h ∧ (storeImg rnd (p.exec spl cls k im mk lms).px).w = p.w := by
    cases cls <;> exact ⟨rfl, rfl⟩
  rw [hgrid, hS₂ _ i j hi0 (by rw [hdim.1]; exact hi1) hj0 (by rw [hdim.2]; exact hj1)]
  show ((rnd ((p.exec spl cls k im mk lms).px.px i j) : Int) : Rat) = _
  rw [exec_pixel_any_order p spl cls hcls k im mk lms i j, hT, hk]
  -- the nearest-neighbour sample is a source pixel or the fill value: an integer
  have hz : ∃ z : Int, samplerOf spl 0 p.mode im l = z := by
    simp only [samplerOf, Img2.sample]
    cases hm : p.mode with
    | nearest => simp only [Img2.core, axis1]; exact hint _ _
    | constant cv =>
      simp only
      split_ifs
      · simp only [Img2.core, axis1]; exact hint _ _
      · exact hcv cv hm
  obtain ⟨z, hz⟩ := hz
  rw [hz, hr.fix z]


/-! ### non-vacuity: the hypotheses are satisfiable on concrete values and the statements compute -/

/-- a stand-in for the spline orders: any interpolating sampler will do (here: bilinear) -/
def exSpl : Nat → Mode → Sampler2 := fun _ m => Img2.sample .linear m
example : ∀ k, 2 ≤ k → Interpolating (exSpl k .nearest) := fun _ _ im _ _ a b c d => sample2_grid .linear .nearest im a b c d
-- order 3 on a MaskedImage: same landmarks / transform / mask as order 0, and the crop family also the same pixels
example : (rescalePlan2 4 9 (1/2) (1/2) .ceil).toOption.map
      (fun p => ((p.exec exSpl .masked 3 exIm exIm [⟨3, 8⟩]).lms, (p.exec exSpl .masked 0 exIm exIm [⟨3, 8⟩]).lms))
    = some ([⟨1, 7/2⟩], [⟨1, 7/2⟩]) := by decide +kernel
example : (cropPlan2 6 7 ⟨1, 2⟩ ⟨5, 6⟩ false).toOption.map (fun p => (p.effOrder 3, p.effOrder 0)) = some (0, 0) := by
  decide +kernel
example : (rescalePlan2 6 7 2 2 .ceil).toOption.map (fun p => (p.effOrder 3, p.effOrder 0)) = some (3, 0) := by
  decide +kernel
-- registration on a grid point for "order 3": T⁻¹(2, 3) = (1, 1) under the translation by (1, 2)
example : exSpl 3 .nearest (((warpPlan2 3 3 (transl2 ⟨1, 2⟩) (.constant 0)).toOption.map
      (fun p => (p.exec exSpl .image 3 exHash exHash []).px)).getD exHash) ⟨1, 1⟩ = exHash.px 2 3 := by decide +kernel

/-- a smooth non-affine transform (a parabola in the second coordinate) and a two-piece continuous piecewise
affine one (the pieces meet on the line `x = 2`) -/
def exBend : V2 → V2 := fun p => ⟨p.x + 1 + p.y * p.y / 8, p.y + 1 / 2⟩
def exPwa : V2 → V2 := fun p => if p.x ≤ 9 / 4 then ⟨p.x + 1, p.y + 1⟩ else ⟨p.x + 1 + (p.x - 9 / 4) / 4, p.y + 1⟩
-- the interpolated transform differs from the transform inside a cell (that is the non-linearity) …
example : interpT 4 4 exBend ⟨1, 3/2⟩ = ⟨37/16, 2⟩ ∧ exBend ⟨1, 3/2⟩ = ⟨73/32, 2⟩ := by decide +kernel
-- … and the value read at the returned landmark is exactly the content at the interpolated transform
example : (warpF2 .linear (.constant 0) exIm 4 4 exBend).sample .linear .nearest ⟨1, 3/2⟩ = 1 + 2 * (37/16) + 3 * 2 := by
  decide +kernel
example : (warpF2 .linear (.constant 0) exIm 4 4 exBend).sample .linear .nearest ⟨1, 3/2⟩
    = 1 + 2 * (interpT 4 4 exBend ⟨1, 3/2⟩).x + 3 * (interpT 4 4 exBend ⟨1, 3/2⟩).y := by
  apply warpF_registration_exact2
  · intro i j _ _ _ _; rfl
  · decide +kernel
  · intro i j hi0 _ hj0 _ _ hx1 _ hy1
    have a0 : (0:Rat) ≤ (i:Rat) := by exact_mod_cast hi0
    have b0 : (0:Rat) ≤ (j:Rat) := by exact_mod_cast hj0
    have a1 : (i:Rat) < 2 := by linarith
    have b1 : (j:Rat) < 5 / 2 := by linarith
    have jj : 0 ≤ (j:Rat) * (j:Rat) := mul_nonneg b0 b0
    have jj2 : (j:Rat) * (j:Rat) ≤ 25 / 4 := by nlinarith
    simp only [Img2.inside, inR, top, exBend, gridPt2, exIm]
    norm_num
    refine ⟨⟨?_, ?_⟩, ?_, ?_⟩ <;> linarith
-- across the border of two affine pieces (they meet on the line x = 9/4): the cell of l' = (5/2, 1) has the corner
-- row i = 2 in the other piece, which deviates there by 1/16 from the piece of l'; the bound of the theorem is
-- (|2| + |3|)·(1/16), the actual error |sample − content(l)| is 1/16
example : exPwa ⟨5/2, 1⟩ = ⟨57/16, 2⟩ ∧ (warpF2 .linear (.constant 0) exIm 4 4 exPwa).sample .linear .nearest ⟨5/2, 1⟩
    = 1 + 2 * (57/16) + 3 * 2 + 1 / 16 := by decide +kernel
example : |(warpF2 .linear (.constant 0) exIm 4 4 exPwa).sample .linear .nearest ⟨5/2, 1⟩ - (1 + 2 * (57/16) + 3 * 2)|
    ≤ (|(2:Rat)| + |(3:Rat)|) * (1 / 16) := by
  apply warpF_registration_lipschitz2 (.constant 0) .nearest exIm 4 4 exPwa ⟨5/4, 0, 7/16, 0, 1, 1⟩ 1 2 3 (1/16)
    ⟨57/16, 2⟩ ⟨5/2, 1⟩
  · intro i j _ _ _ _; rfl
  · decide +kernel
  · decide +kernel
  · intro i j hi0 hi1 hj0 hj1 hx0 hx1 hy0 hy1
    have hi : i = 2 ∨ i = 3 := by
      have : ((1 : Int) : Rat) < (i : Rat) := by push_cast; linarith
      have h1 : 1 < i := by exact_mod_cast this
      have : (i : Rat) < ((4 : Int) : Rat) := by push_cast; linarith
      have h2 : i < 4 := by exact_mod_cast this
      omega
    have hj : j = 1 := by
      have : ((0 : Int) : Rat) < (j : Rat) := by push_cast; linarith
      have h1 : 0 < j := by exact_mod_cast this
      have : (j : Rat) < ((2 : Int) : Rat) := by push_cast; linarith
      have h2 : j < 2 := by exact_mod_cast this
      omega
    subst hj
    rcases hi with rfl | rfl
    · refine ⟨by decide +kernel, ?_, ?_⟩ <;> rw [abs_le] <;> constructor <;> decide +kernel
    · refine ⟨by decide +kernel, ?_, ?_⟩ <;> rw [abs_le] <;> constructor <;> decide +kernel

-- rescale_to_diagonal on a 3×4 image (diagonal 5) to diagonal 10: scale 2, extents 6×8 before rounding
example : (rescaleToDiagonalPlan2 3 4 10 5 .ceil).toOption.map (fun p => (p.h, p.w, p.pre, p.order, p.T))
    = some (6, 8, ⟨6, 8⟩, some .linear, scale2 (2/5) (3/7)) := by decide +kernel
example : ∃ p, rescaleToDiagonalPlan2 3 4 10 5 .ceil = .ok p :=
  rescale_to_diagonal_defined .ceil (by decide) (by decide) (by decide +kernel) (by decide +kernel) (by decide +kernel)
    (by decide +kernel)
example : (rescaleToDiagonalPlan2 3 4 10 0 .ceil).toOption.isNone = true := by decide +kernel
-- rescale_to_pointcloud: the four points (±3, ±4) have norm 10; a target 3/2 times as large has norm 15
def exPts : List V2 := [⟨3, 4⟩, ⟨-3, -4⟩, ⟨3, -4⟩, ⟨-3, 4⟩]
example : centredSS exPts = 10 * 10 ∧
    centredSS (exPts.map fun p => (⟨3/2 * p.x + 7, 3/2 * p.y - 1⟩ : V2)) = 15 * 15 := by decide +kernel
example : (15 : Rat) / 10 = 3 / 2 ∧ rescaleToPointcloudPlan2 8 9 10 15 .round = rescalePlan2 8 9 (3/2) (3/2) .round :=
  rescale_to_pointcloud_scale 8 9 (3/2) ⟨7, -1⟩ exPts 10 15 .round (by decide) (by decide +kernel) (by decide +kernel)
    (by decide +kernel) (by decide +kernel) (by decide +kernel)
-- rescale_landmarks_to_diagonal_range: the range of {(1,1), (4,5)} is (3, 4), its diagonal 5
example : rangeOf [⟨1, 1⟩, ⟨4, 5⟩] = ⟨3, 4⟩ := by decide +kernel
example : (rescaleLandmarksToDiagonalRangePlan2 8 9 10 5 .ceil).toOption.map (fun p => (p.h, p.w))
    = some (16, 18) := by decide +kernel
-- crop_to_true_mask: the bounding box of the True pixels (rows 1..3, columns 2..4); the last row / column of the
-- box is outside the crop (crop keeps min .. max − 1)
def exMask : Img2 := ⟨5, 6, fun i j => if 1 ≤ i ∧ i ≤ 3 ∧ 2 ≤ j ∧ j ≤ 4 ∧ (i + j) % 3 ≠ 1 then 1 else 0⟩
example : (trueIndices exMask).length = 6 := by decide +kernel
example : (cropToTrueMaskPlan2 exMask 0 true).toOption.map (fun p => (p.h, p.w, p.T, p.landmark ⟨2, 3⟩))
    = some (2, 2, transl2 ⟨1, 2⟩, ⟨1, 1⟩) := by decide +kernel
example : (cropToTrueMaskPlan2 ⟨3, 3, fun _ _ => 0⟩ 0 true).toOption.isNone = true := by decide +kernel
-- constrain_landmarks_to_bounds
example : constrainLandmark 6 7 ⟨-1/2, 13/2⟩ = ⟨0, 6⟩ ∧ constrainLandmark 6 7 ⟨5/2, 3⟩ = ⟨5/2, 3⟩ := by decide +kernel

-- blur: kernel (1/4, 1/2, 1/4); a ramp is kept in the interior and changed on the border (reflect)
example : kernelSum [1/2, 1/4] = 1 := by decide +kernel
example : (blur2 [1/2, 1/4] exIm).px 2 3 = exIm.px 2 3 ∧ (blur2 [1/2, 1/4] exIm).px 0 3 = exIm.px 0 3 + 1 / 2 := by
  decide +kernel
example : (blur2 [1/2, 1/4] exHash).px 2 2 = 21 / 8 := by decide +kernel
-- one gaussian pyramid level of a 12×12 ramp: the landmark (5, 6) is registered
example : (pyramidStep2 12 12 2).toOption.map (fun p =>
      (p.landmark ⟨5, 6⟩, (p.run .linear (blur2 [1/2, 1/4] ⟨12, 12, fun i j => 1 + 2 * (i : Rat) + 3 * (j : Rat)⟩)).sample
        .linear .nearest (p.landmark ⟨5, 6⟩)))
    = some (⟨25/11, 30/11⟩, 1 + 2 * 5 + 3 * 6) := by decide +kernel
example : (gaussPyramid2 [1/2, 1/4] 2 .linear 2 (⟨12, 17, fun i _ => (i : Rat)⟩, ⟨12, 17, fun _ _ => 1⟩, [⟨3, 4⟩])).toOption.map
      (fun s => (s.1.h, s.1.w, s.2.2)) = some (3, 5, [⟨6/11, 105/128⟩]) := by decide +kernel

-- a sequence: crop, then mirror, then rescale; the composed transform maps the final landmark back to (3, 4)
def exChain : List OpF := [fun h w => cropPlan2 h w ⟨1, 2⟩ ⟨5, 7⟩ false, fun h w => mirrorPlan2 h w 1,
  fun h w => rescalePlan2 h w 2 2 .ceil]
example : (chainRun .linear exChain ⟨exIm, exIm, [⟨3, 4⟩], Aff2.one⟩).toOption.map
      (fun s => (s.im.h, s.im.w, s.lms, s.lms.map s.back.apply, s.back.det))
    = some (8, 10, [⟨14/3, 9/2⟩], [⟨3, 4⟩], -12/63) := by decide +kernel
example : ∀ p ∈ chainPlans .linear exChain ⟨exIm, exIm, [⟨3, 4⟩], Aff2.one⟩, p.T.det ≠ 0 := by decide +kernel

-- pseudoinverse closed forms
example : pinvBy .rotation (rot2 (3/5) (4/5)) = (rot2 (3/5) (4/5)).inv ∧
    pinvBy .translation (transl2 ⟨5/2, -3⟩) = (transl2 ⟨5/2, -3⟩).inv ∧
    pinvBy .nonUniformScale (scale2 (3/2) 4) = (scale2 (3/2) 4).inv ∧
    pinvBy .uniformScale (scale2 3 3) = (scale2 3 3).inv := by decide +kernel
-- … and a supplier used outside its class is wrong (the table obligation rules this out)
example : pinvBy .translation (scale2 2 2) ≠ (scale2 2 2).inv := by decide +kernel
example : MatKind.rotation.holds (rot2 (3/5) (4/5)) := by
  refine ⟨rfl, rfl, ?_⟩; decide +kernel
example : ∀ r ∈ expectedFamily, r.ok = true := by decide

-- mirror: arbitrary content, sub-pixel landmark, bilinear read-back: exact (mirror_exact_registration_linear)
example : (mirrorPlan2 5 5 1).toOption.map
      (fun p => (p.landmark ⟨3/2, 9/4⟩, (p.run .nearest exHash).sample .linear (.constant 0) (p.landmark ⟨3/2, 9/4⟩)))
    = some (⟨3/2, 7/4⟩, exHash.core .linear ⟨3/2, 9/4⟩) := by decide +kernel
-- rescale (ceil): the far corner landmark (3, 8) of a 4×9 image stays inside the 2×5 result …
example : (rescalePlan2 4 9 (1/2) (1/2) .ceil).toOption.map (fun p => (p.h, p.w, p.landmark ⟨3, 8⟩)) = some (2, 5, ⟨1, 7/2⟩) := by
  decide +kernel
-- … with `floor` it would not (3.5 > 3): the hypothesis `ceil` of rescale_landmarks_stay_inside is needed
example : (rescalePlan2 4 9 (1/2) (1/2) .floor).toOption.map (fun p => (p.h, p.w, p.landmark ⟨3, 8⟩)) = some (2, 4, ⟨1, 7/2⟩) := by
  decide +kernel
example : ∀ p, rescalePlan2 4 9 (1/2) (1/2) .ceil = .ok p → inR p.h (p.landmark ⟨3, 8⟩).x ∧ inR p.w (p.landmark ⟨3, 8⟩).y :=
  fun _ hp => rescale_landmarks_stay_inside hp (by decide +kernel) (by decide +kernel) ⟨3, 8⟩ (by decide +kernel)
-- registration of rescale at a landmark whose cell stays below scale·len − 1
example : (rescalePlan2 6 7 (3/2) (3/2) .ceil).toOption.map
      (fun p => (p.landmark ⟨2, 3⟩, (p.run .linear exIm).sample .linear .nearest (p.landmark ⟨2, 3⟩)))
    = some (⟨16/5, 19/4⟩, 1 + 2 * 2 + 3 * 3) := by decide +kernel

-- integer dtypes: `np.round` is an admissible store; an image of integers is stored unchanged
example : IntStore roundHalfEven := roundHalfEven_store
example : (storeImg roundHalfEven ⟨2, 2, fun i j => (i : Rat) / 2 + j⟩).px 1 1 = 2 ∧
    (storeImg roundHalfEven ⟨2, 2, fun i j => (i : Rat) / 2 + j⟩).px 1 0 = 0 := by decide +kernel

end MenpoModel.C01
