/-
C09 — the CachedPWA memo as two attributes written in sequence (`_iab`, then `_applied_points`): the order in
the code keeps every history pure; the opposite order is refuted (a failed application followed by an
equal-valued one returns the answer of an older input).  Core Lean only.
-/
import MenpoModel.Core.C09
import MenpoModel.Props.C09Base

namespace MenpoModel.C09

/-- invariant: a stored key always sits next to the result computed for it -/
def Memo2Ok {Val Res Err} (compute : Val → Except Err Res) (s : St2 Val Res) : Prop :=
  ∀ v, s.key = some v → ∃ res, s.iab = some res ∧ compute v = .ok res

def liftRes {Err Res} : Except Err Res → Except Err (Option Res)
  | .ok r => .ok (some r)
  | .error e => .error e

theorem step2_spec {Val Res Err} [DecidableEq Val] (compute : Val → Except Err Res)
    (s : St2 Val Res) (h : Memo2Ok compute s) (op : Op Val) :
    Memo2Ok compute (step2 false compute s op).1 ∧
    (∀ a, op = .apply a → (step2 false compute s op).2 = some (liftRes (compute (s.heap a)))) := by
  cases op with
  | write a v => exact ⟨fun v' hk => h v' (by simpa [step2] using hk), by simp⟩
  | apply a =>
    simp only [step2]
    by_cases hk : s.key = some (s.heap a)
    · obtain ⟨res, hi, hc⟩ := h _ hk
      simp only [hk, if_true]
      refine ⟨fun v' hk' => h v' hk', ?_⟩
      intro b hb; cases hb
      simp [hi, hc, liftRes]
    · simp only [hk, if_false, Bool.false_eq_true]
      cases hc : compute (s.heap a) with
      | error e =>
        refine ⟨fun v' hk' => h v' hk', ?_⟩
        intro b hb; cases hb; simp [liftRes, hc]
      | ok res =>
        refine ⟨?_, ?_⟩
        · intro v' hk'
          simp only [Option.some.injEq] at hk'
          exact ⟨res, rfl, by rw [← hk']; exact hc⟩
        · intro b hb; cases hb; simp [liftRes, hc]

/-- PROPERTY (the memo as coded now, attribute by attribute): over every finite interleaving of applies and
in-place edits — failed applications included — every `apply` returns the stateless result for the current
values of its array -/
theorem apply_pure_two_attributes {Val Res Err} [DecidableEq Val] (compute : Val → Except Err Res)
    (ops : List (Op Val)) (s : St2 Val Res) (h : Memo2Ok compute s) :
    ∀ p ∈ run2 false compute s ops, p.2 = liftRes (compute p.1) := by
  induction ops generalizing s with
  | nil => simp [run2]
  | cons op ops ih =>
    obtain ⟨hinv, hout⟩ := step2_spec compute s h op
    intro p hp
    cases op with
    | write a v =>
      simp only [run2, step2] at hp
      exact ih _ (by simpa [step2] using hinv) p hp
    | apply a =>
      have ho := hout a rfl
      simp only [run2] at hp
      rw [ho] at hp
      simp only [List.mem_cons] at hp
      rcases hp with rfl | hp
      · rfl
      · exact ih _ hinv p hp

theorem fresh_memo2Ok {Val Res Err} (compute : Val → Except Err Res) (heap : Nat → Val) :
    Memo2Ok compute ({ heap := heap, key := none, iab := none } : St2 Val Res) := by
  intro v h; simp at h

/-- storing the key before computing is refuted: apply to array 0 (fine), to array 1 (raises), to array 2 which
holds the same values as array 1 — the third call returns the answer of the first instead of raising -/
theorem apply_pure_keyfirst_refuted :
    run2 (Val := Nat) (Res := Nat) (Err := Unit) true (fun v => if v ≥ 1000 then .error () else .ok (v + 100))
      { heap := fun a => if a = 0 then 1 else 1000, key := none, iab := none } [.apply 0, .apply 1, .apply 2]
      = [(1, .ok (some 101)), (1000, .error ()), (1000, .ok (some 101))] ∧
    run2 (Val := Nat) (Res := Nat) (Err := Unit) false (fun v => if v ≥ 1000 then .error () else .ok (v + 100))
      { heap := fun a => if a = 0 then 1 else 1000, key := none, iab := none } [.apply 0, .apply 1, .apply 2]
      = [(1, .ok (some 101)), (1000, .error ()), (1000, .error ())] := by
  constructor <;> rfl

end MenpoModel.C09
