/-
C12 — GMRF precision is storage-independent, graph-sparse, symmetric PSD, exact.  Property theorems.

All statements are about the executable model `Core/C12GMRF.lean` (a transcription of
menpo/model/gmrf.py).  The per-edge inverted covariances `Bs` are a parameter of the assembly theorems
(so they cover `np.linalg.inv` and the truncated-SVD inverse alike); `inv_cov_symm_psd` and
`truncated_inverse_symm_psd` (Lemmas/C12Inv.lean) discharge the symmetry / definiteness hypotheses for
both, and `build_correct` puts everything together for the model's own constructor on exact data.
-/
import MenpoModel.Lemmas.C12Bsr
import MenpoModel.Lemmas.C12Inv

set_option linter.unusedSimpArgs false
set_option linter.unusedVariables false

namespace MenpoModel.C12
open Finset

/-! ### PROPERTY: the block-sparse-row assembly denotes the sum of the embedded blocks -/

/-- for every triplet list (any multiplicities, any order) and *every* row-sorting permutation of it
(numpy's `argsort` is not stable), the `(blocks, columns, indptr)` triple built by the `indptr` loop
denotes `Σ` of the embedded triplets -/
theorem bsr_denotes_sum_any_sort (k nrows : Nat) (ts sorted : List Trip)
    (hperm : sorted.Perm ts) (hsorted : sorted.Pairwise (fun a b => a.row ≤ b.row))
    (I J : Nat) (hI : I / k < nrows) :
    bsrEnt k (assembleSorted nrows sorted) I J = tripsEntFlat k ts I J :=
  bsr_sorted_denotes ts sorted nrows hperm hsorted _ _ _ _ hI

/-- the same for the sort the model executes -/
theorem bsr_denotes_sum (k nrows : Nat) (ts : List Trip) (I J : Nat) (hI : I / k < nrows) :
    bsrEnt k (assemble nrows ts) I J = tripsEntFlat k ts I J :=
  bsr_denotes_sum_any_sort k nrows ts (sortByRow ts) (sortByRow_perm ts) (sortByRow_sorted ts) I J hI

/-! ### PROPERTY: the dense scatter equals the same sum on simple graphs; sparse = dense -/

theorem ent_zeros (n I J : Nat) : ent (zeros n) I J = 0 := by
  unfold zeros; rw [ent_tab]; simp

/-- `+=` on diagonal blocks and `=` on off-diagonal blocks give the sum of the embedded blocks when no
edge is repeated, reversed or a self loop (the property's quantifier) -/
theorem dense_eq_sum (m : Mode) (k V : Nat) (hk : 0 < k) (es : List (Nat × Nat)) (Bs : List Mat)
    (hs : SimpleEdges V es) (I J : Nat) (hI : I < V * k) (hJ : J < V * k) :
    ent (dense m k (V * k) es Bs) I J = tripsEntFlat k (allTrips m k es Bs) I J := by
  have := dense_fold m k V hk es Bs (zeros (V * k)) [] hs
    (by intro I J _ _; rw [ent_zeros]; simp [tripsEntFlat, tripsEnt_nil])
    (by intro e _; constructor <;> intro t ht <;> simp at ht) I J hI hJ
  simpa [dense] using this

theorem sparse_eq_dense (m : Mode) (k V : Nat) (hk : 0 < k) (es : List (Nat × Nat)) (Bs : List Mat)
    (hs : SimpleEdges V es) (I J : Nat) (hI : I < V * k) (hJ : J < V * k) :
    bsrEnt k (assemble V (allTrips m k es Bs)) I J = ent (dense m k (V * k) es Bs) I J := by
  rw [dense_eq_sum m k V hk es Bs hs I J hI hJ,
    bsr_denotes_sum k V _ I J ((Nat.div_lt_iff_lt_mul hk).2 hI)]

/-- the restriction to graphs without antiparallel pairs is necessary for the code as written: on the
directed 2-cycle the dense scatter overwrites one off-diagonal block and the two storages differ -/
theorem antiparallel_pair_refutes_sparse_eq_dense :
    let B : Mat := [[2, 1], [1, 3]]
    bsrEnt 1 (assemble 2 (allTrips .concat 1 [(0, 1), (1, 0)] [B, B])) 0 1 = 2 ∧
    ent (dense .concat 1 2 [(0, 1), (1, 0)] [B, B]) 0 1 = 1 := by
  decide +kernel

/-! ### PROPERTY: edgeless graph — one inverted covariance per vertex on the block diagonal -/

theorem denseDiag_fold (k V : Nat) (hk : 0 < k) (Bs : List Mat) :
    ∀ (v0 : Nat) (P0 : Mat) (ts0 : List Trip),
      (∀ I J, I < V * k → J < V * k → ent P0 I J = tripsEntFlat k ts0 I J) →
      (∀ v, v0 ≤ v → NoBlock ts0 v v) →
      ∀ I J, I < V * k → J < V * k →
        ent (denseDiagFrom k (V * k) v0 Bs P0) I J = tripsEntFlat k (ts0 ++ diagTrips k v0 Bs) I J := by
  induction Bs with
  | nil => intro v0 P0 ts0 h0 _ I J hI hJ; simp [denseDiagFrom, diagTrips, h0 I J hI hJ]
  | cons B Bs ih =>
    intro v0 P0 ts0 h0 hno I J hI hJ
    simp only [denseDiagFrom, diagTrips]
    have : ts0 ++ ⟨v0, v0, blkOf B 0 0 k⟩ :: diagTrips k (v0 + 1) Bs =
        (ts0 ++ [⟨v0, v0, blkOf B 0 0 k⟩]) ++ diagTrips k (v0 + 1) Bs := by simp
    rw [this]
    refine ih (v0 + 1) _ _ ?_ ?_ I J hI hJ
    · intro I' J' hI' hJ'
      rw [ent_setBlock _ _ _ _ _ _ hk I' J' hI' hJ']
      unfold tripsEntFlat
      rw [tripsEnt_append, tripsEnt_cons, tripsEnt_nil]
      by_cases hb : I' / k = v0 ∧ J' / k = v0
      · rw [if_pos hb, hb.1, hb.2, tripsEnt_noBlock _ _ _ _ _ (hno v0 (Nat.le_refl _))]
        simp
      · have hb' : ¬ (v0 = I' / k ∧ v0 = J' / k) := fun h => hb ⟨h.1.symm, h.2.symm⟩
        rw [if_neg hb, if_neg hb', h0 I' J' hI' hJ']
        simp [tripsEntFlat]
    · intro v hv t ht
      rw [List.mem_append] at ht
      rcases ht with h | h
      · exact hno v (by omega) t h
      · simp at h; subst h; simp; omega

theorem diag_dense_eq_sum (k V : Nat) (hk : 0 < k) (Bs : List Mat) (I J : Nat)
    (hI : I < V * k) (hJ : J < V * k) :
    ent (denseDiag k (V * k) Bs) I J = tripsEntFlat k (diagTrips k 0 Bs) I J := by
  have := denseDiag_fold k V hk Bs 0 (zeros (V * k)) []
    (by intro I J _ _; rw [ent_zeros]; simp [tripsEntFlat, tripsEnt_nil])
    (by intro v _ t ht; simp at ht) I J hI hJ
  simpa [denseDiag] using this

theorem diag_sparse_eq_dense (k V : Nat) (hk : 0 < k) (Bs : List Mat) (I J : Nat)
    (hI : I < V * k) (hJ : J < V * k) :
    bsrEnt k (assemble V (diagTrips k 0 Bs)) I J = ent (denseDiag k (V * k) Bs) I J := by
  rw [diag_dense_eq_sum k V hk Bs I J hI hJ, bsr_denotes_sum k V _ I J ((Nat.div_lt_iff_lt_mul hk).2 hI)]

/-- off the block diagonal the edgeless precision is zero -/
theorem diag_block_diagonal (k : Nat) (Bs : List Mat) (I J : Nat) (h : I / k ≠ J / k) :
    tripsEntFlat k (diagTrips k 0 Bs) I J = 0 := by
  unfold tripsEntFlat
  apply tripsEnt_noBlock
  intro t ht hc
  have := diagTrips_pos k Bs 0 t ht
  omega

/-! ### PROPERTY: symmetric -/

theorem tripsEnt_edge_symm (m : Mode) (k : Nat) (e : Nat × Nat) (B : Mat) (hB : Symm (m.dim k) B)
    (bi bj a c : Nat) :
    tripsEnt (edgeTrips m k e B) bi bj a c = tripsEnt (edgeTrips m k e B) bj bi c a := by
  rw [tripsEnt_edge, tripsEnt_edge]
  by_cases hac : a < k ∧ c < k
  · have hca : c < k ∧ a < k := ⟨hac.2, hac.1⟩
    cases m with
    | concat =>
      simp only [Mode.dim] at hB
      simp only [ent_blkOf, hac, hca, and_self, if_true]
      rw [hB (0 + a) (0 + c) (by omega) (by omega), hB (k + a) (k + c) (by omega) (by omega),
        hB (0 + a) (k + c) (by omega) (by omega), hB (k + a) (0 + c) (by omega) (by omega)]
      simp only [and_comm, add_comm, add_left_comm]
    | sub =>
      simp only [Mode.dim] at hB
      simp only [ent_blkOf, ent_negBlk, hac, hca, and_self, if_true]
      rw [hB (0 + a) (0 + c) (by omega) (by omega), hB a c hac.1 hac.2]
      simp only [and_comm, add_comm, add_left_comm]
  · have hca : ¬ (c < k ∧ a < k) := fun h => hac ⟨h.2, h.1⟩
    cases m <;> simp [ent_blkOf, ent_negBlk, hac, hca]

/-- symmetric inverted covariances give a symmetric precision (both storages, by the theorems above) -/
theorem precision_symmetric (m : Mode) (k : Nat) (es : List (Nat × Nat)) (Bs : List Mat)
    (hB : ∀ B ∈ Bs, Symm (m.dim k) B) (I J : Nat) :
    tripsEntFlat k (allTrips m k es Bs) I J = tripsEntFlat k (allTrips m k es Bs) J I := by
  unfold tripsEntFlat
  induction es generalizing Bs with
  | nil => simp [allTrips_nil_left, tripsEnt_nil]
  | cons e es ih =>
    cases Bs with
    | nil => simp [allTrips_nil_right, tripsEnt_nil]
    | cons B Bs =>
      rw [allTrips_cons, tripsEnt_append, tripsEnt_append,
        tripsEnt_edge_symm m k e B (hB B (by simp)), ih Bs (fun B' h' => hB B' (by simp [h']))]

theorem diag_symmetric (k : Nat) (Bs : List Mat) (hB : ∀ B ∈ Bs, Symm k B) (I J : Nat) :
    tripsEntFlat k (diagTrips k 0 Bs) I J = tripsEntFlat k (diagTrips k 0 Bs) J I := by
  unfold tripsEntFlat
  generalize 0 = v0
  induction Bs generalizing v0 with
  | nil => simp [diagTrips, tripsEnt_nil]
  | cons B Bs ih =>
    simp only [diagTrips, tripsEnt_cons]
    rw [ih (fun B' h' => hB B' (by simp [h'])) (v0 + 1)]
    congr 1
    by_cases hac : I % k < k ∧ J % k < k
    · have hca : J % k < k ∧ I % k < k := ⟨hac.2, hac.1⟩
      simp only [ent_blkOf, hac, hca, and_self, if_true]
      rw [hB B (by simp) (0 + I % k) (0 + J % k) (by omega) (by omega)]
      simp only [and_comm]
    · have hca : ¬ (J % k < k ∧ I % k < k) := fun h => hac ⟨h.2, h.1⟩
      simp [ent_blkOf, hac, hca]

/-! ### PROPERTY: two vertices are coupled only if the graph joins them -/

theorem precision_graph_sparse (m : Mode) (k : Nat) (es : List (Nat × Nat)) (Bs : List Mat) (I J : Nat)
    (h : tripsEntFlat k (allTrips m k es Bs) I J ≠ 0) :
    I / k = J / k ∨ (I / k, J / k) ∈ es ∨ (J / k, I / k) ∈ es := by
  by_contra hcon
  apply h
  unfold tripsEntFlat
  apply tripsEnt_noBlock
  intro t ht hc
  obtain ⟨e, he, hpos⟩ := allTrips_pos m k es Bs t ht
  apply hcon
  have e_eq : e = (e.1, e.2) := rfl
  rcases hpos with hp | hp | hp | hp
  · left; omega
  · left; omega
  · right; left; rw [← hc.1, ← hc.2, hp.1, hp.2, ← e_eq]; exact he
  · right; right; rw [← hc.1, ← hc.2, hp.1, hp.2, ← e_eq]; exact he

/-! ### PROPERTY: quadratic-form identity, hence positive semi-definite -/

/-- `xᵀ P x = Σ_e x_eᵀ B_e x_e` with `x_e = [x_u; x_v]` (concatenation) resp. `x_u − x_v` (subtraction) -/
theorem precision_quadratic_form (m : Mode) (k V : Nat) (hk : 0 < k) (es : List (Nat × Nat)) (Bs : List Mat)
    (hv : ∀ e ∈ es, e.1 < V ∧ e.2 < V) (x : Nat → Rat) :
    qf (V * k) (tripsEntFlat k (allTrips m k es Bs)) x = (edgeForms m k es Bs x).sum :=
  qf_allTrips m k V hk es Bs hv x

theorem edgeForms_nonneg (m : Mode) (k : Nat) (es : List (Nat × Nat)) (Bs : List Mat)
    (hB : ∀ B ∈ Bs, PSD (m.dim k) B) (x : Nat → Rat) : 0 ≤ (edgeForms m k es Bs x).sum := by
  unfold edgeForms
  induction es generalizing Bs with
  | nil => simp
  | cons e es ih =>
    cases Bs with
    | nil => simp
    | cons B Bs =>
      simp only [List.zipWith_cons_cons, List.sum_cons]
      exact add_nonneg (hB B (by simp) _) (ih Bs (fun B' h' => hB B' (by simp [h'])))

theorem precision_psd (m : Mode) (k V : Nat) (hk : 0 < k) (es : List (Nat × Nat)) (Bs : List Mat)
    (hv : ∀ e ∈ es, e.1 < V ∧ e.2 < V) (hB : ∀ B ∈ Bs, PSD (m.dim k) B) (x : Nat → Rat) :
    0 ≤ qf (V * k) (tripsEntFlat k (allTrips m k es Bs)) x := by
  rw [precision_quadratic_form m k V hk es Bs hv x]
  exact edgeForms_nonneg m k es Bs hB x

/-- edgeless graph: `xᵀ P x = Σ_v x_vᵀ B_v x_v` -/
theorem diag_quadratic_form (k V : Nat) (hk : 0 < k) (Bs : List Mat) (hV : Bs.length = V) (x : Nat → Rat) :
    qf (V * k) (tripsEntFlat k (diagTrips k 0 Bs)) x = (vertexForms k 0 Bs x).sum :=
  qf_diagTrips k V hk Bs hV x

theorem diag_psd (k V : Nat) (hk : 0 < k) (Bs : List Mat) (hV : Bs.length = V)
    (hB : ∀ B ∈ Bs, PSD k B) (x : Nat → Rat) :
    0 ≤ qf (V * k) (tripsEntFlat k (diagTrips k 0 Bs)) x := by
  rw [diag_quadratic_form k V hk Bs hV x]
  clear hV
  generalize 0 = v0
  induction Bs generalizing v0 with
  | nil => simp [vertexForms]
  | cons B Bs ih =>
    simp only [vertexForms, List.sum_cons]
    exact add_nonneg (hB B (by simp) _) (ih (fun B' h' => hB B' (by simp [h'])) (v0 + 1))

/-! ### PROPERTY: Mahalanobis distance -/

theorem qf_congr (n : Nat) (P Q : Nat → Nat → Rat) (x y : Nat → Rat)
    (hP : ∀ I J, I < n → J < n → P I J = Q I J) (hx : ∀ I, I < n → x I = y I) :
    qf n P x = qf n Q y := by
  rw [qf_eq, qf_eq]
  apply Finset.sum_congr rfl; intro I hI
  apply Finset.sum_congr rfl; intro J hJ
  rw [hP I J (Finset.mem_range.1 hI) (Finset.mem_range.1 hJ), hx I (Finset.mem_range.1 hI),
    hx J (Finset.mem_range.1 hJ)]

theorem getD_map_range (m : Nat) (f : Nat → Rat) (i : Nat) (hi : i < m) :
    ((List.range m).map f).getD i 0 = f i := by
  simp [List.getD_eq_getElem?_getD, hi]

/-- sparse branch `diag(S·(P·Sᵀ))`: entry `i` is the quadratic form of row `i` -/
theorem mahalSparse_eq_qf (n : Nat) (P : Nat → Nat → Rat) (S : Mat) (i : Nat) (hi : i < S.length) :
    (mahalSparse n P S).getD i 0 = qf n P (fun I => ent S i I) := by
  unfold mahalSparse
  simp only
  rw [getD_map_range _ _ i hi, ent_tab, if_pos ⟨hi, hi⟩, qf_eq, sumTo_eq]
  apply Finset.sum_congr rfl; intro I hI
  rw [ent_tab, if_pos ⟨Finset.mem_range.1 hI, hi⟩, sumTo_eq, Finset.mul_sum]
  apply Finset.sum_congr rfl; intro J _
  ring

/-- dense branch `einsum('ij,ij->i', S·P, S)`: entry `i` is the same quadratic form -/
theorem mahalDense_eq_qf (n : Nat) (P : Nat → Nat → Rat) (S : Mat) (i : Nat) (hi : i < S.length) :
    (mahalDense n P S).getD i 0 = qf n P (fun I => ent S i I) := by
  unfold mahalDense
  simp only
  rw [getD_map_range _ _ i hi, qf_eq, sumTo_eq]
  have : ∀ J ∈ range n, ent (tab S.length n fun i J => sumTo n fun I => ent S i I * P I J) i J * ent S i J =
      ∑ I ∈ range n, ent S i I * P I J * ent S i J := by
    intro J hJ
    rw [ent_tab, if_pos ⟨hi, Finset.mem_range.1 hJ⟩, sumTo_eq, Finset.sum_mul]
  rw [Finset.sum_congr rfl this]
  exact Finset.sum_comm

/-- identical for sparse and dense storage (whenever the two storages hold the same entries) -/
theorem mahalanobis_sparse_eq_dense (n : Nat) (P Q : Nat → Nat → Rat) (S : Mat)
    (hPQ : ∀ I J, I < n → J < n → P I J = Q I J) (i : Nat) (hi : i < S.length) :
    (mahalSparse n P S).getD i 0 = (mahalDense n Q S).getD i 0 := by
  rw [mahalSparse_eq_qf n P S i hi, mahalDense_eq_qf n Q S i hi]
  exact qf_congr n P Q _ _ hPQ (fun _ _ => rfl)

/-- identical for a batched query and the single query of the same row -/
theorem mahalanobis_batch_eq_single (n : Nat) (P : Nat → Nat → Rat) (S : Mat) (i : Nat) (hi : i < S.length) :
    (mahalSparse n P S).getD i 0 = (mahalSparse n P [S.getD i []]).getD 0 0 ∧
    (mahalDense n P S).getD i 0 = (mahalDense n P [S.getD i []]).getD 0 0 := by
  rw [mahalSparse_eq_qf n P S i hi, mahalDense_eq_qf n P S i hi,
    mahalSparse_eq_qf n P [S.getD i []] 0 (by simp), mahalDense_eq_qf n P [S.getD i []] 0 (by simp)]
  constructor <;> (apply qf_congr n P P _ _ (fun _ _ _ _ => rfl); intro I _; simp [ent])

theorem subMean_length (S : Mat) (mu : List Rat) (n : Nat) : (subMean S mu n).length = S.length := by
  simp [subMean]

/-- non-negative for every positive semi-definite precision -/
theorem mahalanobis_nonneg (n : Nat) (P : Nat → Nat → Rat) (hP : ∀ x, 0 ≤ qf n P x) (S : Mat) (mu : List Rat)
    (i : Nat) (hi : i < S.length) :
    0 ≤ (mahalSparse n P (subMean S mu n)).getD i 0 ∧ 0 ≤ (mahalDense n P (subMean S mu n)).getD i 0 := by
  rw [mahalSparse_eq_qf n P _ i (by rw [subMean_length]; exact hi),
    mahalDense_eq_qf n P _ i (by rw [subMean_length]; exact hi)]
  exact ⟨hP _, hP _⟩

theorem ent_subMean (S : Mat) (mu : List Rat) (n i I : Nat) (hi : i < S.length) (hI : I < n) :
    ent (subMean S mu n) i I = ent S i I - mu.getD I 0 := by
  unfold subMean ent
  simp [List.getD_eq_getElem?_getD, hi, hI]

/-- zero at the mean -/
theorem mahalanobis_zero_at_mean (n : Nat) (P : Nat → Nat → Rat) (mu : List Rat) :
    (mahalSparse n P (subMean [mu] mu n)).getD 0 0 = 0 ∧ (mahalDense n P (subMean [mu] mu n)).getD 0 0 = 0 := by
  rw [mahalSparse_eq_qf n P _ 0 (by simp [subMean]), mahalDense_eq_qf n P _ 0 (by simp [subMean])]
  have : qf n P (fun I => ent (subMean [mu] mu n) 0 I) = qf n P (fun _ => 0) := by
    apply qf_congr n P P _ _ (fun _ _ _ _ => rfl)
    intro I hI
    rw [ent_subMean [mu] mu n 0 I (by simp) hI]
    simp [ent]
  rw [this]
  simp [qf_eq]

/-! ### PROPERTY: the model mean is the sample mean -/

theorem gmrf_mean (X : Mat) (N n : Nat) (hN : 0 < N) (j : Nat) (hj : j < n) :
    (meanVec X N n).getD j 0 * (N : Rat) = ∑ i ∈ range N, ent X i j ∧
    ∑ i ∈ range N, (ent X i j - (meanVec X N n).getD j 0) = 0 := by
  have hN' : (N : Rat) ≠ 0 := by exact_mod_cast (Nat.pos_iff_ne_zero.1 hN)
  unfold meanVec
  rw [getD_map_range _ _ j hj, sumTo_eq]
  constructor
  · field_simp
  · rw [Finset.sum_sub_distrib, Finset.sum_const, Finset.card_range, nsmul_eq_mul]
    field_simp
    ring

/-! ### the whole constructor on exact data -/

theorem mapM?_spec {α β : Type} (f : α → Option β) (Q : β → Prop) (hf : ∀ a b, f a = some b → Q b) :
    ∀ (l : List α) (bs : List β), mapM? f l = some bs → (∀ b ∈ bs, Q b) ∧ bs.length = l.length := by
  intro l
  induction l with
  | nil => intro bs h; simp [mapM?] at h; subst h; simp
  | cons a as ih =>
    intro bs h
    unfold mapM? at h
    split at h
    · rename_i b bs' h1 h2
      injection h with h; subst h
      obtain ⟨i1, i2⟩ := ih bs' h2
      refine ⟨?_, by simp [i2]⟩
      intro b' hb'
      simp at hb'
      rcases hb' with h | h
      · subst h; exact hf a _ h1
      · exact i1 b' h
    · exact absurd h (by simp)

/-- **`GMRFVectorModel.__init__` on exact data (`n_components=None`)**: whenever every covariance is
invertible, on every simple graph (or the edgeless one), both edge modes and both bias conventions, the
two storages hold the same symmetric, positive semi-definite, graph-sparse matrix -/
theorem build_correct (m : Mode) (k V : Nat) (X : Mat) (N : Nat) (bias : Bool) (es : List (Nat × Nat))
    (M : Model) (hk : 0 < k) (hs : SimpleEdges V es) (hN : EnoughSamples N bias)
    (hb : build m k V X N bias es = some M) :
    (∀ I J, I < V * k → J < V * k → bsrEnt k M.sparseP I J = ent M.denseP I J) ∧
    (∀ I J, I < V * k → J < V * k → ent M.denseP I J = ent M.denseP J I) ∧
    (∀ x, 0 ≤ qf (V * k) (ent M.denseP) x) ∧
    (∀ I J, I < V * k → J < V * k → ent M.denseP I J ≠ 0 →
      I / k = J / k ∨ (I / k, J / k) ∈ es ∨ (J / k, I / k) ∈ es) := by
  unfold build at hb
  simp only at hb
  split at hb
  · -- edgeless
    split at hb
    · exact absurd hb (by simp)
    · rename_i Bs hBs
      injection hb with hb; subst hb
      simp only
      obtain ⟨hq, hlen⟩ := mapM?_spec _ (fun B => Symm k B ∧ PSD k B)
        (fun v B h => inv_cov_symm_psd _ N k bias hN B h) _ Bs hBs
      simp only [List.length_range] at hlen
      refine ⟨fun I J hI hJ => diag_sparse_eq_dense k V hk Bs I J hI hJ, ?_, ?_, ?_⟩
      · intro I J hI hJ
        rw [diag_dense_eq_sum k V hk Bs I J hI hJ, diag_dense_eq_sum k V hk Bs J I hJ hI]
        exact diag_symmetric k Bs (fun B hB => (hq B hB).1) I J
      · intro x
        rw [qf_congr (V * k) _ (tripsEntFlat k (diagTrips k 0 Bs)) x x
          (fun I J hI hJ => diag_dense_eq_sum k V hk Bs I J hI hJ) (fun _ _ => rfl)]
        exact diag_psd k V hk Bs hlen (fun B hB => (hq B hB).2) x
      · intro I J hI hJ hne
        left
        by_contra hcon
        exact hne (by rw [diag_dense_eq_sum k V hk Bs I J hI hJ]; exact diag_block_diagonal k Bs I J hcon)
  · split at hb
    · exact absurd hb (by simp)
    · rename_i Bs hBs
      injection hb with hb; subst hb
      simp only
      obtain ⟨hq, _⟩ := mapM?_spec _ (fun B => Symm (m.dim k) B ∧ PSD (m.dim k) B)
        (fun e B h => inv_cov_symm_psd _ N (m.dim k) bias hN B h) _ Bs hBs
      refine ⟨fun I J hI hJ => sparse_eq_dense m k V hk es Bs hs I J hI hJ, ?_, ?_, ?_⟩
      · intro I J hI hJ
        rw [dense_eq_sum m k V hk es Bs hs I J hI hJ, dense_eq_sum m k V hk es Bs hs J I hJ hI]
        exact precision_symmetric m k es Bs (fun B hB => (hq B hB).1) I J
      · intro x
        rw [qf_congr (V * k) _ (tripsEntFlat k (allTrips m k es Bs)) x x
          (fun I J hI hJ => dense_eq_sum m k V hk es Bs hs I J hI hJ) (fun _ _ => rfl)]
        exact precision_psd m k V hk es Bs (fun e he => ⟨(hs.1 e he).1, (hs.1 e he).2.1⟩)
          (fun B hB => (hq B hB).2) x
      · intro I J hI hJ hne
        rw [dense_eq_sum m k V hk es Bs hs I J hI hJ] at hne
        exact precision_graph_sparse m k es Bs I J hne

/-! ### non-vacuity: the hypotheses are satisfiable on concrete non-trivial values -/

/-- 7 samples, 3 vertices with 1 feature each -/
def exX : Mat := [[1, 2, 0], [0, 1, 3], [2, 2, 1], [1, 0, 1], [3, 1, 2], [0, 0, 1], [2, 5, 1]]

example : SimpleEdges 3 [(0, 1), (1, 2)] := by
  refine ⟨by decide, by decide⟩

example : EnoughSamples 7 false := by simp [EnoughSamples]

/-- the constructor succeeds on this data (so `build_correct` applies to a real model), for a path
graph with an isolated-vertex-free layout, and the precision couples 0–1 and 1–2 but not 0–2 -/
example : (build .concat 1 3 exX 7 false [(0, 1), (1, 2)]).map (fun M =>
      (decide (ent M.denseP 0 1 ≠ 0), decide (ent M.denseP 0 2 = 0),
       decide (bsrEnt 1 M.sparseP 1 2 = ent M.denseP 1 2))) = some (true, true, true) := by
  decide +kernel

/-- edgeless and subtraction variants build as well -/
example : (build .sub 1 3 exX 7 true [(0, 1), (2, 1)]).isSome = true ∧
    (build .concat 1 3 exX 7 false []).isSome = true := by decide +kernel

/-- a triplet list with duplicates and an empty first and last row: the `indptr` loop handles them -/
example : (assemble 4 [⟨2, 1, [[5]]⟩, ⟨1, 1, [[2]]⟩, ⟨2, 1, [[7]]⟩, ⟨1, 2, [[3]]⟩]).indptr = [0, 0, 2, 4, 4] ∧
    bsrEnt 1 (assemble 4 [⟨2, 1, [[5]]⟩, ⟨1, 1, [[2]]⟩, ⟨2, 1, [[7]]⟩, ⟨1, 2, [[3]]⟩]) 2 1 = 12 := by
  decide +kernel

/-- a symmetric PSD block exists (hypotheses of `precision_symmetric` / `precision_psd`) -/
example : Symm 2 [[2, 1], [1, 3]] ∧ PSD 2 (gram 2 2 (fun _ => 1) (fun r p => if r = p then 1 else 0)) := by
  constructor
  · intro i j hi hj
    have hi' : i = 0 ∨ i = 1 := by omega
    have hj' : j = 0 ∨ j = 1 := by omega
    rcases hi' with h | h <;> rcases hj' with h' | h' <;> subst h <;> subst h' <;> rfl
  · exact gram_psd _ _ _ _ (fun _ _ => by norm_num)

/-! ### known defect of the coded constructor (before `C12-scalar-feature-covariance`) -/

/-- refutation by witness: with one feature per vertex the coded constructor raises in subtraction
mode and on an edgeless graph (the property demands a model for any number of features per vertex),
while the repaired constructor builds the model -/
theorem build_coded_refuted_scalar_feature :
    isZeroDim (buildCoded .sub 1 3 exX 7 false [(0, 1), (1, 2)]) = true ∧
    isZeroDim (buildCoded .concat 1 3 exX 7 false []) = true ∧
    (build .sub 1 3 exX 7 false [(0, 1), (1, 2)]).isSome = true ∧
    (build .concat 1 3 exX 7 false []).isSome = true := by
  decide +kernel

/-- away from the single-feature case the coded and the repaired constructor coincide, so all theorems
above are theorems about the coded constructor there -/
theorem buildCoded_eq_fixed (m : Mode) (k V : Nat) (X : Mat) (N : Nat) (bias : Bool) (es : List (Nat × Nat))
    (h : covDim m k es ≠ 1) : buildCoded m k V X N bias es = buildFixed m k V X N bias es := by
  unfold buildCoded buildFixed
  rw [if_neg h]

theorem buildFixed_ok_iff (m : Mode) (k V : Nat) (X : Mat) (N : Nat) (bias : Bool) (es : List (Nat × Nat))
    (M : Model) : buildFixed m k V X N bias es = .ok M ↔ build m k V X N bias es = some M := by
  unfold buildFixed
  split
  · rename_i M' h; rw [h]; constructor <;> intro h' <;> injection h' with h' <;> rw [h']
  · rename_i h; rw [h]; constructor <;> intro h' <;> exact absurd h' (by simp)

end MenpoModel.C12
