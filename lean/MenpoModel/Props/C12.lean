/-
C12 — GMRF precision is storage-independent, graph-sparse, symmetric PSD, exact.  Property theorems.

All statements are about the executable model `Core/C12GMRF.lean` (a transcription of
menpo/model/gmrf.py).  The per-edge inverted covariances `Bs` are a parameter of the assembly theorems
(so they cover `np.linalg.inv` and the truncated-SVD inverse alike); `inv_cov_symm_psd` and
`truncated_inverse_symm_psd` (Lemmas/C12Inv.lean) discharge the symmetry / definiteness hypotheses for
both, and `build_correct` puts everything together for the model's own constructor on exact data.

Extensions (second round): `dense_general` (what the dense scatter computes on every digraph without self
loops), rank truncation (`truncChecked_spec`, `buildTrunc_correct`, `truncated_precision_le`; the coded
truncated-SVD formula equals the truncated pseudo-inverse: `svdTrunc_eq_specTrunc` in Lemmas/C12Trunc.lean),
the object level (`gmrfModel_eq_vectorModel`, `gmrfModel_mean`, `gmrfModel_query_batch_eq_single`),
`precision_pca`, the float32 storage bounds, and (third round, namespace `Src`) the property for the routines
TRANSLATED from the source text on every run: `coded_precision_correct`, `coded_diag_precision_correct`,
`coded_constructor_correct`, `coded_mahalanobis_correct`, `coded_objInit` (with `Lemmas/C12Src*.lean`).
-/
import MenpoModel.Lemmas.C12Bsr
import MenpoModel.Lemmas.C12Inv
import MenpoModel.Lemmas.C12DenseGen
import MenpoModel.Lemmas.C12Trunc
import MenpoModel.Lemmas.C12SrcQuery
import MenpoModel.Lemmas.C12SrcSort

set_option linter.unusedSimpArgs false
set_option linter.unusedVariables false

namespace MenpoModel.C12
open Finset

/-! ### PROPERTY: the block-sparse-row assembly denotes the sum of the embedded blocks -/

/-- for every triplet list (any multiplicities, any order) and *every* row-sorting permutation of it
(numpy's `argsort` is not stable), the `(blocks, columns, indptr)` triple built by the `indptr` loop
denotes `Σ` of the embedded triplets -/
theorem bsr_denotes_sum_any_sort (k nrows : Nat) (ts sorted : List Trip)
    (hperm : sorted.Perm ts) (hsorted : sorted.Pairwise (fun a b => a.row ≤ b.row))
    (I J : Nat) (hI : I / k < nrows) :
    bsrEnt k (assembleSorted nrows sorted) I J = tripsEntFlat k ts I J :=
  bsr_sorted_denotes ts sorted nrows hperm hsorted _ _ _ _ hI

/-- the same for the sort the model executes -/
theorem bsr_denotes_sum (k nrows : Nat) (ts : List Trip) (I J : Nat) (hI : I / k < nrows) :
    bsrEnt k (assemble nrows ts) I J = tripsEntFlat k ts I J :=
  bsr_denotes_sum_any_sort k nrows ts (sortByRow ts) (sortByRow_perm ts) (sortByRow_sorted ts) I J hI

/-! ### PROPERTY: the dense scatter equals the same sum on simple graphs; sparse = dense -/

theorem ent_zeros (n I J : Nat) : ent (zeros n) I J = 0 := by
  unfold zeros; rw [ent_tab]; simp

/-- `+=` on diagonal blocks and `=` on off-diagonal blocks give the sum of the embedded blocks when no
edge is repeated, reversed or a self loop (the property's quantifier) -/
theorem dense_eq_sum (m : Mode) (k V : Nat) (hk : 0 < k) (es : List (Nat × Nat)) (Bs : List Mat)
    (hs : SimpleEdges V es) (I J : Nat) (hI : I < V * k) (hJ : J < V * k) :
    ent (dense m k (V * k) es Bs) I J = tripsEntFlat k (allTrips m k es Bs) I J := by
  have := dense_fold m k V hk es Bs (zeros (V * k)) [] hs
    (by intro I J _ _; rw [ent_zeros]; simp [tripsEntFlat, tripsEnt_nil])
    (by intro e _; constructor <;> intro t ht <;> simp at ht) I J hI hJ
  simpa [dense] using this

theorem sparse_eq_dense (m : Mode) (k V : Nat) (hk : 0 < k) (es : List (Nat × Nat)) (Bs : List Mat)
    (hs : SimpleEdges V es) (I J : Nat) (hI : I < V * k) (hJ : J < V * k) :
    bsrEnt k (assemble V (allTrips m k es Bs)) I J = ent (dense m k (V * k) es Bs) I J := by
  rw [dense_eq_sum m k V hk es Bs hs I J hI hJ,
    bsr_denotes_sum k V _ I J ((Nat.div_lt_iff_lt_mul hk).2 hI)]

/-- the restriction to graphs without antiparallel pairs is necessary for the code as written: on the
directed 2-cycle the dense scatter overwrites one off-diagonal block and the two storages differ -/
theorem antiparallel_pair_refutes_sparse_eq_dense :
    let B : Mat := [[2, 1], [1, 3]]
    bsrEnt 1 (assemble 2 (allTrips .concat 1 [(0, 1), (1, 0)] [B, B])) 0 1 = 2 ∧
    ent (dense .concat 1 2 [(0, 1), (1, 0)] [B, B]) 0 1 = 1 := by
  decide +kernel

/-! ### PROPERTY: edgeless graph — one inverted covariance per vertex on the block diagonal -/

theorem denseDiag_fold (k V : Nat) (hk : 0 < k) (Bs : List Mat) :
    ∀ (v0 : Nat) (P0 : Mat) (ts0 : List Trip),
      (∀ I J, I < V * k → J < V * k → ent P0 I J = tripsEntFlat k ts0 I J) →
      (∀ v, v0 ≤ v → NoBlock ts0 v v) →
      ∀ I J, I < V * k → J < V * k →
        ent (denseDiagFrom k (V * k) v0 Bs P0) I J = tripsEntFlat k (ts0 ++ diagTrips k v0 Bs) I J := by
  induction Bs with
  | nil => intro v0 P0 ts0 h0 _ I J hI hJ; simp [denseDiagFrom, diagTrips, h0 I J hI hJ]
  | cons B Bs ih =>
    intro v0 P0 ts0 h0 hno I J hI hJ
    simp only [denseDiagFrom, diagTrips]
    have : ts0 ++ ⟨v0, v0, blkOf B 0 0 k⟩ :: diagTrips k (v0 + 1) Bs =
        (ts0 ++ [⟨v0, v0, blkOf B 0 0 k⟩]) ++ diagTrips k (v0 + 1) Bs := by simp
    rw [this]
    refine ih (v0 + 1) _ _ ?_ ?_ I J hI hJ
    · intro I' J' hI' hJ'
      rw [ent_setBlock _ _ _ _ _ _ hk I' J' hI' hJ']
      unfold tripsEntFlat
      rw [tripsEnt_append, tripsEnt_cons, tripsEnt_nil]
      by_cases hb : I' / k = v0 ∧ J' / k = v0
      · rw [if_pos hb, hb.1, hb.2, tripsEnt_noBlock _ _ _ _ _ (hno v0 (Nat.le_refl _))]
        simp
      · have hb' : ¬ (v0 = I' / k ∧ v0 = J' / k) := fun h => hb ⟨h.1.symm, h.2.symm⟩
        rw [if_neg hb, if_neg hb', h0 I' J' hI' hJ']
        simp [tripsEntFlat]
    · intro v hv t ht
      rw [List.mem_append] at ht
      rcases ht with h | h
      · exact hno v (by omega) t h
      · simp at h; subst h; simp; omega

theorem diag_dense_eq_sum (k V : Nat) (hk : 0 < k) (Bs : List Mat) (I J : Nat)
    (hI : I < V * k) (hJ : J < V * k) :
    ent (denseDiag k (V * k) Bs) I J = tripsEntFlat k (diagTrips k 0 Bs) I J := by
  have := denseDiag_fold k V hk Bs 0 (zeros (V * k)) []
    (by intro I J _ _; rw [ent_zeros]; simp [tripsEntFlat, tripsEnt_nil])
    (by intro v _ t ht; simp at ht) I J hI hJ
  simpa [denseDiag] using this

theorem diag_sparse_eq_dense (k V : Nat) (hk : 0 < k) (Bs : List Mat) (I J : Nat)
    (hI : I < V * k) (hJ : J < V * k) :
    bsrEnt k (assemble V (diagTrips k 0 Bs)) I J = ent (denseDiag k (V * k) Bs) I J := by
  rw [diag_dense_eq_sum k V hk Bs I J hI hJ, bsr_denotes_sum k V _ I J ((Nat.div_lt_iff_lt_mul hk).2 hI)]

/-- off the block diagonal the edgeless precision is zero -/
theorem diag_block_diagonal (k : Nat) (Bs : List Mat) (I J : Nat) (h : I / k ≠ J / k) :
    tripsEntFlat k (diagTrips k 0 Bs) I J = 0 := by
  unfold tripsEntFlat
  apply tripsEnt_noBlock
  intro t ht hc
  have := diagTrips_pos k Bs 0 t ht
  omega

/-! ### PROPERTY: symmetric -/

theorem tripsEnt_edge_symm (m : Mode) (k : Nat) (e : Nat × Nat) (B : Mat) (hB : Symm (m.dim k) B)
    (bi bj a c : Nat) :
    tripsEnt (edgeTrips m k e B) bi bj a c = tripsEnt (edgeTrips m k e B) bj bi c a := by
  rw [tripsEnt_edge, tripsEnt_edge]
  by_cases hac : a < k ∧ c < k
  · have hca : c < k ∧ a < k := ⟨hac.2, hac.1⟩
    cases m with
    | concat =>
      simp only [Mode.dim] at hB
      simp only [ent_blkOf, hac, hca, and_self, if_true]
      rw [hB (0 + a) (0 + c) (by omega) (by omega), hB (k + a) (k + c) (by omega) (by omega),
        hB (0 + a) (k + c) (by omega) (by omega), hB (k + a) (0 + c) (by omega) (by omega)]
      simp only [and_comm, add_comm, add_left_comm]
    | sub =>
      simp only [Mode.dim] at hB
      simp only [ent_blkOf, ent_negBlk, hac, hca, and_self, if_true]
      rw [hB (0 + a) (0 + c) (by omega) (by omega), hB a c hac.1 hac.2]
      simp only [and_comm, add_comm, add_left_comm]
  · have hca : ¬ (c < k ∧ a < k) := fun h => hac ⟨h.2, h.1⟩
    cases m <;> simp [ent_blkOf, ent_negBlk, hac, hca]

/-- symmetric inverted covariances give a symmetric precision (both storages, by the theorems above) -/
theorem precision_symmetric (m : Mode) (k : Nat) (es : List (Nat × Nat)) (Bs : List Mat)
    (hB : ∀ B ∈ Bs, Symm (m.dim k) B) (I J : Nat) :
    tripsEntFlat k (allTrips m k es Bs) I J = tripsEntFlat k (allTrips m k es Bs) J I := by
  unfold tripsEntFlat
  induction es generalizing Bs with
  | nil => simp [allTrips_nil_left, tripsEnt_nil]
  | cons e es ih =>
    cases Bs with
    | nil => simp [allTrips_nil_right, tripsEnt_nil]
    | cons B Bs =>
      rw [allTrips_cons, tripsEnt_append, tripsEnt_append,
        tripsEnt_edge_symm m k e B (hB B (by simp)), ih Bs (fun B' h' => hB B' (by simp [h']))]

theorem diag_symmetric (k : Nat) (Bs : List Mat) (hB : ∀ B ∈ Bs, Symm k B) (I J : Nat) :
    tripsEntFlat k (diagTrips k 0 Bs) I J = tripsEntFlat k (diagTrips k 0 Bs) J I := by
  unfold tripsEntFlat
  generalize 0 = v0
  induction Bs generalizing v0 with
  | nil => simp [diagTrips, tripsEnt_nil]
  | cons B Bs ih =>
    simp only [diagTrips, tripsEnt_cons]
    rw [ih (fun B' h' => hB B' (by simp [h'])) (v0 + 1)]
    congr 1
    by_cases hac : I % k < k ∧ J % k < k
    · have hca : J % k < k ∧ I % k < k := ⟨hac.2, hac.1⟩
      simp only [ent_blkOf, hac, hca, and_self, if_true]
      rw [hB B (by simp) (0 + I % k) (0 + J % k) (by omega) (by omega)]
      simp only [and_comm]
    · have hca : ¬ (J % k < k ∧ I % k < k) := fun h => hac ⟨h.2, h.1⟩
      simp [ent_blkOf, hac, hca]

/-! ### PROPERTY: two vertices are coupled only if the graph joins them -/

theorem precision_graph_sparse (m : Mode) (k : Nat) (es : List (Nat × Nat)) (Bs : List Mat) (I J : Nat)
    (h : tripsEntFlat k (allTrips m k es Bs) I J ≠ 0) :
    I / k = J / k ∨ (I / k, J / k) ∈ es ∨ (J / k, I / k) ∈ es := by
  by_contra hcon
  apply h
  unfold tripsEntFlat
  apply tripsEnt_noBlock
  intro t ht hc
  obtain ⟨e, he, hpos⟩ := allTrips_pos m k es Bs t ht
  apply hcon
  have e_eq : e = (e.1, e.2) := rfl
  rcases hpos with hp | hp | hp | hp
  · left; omega
  · left; omega
  · right; left; rw [← hc.1, ← hc.2, hp.1, hp.2, ← e_eq]; exact he
  · right; right; rw [← hc.1, ← hc.2, hp.1, hp.2, ← e_eq]; exact he

/-! ### PROPERTY: quadratic-form identity, hence positive semi-definite -/

/-- `xᵀ P x = Σ_e x_eᵀ B_e x_e` with `x_e = [x_u; x_v]` (concatenation) resp. `x_u − x_v` (subtraction) -/
theorem precision_quadratic_form (m : Mode) (k V : Nat) (hk : 0 < k) (es : List (Nat × Nat)) (Bs : List Mat)
    (hv : ∀ e ∈ es, e.1 < V ∧ e.2 < V) (x : Nat → Rat) :
    qf (V * k) (tripsEntFlat k (allTrips m k es Bs)) x = (edgeForms m k es Bs x).sum :=
  qf_allTrips m k V hk es Bs hv x

theorem edgeForms_nonneg (m : Mode) (k : Nat) (es : List (Nat × Nat)) (Bs : List Mat)
    (hB : ∀ B ∈ Bs, PSD (m.dim k) B) (x : Nat → Rat) : 0 ≤ (edgeForms m k es Bs x).sum := by
  unfold edgeForms
  induction es generalizing Bs with
  | nil => simp
  | cons e es ih =>
    cases Bs with
    | nil => simp
    | cons B Bs =>
      simp only [List.zipWith_cons_cons, List.sum_cons]
      exact add_nonneg (hB B (by simp) _) (ih Bs (fun B' h' => hB B' (by simp [h'])))

theorem precision_psd (m : Mode) (k V : Nat) (hk : 0 < k) (es : List (Nat × Nat)) (Bs : List Mat)
    (hv : ∀ e ∈ es, e.1 < V ∧ e.2 < V) (hB : ∀ B ∈ Bs, PSD (m.dim k) B) (x : Nat → Rat) :
    0 ≤ qf (V * k) (tripsEntFlat k (allTrips m k es Bs)) x := by
  rw [precision_quadratic_form m k V hk es Bs hv x]
  exact edgeForms_nonneg m k es Bs hB x

/-- edgeless graph: `xᵀ P x = Σ_v x_vᵀ B_v x_v` -/
theorem diag_quadratic_form (k V : Nat) (hk : 0 < k) (Bs : List Mat) (hV : Bs.length = V) (x : Nat → Rat) :
    qf (V * k) (tripsEntFlat k (diagTrips k 0 Bs)) x = (vertexForms k 0 Bs x).sum :=
  qf_diagTrips k V hk Bs hV x

theorem diag_psd (k V : Nat) (hk : 0 < k) (Bs : List Mat) (hV : Bs.length = V)
    (hB : ∀ B ∈ Bs, PSD k B) (x : Nat → Rat) :
    0 ≤ qf (V * k) (tripsEntFlat k (diagTrips k 0 Bs)) x := by
  rw [diag_quadratic_form k V hk Bs hV x]
  clear hV
  generalize 0 = v0
  induction Bs generalizing v0 with
  | nil => simp [vertexForms]
  | cons B Bs ih =>
    simp only [vertexForms, List.sum_cons]
    exact add_nonneg (hB B (by simp) _) (ih (fun B' h' => hB B' (by simp [h'])) (v0 + 1))

/-! ### PROPERTY: Mahalanobis distance -/

theorem qf_congr (n : Nat) (P Q : Nat → Nat → Rat) (x y : Nat → Rat)
    (hP : ∀ I J, I < n → J < n → P I J = Q I J) (hx : ∀ I, I < n → x I = y I) :
    qf n P x = qf n Q y := by
  rw [qf_eq, qf_eq]
  apply Finset.sum_congr rfl; intro I hI
  apply Finset.sum_congr rfl; intro J hJ
  rw [hP I J (Finset.mem_range.1 hI) (Finset.mem_range.1 hJ), hx I (Finset.mem_range.1 hI),
    hx J (Finset.mem_range.1 hJ)]

theorem getD_map_range (m : Nat) (f : Nat → Rat) (i : Nat) (hi : i < m) :
    ((List.range m).map f).getD i 0 = f i := by
  simp [List.getD_eq_getElem?_getD, hi]

/-- sparse branch `diag(S·(P·Sᵀ))`: entry `i` is the quadratic form of row `i` -/
theorem mahalSparse_eq_qf (n : Nat) (P : Nat → Nat → Rat) (S : Mat) (i : Nat) (hi : i < S.length) :
    (mahalSparse n P S).getD i 0 = qf n P (fun I => ent S i I) := by
  unfold mahalSparse
  simp only
  rw [getD_map_range _ _ i hi, ent_tab, if_pos ⟨hi, hi⟩, qf_eq, sumTo_eq]
  apply Finset.sum_congr rfl; intro I hI
  rw [ent_tab, if_pos ⟨Finset.mem_range.1 hI, hi⟩, sumTo_eq, Finset.mul_sum]
  apply Finset.sum_congr rfl; intro J _
  ring

/-- dense branch `einsum('ij,ij->i', S·P, S)`: entry `i` is the same quadratic form -/
theorem mahalDense_eq_qf (n : Nat) (P : Nat → Nat → Rat) (S : Mat) (i : Nat) (hi : i < S.length) :
    (mahalDense n P S).getD i 0 = qf n P (fun I => ent S i I) := by
  unfold mahalDense
  simp only
  rw [getD_map_range _ _ i hi, qf_eq, sumTo_eq]
  have : ∀ J ∈ range n, ent (tab S.length n fun i J => sumTo n fun I => ent S i I * P I J) i J * ent S i J =
      ∑ I ∈ range n, ent S i I * P I J * ent S i J := by
    intro J hJ
    rw [ent_tab, if_pos ⟨hi, Finset.mem_range.1 hJ⟩, sumTo_eq, Finset.sum_mul]
  rw [Finset.sum_congr rfl this]
  exact Finset.sum_comm

/-- identical for sparse and dense storage (whenever the two storages hold the same entries) -/
theorem mahalanobis_sparse_eq_dense (n : Nat) (P Q : Nat → Nat → Rat) (S : Mat)
    (hPQ : ∀ I J, I < n → J < n → P I J = Q I J) (i : Nat) (hi : i < S.length) :
    (mahalSparse n P S).getD i 0 = (mahalDense n Q S).getD i 0 := by
  rw [mahalSparse_eq_qf n P S i hi, mahalDense_eq_qf n Q S i hi]
  exact qf_congr n P Q _ _ hPQ (fun _ _ => rfl)

/-- identical for a batched query and the single query of the same row -/
theorem mahalanobis_batch_eq_single (n : Nat) (P : Nat → Nat → Rat) (S : Mat) (i : Nat) (hi : i < S.length) :
    (mahalSparse n P S).getD i 0 = (mahalSparse n P [S.getD i []]).getD 0 0 ∧
    (mahalDense n P S).getD i 0 = (mahalDense n P [S.getD i []]).getD 0 0 := by
  rw [mahalSparse_eq_qf n P S i hi, mahalDense_eq_qf n P S i hi,
    mahalSparse_eq_qf n P [S.getD i []] 0 (by simp), mahalDense_eq_qf n P [S.getD i []] 0 (by simp)]
  constructor <;> (apply qf_congr n P P _ _ (fun _ _ _ _ => rfl); intro I _; simp [ent])

theorem subMean_length (S : Mat) (mu : List Rat) (n : Nat) : (subMean S mu n).length = S.length := by
  simp [subMean]

/-- non-negative for every positive semi-definite precision -/
theorem mahalanobis_nonneg (n : Nat) (P : Nat → Nat → Rat) (hP : ∀ x, 0 ≤ qf n P x) (S : Mat) (mu : List Rat)
    (i : Nat) (hi : i < S.length) :
    0 ≤ (mahalSparse n P (subMean S mu n)).getD i 0 ∧ 0 ≤ (mahalDense n P (subMean S mu n)).getD i 0 := by
  rw [mahalSparse_eq_qf n P _ i (by rw [subMean_length]; exact hi),
    mahalDense_eq_qf n P _ i (by rw [subMean_length]; exact hi)]
  exact ⟨hP _, hP _⟩

theorem ent_subMean (S : Mat) (mu : List Rat) (n i I : Nat) (hi : i < S.length) (hI : I < n) :
    ent (subMean S mu n) i I = ent S i I - mu.getD I 0 := by
  unfold subMean ent
  simp [List.getD_eq_getElem?_getD, hi, hI]

/-- zero at the mean -/
theorem mahalanobis_zero_at_mean (n : Nat) (P : Nat → Nat → Rat) (mu : List Rat) :
    (mahalSparse n P (subMean [mu] mu n)).getD 0 0 = 0 ∧ (mahalDense n P (subMean [mu] mu n)).getD 0 0 = 0 := by
  rw [mahalSparse_eq_qf n P _ 0 (by simp [subMean]), mahalDense_eq_qf n P _ 0 (by simp [subMean])]
  have : qf n P (fun I => ent (subMean [mu] mu n) 0 I) = qf n P (fun _ => 0) := by
    apply qf_congr n P P _ _ (fun _ _ _ _ => rfl)
    intro I hI
    rw [ent_subMean [mu] mu n 0 I (by simp) hI]
    simp [ent]
  rw [this]
  simp [qf_eq]

/-! ### PROPERTY: the model mean is the sample mean -/

theorem gmrf_mean (X : Mat) (N n : Nat) (hN : 0 < N) (j : Nat) (hj : j < n) :
    (meanVec X N n).getD j 0 * (N : Rat) = ∑ i ∈ range N, ent X i j ∧
    ∑ i ∈ range N, (ent X i j - (meanVec X N n).getD j 0) = 0 := by
  have hN' : (N : Rat) ≠ 0 := by exact_mod_cast (Nat.pos_iff_ne_zero.1 hN)
  unfold meanVec
  rw [getD_map_range _ _ j hj, sumTo_eq]
  constructor
  · field_simp
  · rw [Finset.sum_sub_distrib, Finset.sum_const, Finset.card_range, nsmul_eq_mul]
    field_simp
    ring

/-! ### the whole constructor on exact data -/

theorem mapM?_spec {α β : Type} (f : α → Option β) (Q : β → Prop) (hf : ∀ a b, f a = some b → Q b) :
    ∀ (l : List α) (bs : List β), mapM? f l = some bs → (∀ b ∈ bs, Q b) ∧ bs.length = l.length := by
  intro l
  induction l with
  | nil => intro bs h; simp [mapM?] at h; subst h; simp
  | cons a as ih =>
    intro bs h
    unfold mapM? at h
    split at h
    · rename_i b bs' h1 h2
      injection h with h; subst h
      obtain ⟨i1, i2⟩ := ih bs' h2
      refine ⟨?_, by simp [i2]⟩
      intro b' hb'
      simp at hb'
      rcases hb' with h | h
      · subst h; exact hf a _ h1
      · exact i1 b' h
    · exact absurd h (by simp)

/-- **`GMRFVectorModel.__init__` on exact data (`n_components=None`)**: whenever every covariance is
invertible, on every simple graph (or the edgeless one), both edge modes and both bias conventions, the
two storages hold the same symmetric, positive semi-definite, graph-sparse matrix -/
theorem build_correct (m : Mode) (k V : Nat) (X : Mat) (N : Nat) (bias : Bool) (es : List (Nat × Nat))
    (M : Model) (hk : 0 < k) (hs : SimpleEdges V es) (hN : EnoughSamples N bias)
    (hb : build m k V X N bias es = some M) :
    (∀ I J, I < V * k → J < V * k → bsrEnt k M.sparseP I J = ent M.denseP I J) ∧
    (∀ I J, I < V * k → J < V * k → ent M.denseP I J = ent M.denseP J I) ∧
    (∀ x, 0 ≤ qf (V * k) (ent M.denseP) x) ∧
    (∀ I J, I < V * k → J < V * k → ent M.denseP I J ≠ 0 →
      I / k = J / k ∨ (I / k, J / k) ∈ es ∨ (J / k, I / k) ∈ es) := by
  unfold build at hb
  simp only at hb
  split at hb
  · -- edgeless
    split at hb
    · exact absurd hb (by simp)
    · rename_i Bs hBs
      injection hb with hb; subst hb
      simp only
      obtain ⟨hq, hlen⟩ := mapM?_spec _ (fun B => Symm k B ∧ PSD k B)
        (fun v B h => inv_cov_symm_psd _ N k bias hN B h) _ Bs hBs
      simp only [List.length_range] at hlen
      refine ⟨fun I J hI hJ => diag_sparse_eq_dense k V hk Bs I J hI hJ, ?_, ?_, ?_⟩
      · intro I J hI hJ
        rw [diag_dense_eq_sum k V hk Bs I J hI hJ, diag_dense_eq_sum k V hk Bs J I hJ hI]
        exact diag_symmetric k Bs (fun B hB => (hq B hB).1) I J
      · intro x
        rw [qf_congr (V * k) _ (tripsEntFlat k (diagTrips k 0 Bs)) x x
          (fun I J hI hJ => diag_dense_eq_sum k V hk Bs I J hI hJ) (fun _ _ => rfl)]
        exact diag_psd k V hk Bs hlen (fun B hB => (hq B hB).2) x
      · intro I J hI hJ hne
        left
        by_contra hcon
        exact hne (by rw [diag_dense_eq_sum k V hk Bs I J hI hJ]; exact diag_block_diagonal k Bs I J hcon)
  · split at hb
    · exact absurd hb (by simp)
    · rename_i Bs hBs
      injection hb with hb; subst hb
      simp only
      obtain ⟨hq, _⟩ := mapM?_spec _ (fun B => Symm (m.dim k) B ∧ PSD (m.dim k) B)
        (fun e B h => inv_cov_symm_psd _ N (m.dim k) bias hN B h) _ Bs hBs
      refine ⟨fun I J hI hJ => sparse_eq_dense m k V hk es Bs hs I J hI hJ, ?_, ?_, ?_⟩
      · intro I J hI hJ
        rw [dense_eq_sum m k V hk es Bs hs I J hI hJ, dense_eq_sum m k V hk es Bs hs J I hJ hI]
        exact precision_symmetric m k es Bs (fun B hB => (hq B hB).1) I J
      · intro x
        rw [qf_congr (V * k) _ (tripsEntFlat k (allTrips m k es Bs)) x x
          (fun I J hI hJ => dense_eq_sum m k V hk es Bs hs I J hI hJ) (fun _ _ => rfl)]
        exact precision_psd m k V hk es Bs (fun e he => ⟨(hs.1 e he).1, (hs.1 e he).2.1⟩)
          (fun B hB => (hq B hB).2) x
      · intro I J hI hJ hne
        rw [dense_eq_sum m k V hk es Bs hs I J hI hJ] at hne
        exact precision_graph_sparse m k es Bs I J hne

/-! ### non-vacuity: the hypotheses are satisfiable on concrete non-trivial values -/

/-- 7 samples, 3 vertices with 1 feature each -/
def exX : Mat := [[1, 2, 0], [0, 1, 3], [2, 2, 1], [1, 0, 1], [3, 1, 2], [0, 0, 1], [2, 5, 1]]

example : SimpleEdges 3 [(0, 1), (1, 2)] := by
  refine ⟨by decide, by decide⟩

example : EnoughSamples 7 false := by simp [EnoughSamples]

/-- the constructor succeeds on this data (so `build_correct` applies to a real model), for a path
graph with an isolated-vertex-free layout, and the precision couples 0–1 and 1–2 but not 0–2 -/
example : (build .concat 1 3 exX 7 false [(0, 1), (1, 2)]).map (fun M =>
      (decide (ent M.denseP 0 1 ≠ 0), decide (ent M.denseP 0 2 = 0),
       decide (bsrEnt 1 M.sparseP 1 2 = ent M.denseP 1 2))) = some (true, true, true) := by
  decide +kernel

/-- edgeless and subtraction variants build as well -/
example : (build .sub 1 3 exX 7 true [(0, 1), (2, 1)]).isSome = true ∧
    (build .concat 1 3 exX 7 false []).isSome = true := by decide +kernel

/-- a triplet list with duplicates and an empty first and last row: the `indptr` loop handles them -/
example : (assemble 4 [⟨2, 1, [[5]]⟩, ⟨1, 1, [[2]]⟩, ⟨2, 1, [[7]]⟩, ⟨1, 2, [[3]]⟩]).indptr = [0, 0, 2, 4, 4] ∧
    bsrEnt 1 (assemble 4 [⟨2, 1, [[5]]⟩, ⟨1, 1, [[2]]⟩, ⟨2, 1, [[7]]⟩, ⟨1, 2, [[3]]⟩]) 2 1 = 12 := by
  decide +kernel

/-- a symmetric PSD block exists (hypotheses of `precision_symmetric` / `precision_psd`) -/
example : Symm 2 [[2, 1], [1, 3]] ∧ PSD 2 (gram 2 2 (fun _ => 1) (fun r p => if r = p then 1 else 0)) := by
  constructor
  · intro i j hi hj
    have hi' : i = 0 ∨ i = 1 := by omega
    have hj' : j = 0 ∨ j = 1 := by omega
    rcases hi' with h | h <;> rcases hj' with h' | h' <;> subst h <;> subst h' <;> rfl
  · exact gram_psd _ _ _ _ (fun _ _ => by norm_num)

/-! ### EXTENSION: what the coded assembly computes on *every* directed graph without self loops

The property excludes antiparallel pairs; the code accepts them.  The sparse assembly still denotes the
sum over all edges (`bsr_denotes_sum` has no hypothesis on the triplets); the dense scatter keeps the sum
on the diagonal blocks and the *last* writer on every off-diagonal block. -/

/-- **dense scatter, any edge list without self loops** (antiparallel and repeated pairs allowed) -/
theorem dense_general (m : Mode) (k n : Nat) (hk : 0 < k) (es : List (Nat × Nat)) (Bs : List Mat)
    (hne : ∀ e ∈ es, e.1 ≠ e.2) (I J : Nat) (hI : I < n) (hJ : J < n) :
    ent (dense m k n es Bs) I J = denseSpec m k es Bs I J := by
  have := dense_fold_general m k n hk es Bs (zeros n) [] (fun _ _ => 0) hne
    (by intro I J _ _; rw [ent_zeros]; simp [tripsEntFlat, tripsEnt_nil]) I J hI hJ
  simpa [dense, denseSpec, lastOff] using this

/-- with symmetric blocks the dense matrix is symmetric on every such edge list -/
theorem dense_general_symmetric (m : Mode) (k n : Nat) (hk : 0 < k) (es : List (Nat × Nat)) (Bs : List Mat)
    (hne : ∀ e ∈ es, e.1 ≠ e.2) (hB : ∀ B ∈ Bs, Symm (m.dim k) B) (I J : Nat) (hI : I < n) (hJ : J < n) :
    ent (dense m k n es Bs) I J = ent (dense m k n es Bs) J I := by
  rw [dense_general m k n hk es Bs hne I J hI hJ, dense_general m k n hk es Bs hne J I hJ hI]
  unfold denseSpec
  by_cases hd : I / k = J / k
  · rw [if_pos hd, if_pos hd.symm]
    exact precision_symmetric m k es Bs hB I J
  · rw [if_neg hd, if_neg (fun h => hd h.symm)]
    unfold lastOff
    apply lastOff_fold_symm m k (I / k) (J / k) (I % k) (J % k) (Nat.mod_lt _ hk) (Nat.mod_lt _ hk) hd _ 0 0 rfl
    intro eB heB
    exact hB eB.2 (List.of_mem_zip heB).2

/-- on an off-diagonal block the two storages differ exactly by what the overwritten edges had stored:
`sparse − dense = Σ (all joining edges) − (last joining edge)` -/
theorem sparse_minus_dense_offdiag (m : Mode) (k V : Nat) (hk : 0 < k) (es : List (Nat × Nat)) (Bs : List Mat)
    (hne : ∀ e ∈ es, e.1 ≠ e.2) (I J : Nat) (hI : I < V * k) (hJ : J < V * k) (hd : I / k ≠ J / k) :
    bsrEnt k (assemble V (allTrips m k es Bs)) I J - ent (dense m k (V * k) es Bs) I J =
      tripsEntFlat k (allTrips m k es Bs) I J - lastOff m k es Bs (I / k) (J / k) (I % k) (J % k) := by
  rw [dense_general m k (V * k) hk es Bs hne I J hI hJ,
    bsr_denotes_sum k V _ I J ((Nat.div_lt_iff_lt_mul hk).2 hI)]
  unfold denseSpec
  rw [if_neg hd]

/-- on the diagonal blocks the two storages agree on every such edge list -/
theorem sparse_eq_dense_diag (m : Mode) (k V : Nat) (hk : 0 < k) (es : List (Nat × Nat)) (Bs : List Mat)
    (hne : ∀ e ∈ es, e.1 ≠ e.2) (I J : Nat) (hI : I < V * k) (hJ : J < V * k) (hd : I / k = J / k) :
    bsrEnt k (assemble V (allTrips m k es Bs)) I J = ent (dense m k (V * k) es Bs) I J := by
  rw [dense_general m k (V * k) hk es Bs hne I J hI hJ,
    bsr_denotes_sum k V _ I J ((Nat.div_lt_iff_lt_mul hk).2 hI)]
  unfold denseSpec
  rw [if_pos hd]

/-- non-vacuity / witness: on the directed 2-cycle the dense off-diagonal entry is the one written by the
second edge (its `(v2, v1)` block), the sparse one the sum of both -/
example :
    let B1 : Mat := [[2, 1], [1, 3]]
    let B2 : Mat := [[5, 4], [4, 7]]
    denseSpec .concat 1 [(0, 1), (1, 0)] [B1, B2] 0 1 = 4 ∧
    ent (dense .concat 1 2 [(0, 1), (1, 0)] [B1, B2]) 0 1 = 4 ∧
    bsrEnt 1 (assemble 2 (allTrips .concat 1 [(0, 1), (1, 0)] [B1, B2])) 0 1 = 5 ∧
    ent (dense .concat 1 2 [(0, 1), (1, 0)] [B1, B2]) 0 0 = 2 + 7 := by
  decide +kernel

/-! ### EXTENSION: rank truncation (`n_components`) -/

/-- **the model's truncated inverse, once its certificate is verified**: symmetric, positive
semi-definite, `C·B = B·C = Π`, `Π·B = B·Π = B` (so `B·C·B = B`), `Π·Π = Π`, `Π` symmetric — `B` inverts
`C` on the span of the kept eigenvectors and vanishes on the complement -/
theorem truncChecked_spec (C : Mat) (d nc : Nat) (sp : List Rat × Mat) (B : Mat)
    (h : truncChecked C d nc sp = some B) :
    Symm d B ∧ PSD d B ∧
    IsProd d C B (specProj d nc sp.2) ∧ IsProd d B C (specProj d nc sp.2) ∧
    IsProd d (specProj d nc sp.2) B B ∧ IsProd d B (specProj d nc sp.2) B ∧
    IsProd d (specProj d nc sp.2) (specProj d nc sp.2) (specProj d nc sp.2) ∧
    Symm d (specProj d nc sp.2) := by
  unfold truncChecked at h
  split at h
  · rename_i hc
    injection h with h; subst h
    obtain ⟨hs, τ, hτ⟩ := checkSpec_sound C d nc sp.1 sp.2 hc
    have hpos : ∀ i, i < min nc d → sp.1.getD i 0 ≠ 0 := by
      intro i hi
      have := hτ.2.1 i hi (lt_of_lt_of_le hi (Nat.min_le_right _ _))
      have h0 := hτ.1
      intro h; rw [h] at this; linarith
    obtain ⟨i1, i2, i3, i4, i5⟩ := specTrunc_identities d nc C sp.1 sp.2 hs hpos
    exact ⟨(specTrunc_symm_psd d nc C sp.1 sp.2 hs).1, (specTrunc_symm_psd d nc C sp.1 sp.2 hs).2,
      i1, i2, i3, i4, i5, specProj_symm d nc sp.2⟩
  · exact absurd h (by simp)

/-- `n_components ≥ d`: the truncated inverse is the exact inverse the `n_components=None` branch returns -/
theorem truncChecked_full_rank_eq_inv (C : Mat) (d nc : Nat) (hnc : d ≤ nc) (sp : List Rat × Mat) (B B' : Mat)
    (h : truncChecked C d nc sp = some B) (h' : invChecked C d = some B') (i j : Nat) (hi : i < d) (hj : j < d) :
    ent B i j = ent B' i j := by
  unfold truncChecked at h
  split at h
  · rename_i hc
    injection h with h; subst h
    obtain ⟨hs, τ, hτ⟩ := checkSpec_sound C d nc sp.1 sp.2 hc
    have hmin : min nc d = d := Nat.min_eq_right hnc
    have hpos : ∀ i, i < d → sp.1.getD i 0 ≠ 0 := by
      intro i hi
      have := hτ.2.1 i (by rw [hmin]; exact hi) hi
      have h0 := hτ.1
      intro h; rw [h] at this; linarith
    exact isInv_unique d C _ B' (specTrunc_full_isInv d nc hnc C sp.1 sp.2 hs hpos) (invChecked_isInv C d B' h') i j hi hj
  · exact absurd h (by simp)

/-- **`GMRFVectorModel.__init__` with `n_components`** on data whose covariances have verified rational
eigen-decompositions: the two storages hold the same symmetric, positive semi-definite, graph-sparse
matrix (every simple graph or the edgeless one, both modes, both bias conventions) -/
theorem buildTrunc_correct (m : Mode) (k V : Nat) (X : Mat) (N : Nat) (bias : Bool) (es : List (Nat × Nat))
    (nc : Nat) (specs : List (List Rat × Mat)) (M : Model) (hk : 0 < k) (hs : SimpleEdges V es)
    (hb : buildTrunc m k V X N bias es nc specs = some M) :
    (∀ I J, I < V * k → J < V * k → bsrEnt k M.sparseP I J = ent M.denseP I J) ∧
    (∀ I J, I < V * k → J < V * k → ent M.denseP I J = ent M.denseP J I) ∧
    (∀ x, 0 ≤ qf (V * k) (ent M.denseP) x) ∧
    (∀ I J, I < V * k → J < V * k → ent M.denseP I J ≠ 0 →
      I / k = J / k ∨ (I / k, J / k) ∈ es ∨ (J / k, I / k) ∈ es) := by
  unfold buildTrunc at hb
  simp only at hb
  split at hb
  · -- edgeless
    split at hb
    · exact absurd hb (by simp)
    · rename_i hlen
      split at hb
      · exact absurd hb (by simp)
      · rename_i Bs hBs
        injection hb with hb; subst hb
        simp only
        obtain ⟨hq, hlen'⟩ := mapM?_spec _ (fun B => Symm k B ∧ PSD k B)
          (fun vs B h => ⟨(truncChecked_spec _ k nc vs.2 B h).1, (truncChecked_spec _ k nc vs.2 B h).2.1⟩) _ Bs hBs
        have hlenV : Bs.length = V := by
          rw [hlen', List.length_zip, List.length_range]
          have : specs.length = V := by simpa using hlen
          omega
        refine ⟨fun I J hI hJ => diag_sparse_eq_dense k V hk Bs I J hI hJ, ?_, ?_, ?_⟩
        · intro I J hI hJ
          rw [diag_dense_eq_sum k V hk Bs I J hI hJ, diag_dense_eq_sum k V hk Bs J I hJ hI]
          exact diag_symmetric k Bs (fun B hB => (hq B hB).1) I J
        · intro x
          rw [qf_congr (V * k) _ (tripsEntFlat k (diagTrips k 0 Bs)) x x
            (fun I J hI hJ => diag_dense_eq_sum k V hk Bs I J hI hJ) (fun _ _ => rfl)]
          exact diag_psd k V hk Bs hlenV (fun B hB => (hq B hB).2) x
        · intro I J hI hJ hne
          left
          by_contra hcon
          exact hne (by rw [diag_dense_eq_sum k V hk Bs I J hI hJ]; exact diag_block_diagonal k Bs I J hcon)
  · split at hb
    · exact absurd hb (by simp)
    · split at hb
      · exact absurd hb (by simp)
      · rename_i Bs hBs
        injection hb with hb; subst hb
        simp only
        obtain ⟨hq, _⟩ := mapM?_spec _ (fun B => Symm (m.dim k) B ∧ PSD (m.dim k) B)
          (fun ees B h => ⟨(truncChecked_spec _ (m.dim k) nc ees.2 B h).1,
            (truncChecked_spec _ (m.dim k) nc ees.2 B h).2.1⟩) _ Bs hBs
        refine ⟨fun I J hI hJ => sparse_eq_dense m k V hk es Bs hs I J hI hJ, ?_, ?_, ?_⟩
        · intro I J hI hJ
          rw [dense_eq_sum m k V hk es Bs hs I J hI hJ, dense_eq_sum m k V hk es Bs hs J I hJ hI]
          exact precision_symmetric m k es Bs (fun B hB => (hq B hB).1) I J
        · intro x
          rw [qf_congr (V * k) _ (tripsEntFlat k (allTrips m k es Bs)) x x
            (fun I J hI hJ => dense_eq_sum m k V hk es Bs hs I J hI hJ) (fun _ _ => rfl)]
          exact precision_psd m k V hk es Bs (fun e he => ⟨(hs.1 e he).1, (hs.1 e he).2.1⟩)
            (fun B hB => (hq B hB).2) x
        · intro I J hI hJ hne
          rw [dense_eq_sum m k V hk es Bs hs I J hI hJ] at hne
          exact precision_graph_sparse m k es Bs I J hne

/-- block-wise domination carries over to the precision: if every edge block of one model is dominated
by the corresponding block of another, so is the quadratic form of the whole precision -/
theorem precision_qf_mono (m : Mode) (k V : Nat) (hk : 0 < k) (es : List (Nat × Nat)) (Bs Bs' : List Mat)
    (hv : ∀ e ∈ es, e.1 < V ∧ e.2 < V)
    (hdom : List.Forall₂ (fun B B' => ∀ y, qf (m.dim k) (ent B) y ≤ qf (m.dim k) (ent B') y) Bs Bs')
    (x : Nat → Rat) :
    qf (V * k) (tripsEntFlat k (allTrips m k es Bs)) x ≤ qf (V * k) (tripsEntFlat k (allTrips m k es Bs')) x := by
  rw [precision_quadratic_form m k V hk es Bs hv x, precision_quadratic_form m k V hk es Bs' hv x]
  unfold edgeForms
  clear hv
  induction hdom generalizing es with
  | nil => simp
  | cons hB _ ih =>
    cases es with
    | nil => simp
    | cons e es =>
      simp only [List.zipWith_cons_cons, List.sum_cons]
      exact add_le_add (hB _) (ih es)

/-- **rank truncation only lowers Mahalanobis distances**: with the same eigen-decompositions, the
precision built with `n_components = nc` is dominated by the one built with `nc' ≥ nc` (in particular by
the untruncated one) -/
theorem truncated_precision_le (m : Mode) (k V : Nat) (hk : 0 < k) (es : List (Nat × Nat))
    (Cs : List Mat) (specs : List (List Rat × Mat)) (nc nc' : Nat) (hle : nc ≤ nc')
    (hv : ∀ e ∈ es, e.1 < V ∧ e.2 < V)
    (hspec : List.Forall₂ (fun C sp => IsSpec (m.dim k) C sp.1 sp.2) Cs specs) (x : Nat → Rat) :
    qf (V * k) (tripsEntFlat k (allTrips m k es (specs.map fun sp => specTrunc (m.dim k) nc sp.1 sp.2))) x ≤
    qf (V * k) (tripsEntFlat k (allTrips m k es (specs.map fun sp => specTrunc (m.dim k) nc' sp.1 sp.2))) x := by
  apply precision_qf_mono m k V hk es _ _ hv
  induction hspec with
  | nil => simp
  | cons h _ ih =>
    simp only [List.map_cons]
    exact List.Forall₂.cons (fun y => specTrunc_mono _ nc nc' hle _ _ _ h y) ih

/-! non-vacuity for the truncation theorems -/

/-- `C = [[2,1],[1,2]] = 3·(1,1)(1,1)ᵀ/2 + 1·(1,−1)(1,−1)ᵀ/2`; keeping one component gives
`(1,1)(1,1)ᵀ/(3·2)`; the certificate check passes for `n_components = 1` and `2` and rejects a wrong
eigenvalue and an ill-separated cut -/
example :
    truncChecked [[2, 1], [1, 2]] 2 1 ([3, 1], [[1, 1], [1, -1]]) = some [[1/6, 1/6], [1/6, 1/6]] ∧
    truncChecked [[2, 1], [1, 2]] 2 2 ([3, 1], [[1, 1], [1, -1]]) = some [[2/3, -1/3], [-1/3, 2/3]] ∧
    truncChecked [[2, 1], [1, 2]] 2 7 ([3, 1], [[1, 1], [1, -1]]) = invChecked [[2, 1], [1, 2]] 2 ∧
    truncChecked [[2, 1], [1, 2]] 2 1 ([4, 1], [[1, 1], [1, -1]]) = none ∧
    truncChecked [[2, 0], [0, 2]] 2 1 ([2, 2], [[1, 0], [0, 1]]) = none := by
  decide +kernel

theorem forall_lt_two (P : Nat → Nat → Prop) (h : P 0 0 ∧ P 0 1 ∧ P 1 0 ∧ P 1 1) :
    ∀ a b, a < 2 → b < 2 → P a b := by
  intro a b ha hb
  have ha' : a = 0 ∨ a = 1 := by omega
  have hb' : b = 0 ∨ b = 1 := by omega
  rcases ha' with h1 | h1 <;> rcases hb' with h2 | h2 <;> subst h1 <;> subst h2
  · exact h.1
  · exact h.2.1
  · exact h.2.2.1
  · exact h.2.2.2

/-- numpy's contract is satisfiable over ℚ (a rational rotation), together with a rational
eigen-decomposition and a common threshold: all hypotheses of `svdTrunc_eq_specTrunc` hold, and the two
formulas indeed agree -/
example :
    let C : Mat := [[34/25, 12/25], [12/25, 41/25]]
    let U : Mat := [[3/5, -4/5], [4/5, 3/5]]
    let Vh : Mat := [[3/5, 4/5], [-4/5, 3/5]]
    let W : Mat := [[3, 4], [-4, 3]]
    IsSVD 2 C U [2, 1] Vh ∧ IsSpec 2 C [2, 1] W ∧ Cut 2 (min 1 2) [2, 1] 1 ∧ Cut 2 (min 1 2) [2, 1] 1 ∧
    Symm 2 C ∧ svdTrunc 2 1 U [2, 1] Vh = specTrunc 2 1 [2, 1] W := by
  intro C U Vh W
  have hcut : Cut 2 (min 1 2) [2, 1] 1 := by
    refine ⟨by norm_num, ?_, ?_⟩
    · intro i hi _
      have : i = 0 := by simp at hi; omega
      subst this; decide +kernel
    · intro i hi hid
      have : i = 1 := by simp at hi; omega
      subst this; decide +kernel
  refine ⟨⟨?_, ?_, ?_, ?_⟩, (checkSpec_sound C 2 1 [2, 1] W (by decide +kernel)).1, hcut, hcut, ?_, ?_⟩
  · exact forall_lt_two _ (by decide +kernel)
  · exact forall_lt_two _ (by decide +kernel)
  · exact forall_lt_two _ (by decide +kernel)
  · intro i hi
    have : i = 0 ∨ i = 1 := by omega
    rcases this with h | h <;> subst h <;> decide +kernel
  · exact forall_lt_two _ (by decide +kernel)
  · decide +kernel

/-- a model with `n_components = 1` builds on designed data (edgeless graph, two vertices with one
feature: each covariance is `1 × 1`, eigenvector `(1)`) and on an edge in subtraction mode -/
example :
    (buildTrunc .concat 1 2 [[0, 1], [2, 0], [4, 5]] 3 false [] 1 [([4], [[1]]), ([7], [[1]])]).isSome = true ∧
    (buildTrunc .sub 1 2 [[0, 1], [2, 0], [4, 5]] 3 false [(0, 1)] 1 [([3], [[1]])]).isSome = true := by
  decide +kernel

/-! ### EXTENSION: `GMRFModel` (object level) is `GMRFVectorModel` on the vectorised samples -/

theorem getD_asVector (V k : Nat) (p : Mat) (I : Nat) (hI : I < V * k) :
    (asVector V k p).getD I 0 = ent p (I / k) (I % k) := by
  unfold asVector; exact getD_map_range _ _ I hI

theorem asVector_length (V k : Nat) (p : Mat) : (asVector V k p).length = V * k := by
  simp [asVector]

theorem ent_asMatrix (V k : Nat) (samples : List Mat) (i I : Nat) (hi : i < samples.length) (hI : I < V * k) :
    ent (asMatrix V k samples) i I = ent (samples.getD i []) (I / k) (I % k) := by
  have h := getD_asVector V k (samples.getD i []) I hI
  unfold ent at h ⊢
  unfold asMatrix
  rw [← h]
  simp [List.getD_eq_getElem?_getD, hi]

/-- `from_vector(as_vector(p)) = p` on the `V × k` entries -/
theorem fromVector_asVector (V k : Nat) (hk : 0 < k) (p : Mat) (v a : Nat) (hv : v < V) (ha : a < k) :
    ent (fromVector V k (asVector V k p)) v a = ent p v a := by
  unfold fromVector
  rw [ent_tab, if_pos ⟨hv, ha⟩]
  have hlt : v * k + a < V * k := by
    calc v * k + a < v * k + k := by omega
      _ = (v + 1) * k := by rw [Nat.succ_mul]
      _ ≤ V * k := Nat.mul_le_mul_right k hv
  rw [getD_asVector V k p _ hlt, block_mod k v a ha]
  have : (v * k + a) / k = v := by
    rw [Nat.mul_comm, Nat.mul_add_div hk, Nat.div_eq_of_lt ha]; simp
  rw [this]

/-- `as_vector(from_vector(x)) = x` on the `V·k` coordinates -/
theorem asVector_fromVector (V k : Nat) (hk : 0 < k) (x : List Rat) (I : Nat) (hI : I < V * k) :
    (asVector V k (fromVector V k x)).getD I 0 = x.getD I 0 := by
  rw [getD_asVector V k _ I hI]
  unfold fromVector
  rw [ent_tab, if_pos ⟨(Nat.div_lt_iff_lt_mul hk).2 hI, Nat.mod_lt _ hk⟩, Nat.div_add_mod' I k]

/-- **`GMRFModel.__init__` is `GMRFVectorModel.__init__` on `as_matrix(samples)`** with
`n_samples = len(samples)`: every precision theorem above applies to the object-level model -/
theorem gmrfModel_eq_vectorModel (m : Mode) (k V : Nat) (samples : List Mat) (bias : Bool) (es : List (Nat × Nat)) :
    buildObj m k V samples bias es = build m k V (samples.map (asVector V k)) samples.length bias es := rfl

theorem build_mean (m : Mode) (k V : Nat) (X : Mat) (N : Nat) (bias : Bool) (es : List (Nat × Nat)) (M : Model)
    (hb : build m k V X N bias es = some M) : M.mean = meanVec X N (V * k) := by
  unfold build at hb
  simp only at hb
  split at hb <;> split at hb
  · exact absurd hb (by simp)
  · injection hb with hb; subst hb; rfl
  · exact absurd hb (by simp)
  · injection hb with hb; subst hb; rfl

/-- **`GMRFModel.mean()`** is the point-wise mean of the samples, and vectorising it gives back
`mean_vector` -/
theorem gmrfModel_mean (m : Mode) (k V : Nat) (hk : 0 < k) (samples : List Mat) (bias : Bool)
    (es : List (Nat × Nat)) (M : Model) (hN : 0 < samples.length)
    (hb : buildObj m k V samples bias es = some M) :
    (∀ v a, v < V → a < k →
      ent (meanObj V k M) v a * (samples.length : Rat) = ∑ i ∈ range samples.length, ent (samples.getD i []) v a) ∧
    (∀ I, I < V * k → (asVector V k (meanObj V k M)).getD I 0 = M.mean.getD I 0) := by
  have hm := build_mean m k V _ _ bias es M hb
  constructor
  · intro v a hv ha
    have hlt : v * k + a < V * k := by
      calc v * k + a < v * k + k := by omega
        _ = (v + 1) * k := by rw [Nat.succ_mul]
        _ ≤ V * k := Nat.mul_le_mul_right k hv
    unfold meanObj fromVector
    rw [ent_tab, if_pos ⟨hv, ha⟩, hm]
    rw [(gmrf_mean (asMatrix V k samples) samples.length (V * k) hN (v * k + a) hlt).1]
    apply Finset.sum_congr rfl; intro i hi
    rw [ent_asMatrix V k samples i _ (Finset.mem_range.1 hi) hlt, block_mod k v a ha]
    have : (v * k + a) / k = v := by
      rw [Nat.mul_comm, Nat.mul_add_div hk, Nat.div_eq_of_lt ha]; simp
    rw [this]
  · intro I hI
    exact asVector_fromVector V k hk M.mean I hI

/-- **`GMRFModel.mahalanobis_distance`**: a single instance and a one-element list are the same query,
and entry `i` of a batched query is the single query of instance `i` (both storages) -/
theorem gmrfModel_query_batch_eq_single (V k n : Nat) (P : Nat → Nat → Rat) (ps : List Mat) (mu : List Rat)
    (i : Nat) (hi : i < ps.length) :
    queryMatrix V k (.one (ps.getD i [])) = queryMatrix V k (.many [ps.getD i []]) ∧
    (mahalSparse n P (subMean (queryMatrix V k (.many ps)) mu n)).getD i 0 =
      (mahalSparse n P (subMean (queryMatrix V k (.one (ps.getD i []))) mu n)).getD 0 0 ∧
    (mahalDense n P (subMean (queryMatrix V k (.many ps)) mu n)).getD i 0 =
      (mahalDense n P (subMean (queryMatrix V k (.one (ps.getD i []))) mu n)).getD 0 0 := by
  have hlen : i < (subMean (queryMatrix V k (.many ps)) mu n).length := by
    simp [subMean, queryMatrix, asMatrix, hi]
  have hrow : [(subMean (queryMatrix V k (.many ps)) mu n).getD i []] =
      subMean (queryMatrix V k (.one (ps.getD i []))) mu n := by
    simp [subMean, queryMatrix, asMatrix, List.getD_eq_getElem?_getD, hi]
  obtain ⟨h1, h2⟩ := mahalanobis_batch_eq_single n P _ i hlen
  rw [hrow] at h1 h2
  exact ⟨rfl, h1, h2⟩

/-- non-vacuity: an object-level model builds, and its mean is the mean point set -/
example :
    let samples : List Mat := [[[1, 2], [0, 1]], [[0, 1], [3, 3]], [[2, 2], [1, 0]], [[1, 0], [1, 5]],
      [[3, 1], [2, 2]], [[0, 0], [1, 4]], [[2, 5], [1, 1]]]
    (buildObj .sub 2 2 samples false [(0, 1)]).map (fun M => meanObj 2 2 M) =
      some [[9/7, 11/7], [9/7, 16/7]] := by
  decide +kernel

/-! ### EXTENSION: `principal_components_analysis` of the precision -/

theorem getD_map_inv (l : List Rat) (i : Nat) : (l.map (1 / ·)).getD i 0 = 1 / l.getD i 0 := by
  simp only [List.getD_eq_getElem?_getD, List.getElem?_map]
  cases l[i]? <;> simp

/-- **PCA of the precision**: an eigen-decomposition `P = Σ λ_i w_i w_iᵀ/‖w_i‖²` with positive `λ` gives
the covariance `P⁻¹` with the *same* eigenvectors and the inverted eigenvalues (what
`init_from_covariance_matrix(…, is_inverse=True)` relies on), and the Mahalanobis form is the whitened
norm of the PCA projections, `xᵀPx = Σ_i (w_i·x)²/(ν_i ‖w_i‖²)` with `ν_i = 1/λ_i` -/
theorem precision_pca (n : Nat) (P : Mat) (lam : List Rat) (W : Mat) (h : IsSpec n P lam W)
    (hpos : ∀ i, i < n → lam.getD i 0 ≠ 0) :
    IsInv n P (specTrunc n n lam W) ∧
    (∀ p q, ent (specTrunc n n lam W) p q = ent (specCov n (lam.map (1 / ·)) W) p q) ∧
    (∀ z : Nat → Rat, qf n (ent P) z =
      ∑ i ∈ range n, (∑ p ∈ range n, z p * ent W i p) ^ 2 / ((lam.map (1 / ·)).getD i 0 * rowDot n W i i)) := by
  refine ⟨specTrunc_full_isInv n n (Nat.le_refl n) P lam W h hpos, ?_, ?_⟩
  · intro p q
    unfold specTrunc specCov gram
    rw [Nat.min_self, ent_tab, ent_tab]
    split
    · simp only [sumTo_eq]
      apply Finset.sum_congr rfl; intro i _
      rw [getD_map_inv, div_div]
    · rfl
  · intro z
    rw [qf_congr n (ent P) (ent (specCov n lam W)) z z (fun I J hI hJ => h.recon I J hI hJ) (fun _ _ => rfl)]
    unfold specCov
    rw [gram_qf]
    apply Finset.sum_congr rfl; intro i _
    rw [getD_map_inv]
    by_cases hl : lam.getD i 0 = 0
    · rw [hl]; simp
    · by_cases hn : rowDot n W i i = 0
      · rw [hn]; simp
      · field_simp

/-! ### EXTENSION: the float32 storage clause as an error bound

Storing a block in single precision perturbs each of its entries by at most `ε` (half a unit in the last
place of the largest entry).  The assembled precision then moves, entry by entry, by at most `ε` times
the number of stored blocks at that block position (the degree of the vertex on a diagonal block, one on
an off-diagonal block of a simple graph); no cancellation is involved. -/

def tripsAt (ts : List Trip) (bi bj : Nat) : Nat := (ts.filter fun t => t.row = bi ∧ t.col = bj).length

theorem storage_rounding_bound (ε : Rat) (ts ts' : List Trip)
    (h : List.Forall₂ (fun t t' : Trip => t.row = t'.row ∧ t.col = t'.col ∧
      ∀ a c, |ent t.blk a c - ent t'.blk a c| ≤ ε) ts ts') (bi bj a c : Nat) :
    |tripsEnt ts bi bj a c - tripsEnt ts' bi bj a c| ≤ ε * (tripsAt ts bi bj : Rat) := by
  induction h with
  | nil => simp [tripsEnt_nil, tripsAt]
  | @cons t t' ts ts' ht _ ih =>
    rw [tripsEnt_cons, tripsEnt_cons]
    obtain ⟨hr, hc, hb⟩ := ht
    by_cases hp : t.row = bi ∧ t.col = bj
    · have hp' : t'.row = bi ∧ t'.col = bj := ⟨hr ▸ hp.1, hc ▸ hp.2⟩
      have hcount : tripsAt (t :: ts) bi bj = tripsAt ts bi bj + 1 := by
        simp [tripsAt, List.filter_cons, hp]
      rw [if_pos hp, if_pos hp', hcount]
      push_cast
      have e : ent t.blk a c + tripsEnt ts bi bj a c - (ent t'.blk a c + tripsEnt ts' bi bj a c) =
          (ent t.blk a c - ent t'.blk a c) + (tripsEnt ts bi bj a c - tripsEnt ts' bi bj a c) := by ring
      rw [e]
      calc |ent t.blk a c - ent t'.blk a c + (tripsEnt ts bi bj a c - tripsEnt ts' bi bj a c)|
          ≤ |ent t.blk a c - ent t'.blk a c| + |tripsEnt ts bi bj a c - tripsEnt ts' bi bj a c| := abs_add_le _ _
        _ ≤ ε + ε * (tripsAt ts bi bj : Rat) := add_le_add (hb a c) ih
        _ = ε * ((tripsAt ts bi bj : Rat) + 1) := by ring
    · have hp' : ¬ (t'.row = bi ∧ t'.col = bj) := fun h => hp ⟨hr ▸ h.1, hc ▸ h.2⟩
      have hcount : tripsAt (t :: ts) bi bj = tripsAt ts bi bj := by
        simp [tripsAt, List.filter_cons, hp]
      rw [if_neg hp, if_neg hp', hcount]
      simpa using ih

/-- the bound is attained: two blocks at the same position, each moved by `ε` in the same direction -/
example :
    |tripsEnt [⟨0, 0, [[1]]⟩, ⟨0, 0, [[2]]⟩] 0 0 0 0 - tripsEnt [⟨0, 0, [[1 + 1/8]]⟩, ⟨0, 0, [[2 + 1/8]]⟩] 0 0 0 0| =
      (1/8 : Rat) * (tripsAt [⟨0, 0, [[1]]⟩, ⟨0, 0, [[2]]⟩] 0 0 : Rat) := by
  decide +kernel

/-- the sum of the absolute values of the stored entries at a block position -/
def tripsAbs (ts : List Trip) (bi bj a c : Nat) : Rat :=
  (ts.map fun t => if t.row = bi ∧ t.col = bj then |ent t.blk a c| else 0).sum

/-- relative form: if every stored entry carries a relative rounding error of at most `u` (single
precision: `u = 2⁻²⁴`), the assembled entry moves by at most `u · Σ |stored entries at that position|` —
the bound the float32 clause of the oracle is derived from -/
theorem storage_rounding_bound_rel (u : Rat) (ts ts' : List Trip)
    (h : List.Forall₂ (fun t t' : Trip => t.row = t'.row ∧ t.col = t'.col ∧
      ∀ a c, |ent t.blk a c - ent t'.blk a c| ≤ u * |ent t.blk a c|) ts ts') (bi bj a c : Nat) :
    |tripsEnt ts bi bj a c - tripsEnt ts' bi bj a c| ≤ u * tripsAbs ts bi bj a c := by
  induction h with
  | nil => simp [tripsEnt_nil, tripsAbs]
  | @cons t t' ts ts' ht _ ih =>
    rw [tripsEnt_cons, tripsEnt_cons]
    obtain ⟨hr, hc, hb⟩ := ht
    have habs : tripsAbs (t :: ts) bi bj a c =
        (if t.row = bi ∧ t.col = bj then |ent t.blk a c| else 0) + tripsAbs ts bi bj a c := by
      simp [tripsAbs]
    rw [habs]
    by_cases hp : t.row = bi ∧ t.col = bj
    · have hp' : t'.row = bi ∧ t'.col = bj := ⟨hr ▸ hp.1, hc ▸ hp.2⟩
      rw [if_pos hp, if_pos hp', if_pos hp]
      have e : ent t.blk a c + tripsEnt ts bi bj a c - (ent t'.blk a c + tripsEnt ts' bi bj a c) =
          (ent t.blk a c - ent t'.blk a c) + (tripsEnt ts bi bj a c - tripsEnt ts' bi bj a c) := by ring
      rw [e]
      calc |ent t.blk a c - ent t'.blk a c + (tripsEnt ts bi bj a c - tripsEnt ts' bi bj a c)|
          ≤ |ent t.blk a c - ent t'.blk a c| + |tripsEnt ts bi bj a c - tripsEnt ts' bi bj a c| := abs_add_le _ _
        _ ≤ u * |ent t.blk a c| + u * tripsAbs ts bi bj a c := add_le_add (hb a c) ih
        _ = u * (|ent t.blk a c| + tripsAbs ts bi bj a c) := by ring
    · have hp' : ¬ (t'.row = bi ∧ t'.col = bj) := fun h => hp ⟨hr ▸ h.1, hc ▸ h.2⟩
      rw [if_neg hp, if_neg hp', if_neg hp]
      simpa using ih

/-! ### known defect of the coded constructor (before `C12-scalar-feature-covariance`) -/

/-- refutation by witness: with one feature per vertex the coded constructor raises in subtraction
mode and on an edgeless graph (the property demands a model for any number of features per vertex),
while the repaired constructor builds the model -/
theorem build_coded_refuted_scalar_feature :
    isZeroDim (buildCoded .sub 1 3 exX 7 false [(0, 1), (1, 2)]) = true ∧
    isZeroDim (buildCoded .concat 1 3 exX 7 false []) = true ∧
    (build .sub 1 3 exX 7 false [(0, 1), (1, 2)]).isSome = true ∧
    (build .concat 1 3 exX 7 false []).isSome = true := by
  decide +kernel

/-- away from the single-feature case the coded and the repaired constructor coincide, so all theorems
above are theorems about the coded constructor there -/
theorem buildCoded_eq_fixed (m : Mode) (k V : Nat) (X : Mat) (N : Nat) (bias : Bool) (es : List (Nat × Nat))
    (h : covDim m k es ≠ 1) : buildCoded m k V X N bias es = buildFixed m k V X N bias es := by
  unfold buildCoded buildFixed
  rw [if_neg h]

theorem buildFixed_ok_iff (m : Mode) (k V : Nat) (X : Mat) (N : Nat) (bias : Bool) (es : List (Nat × Nat))
    (M : Model) : buildFixed m k V X N bias es = .ok M ↔ build m k V X N bias es = some M := by
  unfold buildFixed
  split
  · rename_i M' h; rw [h]; constructor <;> intro h' <;> injection h' with h' <;> rw [h']
  · rename_i h; rw [h]; constructor <;> intro h' <;> exact absurd h' (by simp)

/-! ### EXTENSION (translator tie): the property for the routines TRANSLATED from the source text

`GenProps/C12Src.lean` proves, on every run, that the Lean translation of the current source text of
`_covariance_matrix_inverse`, the four `_create_*_precision` routines, `GMRFVectorModel.__init__`, `GMRFModel.__init__`,
`_data_to_matrix`, `mean`, `mahalanobis_distance`, `_mahalanobis_distance` and `principal_components_analysis` equals the
`…Coded` definitions of `Core/C12Src.lean` for all arguments.  The theorems below are about those definitions (hence
about what the source says now); `Lemmas/C12Src*.lean` carry the proofs that they compute what the executable model of
`Core/C12GMRF.lean` computes. -/

namespace Src

/-- **PROPERTY for the translated `_create_sparse_precision` / `_create_dense_precision`** (any inverse routine `cinv`
returning blocks of the edge size — `np.linalg.inv` and the truncated SVD alike —, any `argsort` keeping numpy's
promise, every graph without repeated, antiparallel or self edges, both modes): whenever the two routines return, they
have inverted the same covariances `Bs`, the block-sparse-row matrix denotes the dense one, both are the sum over the
edges of the embedded blocks, and `xᵀPx = Σ_e x_eᵀ B_e x_e` -/
theorem coded_precision_correct (m : Mode) (k V : Nat) (hk : 0 < k) (cinv : Arr → Option Nat → Except PyErr Mat)
    (argsort : List Nat → List Nat) (X : Mat) (g : GraphS) (dtype : DType) (nc : Option Nat) (bias : Bool)
    (hV : g.nVertices = V) (hs : SimpleEdges V g.edges)
    (hc : ∀ e, e < g.nEdges → ∀ B, cinv (edgeCov X g k (toS m) bias e) nc = .ok B → IsTab (m.dim k) (m.dim k) B)
    (ha : ∀ rows, ArgsortOK argsort rows) (D : Mat) (S : BSR)
    (hD : denseCoded cinv X g (V * k) k (toS m) dtype nc bias = .ok D)
    (hS : sparseCoded cinv argsort X g (V * k) k (toS m) dtype nc bias = .ok S) :
    ∃ Bs, collectL (fun e => cinv (edgeCov X g k (toS m) bias e) nc) (List.range g.nEdges) = .ok Bs ∧
      (∀ I J, I < V * k → J < V * k → bsrEnt k S I J = ent D I J) ∧
      (∀ I J, I < V * k → J < V * k → ent D I J = tripsEntFlat k (allTrips m k g.edges Bs) I J) ∧
      (∀ x, qf (V * k) (ent D) x = (edgeForms m k g.edges Bs x).sum) := by
  rw [denseCoded_eq m cinv X g (V * k) k dtype nc bias hc] at hD
  rw [sparseCoded_eq m cinv argsort X g (V * k) k dtype nc bias hc] at hS
  cases hcol : collectL (fun e => cinv (edgeCov X g k (toS m) bias e) nc) (List.range g.nEdges) with
  | error err => rw [hcol] at hD; exact absurd hD (by simp)
  | ok Bs =>
    rw [hcol] at hD hS
    simp only at hD hS
    injection hD with hD; subst hD
    injection hS with hS; subst hS
    have hsum : ∀ I J, I < V * k → J < V * k →
        ent (dense m k (V * k) g.edges Bs) I J = tripsEntFlat k (allTrips m k g.edges Bs) I J :=
      fun I J hI hJ => dense_eq_sum m k V hk g.edges Bs hs I J hI hJ
    refine ⟨Bs, rfl, ?_, hsum, ?_⟩
    · intro I J hI hJ
      rw [hV, coded_bsr_denotes_sum argsort k V _ (ha _) I J ((Nat.div_lt_iff_lt_mul hk).2 hI), hsum I J hI hJ]
    · intro x
      rw [qf_congr (V * k) _ (tripsEntFlat k (allTrips m k g.edges Bs)) x x hsum (fun _ _ => rfl)]
      exact precision_quadratic_form m k V hk g.edges Bs (fun e he => ⟨(hs.1 e he).1, (hs.1 e he).2.1⟩) x

/-- **PROPERTY for the translated edgeless constructors**: same blocks, sparse = dense = one inverted covariance per
vertex on the block diagonal, `xᵀPx = Σ_v x_vᵀ B_v x_v` -/
theorem coded_diag_precision_correct (k V : Nat) (hk : 0 < k) (cinv : Arr → Option Nat → Except PyErr Mat)
    (argsort : List Nat → List Nat) (X : Mat) (g : GraphS) (dtype : DType) (nc : Option Nat) (bias : Bool)
    (hV : g.nVertices = V)
    (hc : ∀ v, v < g.nVertices → ∀ B, cinv (vertexCov X k bias v) nc = .ok B → IsTab k k B)
    (ha : ∀ rows, ArgsortOK argsort rows) (D : Mat) (S : BSR)
    (hD : denseDiagCoded cinv X g (V * k) k dtype nc bias = .ok D)
    (hS : sparseDiagCoded cinv argsort X g (V * k) k dtype nc bias = .ok S) :
    ∃ Bs, collectL (fun v => cinv (vertexCov X k bias v) nc) (List.range g.nVertices) = .ok Bs ∧
      (∀ I J, I < V * k → J < V * k → bsrEnt k S I J = ent D I J) ∧
      (∀ I J, I < V * k → J < V * k → ent D I J = tripsEntFlat k (diagTrips k 0 Bs) I J) ∧
      (∀ I J, I / k ≠ J / k → tripsEntFlat k (diagTrips k 0 Bs) I J = 0) ∧
      (∀ x, qf (V * k) (ent D) x = (vertexForms k 0 Bs x).sum) := by
  rw [denseDiagCoded_eq cinv X g (V * k) k dtype nc bias hc] at hD
  rw [sparseDiagCoded_eq cinv argsort X g (V * k) k dtype nc bias hc] at hS
  cases hcol : collectL (fun v => cinv (vertexCov X k bias v) nc) (List.range g.nVertices) with
  | error err => rw [hcol] at hD; exact absurd hD (by simp)
  | ok Bs =>
    rw [hcol] at hD hS
    simp only at hD hS
    injection hD with hD; subst hD
    injection hS with hS; subst hS
    have hlen : Bs.length = V := by rw [collectL_length _ _ Bs hcol, List.length_range, hV]
    have hsum : ∀ I J, I < V * k → J < V * k →
        ent (denseDiag k (V * k) Bs) I J = tripsEntFlat k (diagTrips k 0 Bs) I J :=
      fun I J hI hJ => diag_dense_eq_sum k V hk Bs I J hI hJ
    refine ⟨Bs, rfl, ?_, hsum, fun I J h => diag_block_diagonal k Bs I J h, ?_⟩
    · intro I J hI hJ
      rw [hV, coded_bsr_denotes_sum argsort k V _ (ha _) I J ((Nat.div_lt_iff_lt_mul hk).2 hI), hsum I J hI hJ]
    · intro x
      rw [qf_congr (V * k) _ (tripsEntFlat k (diagTrips k 0 Bs)) x x hsum (fun _ _ => rfl)]
      exact diag_quadratic_form k V hk Bs hlen x

/-- **PROPERTY for the translated `GMRFVectorModel.__init__`** (with the translated `_covariance_matrix_inverse`,
`n_components=None`, exact data): on every simple graph or the edgeless one, both modes, both bias conventions, any
`n_samples`, any `argsort` keeping numpy's promise — whenever the dense constructor returns, so does the sparse one (the
converse holds as well: both run the same inversions, `vecInit_sparse_eq` / `build_eq_blocks`, but is not stated here); the two
stored precisions have the same entries; the matrix is symmetric, positive semi-definite and couples two vertices only
if the graph joins them; the mean is the sample mean -/
theorem coded_constructor_correct (m : Mode) (k V : Nat) (X : Mat) (es : List (Nat × Nat)) (bias : Bool)
    (svd : Mat → Option (Mat × List Rat × Mat)) (argsort : List Nat → List Nat) (ns : Option Nat) (dtype : DType)
    (hk : 0 < k) (hV : 0 < V) (hN : EnoughSamples X.length bias) (hW : rowLen X = V * k) (hs : SimpleEdges V es)
    (ha : ∀ rows, ArgsortOK argsort rows) (Md : VecModel)
    (hd : vecInitCoded (covInverseCoded svd) argsort (.arr2 X) ⟨es, V⟩ ns (toS m) none dtype false bias false = .ok Md) :
    ∃ Ms, vecInitCoded (covInverseCoded svd) argsort (.arr2 X) ⟨es, V⟩ ns (toS m) none dtype true bias false = .ok Ms ∧
      Ms.mean_vector = meanVec X X.length (V * k) ∧ Md.mean_vector = meanVec X X.length (V * k) ∧
      (∀ I J, I < V * k → J < V * k → Ms.precision.ent I J = Md.precision.ent I J) ∧
      (∀ I J, I < V * k → J < V * k → Md.precision.ent I J = Md.precision.ent J I) ∧
      (∀ x, 0 ≤ qf (V * k) Md.precision.ent x) ∧
      (∀ I J, I < V * k → J < V * k → Md.precision.ent I J ≠ 0 →
        I / k = J / k ∨ (I / k, J / k) ∈ es ∨ (J / k, I / k) ∈ es) := by
  have hN0 : 0 < X.length := by
    unfold EnoughSamples at hN
    cases bias <;> simp at hN <;> omega
  have hv : ∀ e ∈ es, e.1 < V ∧ e.2 < V := fun e he => ⟨(hs.1 e he).1, (hs.1 e he).2.1⟩
  rw [vecInit_dense_eq_build m k V X es bias svd argsort ns dtype hV hN0 hW hv] at hd
  rw [vecInit_sparse_eq m k V X es bias svd argsort ns dtype hV hN0 hW hv]
  have hbb := build_eq_blocks m k V X X.length bias es
  cases hb : build m k V X X.length bias es with
  | none => rw [hb] at hd; exact absurd hd (by simp [okOr, Except.map])
  | some M =>
    rw [hb] at hd hbb
    cases hbl : blocksOf m k V X X.length bias es with
    | none => rw [hbl] at hbb; exact absurd hbb (by simp)
    | some Bs =>
      rw [hbl] at hbb
      simp only [Option.map_some] at hbb
      injection hbb with hM
      simp only [okOr, Except.map] at hd
      injection hd with hd; subst hd
      obtain ⟨c1, c2, c3, c4⟩ := build_correct m k V X X.length bias es M hk hs hN hb
      refine ⟨_, rfl, rfl, rfl, ?_, c2, c3, c4⟩
      intro I J hI hJ
      show bsrEnt k (assembleSorted V (permT (tripsOf m k es Bs) _)) I J = ent M.denseP I J
      rw [coded_bsr_denotes_sum argsort k V _ (ha _) I J ((Nat.div_lt_iff_lt_mul hk).2 hI), ← c1 I J hI hJ, hM]
      exact (bsr_denotes_sum k V _ I J ((Nat.div_lt_iff_lt_mul hk).2 hI)).symm

/-- **PROPERTY for the translated `_mahalanobis_distance`** (mean subtracted, no square root): for `m` samples the
routine returns, for either storage, the distances `d_i = (x_i − μ)ᵀ P (x_i − μ)` (as a number when `m = 1`) — so the
value does not depend on the storage flag (only on the entries of the precision), entry `i` of a batched query is the
single query of row `i`, every distance is non-negative for a positive semi-definite precision, and the distance of a row
that equals the mean is zero -/
theorem coded_mahalanobis_correct (sqrt : Rat → Rat) (M : VecModel) (S : Mat) (mm n : Nat) (hm : 0 < mm) (hn : 0 < n)
    (hS : IsTab mm n S) (hP : M.precision.n = n) :
    ∃ d : List Rat, mahalanobisCoreCoded sqrt M S true false = outOf d ∧ d.length = mm ∧
      (∀ i, i < mm → d.getD i 0 = qf n M.precision.ent (fun I => ent (subMean S M.mean_vector n) i I)) ∧
      (∀ i I, i < mm → I < n → ent (subMean S M.mean_vector n) i I = ent S i I - M.mean_vector.getD I 0) ∧
      ((∀ x, 0 ≤ qf n M.precision.ent x) → ∀ i, i < mm → 0 ≤ d.getD i 0) ∧
      (∀ i, i < mm → (∀ I, I < n → ent S i I = M.mean_vector.getD I 0) → d.getD i 0 = 0) := by
  rw [mahalanobisCore_eq sqrt M S true mm n hm hn hS hP]
  simp only [if_true]
  have hlen : (subMean S M.mean_vector n).length = mm := by rw [subMean_length, hS.length]
  have hvals : ∀ i, i < mm →
      (if M.sparse = true then mahalSparse n M.precision.ent (subMean S M.mean_vector n)
        else mahalDense n M.precision.ent (subMean S M.mean_vector n)).getD i 0 =
        qf n M.precision.ent (fun I => ent (subMean S M.mean_vector n) i I) := by
    intro i hi
    cases M.sparse
    · simp only [Bool.false_eq_true, if_false]
      exact mahalDense_eq_qf n _ _ i (by rw [hlen]; exact hi)
    · simp only [if_true]
      exact mahalSparse_eq_qf n _ _ i (by rw [hlen]; exact hi)
  refine ⟨_, rfl, ?_, hvals, ?_, ?_, ?_⟩
  · cases M.sparse <;> simp [mahalSparse, mahalDense, hlen]
  · intro i I hi hI
    exact ent_subMean S _ n i I (by rw [hS.length]; exact hi) hI
  · intro hpsd i hi
    rw [hvals i hi]
    exact hpsd _
  · intro i hi hmean
    rw [hvals i hi]
    have : qf n M.precision.ent (fun I => ent (subMean S M.mean_vector n) i I) = qf n M.precision.ent (fun _ => 0) := by
      apply qf_congr n _ _ _ _ (fun _ _ _ _ => rfl)
      intro I hI
      rw [ent_subMean S _ n i I (by rw [hS.length]; exact hi) hI, hmean I hI]
      simp
    rw [this]
    simp [qf_eq]

/-- the object level as coded: `GMRFModel.__init__` vectorises the samples (`as_matrix`), takes `n_samples` from the
data and hands every option on under its own name — so `coded_constructor_correct` applies to `GMRFModel` as well -/
theorem coded_objInit (cinv : Arr → Option Nat → Except PyErr Mat) (argsort : List Nat → List Nat) (t : Mat)
    (samples : List Mat) (graph : GraphS) (mode : ModeS) (nc : Option Nat) (dtype : DType) (sparse bias incremental : Bool) :
    objInitCoded cinv argsort (t :: samples) graph mode nc dtype sparse none bias incremental =
      (vecInitCoded cinv argsort (.arr2 ((t :: samples).map objVec)) graph (some (samples.length + 1)) mode nc dtype
        sparse bias incremental).map (fun M => (t, M)) := by
  unfold objInitCoded asMatrixT
  simp only [PyData.len, List.length_map, List.length_cons]
  cases vecInitCoded cinv argsort (.arr2 ((t :: samples).map objVec)) graph (some (samples.length + 1)) mode nc dtype
    sparse bias incremental <;> rfl

/-! non-vacuity of the hypotheses of the `coded_…` theorems -/

/-- an `argsort` keeping numpy's promise exists (the one the driver runs) -/
example : ∀ rows, ArgsortOK argsortIns rows := argsortIns_ok

/-- what a constructor stored at an entry, if it returned -/
def okEnt (r : Except PyErr VecModel) (I J : Nat) : Option Rat :=
  match r with
  | .ok M => some (M.precision.ent I J)
  | .error _ => none

/-- the translated constructor returns for both storages on concrete data (path graph, one feature per vertex), the two
stored matrices agree, vertices 0 and 2 are not coupled; subtraction mode with a single feature (the case
`np.atleast_2d` repairs), bias 1, float32 and `incremental=True` build as well -/
example :
    okEnt (vecInitCoded (covInverseCoded fun _ => none) argsortIns (.arr2 exX) ⟨[(0, 1), (1, 2)], 3⟩ none
      .concatenation none .float64 true false false) 1 2 =
    okEnt (vecInitCoded (covInverseCoded fun _ => none) argsortIns (.arr2 exX) ⟨[(0, 1), (1, 2)], 3⟩ none
      .concatenation none .float64 false false false) 1 2 ∧
    okEnt (vecInitCoded (covInverseCoded fun _ => none) argsortIns (.arr2 exX) ⟨[(0, 1), (1, 2)], 3⟩ none
      .concatenation none .float64 false false false) 1 2 = some (90 / 641) ∧
    okEnt (vecInitCoded (covInverseCoded fun _ => none) argsortIns (.arr2 exX) ⟨[(0, 1), (1, 2)], 3⟩ none
      .concatenation none .float64 true false false) 0 2 = some 0 ∧
    (vecInitCoded (covInverseCoded fun _ => none) argsortIns (.arr2 exX) ⟨[(0, 1), (2, 1)], 3⟩ none
      .subtraction none .float32 true true true).toOption.isSome = true := by
  decide +kernel

/-- the data of that example meets the shape hypotheses: 7 rows, 3 = 3 · 1 columns -/
example : EnoughSamples exX.length false ∧ rowLen exX = 3 * 1 ∧ SimpleEdges 3 [(0, 1), (1, 2)] := by
  refine ⟨by simp [EnoughSamples, exX], rfl, by decide, by decide⟩

/-- `n_components`: with the factors of a (rational) SVD the coded formula returns the model's `svdTrunc`
(hypotheses of `covInverseCoded_some`), and a failing SVD falls back to the plain inverse (the bare `except`) -/
example :
    let C : Mat := [[34/25, 12/25], [12/25, 41/25]]
    let U : Mat := [[3/5, -4/5], [4/5, 3/5]]
    let Vh : Mat := [[3/5, 4/5], [-4/5, 3/5]]
    (covInverseCoded (fun _ => some (U, [2, 1], Vh)) (arrOf 2 C) (some 1)).toOption = some (svdTrunc 2 1 U [2, 1] Vh) ∧
    (covInverseCoded (fun _ => none) (arrOf 2 C) (some 1)).toOption =
      (covInverseCoded (fun _ => none) (arrOf 2 C) none).toOption ∧
    C = tab 2 2 (ent C) ∧ U = tab 2 2 (ent U) := by
  decide +kernel

/-- a query on the model of the first example: one sample comes back as a number, two as an array -/
example :
    (match vecInitCoded (covInverseCoded fun _ => none) argsortIns (.arr2 exX) ⟨[(0, 1), (1, 2)], 3⟩ none
        .concatenation none .float64 true false false with
      | .ok M => ((mahalanobisCoreCoded id M [[1, 2, 0]] true false).toList.length,
          (mahalanobisCoreCoded id M [[1, 2, 0], [0, 1, 3]] true false).toList.length, M.precision.n)
      | .error _ => (0, 0, 0)) = (1, 2, 3) := by
  decide +kernel

end Src

end MenpoModel.C12
