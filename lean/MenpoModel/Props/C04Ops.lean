/-
C04 — objects with a previous life (`Core/C04Ops.lean`).

  run_no_writes            a `pseudoinverse()` that writes no instance attribute answers every query of every operation
                           list by the stateless function of the state the object is in at that moment
  honest_mul               every family class is closed under the in-place compositions it accepts
  good_act                 every legal mutator keeps the object an honest non-singular member of its class
  hom_ops_pinv_sound   PROPERTY   homogeneous family: after ANY list of set_target / from_vector_inplace / set_h_matrix /
                           compose_before_inplace / compose_after_inplace / pseudoinverse() calls, pseudoinverse()
                           is an honest member of the class, carries the inverse of the CURRENT matrix, undoes the CURRENT
                           map from both sides and has the CURRENT source and target exchanged
  source_invariant         no operation list changes the source of an alignment; the target is the last one set
  memo_refuted             the frame condition cannot be dropped: a method that keeps its first answer on the instance
                           (what seeded changes C04-1 / C04-2 did) breaks the property on a three-step history
  pinv_involutive      PROPERTY   the inverse of the inverse is the original object (class, matrix, end points)
  pinv_after_compose       the inverse after an in-place composition = the inverses composed in the opposite order
  tps_ops_pinv_sound   PROPERTY   thin plate splines over any list of set_target / pseudoinverse() calls
  pwa_ops_pinv_sound   PROPERTY   piecewise affine over any list of set_target / pseudoinverse() calls
  pwa_ops_roundtrip_certified     … with the mesh hypotheses decided by the certificate at every query
-/
import MenpoModel.Props.C04Base
import MenpoModel.Props.C04Mesh
import MenpoModel.Core.C04Ops

set_option linter.unusedSimpArgs false

namespace MenpoModel.C04
open Matrix

variable {d : ℕ}

/-! ## frame condition ⇒ history independence -/

theorem run_no_writes {S A M : Type} (f : S → A) (act : M → S → S) (o : Live S A) (ops : List (Option M)) :
    Live.run false f act o ops = (statesAtQueries act o.st ops).map f := by
  induction ops generalizing o with
  | nil => rfl
  | cons op ops ih =>
    cases op with
    | none => simp [Live.run, statesAtQueries, Live.query, ih]
    | some m => simp [Live.run, statesAtQueries, ih]

/-- … in particular the last of any number of queries, with anything in between, is the function of the final state -/
theorem run_no_writes_last {S A M : Type} (f : S → A) (act : M → S → S) (o : Live S A) (ops : List (Option M)) :
    (Live.run false f act o (ops ++ [none])).getLast? = some (f (finalState act o.st ops)) := by
  rw [run_no_writes]
  induction ops generalizing o with
  | nil => simp [statesAtQueries, finalState]
  | cons op ops ih =>
    cases op with
    | none =>
      have := ih o
      simp only [List.cons_append, statesAtQueries, finalState, List.map_cons]
      rw [List.getLast?_cons_of_ne_nil]
      · exact this
      · intro h
        have h2 := congrArg List.length h
        simp [statesAtQueries] at h2
        clear this ih h
        induction ops generalizing o with
        | nil => simp [statesAtQueries] at h2
        | cons q qs ihq =>
          cases q with
          | none => simp [statesAtQueries] at h2
          | some m => exact ihq ⟨act m o.st, o.memo⟩ (by simpa [statesAtQueries] using h2)
    | some m =>
      have := ih ⟨act m o.st, o.memo⟩
      simpa [statesAtQueries, finalState] using this

/-! ## closure of the classes under composition -/

theorem mul_affine {A B : Mat (d + 1)} (ha : IsAffineM A) (hb : IsAffineM B) :
    A.mul B = ofAffine (ofM (toM (linPart A) * toM (linPart B)))
      (toM (linPart A) *ᵥ transPart B + transPart A) := by
  apply toM_injective
  rw [mul_eq]
  conv_lhs => rw [eq_ofAffine ha, eq_ofAffine hb]
  exact ofAffine_mul _ _ _ _

theorem toM_ofM_mul (X Y : Matrix (Fin d) (Fin d) ℚ) : toM (ofM (X * Y)) = X * Y := rfl

theorem diagM_mul (v w : Vec d) : ofM (toM (diagM v) * toM (diagM w)) = diagM fun i => v i * w i := by
  apply toM_injective
  rw [toM_ofM, toM_diagM, toM_diagM, toM_diagM, Matrix.diagonal_mul_diagonal]

theorem similar_mul {X Y : Matrix (Fin d) (Fin d) ℚ} {k l : ℚ} (hX : X * Xᵀ = k • 1) (hY : Y * Yᵀ = l • 1) :
    (X * Y) * (X * Y)ᵀ = (k * l) • 1 := by
  rw [Matrix.transpose_mul, Matrix.mul_assoc, ← Matrix.mul_assoc Y, hY, Matrix.smul_mul, Matrix.one_mul,
    Matrix.mul_smul, hX, smul_smul, mul_comm]

/-- every class of the family is closed under multiplication: the result of an in-place composition is again an honest
member (the in-place compositions menpo accepts stay within `composes_inplace_with`, i.e. within the class) -/
theorem honest_mul (c : Cls) {A B : Mat (d + 1)} (ha : Honest c A) (hb : Honest c B) : Honest c (A.mul B) := by
  have affOf : ∀ {X Y : Mat (d + 1)}, IsAffineM X → IsAffineM Y → IsAffineM (X.mul Y) := by
    intro X Y hx hy; rw [mul_affine hx hy]; exact isAffineM_ofAffine _ _
  have lin : ∀ {X Y : Mat (d + 1)}, IsAffineM X → IsAffineM Y →
      linPart (X.mul Y) = ofM (toM (linPart X) * toM (linPart Y)) := by
    intro X Y hx hy; rw [mul_affine hx hy]; simp
  have tr : ∀ {X Y : Mat (d + 1)}, IsAffineM X → IsAffineM Y →
      transPart (X.mul Y) = toM (linPart X) *ᵥ transPart Y + transPart X := by
    intro X Y hx hy; rw [mul_affine hx hy]; simp
  have zero : ∀ (X : Matrix (Fin d) (Fin d) ℚ), X *ᵥ (fun _ => (0 : ℚ)) + (fun _ => (0 : ℚ)) = fun _ => 0 := by
    intro X; funext i; simp [Matrix.mulVec, dotProduct]
  have sim : ∀ {X Y : Mat (d + 1)}, IsAffineM X → IsAffineM Y →
      (∃ k : ℚ, 0 < k ∧ toM (linPart X) * (toM (linPart X))ᵀ = k • 1) →
      (∃ k : ℚ, 0 < k ∧ toM (linPart Y) * (toM (linPart Y))ᵀ = k • 1) →
      ∃ k : ℚ, 0 < k ∧ toM (linPart (X.mul Y)) * (toM (linPart (X.mul Y)))ᵀ = k • 1 := by
    intro X Y hx hy ⟨k, hk, e1⟩ ⟨l, hl, e2⟩
    refine ⟨k * l, mul_pos hk hl, ?_⟩
    rw [lin hx hy, toM_ofM_mul]
    exact similar_mul e1 e2
  have rot : ∀ {X Y : Mat (d + 1)}, IsAffineM X → IsAffineM Y →
      toM (linPart X) * (toM (linPart X))ᵀ = 1 → toM (linPart Y) * (toM (linPart Y))ᵀ = 1 →
      toM (linPart (X.mul Y)) * (toM (linPart (X.mul Y)))ᵀ = 1 := by
    intro X Y hx hy e1 e2
    rw [lin hx hy, toM_ofM_mul]
    have := similar_mul (k := 1) (l := 1) (by simpa using e1) (by simpa using e2)
    simpa using this
  have tra : ∀ {X Y : Mat (d + 1)}, IsAffineM X → IsAffineM Y → linPart X = Mat.one → linPart Y = Mat.one →
      linPart (X.mul Y) = Mat.one := by
    intro X Y hx hy e1 e2
    rw [lin hx hy, e1, e2, one_eq, Matrix.one_mul]
    funext i j; simp [Mat.one, Matrix.one_apply]
  cases c with
  | homogeneous => trivial
  | affine => exact affOf ha hb
  | alignmentAffine => exact affOf ha hb
  | similarity => exact ⟨affOf ha.1 hb.1, sim ha.1 hb.1 ha.2 hb.2⟩
  | alignmentSimilarity => exact ⟨affOf ha.1 hb.1, sim ha.1 hb.1 ha.2 hb.2⟩
  | rotation =>
    refine ⟨affOf ha.1 hb.1, rot ha.1 hb.1 ha.2.1 hb.2.1, ?_⟩
    rw [tr ha.1 hb.1, ha.2.2, hb.2.2]; exact zero _
  | alignmentRotation =>
    refine ⟨affOf ha.1 hb.1, rot ha.1 hb.1 ha.2.1 hb.2.1, ?_⟩
    rw [tr ha.1 hb.1, ha.2.2, hb.2.2]; exact zero _
  | translation => exact ⟨affOf ha.1 hb.1, tra ha.1 hb.1 ha.2 hb.2⟩
  | alignmentTranslation => exact ⟨affOf ha.1 hb.1, tra ha.1 hb.1 ha.2 hb.2⟩
  | uniformScale =>
    obtain ⟨a1, a2, s, hs, a3⟩ := ha
    obtain ⟨b1, b2, s', hs', b3⟩ := hb
    refine ⟨affOf a1 b1, ?_, s * s', mul_ne_zero hs hs', ?_⟩
    · rw [tr a1 b1, a2, b2]; exact zero _
    · rw [lin a1 b1, a3, b3, diagM_mul]
  | alignmentUniformScale =>
    obtain ⟨a1, a2, s, hs, a3⟩ := ha
    obtain ⟨b1, b2, s', hs', b3⟩ := hb
    refine ⟨affOf a1 b1, ?_, s * s', mul_ne_zero hs hs', ?_⟩
    · rw [tr a1 b1, a2, b2]; exact zero _
    · rw [lin a1 b1, a3, b3, diagM_mul]
  | nonUniformScale =>
    obtain ⟨a1, a2, v, hv, a3⟩ := ha
    obtain ⟨b1, b2, w, hw, b3⟩ := hb
    refine ⟨affOf a1 b1, ?_, fun i => v i * w i, fun i => mul_ne_zero (hv i) (hw i), ?_⟩
    · rw [tr a1 b1, a2, b2]; exact zero _
    · rw [lin a1 b1, a3, b3, diagM_mul]

/-! ## legal operation lists keep the object a good member of its class -/

/-- an honest, non-singular member of its class -/
def Good {α : Type} (t : HT d α) : Prop := Honest t.cls t.h ∧ (toM t.h).det ≠ 0

/-- a mutator is legal for class `c` when the matrix it brings in (the fitted matrix of `set_target`, the new state of
`from_vector_inplace` / `set_h_matrix`, the other operand of an in-place composition) is an honest non-singular member
of `c` — what `composes_inplace_with` and the property's quantifier ("non-singular parameter values") demand -/
def OpOK {α : Type} (c : Cls) (op : Op d α) : Prop := Honest c op.mat ∧ (toM op.mat).det ≠ 0

theorem det_mul_ne {A B : Mat (d + 1)} (ha : (toM A).det ≠ 0) (hb : (toM B).det ≠ 0) :
    (toM (A.mul B)).det ≠ 0 := by
  rw [mul_eq, Matrix.det_mul]; exact mul_ne_zero ha hb

theorem good_act {α : Type} {t : HT d α} {op : Op d α} (ht : Good t) (hop : OpOK t.cls op) :
    Good (HT.act op t) ∧ (HT.act op t).cls = t.cls := by
  cases op with
  | setTarget T H => exact ⟨⟨hop.1, hop.2⟩, rfl⟩
  | setState H T => exact ⟨⟨hop.1, hop.2⟩, rfl⟩
  | composeBefore M T => exact ⟨⟨honest_mul _ hop.1 ht.1, det_mul_ne hop.2 ht.2⟩, rfl⟩
  | composeAfter M T => exact ⟨⟨honest_mul _ ht.1 hop.1, det_mul_ne ht.2 hop.2⟩, rfl⟩

theorem states_good {α : Type} (t : HT d α) (ops : List (Option (Op d α))) (ht : Good t)
    (hops : ∀ op, some op ∈ ops → OpOK t.cls op) :
    ∀ s ∈ statesAtQueries HT.act t ops, Good s ∧ s.cls = t.cls := by
  induction ops generalizing t with
  | nil => intro s hs; simp [statesAtQueries] at hs
  | cons op ops ih =>
    cases op with
    | none =>
      intro s hs
      simp only [statesAtQueries, List.mem_cons] at hs
      rcases hs with rfl | hs
      · exact ⟨ht, rfl⟩
      · exact ih t ht (fun op h => hops op (List.mem_cons_of_mem _ h)) s hs
    | some m =>
      intro s hs
      simp only [statesAtQueries] at hs
      obtain ⟨g, hc⟩ := good_act ht (hops m (by simp))
      obtain ⟨h1, h2⟩ := ih (HT.act m t) g
        (fun op h => by rw [hc]; exact hops op (List.mem_cons_of_mem _ h)) s hs
      exact ⟨h1, h2.trans hc⟩

/-- what the property demands of `pseudoinverse()` of an object in state `s` -/
def InvertsNow {α : Type} (s : HT d α) (a : Option (HT d α)) : Prop :=
  ∃ u, a = some u ∧ u.cls = s.cls ∧ toM u.h = (toM s.h)⁻¹ ∧ Honest u.cls u.h ∧
    u.ends = s.ends.map (fun e => (e.2, e.1)) ∧
    (∀ x y, s.apply x = some y → u.apply y = some x) ∧
    (∀ x y, u.apply y = some x → s.apply x = some y)

/-- PROPERTY (homogeneous family, objects with a history): start from any honest non-singular member `t` of any class
(alignment or not), run ANY list of legal mutators and `pseudoinverse()` calls on it; every `pseudoinverse()` —
the k-th answer is matched with the state the object is in at the k-th query — is an honest member of the same class
carrying exactly the inverse of the CURRENT matrix, undoes the CURRENT map from both sides on all points, and has the
CURRENT source and target exchanged.  (`writes = false`: the method writes no instance attribute — the regenerated
obligation `GenProps.C04.pinvWrites_ok`.) -/
theorem hom_ops_pinv_sound {α : Type} (hd : 0 < d) (t : HT d α) (ops : List (Option (Op d α))) (ht : Good t)
    (hops : ∀ op, some op ∈ ops → OpOK t.cls op) :
    List.Forall₂ (fun s a => s.cls = t.cls ∧ InvertsNow s a)
      (statesAtQueries HT.act t ops) (Live.run false pinv HT.act (Live.fresh t) ops) := by
  rw [run_no_writes]
  simp only [Live.fresh]
  rw [List.forall₂_map_right_iff, List.forall₂_same]
  intro s hs
  obtain ⟨hg, hc⟩ := states_good t ops ht hops s hs
  obtain ⟨u, h1, h2, h3, h4, h5, h6, h7⟩ := pinv_sound hd s hg.1 hg.2
  exact ⟨hc, u, h1, h2, h3, h4, h5, h6, h7⟩

/-- no operation list changes the source of an alignment -/
theorem source_invariant {α : Type} (t : HT d α) (ops : List (Option (Op d α))) :
    (finalState HT.act t ops).ends.map Prod.fst = t.ends.map Prod.fst ∧ (finalState HT.act t ops).cls = t.cls := by
  induction ops generalizing t with
  | nil => exact ⟨rfl, rfl⟩
  | cons op ops ih =>
    cases op with
    | none => exact ih t
    | some m =>
      have key : (HT.act m t).ends.map Prod.fst = t.ends.map Prod.fst ∧ (HT.act m t).cls = t.cls := by
        cases m <;> (refine ⟨?_, rfl⟩; simp only [HT.act]) <;>
          (rcases t.ends with _ | ⟨s, x⟩ <;> (try rename_i T; rcases T with _ | T) <;> simp [retarget])
      obtain ⟨h1, h2⟩ := ih (HT.act m t)
      exact ⟨h1.trans key.1, h2.trans key.2⟩

/-- after `set_target T` the target is `T` (and stays until the next mutator that re-targets) -/
theorem target_after_set {α : Type} (t : HT d α) (s x T : α) (H : Mat (d + 1)) (h : t.ends = some (s, x)) :
    (HT.act (.setTarget T H) t).ends = some (s, T) := by
  simp [HT.act, retarget, h]

/-! ### the frame condition cannot be dropped -/

/-- translation by `a` in one dimension -/
def tr1 (a : ℚ) : HT 1 Unit := ⟨.translation, ofAffine Mat.one fun _ => a, none⟩

/-- REFUTATION of a memoising `pseudoinverse()` (what the seeded changes C04-1 and C04-2 introduced): on the history
*query, bring the object to another state, query* the second answer is still the inverse of the first state; it does
not undo the current map. -/
theorem memo_refuted :
    ∃ (t : HT 1 Unit) (ops : List (Option (Op 1 Unit))), Good t ∧ (∀ op, some op ∈ ops → OpOK t.cls op) ∧
      ¬ List.Forall₂ (fun s a => InvertsNow s a)
        (statesAtQueries HT.act t ops) (Live.run true pinv HT.act (Live.fresh t) ops) := by
  refine ⟨tr1 1, [none, some (.setState (tr1 2).h none), none], ?_, ?_, ?_⟩
  · refine ⟨⟨isAffineM_ofAffine (d := 1) Mat.one fun _ => 1, by simp [tr1]⟩, ?_⟩
    rw [Matrix.det_fin_two]; simp [tr1, ofAffine, Mat.one]
  · intro op hop
    simp only [List.mem_cons, Option.some.injEq, List.mem_nil_iff, or_false, reduceCtorEq, false_or] at hop
    subst hop
    refine ⟨⟨isAffineM_ofAffine (d := 1) Mat.one fun _ => 2, by simp [tr1, Op.mat]⟩, ?_⟩
    rw [Matrix.det_fin_two]; simp [tr1, Op.mat, ofAffine, Mat.one]
  · intro h
    simp only [statesAtQueries, Live.run, Live.query, Live.fresh, HT.act, retarget] at h
    rcases h with _ | ⟨_, h⟩
    rcases h with _ | ⟨⟨u, hu, _, _, _, _, hl, _⟩, _⟩
    have e : u = ⟨.translation, ofAffine Mat.one fun _ => -1, none⟩ := by
      have := Option.some.inj hu
      rw [← this]
      simp [pinv, pinvH, pinvHBy, implOf, tr1]
    have h0 := hl (fun _ => 0) (fun _ => 2) (by
      simp only [HT.apply, tr1]; decide +kernel)
    rw [e] at h0
    have h1 : (⟨.translation, ofAffine Mat.one fun _ => -1, none⟩ : HT 1 Unit).apply (fun _ => 2)
        = some (fun _ => 1) := by simp only [HT.apply]; decide +kernel
    rw [h1] at h0
    have := congrFun (Option.some.inj h0) 0
    norm_num at this

/-! ## the inverse of the inverse -/

/-- PROPERTY: `t.pseudoinverse().pseudoinverse()` is `t` again — same class, same matrix, same source and target -/
theorem pinv_involutive {α : Type} (hd : 0 < d) (t : HT d α) (ht : Good t) :
    ∃ u, pinv t = some u ∧ Good u ∧ pinv u = some t := by
  obtain ⟨u, h1, h2, h3, h4, h5, _, _⟩ := pinv_sound hd t ht.1 ht.2
  have hu : IsUnit (toM t.h).det := isUnit_iff_ne_zero.mpr ht.2
  have hdu : (toM u.h).det ≠ 0 := by
    rw [h3, Matrix.det_nonsing_inv, Ring.inverse_eq_inv']; exact inv_ne_zero ht.2
  obtain ⟨v, k1, k2, k3, _, k5, _, _⟩ := pinv_sound hd u h4 hdu
  refine ⟨u, h1, ⟨h4, hdu⟩, ?_⟩
  rw [k1]
  congr 1
  have e1 : v.cls = t.cls := k2.trans h2
  have e2 : v.h = t.h := by
    apply toM_injective; rw [k3, h3, Matrix.nonsing_inv_nonsing_inv _ hu]
  have e3 : v.ends = t.ends := by
    rw [k5, h5]; rcases t.ends with _ | ⟨a, b⟩ <;> rfl
  cases v; cases t; simp_all

/-- the inverse after an in-place composition is the composition of the inverses in the opposite order:
after `t.compose_before_inplace(m)` (`h := m.h · t.h`) the pseudoinverse carries `t.h⁻¹ · m.h⁻¹`, after
`t.compose_after_inplace(m)` it carries `m.h⁻¹ · t.h⁻¹` -/
theorem pinv_after_compose {α : Type} (hd : 0 < d) (t : HT d α) (M : Mat (d + 1)) (T : Option α) (ht : Good t)
    (hM : Honest t.cls M ∧ (toM M).det ≠ 0) :
    (∃ u, pinv (HT.act (.composeBefore M T) t) = some u ∧ toM u.h = (toM t.h)⁻¹ * (toM M)⁻¹) ∧
    (∃ u, pinv (HT.act (.composeAfter M T) t) = some u ∧ toM u.h = (toM M)⁻¹ * (toM t.h)⁻¹) := by
  constructor
  · obtain ⟨g, _⟩ := good_act (op := Op.composeBefore M T) ht hM
    obtain ⟨u, h1, _, h3, _⟩ := pinv_sound hd _ g.1 g.2
    refine ⟨u, h1, ?_⟩
    rw [h3]; simp only [HT.act]; rw [mul_eq, Matrix.mul_inv_rev]
  · obtain ⟨g, _⟩ := good_act (op := Op.composeAfter M T) ht hM
    obtain ⟨u, h1, _, h3, _⟩ := pinv_sound hd _ g.1 g.2
    refine ⟨u, h1, ?_⟩
    rw [h3]; simp only [HT.act]; rw [mul_eq, Matrix.mul_inv_rev]

/-! ## warps with a history -/

/-- PROPERTY (thin plate splines, objects with a history): after any list of `set_target` / `pseudoinverse()` calls
every `pseudoinverse()` is the spline fitted from the CURRENT target to the source (kernel re-centred on it), has the
CURRENT end points exchanged and sends every current target landmark exactly onto its source landmark. -/
theorem tps_ops_pinv_sound {n : ℕ} (φ : ℚ → ℚ) (t : TPS n) (ops : List (Option (Fin n → P2))) :
    List.Forall₂ (fun (s : TPS n) (a : TPS n) => s.src = t.src ∧ a = TPS.fit s.tgt s.src ∧ a.src = s.tgt ∧
        a.tgt = s.src ∧ ∀ (i : Fin n) (z : P2), a.apply φ (s.tgt i) = some z → z = s.src i)
      (statesAtQueries TPS.setTarget t ops) (Live.run false TPS.pinvFixed TPS.setTarget (Live.fresh t) ops) := by
  rw [run_no_writes]
  simp only [Live.fresh]
  rw [List.forall₂_map_right_iff, List.forall₂_same]
  have hsrc : ∀ (ops : List (Option (Fin n → P2))) (t' : TPS n), t'.src = t.src →
      ∀ s ∈ statesAtQueries TPS.setTarget t' ops, s.src = t.src := by
    intro ops
    induction ops with
    | nil => intro t' _ s hs; simp [statesAtQueries] at hs
    | cons op ops ih =>
      intro t' ht' s hs
      cases op with
      | none =>
        simp only [statesAtQueries, List.mem_cons] at hs
        rcases hs with rfl | hs
        · exact ht'
        · exact ih t' ht' s hs
      | some T => exact ih (TPS.setTarget T t') (by simpa [TPS.setTarget] using ht') s hs
  intro s hs
  obtain ⟨h1, h2, h3, h4⟩ := tps_pinvFixed_reverse_fit φ s
  exact ⟨hsrc ops t rfl s hs, h1, h2, h3, h4⟩

/-- PROPERTY (piecewise affine, objects with a history): after any list of `set_target` / `pseudoinverse()` calls every
`pseudoinverse()` is the warp on (CURRENT target points, the source's trilist) → source points; it therefore undoes the
current warp on the whole source domain whenever the current mesh is non-degenerate and target-consistent. -/
theorem pwa_ops_pinv_sound (m : PWAMesh) (ops : List (Option (List P2))) :
    List.Forall₂ (fun (s : PWAMesh) (a : PWAMesh) => s.src = m.src ∧ s.tris = m.tris ∧
        a.src = s.tgt ∧ a.tgt = s.src ∧ a.tris = m.tris ∧ a.toPWA = s.toPWA.pinv ∧
        (NonDegenerate s.toPWA → TargetConsistent s.toPWA →
          ∀ x y, s.toPWA.apply x = some y → a.toPWA.apply y = some x))
      (statesAtQueries PWAMesh.setTarget m ops) (Live.run false PWAMesh.pinv PWAMesh.setTarget (Live.fresh m) ops) := by
  rw [run_no_writes]
  simp only [Live.fresh]
  rw [List.forall₂_map_right_iff, List.forall₂_same]
  have hsrc : ∀ (ops : List (Option (List P2))) (m' : PWAMesh), m'.src = m.src ∧ m'.tris = m.tris →
      ∀ s ∈ statesAtQueries PWAMesh.setTarget m' ops, s.src = m.src ∧ s.tris = m.tris := by
    intro ops
    induction ops with
    | nil => intro m' _ s hs; simp [statesAtQueries] at hs
    | cons op ops ih =>
      intro m' hm' s hs
      cases op with
      | none =>
        simp only [statesAtQueries, List.mem_cons] at hs
        rcases hs with rfl | hs
        · exact hm'
        · exact ih m' hm' s hs
      | some T => exact ih (PWAMesh.setTarget T m') (by simpa [PWAMesh.setTarget] using hm') s hs
  intro s hs
  obtain ⟨h1, h2⟩ := hsrc ops m ⟨rfl, rfl⟩ s hs
  refine ⟨h1, h2, rfl, rfl, h2, mesh_pinv s, ?_⟩
  intro hnd hc x y hxy
  rw [mesh_pinv]
  exact pwa_pinv_left hnd hc hxy

/-- … and with the hypotheses decided: whenever the mesh of the moment passes the triangulation certificate, the answer
undoes the current warp on the whole source domain and is undone by it on the whole target domain -/
theorem pwa_ops_roundtrip_certified (m : PWAMesh) (ops : List (Option (List P2))) :
    List.Forall₂ (fun (s : PWAMesh) (a : PWAMesh) => s.certified = true →
        (∀ x y, s.toPWA.apply x = some y → a.toPWA.apply y = some x) ∧
        (∀ x y, a.toPWA.apply y = some x → s.toPWA.apply x = some y))
      (statesAtQueries PWAMesh.setTarget m ops) (Live.run false PWAMesh.pinv PWAMesh.setTarget (Live.fresh m) ops) := by
  rw [run_no_writes]
  simp only [Live.fresh]
  rw [List.forall₂_map_right_iff, List.forall₂_same]
  intro s _ hs
  obtain ⟨_, _, _, h1, h2, _⟩ := pwa_roundtrip_certified s hs
  exact ⟨h1, h2⟩

/-! ### non-vacuity: a concrete history, executed -/

/-- a 2-D alignment translation with a history: query, re-target (fit moves to (5, -1)), query, compose, query -/
def exHist : List (Option (Op 2 String)) :=
  [none, some (.setTarget "T2" (m3 1 0 5 0 1 (-1) 0 0 1)), none,
   some (.composeBefore (m3 1 0 1 0 1 1 0 0 1) none), none]

def exT : HT 2 String := ⟨.alignmentTranslation, m3 1 0 2 0 1 3 0 0 1, some ("S", "T1")⟩

example : ((Live.run false pinv HT.act (Live.fresh exT) exHist).map fun a =>
    a.map fun u => ([u.h 0 2, u.h 1 2], u.ends)) =
    [some ([-2, -3], some ("T1", "S")), some ([-5, 1], some ("T2", "S")), some ([-6, 0], some ("T2", "S"))] := by
  decide +kernel

theorem trans2_good (a b : ℚ) :
    Honest (d := 2) .alignmentTranslation (m3 1 0 a 0 1 b 0 0 1) ∧ (toM (m3 1 0 a 0 1 b 0 0 1)).det ≠ 0 := by
  refine ⟨⟨⟨fun j => ?_, by simp [m3]⟩, ?_⟩, ?_⟩
  · fin_cases j <;> simp [m3]
  · funext i j; fin_cases i <;> fin_cases j <;> simp [linPart, m3, Mat.one]
  · rw [Matrix.det_fin_three]; simp [m3]

/-- the hypotheses of `hom_ops_pinv_sound` hold for this history: all three answers invert the state of their moment -/
example : List.Forall₂ (fun s a => s.cls = exT.cls ∧ InvertsNow s a)
    (statesAtQueries HT.act exT exHist) (Live.run false pinv HT.act (Live.fresh exT) exHist) := by
  refine hom_ops_pinv_sound (by decide) exT exHist (trans2_good 2 3) ?_
  intro op hop
  simp only [exHist, List.mem_cons, Option.some.injEq, List.mem_nil_iff, or_false, reduceCtorEq, false_or] at hop
  rcases hop with rfl | rfl
  · exact trans2_good 5 (-1)
  · exact trans2_good 1 1

/-- the same history on a memoising method hands out the first answer three times -/
example : ((Live.run true pinv HT.act (Live.fresh exT) exHist).map fun a =>
    a.map fun u => ([u.h 0 2, u.h 1 2], u.ends)) =
    [some ([-2, -3], some ("T1", "S")), some ([-2, -3], some ("T1", "S")), some ([-2, -3], some ("T1", "S"))] := by
  decide +kernel

end MenpoModel.C04
