/-
C02 — history.  "Mutates nothing" as an INVARIANT over arbitrary sequences of `apply` calls: the calls may
target any of the initial objects — which may share landmark managers, groups, arrays, anything — or the result
of any earlier call, with any transforms.  After the whole sequence no cell that existed at the start has been
written, every initial object still holds its shape (deep: every attribute), every result holds the value the
value-level program computes, and every result is a new object.  Core Lean only.
-/
import MenpoModel.Props.C02Deep

namespace MenpoModel.C02

theorem AllRep.length {h : Heap} : ∀ {ss : List Shape} {vs : List Val}, AllRep h ss vs → ss.length = vs.length
  | [], [], _ => rfl
  | _ :: ss, _ :: vs, r => by
    unfold AllRep at r
    simp only [List.length_cons, AllRep.length r.2]
  | [], _ :: _, r => by unfold AllRep at r; exact r.elim
  | _ :: _, [], r => by unfold AllRep at r; exact r.elim

/-- allocation keeps every object of the environment -/
theorem AllRep.ext {h h' : Heap} (e : Ext h h') : ∀ {ss : List Shape} {vs : List Val}, AllRep h ss vs → AllRep h' ss vs
  | [], [], _ => by unfold AllRep; trivial
  | s :: ss, v :: vs, r => by
    unfold AllRep at r ⊢
    exact ⟨RepD.mono e.len s v (RepD.ext e s v r.1), AllRep.ext e r.2⟩
  | [], _ :: _, r => by unfold AllRep at r; exact r.elim
  | _ :: _, [], r => by unfold AllRep at r; exact r.elim

theorem AllRep.get {h : Heap} : ∀ {ss : List Shape} {vs : List Val} (i : Nat) {v : Val}, AllRep h ss vs →
    vs[i]? = some v → ∃ s, ss[i]? = some s ∧ RepD h.length h s v
  | [], [], i, v, _, hv => by simp at hv
  | s :: ss, w :: vs, 0, v, r, hv => by
    unfold AllRep at r
    simp only [List.getElem?_cons_zero, Option.some.injEq] at hv; subst hv
    exact ⟨s, rfl, r.1⟩
  | s :: ss, w :: vs, i + 1, v, r, hv => by
    unfold AllRep at r
    simp only [List.getElem?_cons_succ] at hv ⊢
    exact AllRep.get i r.2 hv
  | [], _ :: _, _, _, r, _ => by unfold AllRep at r; exact r.elim
  | _ :: _, [], _, _, r, _ => by unfold AllRep at r; exact r.elim

theorem AllRep.snoc {h : Heap} {s : Shape} {v : Val} (rs : RepD h.length h s v) :
    ∀ {ss : List Shape} {vs : List Val}, AllRep h ss vs → AllRep h (ss ++ [s]) (vs ++ [v])
  | [], [], _ => by simp only [List.nil_append]; unfold AllRep; exact ⟨rs, by unfold AllRep; trivial⟩
  | s' :: ss, v' :: vs, r => by
    unfold AllRep at r
    simp only [List.cons_append]; unfold AllRep
    exact ⟨r.1, AllRep.snoc rs r.2⟩
  | [], _ :: _, r => by unfold AllRep at r; exact r.elim
  | _ :: _, [], r => by unfold AllRep at r; exact r.elim

/-- INVARIANT (history, aliasing).  Run any list of calls `t_i.apply(x_i)` where each `x_i` is one of the initial
objects `vs` (holding the shapes `ss`, sharing whatever they share) or the result of an earlier call.  If the
run succeeds on the heap, the value-level program succeeds too, and
  * the final heap is the initial heap plus new cells — no cell that existed at the start was written by ANY of
    the calls;
  * the objects `vs ++ results` hold the shapes the value-level program computes (deep: every attribute of every
    object of every tree) — in particular every initial object still holds its shape;
  * every result is a new object. -/
theorem run_refines : ∀ (calls : List Call) (h : Heap) (vs : List Val) (ss : List Shape) (h' : Heap) (vs' : List Val),
    AllRep h ss vs → runH expectedDispatch calls h vs = .ok (h', vs') →
    ∃ ss', runV expectedDispatch calls ss = .ok ss' ∧ Ext h h' ∧ AllRep h' ss' vs' ∧
      (∃ ts, ss' = ss ++ ts) ∧ ∃ tv, vs' = vs ++ tv ∧ ∀ w, w ∈ tv → ∃ a, w = .ref a ∧ h.length ≤ a
  | [], h, vs, ss, h', vs', r, hrun => by
    simp only [runH, Except.ok.injEq, Prod.mk.injEq] at hrun
    obtain ⟨rfl, rfl⟩ := hrun
    exact ⟨ss, rfl, Ext.refl _, r, ⟨[], by simp⟩, [], by simp, fun w hw => by cases hw⟩
  | c :: cs, h, vs, ss, h', vs', r, hrun => by
    simp only [runH] at hrun
    cases hv : vs[c.src]? with
    | none => rw [hv] at hrun; cases hrun
    | some v =>
      rw [hv] at hrun
      simp only at hrun
      obtain ⟨s, hs, rs⟩ := AllRep.get c.src r hv
      cases ha : applyH expectedDispatch c.f c.fuel h v with
      | error e => rw [ha] at hrun; cases hrun
      | ok pr =>
        obtain ⟨h1, v1⟩ := pr
        rw [ha] at hrun
        simp only at hrun
        obtain ⟨⟨_, _⟩, _, ⟨a1, hv1, hfresh⟩, rres⟩ := apply_deep c.f c.fuel s h h1 v v1 rs ha
        have e1 : Ext h h1 := (apply_refines_deep c.f c.fuel s h h1 v v1 rs ha).1
        have r1 : AllRep h1 (ss ++ [mapShape c.f s]) (vs ++ [v1]) := AllRep.snoc rres (AllRep.ext e1 r)
        obtain ⟨ss', k1, k2, k3, ⟨ts, k4⟩, tv, k5, k6⟩ := run_refines cs h1 _ _ h' vs' r1 hrun
        refine ⟨ss', ?_, e1.trans k2, k3, ⟨mapShape c.f s :: ts, by rw [k4]; simp⟩, v1 :: tv, by rw [k5]; simp,
          fun w hw => ?_⟩
        · simp only [runV, hs, applyV_expected]; exact k1
        · rcases List.mem_cons.mp hw with rfl | hw
          · exact ⟨a1, hv1, hfresh⟩
          · obtain ⟨a, q1, q2⟩ := k6 w hw
            exact ⟨a, q1, Nat.le_trans e1.len q2⟩

/-- the same, read as the property's clause (d) over a history: nothing that existed is written and every
initial object still holds what it held, whatever was applied to whatever in between -/
theorem run_mutates_nothing (calls : List Call) (h : Heap) (vs : List Val) (ss : List Shape) (h' : Heap)
    (vs' : List Val) (r : AllRep h ss vs) (hrun : runH expectedDispatch calls h vs = .ok (h', vs')) :
    (h.length ≤ h'.length ∧ ∀ a, a < h.length → h'[a]? = h[a]?) ∧ AllRep h' ss vs := by
  obtain ⟨_, _, e, _, _, _⟩ := run_refines calls h vs ss h' vs' r hrun
  exact ⟨⟨e.len, fun a ha => e.get_lt ha⟩, AllRep.ext e r⟩

/-- the value-level program: each result is its source mapped by the call's array function -/
def runSpec : List Call → List Shape → Option (List Shape)
  | [], ss => some ss
  | c :: cs, ss =>
    match ss[c.src]? with
    | none => none
    | some s => runSpec cs (ss ++ [mapShape c.f s])

theorem runV_expected : ∀ (calls : List Call) (ss : List Shape),
    runV expectedDispatch calls ss = match runSpec calls ss with
      | some r => .ok r
      | none => .error .attr
  | [], ss => rfl
  | c :: cs, ss => by
    simp only [runV, runSpec]
    cases ss[c.src]? with
    | none => rfl
    | some s => simp only [applyV_expected]; exact runV_expected cs _

/-! ### the hypotheses are satisfiable: two hosts sharing one landmark manager, a call on a result -/

/-- `exHeap` (the mesh `exMesh` at address 18, its manager at 15) plus a second host — a point cloud whose
`_landmarks` is THE SAME manager object -/
def exShared : Heap := exHeap ++ [.arr [[9, 9]], .obj (.shape .PointCloud) [("_landmarks", .ref 15), ("points", .ref 19)]]
def exHost2 : Shape := .mk .PointCloud [[9, 9]] exMesh.lms []
/-- apply to the mesh, then to the second host, then to the result of the first call -/
def exCalls : List Call := [⟨exF, 8, 0⟩, ⟨fun a => a ++ a, 8, 1⟩, ⟨exF, 8, 2⟩]

def allRepB (h : Heap) : List Shape → List Val → Bool
  | [], [] => true
  | s :: ss, v :: vs => repDB h s v && allRepB h ss vs
  | _, _ => false

theorem allRepB_sound {h : Heap} : ∀ (ss : List Shape) (vs : List Val), allRepB h ss vs = true → AllRep h ss vs
  | [], [], _ => by unfold AllRep; trivial
  | s :: ss, v :: vs, e => by
    unfold allRepB at e; unfold AllRep
    simp only [Bool.and_eq_true] at e
    exact ⟨repDB_sound s v e.1, allRepB_sound ss vs e.2⟩
  | [], _ :: _, e => by simp [allRepB] at e
  | _ :: _, [], e => by simp [allRepB] at e

example : AllRep exShared [exMesh, exHost2] [.ref 18, .ref 20] := allRepB_sound _ _ (by decide)
example : (runH expectedDispatch exCalls exShared [.ref 18, .ref 20]).toOption.isSome = true := by decide
example : (runH expectedDispatch exCalls exShared [.ref 18, .ref 20]).toOption.map
    (fun r => (changedBelow exShared.length exShared r.1, r.2.length)) = some ([], 5) := by decide
example : (runSpec exCalls [exMesh, exHost2]).map (fun r => r.map Shape.points) =
    some [[[0, 0], [1, 0], [0, 1]], [[9, 9]], [[0, 1], [1, 0], [0, 0]], [[9, 9], [9, 9]], [[0, 0], [1, 0], [0, 1]]] := by
  decide

end MenpoModel.C02
