/-
C15 — the determinism clause ("identical from run to run") as a theorem about the model: label names are opaque.

A Python `set`/`dict` of strings iterates in an order that is a function of the strings' hashes (and the hash seed
of the process); sorting would depend on their lexicographic order.  An operation whose result depends on either
cannot commute with an arbitrary injective renaming `ρ` of the labels, because `ρ` changes every hash and every
comparison of two names while it preserves exactly one thing: which names are equal.  The theorems below prove
that every model operation — and every sequence of operations — commutes with every injective renaming: positions
in the output are a function of the positions in the input (insertion order of the label dict, order of the
request) and of name *equality* only.  Core Lean only.
-/
import MenpoModel.Props.C15Sel

namespace MenpoModel.C15

def renameLabels (ρ : String → String) (ls : List (String × List Bool)) : List (String × List Bool) :=
  ls.map fun p => (ρ p.1, p.2)

/-- the same group with every label name `l` replaced by `ρ l` -/
def LGraph.rename {α} (ρ : String → String) (g : LGraph α) : LGraph α :=
  { g with labels := renameLabels ρ g.labels }

def Op.rename (ρ : String → String) : Op → Op
  | .withL r => .withL (r.map ρ)
  | .withoutL e => .withoutL (e.map ρ)
  | .add l i => .add (ρ l) i
  | .remove l => .remove (ρ l)

section
variable {ρ : String → String} (hρ : Function.Injective ρ)
include hρ

theorem beq_rename (a b : String) : (ρ a == ρ b) = (a == b) := by
  by_cases h : a = b
  · subst h; rw [beq_self_eq_true, beq_self_eq_true]
  · have : ρ a ≠ ρ b := fun hc => h (hρ hc)
    rw [beq_eq_false_iff_ne.mpr this, beq_eq_false_iff_ne.mpr h]

theorem bne_rename (a b : String) : (ρ a != ρ b) = (a != b) := by
  simp [bne, beq_rename hρ]

theorem lookup_rename (ls : List (String × List Bool)) (l : String) :
    lookup (renameLabels ρ ls) (ρ l) = lookup ls l := by
  induction ls with
  | nil => rfl
  | cons p ps ih =>
    obtain ⟨k, v⟩ := p
    simp only [renameLabels, List.map_cons, lookup, beq_rename hρ]
    split
    · rfl
    · exact ih

omit hρ in
theorem names_rename' {α} (g : LGraph α) : (g.rename ρ).names = g.names.map ρ := by
  simp [LGraph.rename, LGraph.names, renameLabels, Function.comp_def]

theorem dedup_rename (req : List String) : dedup (req.map ρ) = (dedup req).map ρ := by
  induction req with
  | nil => rfl
  | cons x xs ih =>
    simp only [List.map_cons, dedup, ih, List.filter_map, Function.comp_def, bne_rename hρ]

theorem contains_rename (excl : List String) (l : String) : (excl.map ρ).contains (ρ l) = excl.contains l := by
  induction excl with
  | nil => rfl
  | cons x xs ih =>
    simp only [List.map_cons, List.contains_cons, ih]
    rw [beq_rename hρ]

theorem selMask_rename {α} (g : LGraph α) (req : List String) :
    selMask (g.rename ρ) (req.map ρ) = selMask g req := by
  unfold selMask
  have : (req.map ρ).filterMap (lookup (g.rename ρ).labels) = req.filterMap (lookup g.labels) := by
    rw [List.filterMap_map]
    have hf : (lookup (g.rename ρ).labels ∘ ρ) = lookup g.labels := funext fun l => lookup_rename hρ g.labels l
    rw [hf]
  rw [this]
  rfl

theorem restrictLabels_rename {α} (g : LGraph α) (req : List String) (ov : List Bool) :
    restrictLabels (g.rename ρ) (req.map ρ) ov = renameLabels ρ (restrictLabels g req ov) := by
  unfold restrictLabels renameLabels
  rw [dedup_rename hρ, List.map_map, List.map_map]
  apply List.map_congr_left
  intro l _
  simp only [Function.comp_def]
  have := lookup_rename hρ g.labels l
  simp only [LGraph.rename] at this ⊢
  rw [this]

omit hρ in
theorem coveredB_rename (n : Nat) (ls : List (String × List Bool)) :
    coveredB n (renameLabels ρ ls) = coveredB n ls := by
  simp [coveredB, renameLabels, Function.comp_def]

omit hρ in
theorem construct_rename {α} (pts : List α) (es : List (Nat × Nat)) (ls : List (String × List Bool)) :
    construct pts es (renameLabels ρ ls) = (construct pts es ls).map (LGraph.rename ρ) := by
  unfold construct
  rw [coveredB_rename]
  have : (renameLabels ρ ls).isEmpty = ls.isEmpty := by cases ls <;> rfl
  have hany : (renameLabels ρ ls).any (fun p => p.2.length != pts.length) =
      ls.any (fun p => p.2.length != pts.length) := by
    simp [renameLabels, List.any_map, Function.comp_def]
  rw [this, hany]
  split
  · rfl
  · split
    · rfl
    · split
      · rfl
      · rfl

/-- selection commutes with renaming -/
theorem select_rename {α} (g : LGraph α) (req : List String) :
    select (g.rename ρ) (req.map ρ) = (select g req).map (LGraph.rename ρ) := by
  unfold select
  have hany : (req.map ρ).any (fun l => (lookup (g.rename ρ).labels l).isNone) =
      req.any (fun l => (lookup g.labels l).isNone) := by
    rw [List.any_map]
    apply List.any_congr rfl
    intro l
    simp only [Function.comp_def]
    have := lookup_rename hρ g.labels l
    simp only [LGraph.rename] at this ⊢
    rw [this]
  have hemp : (req.map ρ).isEmpty = req.isEmpty := by cases req <;> rfl
  have hp : (g.rename ρ).pts = g.pts := rfl
  have he : (g.rename ρ).edges = g.edges := rfl
  simp only [hany, hemp, selMask_rename hρ, restrictLabels_rename hρ, hp, he]
  split
  · rfl
  · split
    · rfl
    · split
      · rfl
      · exact construct_rename _ _ _

theorem withoutLabels_rename {α} (g : LGraph α) (excl : List String) :
    withoutLabels (g.rename ρ) (excl.map ρ) = (withoutLabels g excl).map (LGraph.rename ρ) := by
  unfold withoutLabels
  have : (g.rename ρ).names.filter (fun l => !(excl.map ρ).contains l) =
      (g.names.filter fun l => !excl.contains l).map ρ := by
    rw [names_rename' g, List.filter_map]
    congr 1
    apply List.filter_congr
    intro l _
    simp only [Function.comp_def, contains_rename hρ]
  rw [this]
  exact select_rename hρ g _

theorem setLabel_rename (ls : List (String × List Bool)) (l : String) (m : List Bool) :
    setLabel (renameLabels ρ ls) (ρ l) m = renameLabels ρ (setLabel ls l m) := by
  induction ls with
  | nil => rfl
  | cons p ps ih =>
    obtain ⟨k, v⟩ := p
    simp only [renameLabels, List.map_cons, setLabel, beq_rename hρ] at ih ⊢
    split
    · rfl
    · simp only [List.map_cons, ih]

theorem addLabel_rename {α} (g : LGraph α) (l : String) (idx : List Int) :
    addLabel (g.rename ρ) (ρ l) idx = (addLabel g l idx).map (LGraph.rename ρ) := by
  unfold addLabel addLabelCoded
  simp only [LGraph.rename]
  cases normAll g.pts.length idx with
  | none => rfl
  | some js =>
    simp only [setLabel_rename hρ, coveredB_rename]
    split
    · rfl
    · rfl

theorem removeLabel_rename {α} (g : LGraph α) (l : String) :
    removeLabel (g.rename ρ) (ρ l) = (removeLabel g l).map (LGraph.rename ρ) := by
  unfold removeLabel
  have hl := lookup_rename hρ g.labels l
  simp only [LGraph.rename] at hl ⊢
  rw [hl]
  cases lookup g.labels l with
  | none => rfl
  | some m =>
    have hf : (renameLabels ρ g.labels).filter (fun p => p.1 != ρ l) =
        renameLabels ρ (g.labels.filter fun p => p.1 != l) := by
      simp only [renameLabels, List.filter_map, Function.comp_def, bne_rename hρ]
    simp only [hf, coveredB_rename]
    split
    · rfl
    · rfl

theorem step_rename {α} (g : LGraph α) (o : Op) :
    step (g.rename ρ) (o.rename ρ) = (step g o).map (LGraph.rename ρ) := by
  cases o with
  | withL r => exact select_rename hρ g r
  | withoutL e => exact withoutLabels_rename hρ g e
  | add l i => exact addLabel_rename hρ g l i
  | remove l => exact removeLabel_rename hρ g l

/-- **output order is a function of insertion order and name equality only**: every sequence of operations
commutes with every injective renaming of the labels.  Nothing an operation returns — which points, which edges,
which labels, *in which order* — can depend on the hash of a label or on how two labels compare, since `ρ` is free
to change both. -/
theorem run_rename {α} (ops : List Op) (g : LGraph α) :
    run step (g.rename ρ) (ops.map (Op.rename ρ)) = (run step g ops).map (LGraph.rename ρ) := by
  induction ops generalizing g with
  | nil => rfl
  | cons o os ih =>
    simp only [List.map_cons, run, step_rename hρ]
    cases step g o with
    | error e => rfl
    | ok g' => exact ih g'

/-- `get_label` commutes with renaming (it returns points and edges only) -/
theorem getLabel_rename {α} (g : LGraph α) (l : String) :
    getLabel (g.rename ρ) (ρ l) = getLabel g l := by
  unfold getLabel
  have hl := lookup_rename hρ g.labels l
  simp only [LGraph.rename] at hl ⊢
  rw [hl]

end

/-- consequence in the form of the property text: the *positions* of the labels in the result of any operation
sequence are the same whatever the labels are called -/
theorem run_order_name_independent {α} {ρ : String → String} (hρ : Function.Injective ρ) (ops : List Op)
    (g g' : LGraph α) (h : run step g ops = .ok g') :
    ∃ g'', run step (g.rename ρ) (ops.map (Op.rename ρ)) = .ok g'' ∧ g''.names = g'.names.map ρ ∧
      g''.pts = g'.pts ∧ g''.edges = g'.edges ∧ g''.labels.map Prod.snd = g'.labels.map Prod.snd := by
  refine ⟨g'.rename ρ, ?_, names_rename' g', rfl, rfl, ?_⟩
  · rw [run_rename hρ, h]; rfl
  · simp [LGraph.rename, renameLabels, Function.comp_def]

/-- the coded `without_labels` does **not** have this property unless its iteration order does: with the reversal
as iteration order it commutes with renaming, but an iteration order that looks at the names (here: put the label
called "a" last, what a hash-ordered `set` may well do) does not -/
theorem withoutLabelsCoded_name_dependent :
    ∃ (order : List String → List String) (ρ : String → String), (∀ l, (order l).Perm l) ∧
      (withoutLabelsCoded order (demo.rename ρ) (["b"].map ρ)).map LGraph.names ≠
      ((withoutLabelsCoded order demo ["b"]).map (LGraph.rename ρ)).map LGraph.names := by
  refine ⟨fun l => l.filter (· != "a") ++ l.filter (· == "a"),
          fun s => if s = "a" then "z" else if s = "z" then "a" else s, ?_, by decide⟩
  intro l
  have := List.filter_append_perm (· != "a") l
  simpa [bne] using this

example : Function.Injective (fun s : String => "x" ++ s) := by
  intro a b h
  simpa using h
example : (run step (demo.rename fun s => "x" ++ s)
    ([Op.add "e" [2, 3], .withoutL ["c"], .remove "b", .withL ["d", "a"]].map (Op.rename fun s => "x" ++ s))).map
    (fun g => (g.pts, g.names)) = .ok ([10, 11, 14], ["xd", "xa"]) := by decide

end MenpoModel.C15
