/-
C20 — Euler's rotation theorem and the 3-D axis/angle clause for EVERY proper rotation matrix.

`Props/C20Real.lean` proves that the coded `_axis_and_angle_of_rotation_3d` recovers `(a, θ)` or `(−a, −θ)` from
Rodrigues' matrix `rodMat a θ`, `θ ∈ (0, π)`.  Here: every `R` with `Rᵀ R = 1`, `det R = 1` IS such a matrix
(`det (R − 1) = 0` gives a fixed vector; in the right-handed frame `a, p, a × p` orthogonality and the determinant force
the 2×2 block to be a plane rotation), so the clause holds for all proper rotations other than the identity and the
half-turns — the property's own quantifier.
-/
import MenpoModel.Props.C20Real
import Mathlib.LinearAlgebra.Matrix.ToLinearEquiv
import Mathlib.LinearAlgebra.Matrix.NonsingularInverse

open Matrix Real
set_option linter.unusedSimpArgs false
namespace MenpoModel.C20
noncomputable section

/-- an orthogonal matrix preserves dot products -/
theorem orth_dot (R : Matrix (Fin 3) (Fin 3) ℝ) (ho : Rᵀ * R = 1) (u v : Fin 3 → ℝ) :
    (R *ᵥ u) ⬝ᵥ (R *ᵥ v) = u ⬝ᵥ v := by
  rw [Matrix.dotProduct_mulVec, ← Matrix.mulVec_transpose, Matrix.mulVec_mulVec, ho, Matrix.one_mulVec]

/-- a proper rotation has a fixed vector: `det (R − 1) = 0` -/
theorem rotation_fixed_vector (R : Matrix (Fin 3) (Fin 3) ℝ) (ho : Rᵀ * R = 1) (hd : R.det = 1) :
    ∃ v : Fin 3 → ℝ, v ≠ 0 ∧ R *ᵥ v = v := by
  have hoo : R * Rᵀ = 1 := mul_eq_one_comm.mp ho
  have h1 : R - 1 = R * (1 - Rᵀ) := by rw [mul_sub, mul_one, hoo]
  have h2 : (1 - Rᵀ) = (-(R - 1))ᵀ := by simp [Matrix.transpose_sub]
  have hdet : (R - 1).det = 0 := by
    have : (R - 1).det = -(R - 1).det := by
      conv_lhs => rw [h1, Matrix.det_mul, hd, one_mul, h2, Matrix.det_transpose, Matrix.det_neg]
      simp; ring
    linarith
  obtain ⟨v, hv, h⟩ := Matrix.exists_mulVec_eq_zero_iff.mpr hdet
  refine ⟨v, hv, ?_⟩
  rw [Matrix.sub_mulVec, Matrix.one_mulVec, sub_eq_zero] at h
  exact h




/-- every real point of the unit circle is `(cos θ, sin θ)` for an angle in `(−π, π]` -/
theorem exists_angle (c s : ℝ) (hR : c * c + s * s = 1) :
    ∃ θ : ℝ, -π < θ ∧ θ ≤ π ∧ c = cos θ ∧ s = sin θ := by
  have hc1 : c ≤ 1 := by nlinarith [mul_self_nonneg s]
  have hc2 : -1 ≤ c := by nlinarith [mul_self_nonneg s]
  have hsq : sqrt (1 - c ^ 2) = |s| := by
    have : 1 - c ^ 2 = s ^ 2 := by ring_nf; ring_nf at hR; linarith
    rw [this, sqrt_sq_eq_abs]
  by_cases hs : 0 ≤ s
  · refine ⟨arccos c, ?_, arccos_le_pi _, (cos_arccos hc2 hc1).symm, ?_⟩
    · linarith [arccos_nonneg c, pi_pos]
    · rw [sin_arccos, hsq, abs_of_nonneg hs]
  · have hs' : s < 0 := not_le.mp hs
    have hcne : c ≠ -1 := by
      intro e; rw [e] at hR; nlinarith
    have hlt : arccos c < π := by
      rcases lt_or_eq_of_le (arccos_le_pi c) with h1 | h1
      · exact h1
      · exfalso; apply hcne
        have := cos_arccos hc2 hc1
        rw [h1, cos_pi] at this; linarith
    refine ⟨-arccos c, by linarith, by linarith [arccos_nonneg c, pi_pos], ?_, ?_⟩
    · rw [cos_neg, cos_arccos hc2 hc1]
    · rw [sin_neg, sin_arccos, hsq, abs_of_neg hs']; ring

/-- a unit vector has a unit vector perpendicular to it -/
theorem exists_unit_perp (a : Fin 3 → ℝ) : ∃ p : Fin 3 → ℝ, p ⬝ᵥ p = 1 ∧ a ⬝ᵥ p = 0 := by
  have key : ∃ w : Fin 3 → ℝ, w ≠ 0 ∧ a ⬝ᵥ w = 0 := by
    by_cases h : a 0 = 0 ∧ a 1 = 0
    · refine ⟨![1, 0, 0], ?_, ?_⟩
      · intro e; have := congrFun e 0; simp at this
      · rw [dot3]; simp [h.1]
    · refine ⟨![-a 1, a 0, 0], ?_, ?_⟩
      · intro e
        have e0 := congrFun e 0
        have e1 := congrFun e 1
        simp at e0 e1
        exact h ⟨e1, e0⟩
      · rw [dot3]; simp; ring
  obtain ⟨w, hw, haw⟩ := key
  obtain ⟨_, hu⟩ := normalise_unit w hw
  exact ⟨_, hu, by rw [dotProduct_smul, haw, smul_zero]⟩

/-- the right-handed orthonormal frame `a, p, a × p` -/
theorem frame_facts (a p : Fin 3 → ℝ) (ha : a ⬝ᵥ a = 1) (hp : p ⬝ᵥ p = 1) (hap : a ⬝ᵥ p = 0) :
    (a ⨯₃ p) ⬝ᵥ (a ⨯₃ p) = 1 ∧ a ⬝ᵥ (a ⨯₃ p) = 0 ∧ p ⬝ᵥ (a ⨯₃ p) = 0 ∧ a ⨯₃ (a ⨯₃ p) = -p := by
  refine ⟨?_, dot_self_cross a p, dot_cross_self a p, ?_⟩
  · rw [cross_dot_cross, ha, hp, hap, dotProduct_comm p a, hap]; ring
  · rw [dot3] at ha hap
    apply vec3_ext <;> simp only [cross_apply, Pi.neg_apply] <;> simp
    · linear_combination (-(p 0)) * ha + a 0 * hap
    · linear_combination (-(p 1)) * ha + a 1 * hap
    · linear_combination (-(p 2)) * ha + a 2 * hap

/-- every vector is the sum of its components along the frame -/
theorem frame_expand (a p : Fin 3 → ℝ) (ha : a ⬝ᵥ a = 1) (hp : p ⬝ᵥ p = 1) (hap : a ⬝ᵥ p = 0) (w : Fin 3 → ℝ) :
    w = (a ⬝ᵥ w) • a + (p ⬝ᵥ w) • p + ((a ⨯₃ p) ⬝ᵥ w) • (a ⨯₃ p) := by
  obtain ⟨hqq, haq, hpq, _⟩ := frame_facts a p ha hp hap
  set q := a ⨯₃ p with hq
  let B : Matrix (Fin 3) (Fin 3) ℝ := Matrix.of ![a, p, q]
  have hBBt : B * Bᵀ = 1 := by
    ext i j
    have e : (B * Bᵀ) i j = B i ⬝ᵥ B j := by simp [Matrix.mul_apply, dotProduct]
    rw [e]
    have hpa : p ⬝ᵥ a = 0 := by rw [dotProduct_comm]; exact hap
    have hqa : q ⬝ᵥ a = 0 := by rw [dotProduct_comm]; exact haq
    have hqp : q ⬝ᵥ p = 0 := by rw [dotProduct_comm]; exact hpq
    fin_cases i <;> fin_cases j <;> simp [B] <;>
      first | exact ha | exact hp | exact hqq | exact hap | exact hpa | exact haq | exact hqa | exact hpq | exact hqp
  have hBtB : Bᵀ * B = 1 := mul_eq_one_comm.mp hBBt
  have h1 : w = Bᵀ *ᵥ (B *ᵥ w) := by rw [Matrix.mulVec_mulVec, hBtB, Matrix.one_mulVec]
  have h2 : B *ᵥ w = ![a ⬝ᵥ w, p ⬝ᵥ w, q ⬝ᵥ w] := by
    ext i; fin_cases i <;> simp [B, Matrix.mulVec]
  conv_lhs => rw [h1, h2]
  apply vec3_ext <;> simp only [Pi.add_apply, Pi.smul_apply, smul_eq_mul] <;>
    simp [B, Matrix.mulVec, dotProduct, Fin.sum_univ_succ] <;> ring


/-- two matrices that agree on the frame agree -/
theorem frame_matrix_ext (a p : Fin 3 → ℝ) (ha : a ⬝ᵥ a = 1) (hp : p ⬝ᵥ p = 1) (hap : a ⬝ᵥ p = 0)
    (A B : Matrix (Fin 3) (Fin 3) ℝ) (h0 : A *ᵥ a = B *ᵥ a) (h1 : A *ᵥ p = B *ᵥ p)
    (h2 : A *ᵥ (a ⨯₃ p) = B *ᵥ (a ⨯₃ p)) : A = B := by
  have hw : ∀ w : Fin 3 → ℝ, A *ᵥ w = B *ᵥ w := by
    intro w
    have e := frame_expand a p ha hp hap w
    rw [e]
    simp only [Matrix.mulVec_add, Matrix.mulVec_smul, h0, h1, h2]
  ext i j
  have := congrFun (hw (Pi.single j 1)) i
  rw [Matrix.mulVec_single_one, Matrix.mulVec_single_one] at this
  exact this

/-- EULER'S ROTATION THEOREM: every proper rotation of ℝ³ (`Rᵀ R = 1`, `det R = 1`) is Rodrigues' rotation about a unit
axis by an angle in `[0, π]`.  So the theorems stated for `rodMat a θ` are theorems about ALL proper rotation matrices. -/
theorem real_euler_rotation (R : Matrix (Fin 3) (Fin 3) ℝ) (ho : Rᵀ * R = 1) (hd : R.det = 1) :
    ∃ (a : Fin 3 → ℝ) (θ : ℝ), a ⬝ᵥ a = 1 ∧ 0 ≤ θ ∧ θ ≤ π ∧ R = rodMat a θ := by
  obtain ⟨v, hv, hRv⟩ := rotation_fixed_vector R ho hd
  obtain ⟨_, ha⟩ := normalise_unit v hv
  set a := (sqrt (v ⬝ᵥ v))⁻¹ • v with ha_def
  have hRa : R *ᵥ a = a := by rw [ha_def, Matrix.mulVec_smul, hRv]
  obtain ⟨p, hp, hap⟩ := exists_unit_perp a
  obtain ⟨hqq, haq, hpq, haaq⟩ := frame_facts a p ha hp hap
  set q := a ⨯₃ p with hq
  have hqp : q ⬝ᵥ p = 0 := by rw [dotProduct_comm]; exact hpq
  have haR : ∀ w, a ⬝ᵥ (R *ᵥ w) = a ⬝ᵥ w := fun w => by
    have := orth_dot R ho a w; rw [hRa] at this; exact this
  set c := p ⬝ᵥ (R *ᵥ p) with hc
  set s := q ⬝ᵥ (R *ᵥ p) with hs
  set m12 := p ⬝ᵥ (R *ᵥ q) with hm12
  set m22 := q ⬝ᵥ (R *ᵥ q) with hm22
  have hRp : R *ᵥ p = c • p + s • q := by
    have := frame_expand a p ha hp hap (R *ᵥ p)
    rw [haR p, hap, zero_smul, zero_add] at this; exact this
  have hRq : R *ᵥ q = m12 • p + m22 • q := by
    have := frame_expand a p ha hp hap (R *ᵥ q)
    rw [haR q, haq, zero_smul, zero_add] at this; exact this
  have h1 : c * c + s * s = 1 := by
    have := orth_dot R ho p p
    rw [hRp, hp] at this
    simp only [add_dotProduct, dotProduct_add, smul_dotProduct, dotProduct_smul, hp, hqq, hpq, hqp, smul_eq_mul] at this
    linarith
  have h2 : c * m12 + s * m22 = 0 := by
    have := orth_dot R ho p q
    rw [hRp, hRq, hpq] at this
    simp only [add_dotProduct, dotProduct_add, smul_dotProduct, dotProduct_smul, hp, hqq, hpq, hqp, smul_eq_mul] at this
    linarith
  -- the determinant: R preserves the triple product of the frame
  have hpq_a : p ⨯₃ q = a := by
    have ha' := ha; have hp' := hp; have hap' := hap
    rw [dot3] at ha' hp' hap'
    apply vec3_ext <;> simp only [hq, cross_apply] <;> simp
    · linear_combination a 0 * hp' - p 0 * hap'
    · linear_combination a 1 * hp' - p 1 * hap'
    · linear_combination a 2 * hp' - p 2 * hap'
  have h4 : c * m22 - s * m12 = 1 := by
    have hU : (Matrix.of ![R *ᵥ a, R *ᵥ p, R *ᵥ q]) = (Matrix.of ![a, p, q]) * Rᵀ := by
      ext i j
      fin_cases i <;> simp [Matrix.mul_apply, Matrix.mulVec, dotProduct, mul_comm]
    have t1 : (R *ᵥ a) ⬝ᵥ ((R *ᵥ p) ⨯₃ (R *ᵥ q)) = a ⬝ᵥ (p ⨯₃ q) := by
      rw [triple_product_eq_det, triple_product_eq_det]
      show Matrix.det (Matrix.of ![R *ᵥ a, R *ᵥ p, R *ᵥ q]) = Matrix.det (Matrix.of ![a, p, q])
      rw [hU, Matrix.det_mul, Matrix.det_transpose, hd, mul_one]
    rw [hRa, hRp, hRq, hpq_a, ha] at t1
    have t2 : a ⬝ᵥ ((c • p + s • q) ⨯₃ (m12 • p + m22 • q)) = (c * m22 - s * m12) * (a ⬝ᵥ (p ⨯₃ q)) := by
      rw [dot3, dot3]
      simp only [cross_apply, Pi.add_apply, Pi.smul_apply, smul_eq_mul]
      simp
      ring
    rw [t2, hpq_a, ha, mul_one] at t1
    exact t1
  have hm22 : m22 = c := by linear_combination (-m22) * h1 + c * h4 + s * h2
  have hm12 : m12 = -s := by linear_combination (-m12) * h1 + c * h2 - s * h4
  obtain ⟨θ, hθ1, hθ2, hcθ, hsθ⟩ := exists_angle c s h1
  have hR : R = rodMat a θ := by
    apply frame_matrix_ext a p ha hp hap
    · rw [hRa, real_rodrigues_axis_fixed a θ ha]
    · rw [hRp, real_rodrigues_mulVec, hap, ← hcθ, ← hsθ, ← hq]; simp
    · rw [← hq, hRq, real_rodrigues_mulVec, haq, haaq, ← hcθ, ← hsθ, hm22, hm12]
      apply vec3_ext <;> simp <;> ring
  by_cases h0 : 0 ≤ θ
  · exact ⟨a, θ, ha, h0, hθ2, hR⟩
  · refine ⟨-a, -θ, by simp [ha], by linarith, by linarith, ?_⟩
    rw [real_rodrigues_neg_axis]; exact hR


/-- THE PROPERTY'S 3-D AXIS/ANGLE CLAUSE FOR EVERY PROPER ROTATION MATRIX other than the identity and the half-turns
(`R ≠ 1`, `R² ≠ 1`): whatever eigenvector for the eigenvalue 1 the eigen-solver returns and whatever random vector not
parallel to it is drawn, the axis and angle `_axis_and_angle_of_rotation_3d` reports reconstruct `R` (sign included),
the axis is a unit vector and `0 < |angle| < π`. -/
theorem real_axis_angle_3d_all_rotations (R : Matrix (Fin 3) (Fin 3) ℝ) (ho : Rᵀ * R = 1) (hd : R.det = 1)
    (hI : R ≠ 1) (hH : R * R ≠ 1) (evec r : Fin 3 → ℝ) (he : evec ≠ 0) (hfix : R *ᵥ evec = evec)
    (hr : evec ⨯₃ r ≠ 0) :
    let res := axisAngle3Coded R evec r
    rodMat res.1 res.2 = R ∧ res.1 ⬝ᵥ res.1 = 1 ∧ 0 < |res.2| ∧ |res.2| < π := by
  obtain ⟨a, θ, ha, h0, hπ, hR⟩ := real_euler_rotation R ho hd
  have h0' : 0 < θ := by
    rcases lt_or_eq_of_le h0 with h | h
    · exact h
    · exfalso; apply hI; rw [hR, ← h, real_rodrigues_zero]
  have hπ' : θ < π := by
    rcases lt_or_eq_of_le hπ with h | h
    · exact h
    · exfalso; apply hH
      rw [hR, ← real_rodrigues_add a θ θ ha, h]
      have := real_rodrigues_periodic a 0 1
      simp only [Int.cast_one, one_mul, zero_add] at this
      rw [show π + π = 2 * π by ring, this, real_rodrigues_zero]
  subst hR
  obtain ⟨r1, r2, r3⟩ := real_axis_angle_3d_coded a evec r θ ha h0' hπ' he hfix hr
  intro res
  refine ⟨r1, r2, ?_⟩
  rcases r3 with ⟨_, e⟩ | ⟨_, e⟩
  · simp only [res, e, abs_of_pos h0']; exact ⟨h0', hπ'⟩
  · simp only [res, e, abs_neg, abs_of_pos h0']; exact ⟨h0', hπ'⟩

/-- non-vacuity: the quarter turn about the z axis is a proper rotation that is neither the identity nor a half-turn -/
example : let R : Matrix (Fin 3) (Fin 3) ℝ := !![0, -1, 0; 1, 0, 0; 0, 0, 1]
    Rᵀ * R = 1 ∧ R.det = 1 ∧ R ≠ 1 ∧ R * R ≠ 1 ∧ R *ᵥ ![0, 0, 1] = ![0, 0, 1] ∧ (![0, 0, 1] : Fin 3 → ℝ) ⨯₃ ![1, 0, 0] ≠ 0 := by
  intro R
  refine ⟨?_, ?_, ?_, ?_, ?_, ?_⟩
  · ext i j; fin_cases i <;> fin_cases j <;> simp [R, Matrix.mul_apply, Fin.sum_univ_succ]
  · simp [R, Matrix.det_fin_three]
  · intro h; have := congrFun (congrFun h 0) 0; simp [R] at this
  · intro h; have := congrFun (congrFun h 0) 0; simp [R, Matrix.mul_apply, Fin.sum_univ_succ] at this; norm_num at this
  · ext i; fin_cases i <;> simp [R, Matrix.mulVec, dotProduct, Fin.sum_univ_succ]
  · intro h; have := congrFun h 1; simp [cross_apply] at this


end
end MenpoModel.C20
