/-
C18, Part I — the IGO / ES pixel facts over an arbitrary linearly ordered field, with the reals as a witness.

Over ℚ the square-root contract of `Props/C18Kernels.lean` (`MagAt`) can hold only at pixels whose squared gradient
magnitude is a rational square.  The facts themselves are field algebra: below they are stated for any linearly ordered
field `K` and any `mag : K → K → K` that is a non-negative square root AT THE PIXEL in question; for `K = ℝ`,
`mag a b = √(a² + b²)` satisfies the hypothesis at EVERY pixel (`realMag_spec`), so the theorems are not vacuous, and
for `K = ℚ` the definitions are literally the Core definitions the driver executes (`unitDir_eq_unitDirK`, `esPix_eq_esPixK`).
-/
import MenpoModel.Core.C18Kernels
import Mathlib.Analysis.Real.Sqrt
import Mathlib.Tactic.Ring
import Mathlib.Tactic.FieldSimp
import Mathlib.Tactic.Linarith
import Mathlib.Tactic.Positivity

namespace MenpoModel.C18

section field
variable {K : Type} [Field K] [LinearOrder K] [IsStrictOrderedRing K]

/-- `(sin φ, cos φ)` for `φ = angle(g_y + i·g_x)` over `K` (same formula as `unitDir`) -/
def unitDirK (mag : K → K → K) (gy gx : K) : K × K :=
  if gy = 0 ∧ gx = 0 then (0, 1) else (gx / mag gy gx, gy / mag gy gx)

/-- one ES pixel over `K` (same formula as `esPix`) -/
def esPixK (den g : K) : Option K := if den = 0 then none else some (g / den)

/-- the square-root contract at one pixel -/
def MagAtK (mag : K → K → K) (a b : K) : Prop := 0 ≤ mag a b ∧ mag a b * mag a b = a * a + b * b

theorem magK_ne_zero (mag : K → K → K) (a b : K) (hc : MagAtK mag a b) (h : ¬ (a = 0 ∧ b = 0)) : mag a b ≠ 0 := by
  intro h0
  have h2 := hc.2
  rw [h0] at h2
  have hz : a * a + b * b = 0 := by linarith
  have ha : a = 0 := by nlinarith [mul_self_nonneg a, mul_self_nonneg b]
  have hb : b = 0 := by nlinarith [mul_self_nonneg a, mul_self_nonneg b]
  exact h ⟨ha, hb⟩

/-- PROPERTY over any ordered field (`cos² + sin² = 1` at the pixel, also where the gradient vanishes) -/
theorem unitDirK_unit (mag : K → K → K) (gy gx : K) (hc : MagAtK mag gy gx) :
    (unitDirK mag gy gx).1 * (unitDirK mag gy gx).1 + (unitDirK mag gy gx).2 * (unitDirK mag gy gx).2 = 1 := by
  unfold unitDirK
  split
  · simp
  · rename_i h
    have hm := magK_ne_zero mag gy gx hc h
    have h2 := hc.2
    simp only []
    field_simp
    linarith

/-- … and for the double-angle channels `sin 2φ = 2 sin φ cos φ`, `cos 2φ = cos²φ − sin²φ` -/
theorem unitDirK_double_unit (mag : K → K → K) (gy gx : K) (hc : MagAtK mag gy gx) :
    (2 * (unitDirK mag gy gx).1 * (unitDirK mag gy gx).2) * (2 * (unitDirK mag gy gx).1 * (unitDirK mag gy gx).2) +
    ((unitDirK mag gy gx).2 * (unitDirK mag gy gx).2 - (unitDirK mag gy gx).1 * (unitDirK mag gy gx).1) *
    ((unitDirK mag gy gx).2 * (unitDirK mag gy gx).2 - (unitDirK mag gy gx).1 * (unitDirK mag gy gx).1) = 1 := by
  have h := unitDirK_unit mag gy gx hc
  set s := (unitDirK mag gy gx).1
  set c := (unitDirK mag gy gx).2
  have : (2 * s * c) * (2 * s * c) + (c * c - s * s) * (c * c - s * s) = (s * s + c * c) * (s * s + c * c) := by ring
  rw [this, h]; ring

/-- PROPERTY over any ordered field (ES in the unit disc wherever a value is produced) -/
theorem esPixK_bounded (mag : K → K → K) (med gy gx : K) (hc : MagAtK mag gy gx) (hmed : 0 ≤ med)
    (hden : mag gy gx + med ≠ 0) :
    ∃ ey ex, esPixK (mag gy gx + med) gy = some ey ∧ esPixK (mag gy gx + med) gx = some ex ∧ ey * ey + ex * ex ≤ 1 := by
  refine ⟨gy / (mag gy gx + med), gx / (mag gy gx + med), by simp [esPixK, hden], by simp [esPixK, hden], ?_⟩
  obtain ⟨h0, h2⟩ := hc
  have hpos : 0 < mag gy gx + med := lt_of_le_of_ne (by linarith) (Ne.symm hden)
  have e : gy / (mag gy gx + med) * (gy / (mag gy gx + med)) + gx / (mag gy gx + med) * (gx / (mag gy gx + med))
      = (mag gy gx * mag gy gx) / ((mag gy gx + med) * (mag gy gx + med)) := by
    rw [h2]; field_simp
  rw [e, div_le_one (by positivity)]
  nlinarith

/-- the only non-finite ES values: `0/0` where both the gradient and the median magnitude vanish -/
theorem esPixK_nan_iff (mag : K → K → K) (med gy gx : K) (hc : MagAtK mag gy gx) (hmed : 0 ≤ med) :
    esPixK (mag gy gx + med) gy = none ↔ (gy = 0 ∧ gx = 0 ∧ med = 0) := by
  obtain ⟨h0, h2⟩ := id hc
  unfold esPixK
  constructor
  · intro h
    split at h
    · rename_i hz
      have hm : mag gy gx = 0 := by linarith
      have hmed0 : med = 0 := by linarith
      by_cases hg : gy = 0 ∧ gx = 0
      · exact ⟨hg.1, hg.2, hmed0⟩
      · exact absurd hm (magK_ne_zero mag gy gx hc hg)
    · cases h
  · rintro ⟨rfl, rfl, rfl⟩
    have : mag 0 0 = 0 := by
      have h3 : mag 0 0 * mag 0 0 = 0 := by simpa using hc.2
      exact mul_self_eq_zero.mp h3
    simp [this]

end field

/-- at `K = ℚ` these are the Core definitions the driver executes -/
theorem unitDir_eq_unitDirK (mag : Rat → Rat → Rat) (gy gx : Rat) : unitDir mag gy gx = unitDirK mag gy gx := rfl
theorem esPix_eq_esPixK (den g : Rat) : esPix den g = esPixK den g := rfl

/-- the magnitude numpy computes, over the reals -/
noncomputable def realMag (a b : ℝ) : ℝ := Real.sqrt (a * a + b * b)

/-- NON-VACUITY: over ℝ the contract holds at EVERY pixel … -/
theorem realMag_spec (a b : ℝ) : MagAtK realMag a b :=
  ⟨Real.sqrt_nonneg _, Real.mul_self_sqrt (add_nonneg (mul_self_nonneg a) (mul_self_nonneg b))⟩

/-- … so IGO's `sin² + cos² = 1` (single and double angles) holds for every real gradient, e.g. the non-Pythagorean
`(1, 1)` that has no rational magnitude -/
theorem igo_unit_real (gy gx : ℝ) :
    (unitDirK realMag gy gx).1 * (unitDirK realMag gy gx).1 + (unitDirK realMag gy gx).2 * (unitDirK realMag gy gx).2 = 1 :=
  unitDirK_unit realMag gy gx (realMag_spec gy gx)

example : (unitDirK realMag 1 1).1 * (unitDirK realMag 1 1).1 + (unitDirK realMag 1 1).2 * (unitDirK realMag 1 1).2 = 1 :=
  igo_unit_real 1 1

end MenpoModel.C18
